package dns

// C07 correspondence harness, upstream-resolver level (stream c07u): the REAL dns.New, the REAL
// UpstreamResolver.GetUpstream (through the REAL Dns.RequestSelect / Dns.ResponseSelect) under SCHEDULES
// FORCED by the harness — against the transition system of lean/DaeVerif/C07/Resolver.lean
// (`ga` / `gr` lines, see lean/DaeVerif/C07/Main.lean).
//
// The two blocking operations of an upstream's lazy initialisation are the control points:
//   * newUpstreamFunc (the package's own seam; bootstrap resolution of the upstream host) and
//   * NewOption.UpstreamReadyCallback (production: ControlPlane.dnsUpstreamReadyCallback, which blocks
//     until the control plane is ready).
// A caller (one goroutine per client question) that enters one of them reports it and waits for the
// harness to let it go on with the outcome the schedule says (ok / fail).  After every move of a caller
// the harness waits until THAT caller is inside a blocking operation again or has finished — all other
// callers are parked, so there is no dependence on timing.  (The 120 s guards only turn a caller that
// neither parks nor returns into a harness failure = exit 2, never into a violation.)
//
// Observed per move: where the caller is (park:build / park:cb) or what its question ended with:
// RequestSelect's route, what upstream2Index says of the upstream it was handed ("from"), ResponseSelect's
// decision for that upstream's answer, and for a re-ask what upstream2Index says of the re-ask upstream.

import (
	"context"
	"encoding/hex"
	"errors"
	"fmt"
	"net"
	"net/netip"
	"net/url"
	"strings"
	"sync"
	"testing"
	"time"

	"github.com/daeuniverse/dae/common/consts"
	"github.com/daeuniverse/dae/common/netutils"
	dnsmessage "github.com/miekg/dns"
)

type c07uTidKey struct{}

type c07uEvent struct {
	tid  int
	kind string // build | cb | done
	res  string
}

type c07uSched struct {
	mu     sync.Mutex
	events chan c07uEvent
	rel    map[int]chan bool
	owner  map[*Upstream]int
}

var (
	errC07uBoot  = errors.New("c07u: bootstrap resolution failed")
	errC07uReady = errors.New("c07u: upstream-ready callback failed")
)

func (s *c07uSched) relOf(tid int) chan bool {
	s.mu.Lock()
	defer s.mu.Unlock()
	ch, ok := s.rel[tid]
	if !ok {
		ch = make(chan bool, 1)
		s.rel[tid] = ch
	}
	return ch
}

// the seam: what newUpstreamFunc is replaced by while a scenario runs
func (s *c07uSched) build(ctx context.Context, raw *url.URL, network string,
	resolve resolveUpstreamIp46Func) (*Upstream, error) {
	tid, _ := ctx.Value(c07uTidKey{}).(int)
	s.events <- c07uEvent{tid: tid, kind: "build"}
	if ok := <-s.relOf(tid); !ok {
		return nil, errC07uBoot
	}
	up, err := NewUpstream(ctx, raw, network, resolve)
	if err == nil {
		s.mu.Lock()
		s.owner[up] = tid
		s.mu.Unlock()
	}
	return up, err
}

func (s *c07uSched) ready(up *Upstream) error {
	s.mu.Lock()
	tid, known := s.owner[up]
	s.mu.Unlock()
	if !known {
		tid = -1
	}
	s.events <- c07uEvent{tid: tid, kind: "cb"}
	if ok := <-s.relOf(tid); !ok {
		return errC07uReady
	}
	return nil
}

type c07uAns struct {
	isResp bool
	qv     string // E echo, U upper-cased echo, N no question section
	recs   []netip.Addr
	other  int // CNAME records in front
}

func (a c07uAns) tok() string {
	fl := "qs"
	if a.isResp {
		fl = "rs"
	}
	var l []string
	for i := 0; i < a.other; i++ {
		l = append(l, "O")
	}
	for _, ip := range a.recs {
		if ip.Is4() {
			b := ip.As4()
			l = append(l, "A:"+hex.EncodeToString(b[:]))
		} else {
			b := ip.As16()
			l = append(l, "AAAA:"+hex.EncodeToString(b[:]))
		}
	}
	rs := "-"
	if len(l) > 0 {
		rs = strings.Join(l, "+")
	}
	return fl + "/" + a.qv + "/" + rs + "/-/-"
}

func (a c07uAns) msg(name string, qt uint16) *dnsmessage.Msg {
	m := new(dnsmessage.Msg)
	m.Response = a.isResp
	switch a.qv {
	case "E":
		m.Question = []dnsmessage.Question{{Name: name, Qtype: qt, Qclass: dnsmessage.ClassINET}}
	case "U":
		m.Question = []dnsmessage.Question{{Name: strings.ToUpper(name), Qtype: qt, Qclass: dnsmessage.ClassINET}}
	}
	for i := 0; i < a.other; i++ {
		m.Answer = append(m.Answer, &dnsmessage.CNAME{Hdr: dnsmessage.RR_Header{Name: "x.", Rrtype: dnsmessage.TypeCNAME,
			Class: dnsmessage.ClassINET, Ttl: 60}, Target: "alias.test."})
	}
	for _, ip := range a.recs {
		if ip.Is4() {
			b := ip.As4()
			m.Answer = append(m.Answer, &dnsmessage.A{Hdr: dnsmessage.RR_Header{Name: "x.", Rrtype: dnsmessage.TypeA,
				Class: dnsmessage.ClassINET, Ttl: 60}, A: net.IP(b[:])})
		} else {
			b := ip.As16()
			m.Answer = append(m.Answer, &dnsmessage.AAAA{Hdr: dnsmessage.RR_Header{Name: "x.", Rrtype: dnsmessage.TypeAAAA,
				Class: dnsmessage.ClassINET, Ttl: 60}, AAAA: net.IP(b[:])})
		}
	}
	return m
}

func c07uFrom(s *Dns, up *Upstream) string {
	v, ok := s.upstream2Index.Load(up)
	if !ok {
		return "asis"
	}
	i, _ := v.(int)
	if i == int(consts.DnsRequestOutboundIndex_AsIs) {
		return "asis"
	}
	return fmt.Sprintf("u%d", i)
}

func c07uErrClass(err error) string {
	switch {
	case errors.Is(err, errC07uBoot), errors.Is(err, errC07uReady), strings.Contains(err.Error(), "failed to init dns upstream"):
		return "upstreaminit"
	case strings.Contains(err.Error(), "bad upstream index"):
		return "badupstream"
	case strings.Contains(err.Error(), "DNS response expected"):
		return "notresponse"
	}
	return "routefail"
}

// one client question: what control.dialSend does around the two selects
func c07uAsk(ctx context.Context, s *Dns, name string, qt uint16, ans c07uAns) string {
	idx, up, err := s.RequestSelect(ctx, name, qt)
	if err != nil {
		return "done req=err:" + c07uErrClass(err) + " from=- resp=- from1=-"
	}
	switch idx {
	case consts.DnsRequestOutboundIndex_Reject:
		return "done req=reject from=- resp=- from1=-"
	}
	req := fmt.Sprintf("u%d", int(idx))
	if idx == consts.DnsRequestOutboundIndex_AsIs {
		req = "asis"
	}
	from := c07uFrom(s, up)
	dec, up2, err := s.ResponseSelect(ctx, ans.msg(name, qt), up)
	if err != nil {
		return fmt.Sprintf("done req=%s from=%s resp=err:%s from1=-", req, from, c07uErrClass(err))
	}
	switch dec {
	case consts.DnsResponseOutboundIndex_Accept:
		return fmt.Sprintf("done req=%s from=%s resp=accept from1=-", req, from)
	case consts.DnsResponseOutboundIndex_Reject:
		return fmt.Sprintf("done req=%s from=%s resp=reject from1=-", req, from)
	}
	return fmt.Sprintf("done req=%s from=%s resp=next:u%d from1=%s", req, from, int(dec), c07uFrom(s, up2))
}

func TestVerifC07Resolver(t *testing.T) {
	r := NewVRand(VSeed() ^ 0x75)
	stats := NewVStats()
	st := VOpenStream("c07u")
	defer st.Close()
	saved := newUpstreamFunc
	defer func() { newUpstreamFunc = saved }()

	nScen := 260
	if VThorough() {
		nScen = 4000
	}
	nScen = VEnvInt("C07_NSCEN", nScen)
	guard := time.Duration(VEnvInt("C07_GUARD_S", 120)) * time.Second

	for sc := 0; sc < nScen; sc++ {
		nUp := []int{1, 1, 2, 2, 3, 4}[r.Intn(6)]
		reqRules := c07GenRules(r, nUp, false, 3, stats)
		respRules := c07GenRules(r, nUp, true, 3, stats)
		// most response lists lead with conditions on the answering upstream
		for i := 0; i < 2; i++ {
			if r.Chance(0.6) {
				rule := c07Rule{out: c07Out(r, nUp, true)}
				k := fmt.Sprintf("u%d", r.Intn(nUp))
				rule.funcs = append(rule.funcs, c07Func{name: "upstream", not: r.Chance(0.2), params: []c07Param{{"", k, k}}})
				if r.Chance(0.3) {
					rule.funcs = append(rule.funcs, c07GenFunc(r, nUp, true, stats))
				}
				respRules = append([]c07Rule{rule}, respRules...)
				stats.Inc("cfg.leading-upstream-condition")
			}
		}
		reqFb := c07Out(r, nUp, false)
		if r.Chance(0.6) {
			reqFb = fmt.Sprintf("u%d", r.Intn(nUp))
		}
		respFb := c07Out(r, nUp, true)
		if c07SetsUpperBound(reqRules) >= consts.MaxMatchSetLen || c07SetsUpperBound(respRules) >= consts.MaxMatchSetLen {
			continue
		}
		text := c07ConfigText(nUp, nil, reqRules, reqFb, respRules, respFb)
		dnsCfg, err := c07ParseConfig(text)
		if err != nil {
			t.Fatalf("generated config does not parse: %v\n%s", err, text)
		}
		sched := &c07uSched{events: make(chan c07uEvent, 64), rel: map[int]chan bool{}, owner: map[*Upstream]int{}}
		newUpstreamFunc = sched.build
		cfgOp := fmt.Sprintf("cfg %d %s %s %s %s", nUp, reqFb, c07RenderOp(reqRules), respFb, c07RenderOp(respRules))
		s, err := New(dnsCfg, &NewOption{
			Logger:                c07Quiet(),
			UpstreamReadyCallback: sched.ready,
			UpstreamHostResolver: func(ctx context.Context, host string, network string) (*netutils.Ip46, error, error) {
				return nil, errC07uBoot, errC07uBoot
			},
		})
		if err != nil {
			st.Emit(cfgOp, "builderr")
			stats.Inc("cfg.builderr")
			continue
		}
		st.Emit(cfgOp, "ok")
		stats.Inc("cfg")
		if sc < 2 {
			stats.Sample(cfgOp)
		}

		state := map[int]string{} // tid → build | cb | done
		await := func(tid int) string {
			select {
			case ev := <-sched.events:
				if ev.tid != tid {
					return fmt.Sprintf("confused: event %s of caller %d while caller %d moves", ev.kind, ev.tid, tid)
				}
				state[tid] = ev.kind
				switch ev.kind {
				case "build":
					return "park:build"
				case "cb":
					return "park:cb"
				}
				return ev.res
			case <-time.After(guard):
				t.Fatalf("C07-RESOLVER-HARNESS: caller %d neither entered a blocking operation nor returned within %v "+
					"(GetUpstream serialises initialisations now? then lean/DaeVerif/C07/Resolver.lean must be re-read)", tid, guard)
			}
			return ""
		}
		parkedTids := func() []int {
			var l []int
			for tid := 1; tid <= len(state); tid++ {
				if state[tid] == "build" || state[tid] == "cb" {
					l = append(l, tid)
				}
			}
			return l
		}
		// a few questions shared by the callers of the scenario, so that callers meet at the same resolver
		names := c07Names(r, reqRules, 3, stats)
		type quest struct {
			name string
			qt   uint16
		}
		var quests []quest
		for _, n := range names {
			quests = append(quests, quest{n, c07Qtype(r, reqRules)})
		}
		nextTid := 1
		start := func(q quest) {
			tid := nextTid
			nextTid++
			ans := c07uAns{isResp: !r.Chance(0.03), qv: "E"}
			switch r.Intn(20) {
			case 0:
				ans.qv = "U"
			case 1:
				ans.qv = "N"
			}
			ans.other = []int{0, 0, 0, 1}[r.Intn(4)]
			ans.recs = c07Ips(r, stats)
			op := fmt.Sprintf("ga %d n:%s %d %s %s", tid, q.name, q.qt, c07Rx(q.name), ans.tok())
			ctx := context.WithValue(context.Background(), c07uTidKey{}, tid)
			state[tid] = "running"
			go func() {
				res := VRecover(func() string { return c07uAsk(ctx, s, q.name, q.qt, ans) })
				sched.events <- c07uEvent{tid: tid, kind: "done", res: res}
			}()
			out := await(tid)
			st.Emit(op, out)
			stats.Inc("op.ga")
			stats.Inc("ga.then." + strings.SplitN(out, " ", 2)[0])
			if sc < 2 {
				stats.Sample(op)
			}
		}
		release := func(tid int, ok bool) {
			oc := "fail"
			if ok {
				oc = "ok"
			}
			op := fmt.Sprintf("gr %d %s", tid, oc)
			at := state[tid]
			state[tid] = "running"
			sched.relOf(tid) <- ok
			out := await(tid)
			st.Emit(op, out)
			stats.Inc("op.gr")
			stats.Inc("gr.at-" + at + "." + oc)
		}

		nOps := r.Range(4, 14)
		directed := r.Intn(4)
		switch directed {
		case 0:
			// the first caller is held inside the ready callback while others ask the same question
			stats.Inc("scenario.directed.second-question-while-first-in-ready-callback")
			start(quests[0])
			if state[1] == "build" {
				release(1, true)
			}
			start(quests[0])
		case 1:
			// the first initialisation fails (bootstrap or ready callback), then the question is asked again
			stats.Inc("scenario.directed.failing-first-init-then-retry")
			start(quests[0])
			if state[1] == "build" {
				if r.Bool() {
					release(1, false)
				} else {
					release(1, true)
					if state[1] == "cb" {
						start(quests[0])
						release(1, false)
					}
				}
			}
			start(quests[0])
		}
		for i := 0; i < nOps; i++ {
			p := parkedTids()
			if len(p) == 0 || (len(p) < 4 && r.Chance(0.4)) {
				q := quests[0]
				if r.Chance(0.4) {
					q = quests[r.Intn(len(quests))]
				}
				start(q)
				continue
			}
			release(p[r.Intn(len(p))], !r.Chance(0.22))
		}
		// let everybody finish
		for {
			p := parkedTids()
			if len(p) == 0 {
				break
			}
			release(p[r.Intn(len(p))], !r.Chance(0.1))
		}
		stats.Add("scenario.callers", nextTid-1)
	}
	stats.Write("c07u")
}
