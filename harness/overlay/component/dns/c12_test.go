package dns

// C12, DNS side: the `ip(...)` sets of DNS *response* routing (component/dns/response_routing.go is one
// of C12's anchors).  Generated response-routing sections — single-condition rules `[!]ip(values…) ->
// accept|reject`, fallback accept — go through the real text parser, config.New, the production
// optimizer chain of the DNS controller, NewResponseMatcherBuilderFromProgram, Build and the real
// ResponseMatcher.Match with 1..3 answer addresses aimed at the boundaries of the rules' prefixes;
// the Lean driver c12drv answers the same `dnsip` lines from the proved containment model.

import (
	"encoding/binary"
	"encoding/hex"
	"fmt"
	"net/netip"
	"strings"
	"testing"

	"github.com/daeuniverse/dae/common/assets"
	"github.com/daeuniverse/dae/common/consts"
	"github.com/daeuniverse/dae/component/routing"
	"github.com/daeuniverse/dae/config"
	"github.com/daeuniverse/dae/pkg/config_parser"
	"github.com/sirupsen/logrus"
)

func c12Tok(p netip.Prefix) string {
	if p.Addr().Is4() {
		b := p.Addr().As4()
		return fmt.Sprintf("4:%s/%d", hex.EncodeToString(b[:]), p.Bits())
	}
	b := p.Addr().As16()
	return fmt.Sprintf("6:%s/%d", hex.EncodeToString(b[:]), p.Bits())
}

// independent oracle: net/netip's own containment, with IPv4 treated as IPv4-mapped.
func c12Contains(p netip.Prefix, a netip.Addr) bool {
	a16 := netip.AddrFrom16(a.As16())
	if p.Addr().Is4() {
		return a16.Is4In6() && p.Contains(a16.Unmap())
	}
	return p.Contains(a16)
}

func c12RandAddr(r *VRand) netip.Addr {
	switch r.Intn(10) {
	case 0:
		return netip.AddrFrom4([4]byte{})
	case 1:
		return netip.AddrFrom16([16]byte{})
	case 2:
		return netip.AddrFrom4([4]byte{255, 255, 255, 255})
	case 3:
		var b [16]byte
		for i := range b {
			b[i] = 0xff
		}
		return netip.AddrFrom16(b)
	case 4, 5, 6:
		var b [4]byte
		binary.BigEndian.PutUint32(b[:], uint32(r.U64()))
		if r.Chance(0.3) { // clustered: few distinct high bytes → overlapping prefixes
			b[0] = byte(10 + r.Intn(2))
			b[1] = byte(r.Intn(3))
		}
		return netip.AddrFrom4(b)
	default:
		var b [16]byte
		binary.BigEndian.PutUint64(b[:8], r.U64())
		binary.BigEndian.PutUint64(b[8:], r.U64())
		switch r.Intn(5) {
		case 0: // IPv4-mapped literal written as IPv6
			copy(b[:12], []byte{0, 0, 0, 0, 0, 0, 0, 0, 0, 0, 0xff, 0xff})
		case 1:
			copy(b[:4], []byte{0x20, 0x01, 0x0d, 0xb8})
			for i := 4; i < 14; i++ {
				b[i] = 0
			}
		}
		return netip.AddrFrom16(b)
	}
}

func c12RandPrefix(r *VRand, stats *VStats) netip.Prefix {
	a := c12RandAddr(r)
	max := a.BitLen()
	var bits int
	switch r.Intn(8) {
	case 0:
		if r.Chance(0.15) { // a /0 makes every probe of its set a hit: keep it rare
			bits = 0
			stats.Inc("prefix.len0")
		} else {
			bits = r.Intn(max + 1)
		}
	case 1:
		bits = max
		stats.Inc("prefix.host")
	case 2:
		bits = 1
	case 3:
		bits = max - 1
	default:
		bits = r.Intn(max + 1)
	}
	p := netip.PrefixFrom(a, bits)
	if r.Chance(0.7) {
		p = p.Masked()
	} else {
		stats.Inc("prefix.unmasked")
	}
	if a.Is4() {
		stats.Inc("prefix.v4")
	} else if a.Is4In6() {
		stats.Inc("prefix.v4in6")
	} else {
		stats.Inc("prefix.v6")
	}
	return p
}

// probes around a prefix: first / last address inside, neighbours just outside, the mapped twin.
func c12Probes(r *VRand, p netip.Prefix) []netip.Addr {
	b := p.Masked().Addr().As16()
	n := p.Bits()
	if p.Addr().Is4() {
		n += 96
	}
	first := b
	last := b
	for i := n; i < 128; i++ {
		last[i/8] |= 1 << (7 - i%8)
	}
	dec := func(x [16]byte) [16]byte {
		for i := 15; i >= 0; i-- {
			x[i]--
			if x[i] != 0xff {
				break
			}
		}
		return x
	}
	inc := func(x [16]byte) [16]byte {
		for i := 15; i >= 0; i-- {
			x[i]++
			if x[i] != 0 {
				break
			}
		}
		return x
	}
	out := []netip.Addr{netip.AddrFrom16(first), netip.AddrFrom16(last), netip.AddrFrom16(dec(first)), netip.AddrFrom16(inc(last))}
	if n > 0 { // flip the last prefix bit: sibling block
		s := first
		s[(n-1)/8] ^= 1 << (7 - (n-1)%8)
		out = append(out, netip.AddrFrom16(s))
	}
	return out
}

type c12DnsRule struct {
	neg    bool
	reject bool
	pfx    []netip.Prefix
}

func c12DnsBuild(text string, optimize bool) (*ResponseMatcher, error) {
	log := logrus.New()
	log.SetLevel(logrus.PanicLevel)
	sections, err := config_parser.Parse(text)
	if err != nil {
		return nil, fmt.Errorf("parse: %w", err)
	}
	conf, err := config.New(sections)
	if err != nil {
		return nil, fmt.Errorf("config: %w", err)
	}
	var opts []routing.RulesOptimizer
	if optimize {
		opts = []routing.RulesOptimizer{
			&routing.DatReaderOptimizer{Logger: log, LocationFinder: assets.NewLocationFinder(nil)},
			&routing.MergeAndSortRulesOptimizer{},
			&routing.DeduplicateParamsOptimizer{},
		}
	}
	prog, err := routing.NewNormalizedProgram(conf.Dns.Routing.Response.Rules, conf.Dns.Routing.Response.Fallback, opts...)
	if err != nil {
		return nil, fmt.Errorf("program: %w", err)
	}
	b, err := NewResponseMatcherBuilderFromProgram(log, prog, map[string]uint8{"u0": 0})
	if err != nil {
		return nil, fmt.Errorf("builder: %w", err)
	}
	return b.Build()
}

func c12DnsText(rules []c12DnsRule) string {
	var sb strings.Builder
	sb.WriteString("global {}\ndns {\n  upstream {\n    u0: 'udp://192.0.2.1:53'\n  }\n  routing {\n    request {\n      fallback: u0\n    }\n    response {\n")
	for _, ru := range rules {
		var vs []string
		for _, p := range ru.pfx {
			t := p.String()
			if p.Bits() == p.Addr().BitLen() && len(t)%2 == 0 {
				t = p.Addr().String() // bare address = host route
			}
			vs = append(vs, "'"+t+"'")
		}
		neg := ""
		if ru.neg {
			neg = "!"
		}
		out := "accept"
		if ru.reject {
			out = "reject"
		}
		fmt.Fprintf(&sb, "      %sip(%s) -> %s\n", neg, strings.Join(vs, ", "), out)
	}
	sb.WriteString("      fallback: accept\n    }\n  }\n}\nrouting { fallback: direct }\n")
	return sb.String()
}

func c12DnsAnswer(m *ResponseMatcher, ips []netip.Addr) string {
	return VRecover(func() string {
		u, err := m.Match("example.com.", 1, ips, 0)
		if err != nil {
			return "err"
		}
		switch u {
		case consts.DnsResponseOutboundIndex_Accept:
			return "accept"
		case consts.DnsResponseOutboundIndex_Reject:
			return "reject"
		}
		return fmt.Sprintf("other:%d", int(u))
	})
}

func TestVerifC12Dns(t *testing.T) {
	r := NewVRand(VSeed())
	stats := NewVStats()
	st := VOpenStream("c12dns")
	defer func() { st.Close(); stats.Write("c12dns") }()
	nProg, nProbe := 120, 40
	if VThorough() {
		nProg, nProbe = 1500, 60
	}
	var prevRules []c12DnsRule
	for pi := 0; pi < nProg; pi++ {
		nr := 1 + r.Intn(6)
		var rules []c12DnsRule
		if prevRules != nil && r.Chance(0.35) {
			// a reload is usually the previous configuration, slightly edited: one prefix of one rule changes
			for _, ru := range prevRules {
				cp := ru
				cp.pfx = append([]netip.Prefix(nil), ru.pfx...)
				rules = append(rules, cp)
			}
			k := r.Intn(len(rules))
			j := r.Intn(len(rules[k].pfx))
			q := rules[k].pfx[j]
			nb := q.Bits() + 1 - 2*r.Intn(2)
			if nb < 1 || nb > q.Addr().BitLen() {
				nb = q.Bits()/2 + 1
			}
			rules[k].pfx[j] = netip.PrefixFrom(q.Addr(), nb)
			nr = 0
			stats.Inc("dns.prog.edited_reload")
		}
		for i := 0; i < nr; i++ {
			ru := c12DnsRule{neg: r.Chance(0.25), reject: r.Bool()}
			if i > 0 && r.Chance(0.3) {
				ru.reject = !rules[i-1].reject // alternate, so that neighbours are not merged away and decisions differ
			}
			np := 1 + r.Intn(4)
			if r.Chance(0.1) {
				np = 6 + r.Intn(10)
			}
			for j := 0; j < np; j++ {
				ru.pfx = append(ru.pfx, c12RandPrefix(r, stats))
			}
			if i > 0 && r.Chance(0.15) { // the same set again (a builder may share storage only for identical sets)
				ru.pfx = append([]netip.Prefix(nil), rules[r.Intn(i)].pfx...)
				if r.Bool() && len(ru.pfx) > 1 {
					ru.pfx[len(ru.pfx)-1] = c12RandPrefix(r, stats) // … or a near twin
					stats.Inc("dns.near_twin_set")
				} else {
					stats.Inc("dns.same_set_again")
				}
			}
			if ru.neg {
				stats.Inc("dns.rule.negated")
			}
			rules = append(rules, ru)
		}
		prevRules = rules
		text := c12DnsText(rules)
		if pi < 2 {
			stats.Sample(text)
		}
		optimize := r.Chance(0.7)
		m, err := c12DnsBuild(text, optimize)
		var progTok []string
		for _, ru := range rules {
			hd := "R"
			if ru.neg {
				hd += "!"
			}
			if ru.reject {
				hd += "r"
			} else {
				hd += "a"
			}
			progTok = append(progTok, hd)
			for _, p := range ru.pfx {
				progTok = append(progTok, c12Tok(p))
			}
		}
		if err != nil {
			// a generated program is well-formed: the model expects it to build
			st.Emit("dnsip - "+strings.Join(progTok, " "), "err:"+err.Error())
			continue
		}
		stats.Inc("dns.prog")
		if optimize {
			stats.Inc("dns.prog.production_optimizers")
		}
		for k := 0; k < nProbe; k++ {
			var ips []netip.Addr
			na := 1 + r.Intn(3)
			if r.Chance(0.6) {
				na = 1
			}
			for a := 0; a < na; a++ {
				ru := rules[r.Intn(len(rules))]
				pr := c12Probes(r, ru.pfx[r.Intn(len(ru.pfx))])
				ip := pr[r.Intn(len(pr))]
				if r.Chance(0.15) {
					ip = c12RandAddr(r)
				}
				if ip.Is4In6() && r.Chance(0.7) {
					ip = ip.Unmap() // answers of A records arrive as 4-byte addresses
				}
				ips = append(ips, ip)
			}
			var at []string
			for _, ip := range ips {
				b := ip.As16()
				at = append(at, hex.EncodeToString(b[:]))
			}
			out := c12DnsAnswer(m, ips)
			stats.Inc("dns.answer." + out)
			st.Emit("dnsip "+strings.Join(at, ",")+" "+strings.Join(progTok, " "), out)
		}
	}
	// the set index of a response rule is 16 bits wide: a program with more ip() sets than it can
	// address must be refused or handled correctly, never matched against another rule's set
	if true {
		var sb strings.Builder
		sb.WriteString("global {}\ndns {\n  upstream {\n    u0: 'udp://192.0.2.1:53'\n  }\n  routing {\n    request {\n      fallback: u0\n    }\n    response {\n")
		sb.WriteString("      ip('1.1.1.1') -> accept\n")
		n := 65536
		for i := 0; i < n; i++ {
			out := "reject"
			if i%2 == 1 {
				out = "accept"
			}
			fmt.Fprintf(&sb, "      ip('10.%d.%d.%d') -> %s\n", 1+i>>16, (i>>8)&255, i&255, out)
		}
		sb.WriteString("      ip('2.2.2.2') -> reject\n      fallback: accept\n    }\n  }\n}\nrouting { fallback: direct }\n")
		m, err := c12DnsBuild(sb.String(), true)
		res := "sound:refused"
		if err == nil {
			res = "sound:" + c12DnsAnswer(m, []netip.Addr{netip.MustParseAddr("2.2.2.2")})
			if res != "sound:reject" {
				res = "WRAPPED: rule 65537 ip(2.2.2.2)->reject answered " + res
			}
		} else if !strings.Contains(err.Error(), "too many") {
			res = "err:" + err.Error()
		}
		if strings.HasPrefix(res, "sound:") {
			res = "sound"
		}
		st.Emit("dnswrap 65538", res)
		stats.Inc("dns.wrap_probe")
	}
	stats.Add("ops", st.N)
}
