package domain_matcher

// C11 correspondence harness, layer 3: the real AhocorasickSlimtrie (AddSet / Build /
// MatchDomainBitmap) against the Lean model (driver c11drv, ops new/add/build/q).  The model answers
// each query three ways (bit-exact succinct trie, trie contract, documented meaning of the pattern
// kinds) and prints one answer only when they agree.  Go's regexp is the regex oracle: the op line
// carries the numbers of the regex patterns that match lower(trimDot(name)).

import (
	"encoding/hex"
	"fmt"
	"io"
	"reflect"
	"regexp"
	"runtime"
	"strconv"
	"strings"
	"sync"
	"testing"

	"github.com/daeuniverse/dae/common/consts"
	"github.com/daeuniverse/dae/pkg/trie"
	"github.com/sirupsen/logrus"
	"github.com/v2rayA/ahocorasick-domain"
)

func c11Hex(s string) string {
	if s == "" {
		return "-"
	}
	return hex.EncodeToString([]byte(s))
}

var c11Tlds = []string{"com", "org", "net", "cn", "io", "co.uk", "com.cn", "xn--p1ai"}
var c11Labels = []string{"example", "google", "goog", "a", "b", "ab", "www", "cdn", "api", "1", "01", "x-y", "_tcp", "mail", "s3", "aa", "aaa", "test", "ample", "xample", "le", "e", "my-site", "a_b", "163", "0", "icbc"}

func c11Label(r *VRand) string {
	if r.Chance(0.75) {
		return c11Labels[r.Intn(len(c11Labels))]
	}
	const al = "abcdefghijklmnopqrstuvwxyz0123456789-_"
	n := r.Range(1, 8)
	b := make([]byte, n)
	for i := range b {
		b[i] = al[r.Intn(len(al))]
	}
	return string(b)
}

func c11Name(r *VRand) string {
	n := r.Intn(3)
	parts := []string{}
	for i := 0; i < n; i++ {
		parts = append(parts, c11Label(r))
	}
	parts = append(parts, c11Label(r), c11Tlds[r.Intn(len(c11Tlds))])
	return strings.Join(parts, ".")
}

// a domain pattern related to the pool: identical, sub-name, parent, label-boundary near miss
func c11DomainPattern(r *VRand, pool []string, stats *VStats) string {
	if len(pool) > 0 && r.Chance(0.4) {
		p := strings.TrimPrefix(pool[r.Intn(len(pool))], ".")
		switch r.Intn(6) {
		case 0:
			stats.Inc("dm.pat.subname_of_other")
			return c11Label(r) + "." + p
		case 1:
			stats.Inc("dm.pat.parent_of_other")
			if i := strings.IndexByte(p, '.'); i >= 0 {
				return p[i+1:]
			}
			return p
		case 2:
			stats.Inc("dm.pat.tail_inside_label")
			if len(p) > 1 {
				return p[1+r.Intn(len(p)-1):]
			}
			return p
		case 3:
			stats.Inc("dm.pat.glued_prefix")
			return c11Label(r) + p
		case 4:
			stats.Inc("dm.pat.duplicate")
			return p
		default:
			stats.Inc("dm.pat.leading_dot_twin")
			return "." + p
		}
	}
	return c11Name(r)
}

func c11Corrupt(r *VRand, p string, stats *VStats) string {
	b := []byte(p + "x")
	bad := []byte{'A', 'Z', '/', '*', ' ', '$', ':', 0xc3, '@', '!'}
	b[r.Intn(len(b))] = bad[r.Intn(len(bad))]
	stats.Inc("dm.pat.invalid_char")
	return string(b[:len(b)-r.Intn(2)])
}

var c11Regexes = []string{`^ad[0-9]+\.`, `\.cn$`, `(^|\.)example\.com$`, `[A-Z]`, `^$`, `goo+gle`, `^[a-z0-9.-]*$`, `_`, `\.\.`, `^www\.`, `xn--`, `^.{1,3}$`, `a.b`, `\.$`,
	// Perl-only syntax (regexp.CompilePOSIX rejects these), flags, classes, lazy quantifiers
	`^ad\d+\.`, `\bwww\b`, `(?i)EXAMPLE`, `(?:a|b)c\.`, `go+?gle`, `^\w+\.\w+$`, `\pL{5,}`, `[[:alpha:]]{6}`, `^\D+$`, `(?s)^.example`, `\Aapi\.`, `\.com\z`,
	// sensitive to the sentinels, to the trailing dot and to the case of what is matched
	`^[^^$]*$`, `\^`, `\$$`, `[^.]$`, `^[^A-Z]*$`, `\.com\.$`}

// names that the regexes above are about
var c11RegexProbes = []string{"ad1.example.com", "ad12345.cdn.net", "adx.example.com", "www.example.com", "wwwx.example.com", "a.www.b",
	"EXAMPLE.org", "my-example.net", "ac.com", "bc.org", "abc.", "gogle.com", "goooogle.cn", "google", "api.test.io", "xapi.test.io",
	"foo.com", "foo.com.", "foo.com..", "foo.comx", "123.456", "a_b.c", "x.example", "xexample", "abcdef.io", "abcde1.io"}

// ---- long names / patterns (length-gated fast paths would only show here) --------------------

func c11LongLabel(r *VRand, n int) string {
	const al = "abcdefghijklmnopqrstuvwxyz0123456789-_"
	b := make([]byte, n)
	for i := range b {
		b[i] = al[r.Intn(len(al))]
	}
	return string(b)
}

// a name of roughly `total` bytes: either few very long labels (up to 63 bytes) or many short ones
func c11LongName(r *VRand, total int) string {
	parts := []string{}
	n := 0
	many := r.Bool()
	for n < total {
		l := r.Range(40, 63)
		if many {
			l = r.Range(1, 6)
		}
		if l > total-n {
			l = total - n
		}
		if l < 1 {
			l = 1
		}
		parts = append(parts, c11LongLabel(r, l))
		n += l + 1
	}
	return strings.Join(parts, ".") + "." + c11Tlds[r.Intn(len(c11Tlds))]
}

func c11MixCase(r *VRand, p string) string {
	b := []byte(p)
	all := r.Chance(0.3)
	for i := range b {
		if b[i] >= 'a' && b[i] <= 'z' && (all || r.Bool()) {
			b[i] -= 32
		}
	}
	return string(b)
}

var c11LongSizes = []int{52, 60, 63, 64, 65, 70, 120, 127, 128, 129, 140, 250, 253, 254, 255, 256, 260, 1000, 4100}

// mostly 52..260 bytes, now and then ~1 000 or ~4 100
func c11LongSize(r *VRand) int {
	if r.Chance(0.02) {
		return c11LongSizes[len(c11LongSizes)-1-r.Intn(2)]
	}
	return c11LongSizes[r.Intn(len(c11LongSizes)-2)]
}

// ---- the answer of the real matcher, raw ------------------------------------------------------

func c11Words(bm []uint32) string {
	if len(bm) == 0 {
		return "-"
	}
	p := make([]string, len(bm))
	for i, w := range bm {
		p[i] = strconv.FormatUint(uint64(w), 16)
	}
	return strings.Join(p, ".")
}

func c11Query(m *AhocorasickSlimtrie, name string) string {
	return VRecover(func() string { return "w=" + c11Words(m.MatchDomainBitmap(name)) })
}

func c11ErrClass(err error) string {
	if err == nil {
		return "ok"
	}
	msg := err.Error()
	switch { // the class is a diagnostic; the check compares only "an error" vs "ok"
	case strings.Contains(msg, "too many"):
		return "err:toomany"
	case strings.Contains(msg, "regex"):
		return "err:regex"
	case strings.Contains(msg, "RoutingDomainKey"):
		return "err:kind"
	case strings.Contains(msg, "out of range"):
		return "err:char"
	}
	return "err:other"
}

func c11FnvStr(s string) uint64 {
	h := uint64(14695981039346656037)
	for i := 0; i < len(s); i++ {
		h ^= uint64(s[i])
		h *= 1099511628211
	}
	return h
}

type c11Sess struct {
	m       *AhocorasickSlimtrie
	regs    []*regexp.Regexp
	pool    []string // full/suffix patterns (for probes)
	kwPool  []string
	allPats []string // every pattern text, in AddSet order (qall)
}

func (ss *c11Sess) add(st *VStream, idx int, kind string, pats []string) {
	toks := make([]string, len(pats))
	for i, p := range pats {
		if kind == "regex" {
			re, err := regexp.Compile(p)
			ok := "1"
			id := len(ss.regs)
			if err != nil {
				ok = "0"
			} else {
				ss.regs = append(ss.regs, re)
			}
			toks[i] = fmt.Sprintf("%s:%s:%d", c11Hex(p), ok, id)
		} else {
			toks[i] = c11Hex(p)
		}
	}
	ss.allPats = append(ss.allPats, pats...)
	// the caller owns the slice it passes (config parsing reuses buffers): hand AddSet a copy and overwrite
	// it afterwards — a matcher that kept the slice instead of its contents would index the junk
	pp := append([]string(nil), pats...)
	res := VRecover(func() string { ss.m.AddSet(idx, pp, consts.RoutingDomainKey(kind)); return "ok" })
	for i := range pp {
		pp[i] = "zz-overwritten-by-the-caller.example"
	}
	st.Emit(strings.TrimRight(fmt.Sprintf("add %d %s %s", idx, kind, strings.Join(toks, " ")), " "), res)
}

func (ss *c11Sess) build(st *VStream, stats *VStats) error {
	// Build fans out into goroutines: a panic there cannot be recovered by the harness and kills the
	// process.  Put the session on disk first so that the check can name the failing input.
	st.ops.Flush()
	st.impl.Flush()
	err := ss.m.Build()
	res := c11ErrClass(err)
	stats.Inc("dm.build." + res)
	st.Emit("build", res)
	if err == nil {
		// the order in which Build's workers committed (white-box, read by reflection; skipped when the fields
		// are gone): the model runs MatchDomainBitmap's loops in this order from here on
		if vt, va, vr, ok := c11IndexLists(ss.m); ok {
			st.Emit(fmt.Sprintf("ix %s %s %s", vt, va, vr), "ok")
			stats.Inc("dm.ix.reported")
			if !c11Ascending(vt) || !c11Ascending(va) {
				stats.Inc("dm.ix.non_ascending_commit_order")
			}
		}
	}
	return err
}

func c11Ascending(l string) bool {
	prev := -1
	if l == "-" {
		return true
	}
	for _, t := range strings.Split(l, ",") {
		v, _ := strconv.Atoi(t)
		if v < prev {
			return false
		}
		prev = v
	}
	return true
}

func c11IndexLists(m *AhocorasickSlimtrie) (vt, va, vr string, ok bool) {
	defer func() {
		if recover() != nil {
			ok = false
		}
	}()
	v := reflect.ValueOf(m).Elem()
	one := func(name string) string {
		f := v.FieldByName(name)
		if !f.IsValid() || f.Kind() != reflect.Slice {
			panic("gone")
		}
		if f.Len() == 0 {
			return "-"
		}
		p := make([]string, f.Len())
		for i := 0; i < f.Len(); i++ {
			e := f.Index(i)
			switch e.Kind() {
			case reflect.Int, reflect.Int8, reflect.Int16, reflect.Int32, reflect.Int64:
				p[i] = strconv.FormatInt(e.Int(), 10)
			case reflect.Uint, reflect.Uint8, reflect.Uint16, reflect.Uint32, reflect.Uint64:
				p[i] = strconv.FormatUint(e.Uint(), 10)
			default:
				panic("kind")
			}
		}
		return strings.Join(p, ",")
	}
	return one("validTrieIndexes"), one("validAcIndexes"), one("validRegexpIndexes"), true
}

func (ss *c11Sess) query(st *VStream, stats *VStats, name string) {
	{ // queried names are ASCII (a pattern with a non-ASCII byte may have seeded the probe)
		b := []byte(name)
		for i := range b {
			if b[i] >= 0x80 {
				b[i] = 'z'
			}
		}
		name = string(b)
	}
	norm := strings.ToLower(strings.TrimSuffix(name, "."))
	hits := []string{}
	for i, re := range ss.regs {
		if re.MatchString(norm) {
			hits = append(hits, strconv.Itoa(i))
		}
	}
	hs := "-"
	if len(hits) > 0 {
		hs = strings.Join(hits, ",")
	}
	out := c11Query(ss.m, name)
	if strings.Trim(out, "w=0.-") != "" {
		stats.Inc("dm.probe.result.some_bit_set")
	} else {
		stats.Inc("dm.probe.result.no_bit")
	}
	if len(name) > stats.C["dm.name.len.max"] {
		stats.C["dm.name.len.max"] = len(name)
	}
	if n := strings.Count(name, ".") + 1; n > stats.C["dm.name.labels.max"] {
		stats.C["dm.name.labels.max"] = n
	}
	switch {
	case len(name) >= 254:
		stats.Inc("dm.name.len.254+")
	case len(name) >= 64:
		stats.Inc("dm.name.len.64-253")
	case len(name) >= 52:
		stats.Inc("dm.name.len.52-63")
	}
	st.Emit(fmt.Sprintf("q %s %s", c11Hex(name), hs), out)
}

func c11Max(stats *VStats, key string, v int) {
	if v > stats.C[key] {
		stats.C[key] = v
	}
}

func c11RunSession(st *VStream, stats *VStats, r *VRand, bitLen int, nsets int, maxPat int, nq int) {
	log := logrus.New()
	log.SetOutput(io.Discard)
	ss := &c11Sess{m: NewAhocorasickSlimtrie(log, bitLen)}
	st.Emit(fmt.Sprintf("new %d", bitLen), "ok")
	if r.Chance(0.03) { // a query before any Build: nothing is indexed yet, all bits are 0
		ss.query(st, stats, "example.com")
		stats.Inc("dm.api.query_before_build")
	}

	usedIdx := []int{}
	for s := 0; s < nsets; s++ {
		var idx int
		switch r.Intn(8) {
		case 0:
			idx = []int{0, 31, 32, 63, bitLen - 1, bitLen / 2}[r.Intn(6)]
		case 1:
			if len(usedIdx) > 0 { // a second AddSet on the same bit (other kind or same kind)
				idx = usedIdx[r.Intn(len(usedIdx))]
				stats.Inc("dm.set.same_index_again")
				break
			}
			fallthrough
		default:
			idx = r.Intn(bitLen + 1)
			if idx == bitLen && bitLen > 0 {
				idx = bitLen - 1
			}
		}
		if idx < 0 {
			idx = 0
		}
		if r.Chance(0.012) {
			idx = bitLen + r.Intn(3) // oversized index: build error, not a panic
			stats.Inc("dm.set.index_out_of_range")
		}
		if r.Chance(0.006) {
			idx = -1 - r.Intn(3) // Go's int index may be negative: same error
			stats.Inc("dm.set.index_negative")
		}
		usedIdx = append(usedIdx, idx)
		kind := []string{"full", "suffix", "suffix", "suffix", "keyword", "regex", "full", "suffix"}[r.Intn(8)]
		if r.Chance(0.006) {
			kind = "bogus"
		}
		var size int
		switch r.Intn(10) {
		case 0, 1, 2:
			size = 1
		case 3, 4, 5, 6:
			size = r.Range(2, 12)
		case 7, 8:
			size = r.Range(13, 200)
		default:
			size = r.Range(maxPat/4, maxPat)
		}
		if r.Chance(0.03) && kind != "bogus" {
			size = 0 // an empty pattern list
			stats.Inc("dm.set.empty_pattern_list")
		}
		if kind == "regex" && size > 6 {
			size = r.Range(1, 6)
		}
		if kind == "keyword" && size > 300 {
			size = 300
		}
		stats.Inc("dm.set.kind." + kind)
		switch {
		case size <= 1:
			stats.Inc("dm.set.size.0-1")
		case size <= 12:
			stats.Inc("dm.set.size.2-12")
		case size <= 200:
			stats.Inc("dm.set.size.13-200")
		default:
			stats.Inc("dm.set.size.201+")
		}
		c11Max(stats, "dm.set.size.max", size)
		pats := make([]string, 0, size)
		for len(pats) < size {
			var p string
			switch kind {
			case "keyword":
				if len(ss.pool) > 0 && r.Chance(0.5) {
					q := ss.pool[r.Intn(len(ss.pool))]
					a := r.Intn(len(q) + 1)
					b := a + r.Intn(len(q)-a+1)
					p = q[a:b]
					if len(p) > 40 {
						p = p[:40]
					}
				} else {
					p = c11Label(r)
				}
				if r.Chance(0.08) { // a keyword longer than a label / spanning labels (64..300 bytes)
					p = c11LongName(r, r.Range(64, 300))
					p = p[r.Intn(8):]
					if len(p) > 300 {
						p = p[:300]
					}
					stats.Inc("dm.pat.keyword_long")
					c11Max(stats, "dm.keyword.len.max", len(p))
				}
				switch r.Intn(14) {
				case 0:
					p = "^" + p
					stats.Inc("dm.pat.keyword_anchored")
				case 1:
					p = p + "$"
					stats.Inc("dm.pat.keyword_anchored")
				case 2:
					p = c11Corrupt(r, p, stats)
				case 3:
					p = ""
					stats.Inc("dm.pat.empty")
				case 4:
					p = "^" + p + "$"
					stats.Inc("dm.pat.keyword_anchored")
				case 5:
					if r.Chance(0.3) {
						p = []string{"^", "$", "^$", "a^b", "$a", "^^a", "a$$"}[r.Intn(7)]
						stats.Inc("dm.pat.keyword_marker_oddity")
					}
				}
				if r.Chance(0.08) {
					p = c11MixCase(r, p)
					stats.Inc("dm.pat.upper_case")
				}
				ss.kwPool = append(ss.kwPool, p)
			case "regex":
				p = c11Regexes[r.Intn(len(c11Regexes))]
				if r.Chance(0.02) {
					p = "(" // does not compile: AddSet records an error, Build fails
					stats.Inc("dm.pat.regex_invalid")
				}
			default:
				p = c11DomainPattern(r, ss.pool, stats)
				switch r.Intn(40) {
				case 0, 1:
					p = c11Corrupt(r, p, stats)
				case 2:
					p = ""
					stats.Inc("dm.pat.empty")
				case 3:
					p = p + "^" + c11Label(r) // '^' is inside the trie alphabet
					stats.Inc("dm.pat.contains_hat")
				case 4:
					p = "." + p
					stats.Inc("dm.pat.leading_dot")
				case 5:
					p = p + "."
					stats.Inc("dm.pat.trailing_dot")
				case 6, 7:
					p = c11LongName(r, c11LongSizes[r.Intn(len(c11LongSizes)-2)]) // long pattern (up to ~260 bytes)
					stats.Inc("dm.pat.long")
				case 8, 9, 10: // written with upper-case letters: means the same as its lower-case form
					p = c11MixCase(r, p)
					stats.Inc("dm.pat.upper_case")
				}
				if kind == "suffix" && strings.HasPrefix(p, ".") {
					stats.Inc("dm.pat.suffix_with_leading_dot")
				}
				c11Max(stats, "dm.pat.len.max", len(p))
				ss.pool = append(ss.pool, p)
			}
			pats = append(pats, p)
		}
		ss.add(st, idx, kind, pats)
	}
	stats.Add("dm.patterns.total", len(ss.pool)+len(ss.kwPool))

	err := ss.build(st, stats)
	if err != nil {
		// nothing was indexed: every answer is all zeros; a further AddSet is ignored, Build fails again
		ss.query(st, stats, "example.com")
		if r.Bool() {
			ss.add(st, 0, "bogus", []string{"x"}) // a second error of another class: the first one stays
			stats.Inc("dm.api.second_error")
		}
		ss.build(st, stats)
		ss.query(st, stats, "www.example.com.")
		return
	}

	for q := 0; q < nq; q++ {
		var name string
		src := ""
		if len(ss.pool) > 0 && r.Chance(0.8) {
			src = ss.pool[r.Intn(len(ss.pool))]
		} else if len(ss.kwPool) > 0 && r.Chance(0.5) {
			src = c11Label(r) + ss.kwPool[r.Intn(len(ss.kwPool))] + c11Label(r) + ".com"
		} else {
			src = c11Name(r)
		}
		bare := strings.TrimPrefix(src, ".")
		switch r.Intn(19) {
		case 0, 1:
			name = src
			stats.Inc("dm.probe.exact_pattern_text")
		case 2, 3:
			name = c11Label(r) + "." + bare
			stats.Inc("dm.probe.subname")
		case 4:
			name = c11Label(r) + "." + c11Label(r) + "." + bare
			stats.Inc("dm.probe.deep_subname")
		case 5:
			name = c11Label(r) + bare // glued: no label boundary
			stats.Inc("dm.probe.glued_prefix")
		case 6:
			if len(bare) > 1 {
				name = bare[1:]
			}
			stats.Inc("dm.probe.first_char_dropped")
		case 7:
			if i := strings.IndexByte(bare, '.'); i >= 0 {
				name = bare[i+1:]
				stats.Inc("dm.probe.parent")
			} else {
				name = bare + ".com"
			}
		case 8:
			name = strings.Replace(bare, ".", "-", 1)
			stats.Inc("dm.probe.dot_replaced")
		case 9:
			name = bare + "." + c11Tlds[r.Intn(len(c11Tlds))] // pattern as a prefix, not a suffix
			stats.Inc("dm.probe.pattern_as_prefix")
		case 10:
			b := []byte(bare)
			if len(b) > 0 {
				i := r.Intn(len(b))
				b[i] = "abcxyz019-_."[r.Intn(12)]
			}
			name = string(b)
			stats.Inc("dm.probe.one_char_changed")
		case 11:
			name = bare
			stats.Inc("dm.probe.bare_pattern")
		case 12:
			name = c11Name(r)
			stats.Inc("dm.probe.random_name")
		case 13:
			name = []string{"", ".", "..", "a", "com", "a.", ".a"}[r.Intn(7)]
			stats.Inc("dm.probe.degenerate")
		case 14: // a long sub-name of the pattern: many labels or 63-byte labels in front
			if r.Bool() {
				name = c11LongName(r, c11LongSize(r)) + "." + bare
				stats.Inc("dm.probe.long_subname")
			} else {
				name = c11Label(r) + "." + bare
				stats.Inc("dm.probe.subname")
			}
		case 15: // a long glued prefix (no label boundary)
			name = c11LongLabel(r, c11LongSize(r)) + bare
			stats.Inc("dm.probe.long_glued")
		case 16:
			if len(ss.regs) > 0 {
				name = c11RegexProbes[r.Intn(len(c11RegexProbes))]
				stats.Inc("dm.probe.regex_derived")
			} else {
				name = c11Label(r) + "." + bare
				stats.Inc("dm.probe.subname")
			}
		default:
			name = c11Label(r) + "." + bare
			stats.Inc("dm.probe.subname")
		}
		switch r.Intn(8) {
		case 0:
			name = strings.ToUpper(name)
			stats.Inc("dm.probe.case.upper")
		case 1:
			b := []byte(name)
			for i := range b {
				if r.Bool() && b[i] >= 'a' && b[i] <= 'z' {
					b[i] -= 32
				}
			}
			name = string(b)
			stats.Inc("dm.probe.case.mixed")
		}
		switch r.Intn(10) {
		case 0, 1:
			name += "."
			stats.Inc("dm.probe.trailing_dot")
		case 2:
			if r.Chance(0.3) {
				name += ".."
				stats.Inc("dm.probe.two_trailing_dots")
			}
		}
		if r.Chance(0.02) { // outside the property's alphabet: diagnostic only
			b := []byte(name + "x")
			b[r.Intn(len(b))] = []byte{'^', '$', '/', ' ', '*', '@'}[r.Intn(6)]
			name = string(b)
			stats.Inc("dm.probe.outside_alphabet")
		}
		ss.query(st, stats, name)
		if q < 2 {
			stats.Sample(fmt.Sprintf("q %s   # name=%s", c11Hex(name), strconv.Quote(name)))
		}
	}

	// API misuse that dae itself never performs (observations, modelled so that they are not alarms):
	switch r.Intn(25) {
	case 0: // a second Build: the trie / keyword index lists are reset, only regex sets keep answering
		ss.build(st, stats)
		for i := 0; i < 6 && len(ss.pool) > 0; i++ {
			ss.query(st, stats, strings.TrimPrefix(ss.pool[r.Intn(len(ss.pool))], "."))
		}
		stats.Inc("dm.api.second_build")
	case 1: // AddSet after Build: the tables are gone, the call is an oversize error; queries unchanged
		ss.add(st, 0, "full", []string{"late.example.com"})
		ss.query(st, stats, "late.example.com")
		ss.build(st, stats)
		stats.Inc("dm.api.addset_after_build")
	}
}

// one deterministic large session: `nSuffix` suffix patterns + `nFull` full patterns (with duplicates and
// with the same name under both kinds, so that common.Deduplicate has work), then EVERY pattern text is
// queried (op qall) and a sample is queried the normal way.
func c11BigSession(st *VStream, stats *VStats, r *VRand, nSuffix, nFull int) {
	log := logrus.New()
	log.SetOutput(io.Discard)
	ss := &c11Sess{m: NewAhocorasickSlimtrie(log, 64)}
	st.Emit("new 64", "ok")
	gen := func(n int) []string {
		out := make([]string, 0, n)
		for len(out) < n {
			var p string
			switch {
			case len(out) > 10 && r.Chance(0.05):
				p = out[r.Intn(len(out))] // duplicate
			case len(out) > 10 && r.Chance(0.25):
				p = c11Label(r) + "." + strings.TrimPrefix(out[r.Intn(len(out))], ".") // sub-name of another
			case r.Chance(0.03):
				p = "." + c11Name(r)
			default:
				p = c11Label(r) + strconv.Itoa(r.Intn(100000)) + "." + c11Name(r)
			}
			out = append(out, p)
		}
		return out
	}
	suf := gen(nSuffix)
	ss.pool = append(ss.pool, suf...)
	ss.add(st, 5, "suffix", suf)
	if nFull > 0 {
		full := gen(nFull)
		copy(full[:nFull/10], suf[:nFull/10]) // the same names under both kinds: identical `^d$` keys
		ss.pool = append(ss.pool, full...)
		ss.add(st, 5, "full", full[:nFull/2])
		ss.add(st, 37, "full", full[nFull/2:])
	}
	ss.add(st, 63, "keyword", []string{"zzqq", "^ad", ".gov$"})
	c11Max(stats, "dm.set.size.max", nSuffix)
	{ // nodes of the suffix set's trie = distinct suffixes of "."+p and "^"+p (64-bit hashes)
		seen := map[uint64]struct{}{}
		for _, p := range suf {
			heads := []byte{'.', '^'}
			if strings.HasPrefix(p, ".") {
				heads = []byte{0}
			}
			for _, hd := range heads {
				q := p
				if hd != 0 {
					q = string(hd) + p
				}
				h := uint64(14695981039346656037)
				for i := len(q) - 1; i >= 0; i-- {
					h = (h ^ uint64(q[i])) * 1099511628211
					seen[h] = struct{}{}
				}
			}
		}
		c11Max(stats, "dm.trie.nodes.max", len(seen)+1)
	}
	stats.Inc("dm.session.big")
	if ss.build(st, stats) != nil {
		return
	}
	// every pattern as a name
	outs := make([]string, len(ss.allPats))
	hit := 0
	for i, p := range ss.allPats {
		o := strings.TrimPrefix(c11Query(ss.m, p), "w=")
		outs[i] = o
		if strings.Trim(o, "0.-") != "" {
			hit++
		}
	}
	st.Emit("qall", fmt.Sprintf("n=%d hit=%d h=%x", len(outs), hit, c11FnvStr(strings.Join(outs, " "))))
	// names of every length class, whatever the seed
	for _, n := range c11LongSizes {
		p := strings.TrimPrefix(ss.pool[r.Intn(len(ss.pool))], ".")
		ss.query(st, stats, c11LongName(r, n)+"."+p)
		ss.query(st, stats, c11LongLabel(r, n)+p)
	}
	stats.Add("dm.probe.qall", len(outs))
	for q := 0; q < 300; q++ {
		p := strings.TrimPrefix(ss.pool[r.Intn(len(ss.pool))], ".")
		switch r.Intn(5) {
		case 0:
			ss.query(st, stats, p)
		case 1:
			ss.query(st, stats, c11Label(r)+"."+p)
		case 2:
			ss.query(st, stats, c11Label(r)+p)
		case 3:
			if len(p) > 1 {
				ss.query(st, stats, p[1:])
			}
		default:
			ss.query(st, stats, strings.ToUpper(p)+".")
		}
	}
}

// the whole table in use: bitLen sets of all four kinds, each queried with a name only it matches
func c11FullTableSession(st *VStream, stats *VStats, r *VRand, bitLen int) {
	log := logrus.New()
	log.SetOutput(io.Discard)
	ss := &c11Sess{m: NewAhocorasickSlimtrie(log, bitLen)}
	st.Emit(fmt.Sprintf("new %d", bitLen), "ok")
	names := make([]string, bitLen)
	for i := 0; i < bitLen; i++ {
		kind := []string{"full", "suffix", "keyword", "regex", "suffix"}[i%5]
		pats := []string{}
		switch kind {
		case "keyword":
			pats = append(pats, fmt.Sprintf("kq%dx%dz", i, i*7))
			names[i] = "a" + pats[0] + "b.net"
		case "regex":
			pats = append(pats, fmt.Sprintf(`^rr%d-%d\.`, i, i*3))
			names[i] = fmt.Sprintf("rr%d-%d.org", i, i*3)
		default:
			pats = append(pats, fmt.Sprintf("t%d-%s", i, c11Name(r)))
			names[i] = pats[0]
			if kind == "suffix" && i%2 == 0 {
				names[i] = "www." + pats[0]
			}
		}
		if r.Bool() && kind != "regex" {
			pats = append(pats, c11Name(r))
		}
		ss.add(st, i, kind, pats)
	}
	stats.Inc("dm.session.full_table")
	c11Max(stats, "dm.sets.max", bitLen)
	if ss.build(st, stats) != nil {
		return
	}
	for i := 0; i < bitLen; i++ {
		ss.query(st, stats, names[i])
	}
	for i := 0; i < 40; i++ {
		ss.query(st, stats, c11Name(r))
	}
}

// a failing AddSet at every position of a short history, every error class: the first error wins, later
// calls (valid or not) are ignored, Build reports it, nothing is indexed
func c11ErrorAtEveryStep(st *VStream, stats *VStats, r *VRand) {
	log := logrus.New()
	log.SetOutput(io.Discard)
	for _, bitLen := range []int{1, 32, 64, 1024} {
		for class := 0; class < 4; class++ {
			const steps = 4
			for at := 0; at < steps; at++ {
				ss := &c11Sess{m: NewAhocorasickSlimtrie(log, bitLen)}
				st.Emit(fmt.Sprintf("new %d", bitLen), "ok")
				for k := 0; k < steps; k++ {
					idx := (k * 7) % bitLen
					if k != at {
						kind := []string{"suffix", "full", "keyword", "regex"}[(k+class)%4]
						pat := c11Name(r)
						if kind == "regex" {
							pat = c11Regexes[r.Intn(len(c11Regexes))]
						}
						ss.add(st, idx, kind, []string{pat, "example.com"})
						continue
					}
					switch class {
					case 0:
						ss.add(st, bitLen, "suffix", []string{"example.com"}) // exactly one past the table
					case 1:
						ss.add(st, -1, "full", []string{"example.com"})
					case 2:
						ss.add(st, idx, "regex", []string{`\.cn$`, "(", `^a`})
					default:
						ss.add(st, idx, "bogus", []string{"example.com"})
					}
				}
				ss.build(st, stats)
				ss.query(st, stats, "www.example.com")
				stats.Inc("dm.err_at_step.sessions")
			}
		}
	}
}

// the last valid index and the first invalid one, for every table size; the whole last word in use
func c11BoundaryIndexSessions(st *VStream, stats *VStats, r *VRand) {
	log := logrus.New()
	log.SetOutput(io.Discard)
	for _, bitLen := range []int{1, 3, 31, 32, 33, 63, 64, 65, 96, 1000, 1023, 1024} {
		ss := &c11Sess{m: NewAhocorasickSlimtrie(log, bitLen)}
		st.Emit(fmt.Sprintf("new %d", bitLen), "ok")
		names := []string{}
		for _, idx := range []int{bitLen - 1, 0, bitLen - 1 - (bitLen-1)%32, (bitLen - 1) / 2} {
			if idx < 0 {
				continue
			}
			p := fmt.Sprintf("b%d-%d.%s", bitLen, idx, c11Name(r))
			ss.add(st, idx, []string{"suffix", "full", "keyword"}[idx%3], []string{p})
			names = append(names, p)
		}
		if ss.build(st, stats) == nil {
			for _, nm := range names {
				ss.query(st, stats, nm)
				ss.query(st, stats, "x."+nm)
			}
		}
		stats.Inc("dm.boundary_index.sessions")
		// the same with one call addressed to index == table size
		ss = &c11Sess{m: NewAhocorasickSlimtrie(log, bitLen)}
		st.Emit(fmt.Sprintf("new %d", bitLen), "ok")
		ss.add(st, bitLen-1, "suffix", []string{"a.example.com"})
		ss.add(st, bitLen, "suffix", []string{"b.example.com"})
		ss.build(st, stats)
		ss.query(st, stats, "a.example.com")
		stats.Inc("dm.boundary_index.one_past")
	}
}

// one bit index fed by several kinds (a set with suffix AND keyword AND regex patterns), next to sets that match
// by one kind only, placed before and after it: every combination of "which phase of MatchDomainBitmap fires"
func c11MixedKindSets(st *VStream, stats *VStats, r *VRand) {
	log := logrus.New()
	log.SetOutput(io.Discard)
	for round := 0; round < 6; round++ {
		bitLen := []int{64, 1024, 33}[round%3]
		ss := &c11Sess{m: NewAhocorasickSlimtrie(log, bitLen)}
		st.Emit(fmt.Sprintf("new %d", bitLen), "ok")
		base := c11Name(r)
		mixed := []int{1, bitLen / 2, bitLen - 2}[round%3]
		lo, hi := mixed-1, mixed+1
		// the mixed set: all three kinds on one bit
		ss.add(st, mixed, "suffix", []string{"s." + base})
		ss.add(st, mixed, "keyword", []string{"kwmix"})
		ss.add(st, mixed, "regex", []string{`^rxmix\d+\.`})
		ss.add(st, mixed, "full", []string{"full." + base})
		// single-kind sets around it (their list positions relative to the mixed set differ per list)
		ss.add(st, lo, "keyword", []string{"kwlo"})
		ss.add(st, hi, "keyword", []string{"kwhi"})
		ss.add(st, lo, "regex", []string{`^rxlo\.`})
		ss.add(st, hi, "regex", []string{`^rxhi\.`})
		ss.add(st, hi, "suffix", []string{"hi." + base})
		if ss.build(st, stats) != nil {
			continue
		}
		for _, nm := range []string{
			"s." + base, "a.s." + base, "full." + base, "x.full." + base, "kwmix.net", "rxmix12.org",
			"kwmix.s." + base, "rxmix1.s." + base, "rxmix1.kwmix.s." + base, "rxmix7.kwmix.org",
			"kwlo.s." + base, "kwhi.s." + base, "kwlo.kwhi.kwmix.org", "rxlo.kwhi.s." + base, "rxhi.kwlo.org",
			"rxlo.kwmix.org", "rxhi.s." + base, "kwlo.hi." + base, "rxmix3.kwlo.hi." + base, "rxlo.hi." + base,
			"kwhi.org", "rxhi.org", "rxlo.org", "kwlo.org", "hi." + base, "nothing.example",
		} {
			ss.query(st, stats, nm)
			stats.Inc("dm.mixed_kind.queries")
		}
		stats.Inc("dm.mixed_kind.sessions")
	}
}

func c11ValidSet(f func(byte) bool) string {
	b := []byte{}
	for c := 0; c < 256; c++ {
		if f(byte(c)) {
			b = append(b, byte(c))
		}
	}
	return hex.EncodeToString(b)
}

// the Aho-Corasick library driven directly: overlapping keywords at scale
func c11AcCases(st *VStream, stats *VStats, r *VRand, cases, maxKw int) {
	const al = "abcdefghijklmnopqrstuvwxyz-.^$1234567890_"
	for n := 0; n < cases; n++ {
		nk := r.Range(1, 30)
		if n%5 == 0 {
			nk = r.Range(maxKw/2, maxKw)
		}
		if n == 0 {
			nk = maxKw // the scale the evidence claims must not depend on the seed
		}
		small := al[:r.Range(2, 6)] // small alphabet: many overlaps / shared prefixes / suffixes of one another
		kws := make([]string, 0, nk)
		for len(kws) < nk {
			var k string
			if len(kws) > 0 && r.Chance(0.5) {
				b := kws[r.Intn(len(kws))]
				switch r.Intn(3) {
				case 0:
					k = b[r.Intn(len(b)+1):]
				case 1:
					k = b[:r.Intn(len(b)+1)]
				default:
					k = b + string(small[r.Intn(len(small))])
				}
			} else {
				l := r.Range(1, 9)
				bb := make([]byte, l)
				for i := range bb {
					if r.Chance(0.8) {
						bb[i] = small[r.Intn(len(small))]
					} else {
						bb[i] = al[r.Intn(len(al))]
					}
				}
				k = string(bb)
			}
			if k == "" && r.Chance(0.8) {
				continue
			}
			kws = append(kws, k)
		}
		if r.Chance(0.03) {
			kws[r.Intn(len(kws))] += "A" // outside the library's alphabet: NewMatcher errors
		}
		ins := make([]string, 0, 60)
		for len(ins) < 60 {
			l := r.Range(0, 14)
			bb := make([]byte, l)
			for i := range bb {
				bb[i] = small[r.Intn(len(small))]
			}
			in := string(bb)
			if r.Chance(0.3) {
				in = in + kws[r.Intn(len(kws))] + in
			}
			if r.Chance(0.05) {
				in += "/B" // read as 'a' by the library's table
			}
			ins = append(ins, in)
		}
		kb := make([][]byte, len(kws))
		kh := make([]string, len(kws))
		for i, k := range kws {
			kb[i] = []byte(k)
			kh[i] = c11Hex(k)
		}
		ih := make([]string, len(ins))
		for i, in := range ins {
			ih[i] = c11Hex(in)
		}
		out := VRecover(func() string {
			mm, err := ahocorasick.NewMatcher(kb)
			if err != nil {
				return "err"
			}
			var sb strings.Builder
			sb.WriteString("r=")
			for _, in := range ins {
				if mm.Contains([]byte(in)) {
					sb.WriteByte('1')
				} else {
					sb.WriteByte('0')
				}
			}
			return sb.String()
		})
		st.Emit(fmt.Sprintf("ac %s %s", strings.Join(kh, ","), strings.Join(ih, ",")), out)
		stats.Inc("ac.cases")
		c11Max(stats, "ac.keywords.max", len(kws))
	}
}

func TestVerifC11Matcher(t *testing.T) {
	r := NewVRand(VSeed() + 7)
	stats := NewVStats()
	st := VOpenStream("c11dm")
	defer st.Close()

	// the real tables the model hard-codes
	// (Size() == number of valid bytes  <=>  the table was built from a duplicate-free byte list, which is
	// what makes the model's first-occurrence code and Go's last-write code the same function)
	st.Emit("alpha d", fmt.Sprintf("valid=%s | n=%d order=-", c11ValidSet(ValidDomainChars.IsValidChar), ValidDomainChars.Size()))
	st.Emit("alpha c", fmt.Sprintf("valid=%s | n=%d order=-", c11ValidSet(trie.ValidCidrChars.IsValidChar), trie.ValidCidrChars.Size()))
	st.Emit("alpha ac", fmt.Sprintf("valid=%s | n=%d order=-", c11ValidSet(ahocorasick.IsValidChar), len(c11ValidSet(ahocorasick.IsValidChar))/2))

	sessions, maxPat, nq := 100, 2000, 100
	if VThorough() {
		sessions, maxPat, nq = 300, 3000, 200
	}
	for s := 0; s < sessions; s++ {
		bitLen := 1024
		switch r.Intn(10) {
		case 0:
			bitLen = []int{1, 3, 31, 32, 33, 64, 65, 96, 1000}[r.Intn(9)]
		case 1:
			bitLen = 64
		}
		if r.Chance(0.01) {
			bitLen = 0
			stats.Inc("dm.table.size0")
		}
		nsets := r.Range(1, 6)
		if r.Chance(0.2) {
			nsets = r.Range(7, 40)
		}
		mp := 40
		if s%12 == 0 {
			mp = maxPat // a large set now and then
		}
		if bitLen == 0 {
			// every AddSet is an oversize error
			log := logrus.New()
			log.SetOutput(io.Discard)
			ss := &c11Sess{m: NewAhocorasickSlimtrie(log, 0)}
			st.Emit("new 0", "ok")
			if r.Bool() {
				ss.add(st, 0, "full", []string{"a.com"})
			}
			ss.build(st, stats)
			ss.query(st, stats, "a.com")
			continue
		}
		c11RunSession(st, stats, r, bitLen, nsets, mp, nq)
	}
	c11ErrorAtEveryStep(st, stats, r)
	c11BoundaryIndexSessions(st, stats, r)
	c11MixedKindSets(st, stats, r)
	c11FullTableSession(st, stats, r, 1024)
	// geosite scale, deterministically
	if VThorough() {
		c11BigSession(st, stats, r, 100000, 20000) // ~2*10^5 trie keys in one set
		c11BigSession(st, stats, r, 50000, 10000)
	} else {
		c11BigSession(st, stats, r, 10000, 2000)
	}
	if VThorough() {
		c11AcCases(st, stats, r, 300, 10000)
	} else {
		c11AcCases(st, stats, r, 25, 1500)
	}
	stats.Write("c11dm")
}

// ---- concurrency (built with -race): concurrent queries must equal the sequential answers, and
// Build's goroutine fan-out must not lose a set ------------------------------------------------

func TestVerifC11Concurrent(t *testing.T) {
	r := NewVRand(VSeed() + 23)
	stats := NewVStats()
	st := VOpenStream("c11cc")
	defer st.Close()
	sessions := 24
	if VThorough() {
		sessions = 120
	}
	for s := 0; s < sessions; s++ {
		log := logrus.New()
		log.SetOutput(io.Discard)
		m := NewAhocorasickSlimtrie(log, 1024)
		// Build sizes its worker pool by GOMAXPROCS (min(GOMAXPROCS, 4)): run the sessions under several values
		restoreProcs := func() {}
		if procs := []int{0, 1, 2, 3, 16}[s%5]; procs > 0 {
			old := runtime.GOMAXPROCS(procs)
			restoreProcs = func() { runtime.GOMAXPROCS(old) }
			stats.Inc(fmt.Sprintf("cc.gomaxprocs.%d", procs))
		} else {
			stats.Inc("cc.gomaxprocs.default")
		}
		type call struct {
			idx  int
			pats []string
			kind string
		}
		calls := []call{}
		nsets := r.Range(24, 60) // many small sets: Build's workers finish close together
		if s%8 == 3 {
			nsets = 1024 // the whole 1 024-entry table in use
		}
		fresh := s%2 == 1 // the 8 goroutines issue the FIRST queries of this matcher (lazily initialised state)
		type own struct {
			idx  int
			name string
		}
		owns := []own{}
		desc := []string{}
		used := map[int]bool{}
		for i := 0; i < nsets; i++ {
			idx := r.Intn(1024)
			if nsets == 1024 {
				idx = i
			}
			if used[idx] {
				continue
			}
			used[idx] = true
			kind := []string{"full", "suffix", "keyword", "regex"}[r.Intn(4)]
			base := fmt.Sprintf("s%d-%d.%s", s, i, c11Name(r))
			pat := base
			switch kind {
			case "keyword":
				pat = fmt.Sprintf("kw%dx%dq", s, i)
				base = "a" + pat + "b.com"
			case "regex":
				pat = fmt.Sprintf(`^rx%d-%d\.`, s, i)
				base = fmt.Sprintf("rx%d-%d.com", s, i)
			}
			extra := []string{}
			for k := r.Intn(4); k > 0; k-- {
				if kind == "full" || kind == "suffix" {
					extra = append(extra, c11Name(r))
				}
			}
			m.AddSet(idx, append([]string{pat}, extra...), consts.RoutingDomainKey(kind))
			calls = append(calls, call{idx, append([]string{pat}, extra...), kind})
			owns = append(owns, own{idx, base})
			desc = append(desc, fmt.Sprintf("%d:%s:%s", idx, kind, c11Hex(pat)))
		}
		st.ops.Flush()
		st.impl.Flush()
		res := "same"
		if err := m.Build(); err != nil {
			res = "builderr:" + err.Error()
		}
		names := []string{}
		for _, o := range owns {
			names = append(names, o.name)
		}
		for i := 0; i < 40; i++ {
			names = append(names, c11Name(r), c11LongName(r, 70)+"."+owns[r.Intn(len(owns))].name)
		}
		seq := make([]string, len(names))
		conc := make([][]string, 8)
		sequential := func() {
			// every set must answer for its own pattern (a lost index-list append would silence one)
			for _, o := range owns {
				bm := m.MatchDomainBitmap(o.name)
				if res == "same" && bm[o.idx/32]&(1<<(uint(o.idx)%32)) == 0 {
					res = fmt.Sprintf("lost-set:%d", o.idx)
				}
			}
			for i, nm := range names {
				seq[i] = c11Words(m.MatchDomainBitmap(nm))
			}
		}
		if !fresh {
			sequential()
		} else {
			stats.Inc("cc.sessions.first_queries_concurrent")
		}
		c11Max(stats, "cc.sets.max", len(owns))
		var wg sync.WaitGroup
		var mu sync.Mutex
		reps := 3 * len(names)
		if reps > 600 {
			reps = 600
		}
		for g := 0; g < 8; g++ {
			wg.Add(1)
			rr := r.Fork()
			g := g
			go func() {
				defer wg.Done()
				got := make([]string, 0, 2*reps)
				for k := 0; k < reps; k++ {
					i := rr.Intn(len(names))
					got = append(got, strconv.Itoa(i), c11Words(m.MatchDomainBitmap(names[i])))
				}
				conc[g] = got
			}()
		}
		// a reload: the next generation's matcher (same configuration) is filled and built while the current one
		// is being queried; afterwards it must answer like the current one
		var m2 *AhocorasickSlimtrie
		overlap := s%3 == 0
		if overlap {
			m2 = NewAhocorasickSlimtrie(log, 1024)
			for _, c := range calls {
				m2.AddSet(c.idx, c.pats, consts.RoutingDomainKey(c.kind))
			}
			if err := m2.Build(); err != nil && res == "same" {
				res = "builderr2:" + err.Error()
			}
			stats.Inc("cc.generation_overlap")
		}
		wg.Wait()
		if fresh {
			sequential() // the reference answers, computed after the race
		}
		if overlap && res == "same" {
			for i, nm := range names {
				if got := c11Words(m2.MatchDomainBitmap(nm)); got != seq[i] {
					res = fmt.Sprintf("next-generation-differs:%s:cur=%s:next=%s", c11Hex(nm), seq[i], got)
					break
				}
			}
		}
		for g := range conc {
			for k := 0; k+1 < len(conc[g]); k += 2 {
				i, _ := strconv.Atoi(conc[g][k])
				if conc[g][k+1] != seq[i] {
					mu.Lock()
					if res == "same" {
						res = fmt.Sprintf("concurrent-differs:%s:seq=%s:conc=%s", c11Hex(names[i]), seq[i], conc[g][k+1])
					}
					mu.Unlock()
				}
			}
		}
		stats.Add("cc.queries", 8*reps)
		stats.Inc("cc.sessions")
		stats.Add("cc.sets", len(owns))
		st.Emit("cc "+strings.Join(desc, " "), res)
		restoreProcs()
	}
	// with one P, Build's worker semaphore serialises its goroutines: an unsynchronised append there
	// is then invisible to the detector
	stats.C["cc.gomaxprocs"] = runtime.GOMAXPROCS(0)
	stats.Write("c11cc")
}
