package domain_matcher

// C11 correspondence harness, layer 3: the real AhocorasickSlimtrie (AddSet / Build /
// MatchDomainBitmap) against the Lean model (driver c11drv, ops new/add/build/q).  The model answers
// each query three ways (bit-exact succinct trie, trie contract, documented meaning of the pattern
// kinds) and prints one answer only when they agree.  Go's regexp is the regex oracle: the op line
// carries the numbers of the regex patterns that match lower(trimDot(name)).

import (
	"encoding/hex"
	"fmt"
	"io"
	"regexp"
	"strconv"
	"strings"
	"testing"

	"github.com/daeuniverse/dae/common/consts"
	"github.com/sirupsen/logrus"
)

func c11Hex(s string) string {
	if s == "" {
		return "-"
	}
	return hex.EncodeToString([]byte(s))
}

var c11Tlds = []string{"com", "org", "net", "cn", "io", "co.uk", "com.cn", "xn--p1ai"}
var c11Labels = []string{"example", "google", "goog", "a", "b", "ab", "www", "cdn", "api", "1", "01", "x-y", "_tcp", "mail", "s3", "aa", "aaa", "test", "ample", "xample", "le", "e", "my-site", "a_b", "163", "0", "icbc"}

func c11Label(r *VRand) string {
	if r.Chance(0.75) {
		return c11Labels[r.Intn(len(c11Labels))]
	}
	const al = "abcdefghijklmnopqrstuvwxyz0123456789-_"
	n := r.Range(1, 8)
	b := make([]byte, n)
	for i := range b {
		b[i] = al[r.Intn(len(al))]
	}
	return string(b)
}

func c11Name(r *VRand) string {
	n := r.Intn(3)
	parts := []string{}
	for i := 0; i < n; i++ {
		parts = append(parts, c11Label(r))
	}
	parts = append(parts, c11Label(r), c11Tlds[r.Intn(len(c11Tlds))])
	return strings.Join(parts, ".")
}

// a domain pattern related to the pool: identical, sub-name, parent, label-boundary near miss
func c11DomainPattern(r *VRand, pool []string, stats *VStats) string {
	if len(pool) > 0 && r.Chance(0.4) {
		p := strings.TrimPrefix(pool[r.Intn(len(pool))], ".")
		switch r.Intn(6) {
		case 0:
			stats.Inc("dm.pat.subname_of_other")
			return c11Label(r) + "." + p
		case 1:
			stats.Inc("dm.pat.parent_of_other")
			if i := strings.IndexByte(p, '.'); i >= 0 {
				return p[i+1:]
			}
			return p
		case 2:
			stats.Inc("dm.pat.tail_inside_label")
			if len(p) > 1 {
				return p[1+r.Intn(len(p)-1):]
			}
			return p
		case 3:
			stats.Inc("dm.pat.glued_prefix")
			return c11Label(r) + p
		case 4:
			stats.Inc("dm.pat.duplicate")
			return p
		default:
			stats.Inc("dm.pat.leading_dot_twin")
			return "." + p
		}
	}
	return c11Name(r)
}

func c11Corrupt(r *VRand, p string, stats *VStats) string {
	b := []byte(p + "x")
	bad := []byte{'A', 'Z', '/', '*', ' ', '$', ':', 0xc3, '@', '!'}
	b[r.Intn(len(b))] = bad[r.Intn(len(bad))]
	stats.Inc("dm.pat.invalid_char")
	return string(b[:len(b)-r.Intn(2)])
}

var c11Regexes = []string{`^ad[0-9]+\.`, `\.cn$`, `(^|\.)example\.com$`, `[A-Z]`, `^$`, `goo+gle`, `^[a-z0-9.-]*$`, `_`, `\.\.`, `^www\.`, `xn--`, `^.{1,3}$`, `a.b`, `\.$`}

type c11Set struct {
	idx  int
	kind string
}

func c11RunSession(st *VStream, stats *VStats, r *VRand, bitLen int, nsets int, maxPat int, nq int) {
	log := logrus.New()
	log.SetOutput(io.Discard)
	m := NewAhocorasickSlimtrie(log, bitLen)
	st.Emit(fmt.Sprintf("new %d", bitLen), "ok")

	var pool []string     // full/suffix patterns (for probes)
	var kwPool []string   // keyword patterns
	var regs []*regexp.Regexp
	usedIdx := []int{}
	for s := 0; s < nsets; s++ {
		var idx int
		switch r.Intn(8) {
		case 0:
			idx = []int{0, 31, 32, 63, bitLen - 1, bitLen / 2}[r.Intn(6)]
		case 1:
			if len(usedIdx) > 0 { // a second AddSet on the same bit (other kind or same kind)
				idx = usedIdx[r.Intn(len(usedIdx))]
				stats.Inc("dm.set.same_index_again")
				break
			}
			fallthrough
		default:
			idx = r.Intn(bitLen)
		}
		if idx < 0 {
			idx = 0
		}
		if r.Chance(0.01) {
			idx = bitLen + r.Intn(3) // oversized index: build error, not a panic
			stats.Inc("dm.set.index_out_of_range")
		}
		usedIdx = append(usedIdx, idx)
		kind := []string{"full", "suffix", "suffix", "suffix", "keyword", "regex", "full", "suffix"}[r.Intn(8)]
		if r.Chance(0.005) {
			kind = "bogus"
		}
		var size int
		switch r.Intn(10) {
		case 0, 1, 2:
			size = 1
		case 3, 4, 5, 6:
			size = r.Range(2, 12)
		case 7, 8:
			size = r.Range(13, 200)
		default:
			size = r.Range(maxPat/4, maxPat)
		}
		if kind == "regex" && size > 6 {
			size = r.Range(1, 6)
		}
		if kind == "keyword" && size > 300 {
			size = 300
		}
		stats.Inc("dm.set.kind." + kind)
		switch {
		case size == 1:
			stats.Inc("dm.set.size.1")
		case size <= 12:
			stats.Inc("dm.set.size.2-12")
		case size <= 200:
			stats.Inc("dm.set.size.13-200")
		default:
			stats.Inc("dm.set.size.big")
		}
		pats := make([]string, 0, size)
		toks := make([]string, 0, size)
		for len(pats) < size {
			var p string
			switch kind {
			case "keyword":
				if len(pool) > 0 && r.Chance(0.5) {
					q := pool[r.Intn(len(pool))]
					a := r.Intn(len(q) + 1)
					b := a + r.Intn(len(q)-a+1)
					p = q[a:b]
				} else {
					p = c11Label(r)
				}
				switch r.Intn(14) {
				case 0:
					p = "^" + p
					stats.Inc("dm.pat.keyword_anchored")
				case 1:
					p = p + "$"
					stats.Inc("dm.pat.keyword_anchored")
				case 2:
					p = c11Corrupt(r, p, stats)
				case 3:
					p = ""
					stats.Inc("dm.pat.empty")
				}
				kwPool = append(kwPool, p)
				toks = append(toks, c11Hex(p))
			case "regex":
				p = c11Regexes[r.Intn(len(c11Regexes))]
				if r.Chance(0.02) {
					p = "(" // does not compile: AddSet records an error, Build fails
					stats.Inc("dm.pat.regex_invalid")
				}
				re, err := regexp.Compile(p)
				ok := "1"
				id := len(regs)
				if err != nil {
					ok = "0"
				} else {
					regs = append(regs, re)
				}
				toks = append(toks, fmt.Sprintf("%s:%s:%d", c11Hex(p), ok, id))
			default:
				p = c11DomainPattern(r, pool, stats)
				switch r.Intn(40) {
				case 0, 1:
					p = c11Corrupt(r, p, stats)
				case 2:
					p = ""
					stats.Inc("dm.pat.empty")
				case 3:
					p = p + "^" + c11Label(r) // '^' is inside the trie alphabet
					stats.Inc("dm.pat.contains_hat")
				case 4:
					p = "." + p
					stats.Inc("dm.pat.leading_dot")
				case 5:
					p = p + "."
					stats.Inc("dm.pat.trailing_dot")
				}
				if kind == "suffix" && strings.HasPrefix(p, ".") {
					stats.Inc("dm.pat.suffix_with_leading_dot")
				}
				pool = append(pool, p)
				toks = append(toks, c11Hex(p))
			}
			pats = append(pats, p)
		}
		m.AddSet(idx, pats, consts.RoutingDomainKey(kind))
		st.Emit(fmt.Sprintf("add %d %s %s", idx, kind, strings.Join(toks, " ")), "ok")
	}
	stats.Add("dm.patterns.total", len(pool)+len(kwPool))

	// Build fans out into goroutines: a panic there cannot be recovered by the harness and kills the
	// process.  Put the session on disk first so that the check can name the failing input.
	st.ops.Flush()
	st.impl.Flush()
	err := m.Build()
	res := "ok"
	if err != nil {
		msg := err.Error()
		switch {
		case strings.HasPrefix(msg, "too many routing rules"):
			res = "err:toomany"
		case strings.HasPrefix(msg, "failed to compile regex"):
			res = "err:regex"
		case strings.HasPrefix(msg, "unknown RoutingDomainKey"):
			res = "err:kind"
		case strings.HasPrefix(msg, "char out of range"):
			res = "err:char"
		default:
			res = "err:" + msg
		}
		stats.Inc("dm.build." + res)
	} else {
		stats.Inc("dm.build.ok")
	}
	st.Emit("build", res)
	if err != nil {
		st.Emit("q "+c11Hex("example.com")+" -", "nobuild")
		return
	}

	for q := 0; q < nq; q++ {
		var name string
		src := ""
		if len(pool) > 0 && r.Chance(0.8) {
			src = pool[r.Intn(len(pool))]
		} else if len(kwPool) > 0 && r.Chance(0.5) {
			src = c11Label(r) + kwPool[r.Intn(len(kwPool))] + c11Label(r) + ".com"
		} else {
			src = c11Name(r)
		}
		bare := strings.TrimPrefix(src, ".")
		switch r.Intn(16) {
		case 0, 1:
			name = src
			stats.Inc("dm.probe.exact_pattern_text")
		case 2, 3:
			name = c11Label(r) + "." + bare
			stats.Inc("dm.probe.subname")
		case 4:
			name = c11Label(r) + "." + c11Label(r) + "." + bare
			stats.Inc("dm.probe.deep_subname")
		case 5:
			name = c11Label(r) + bare // glued: no label boundary
			stats.Inc("dm.probe.glued_prefix")
		case 6:
			if len(bare) > 1 {
				name = bare[1:]
			}
			stats.Inc("dm.probe.first_char_dropped")
		case 7:
			if i := strings.IndexByte(bare, '.'); i >= 0 {
				name = bare[i+1:]
				stats.Inc("dm.probe.parent")
			} else {
				name = bare + ".com"
			}
		case 8:
			name = strings.Replace(bare, ".", "-", 1)
			stats.Inc("dm.probe.dot_replaced")
		case 9:
			name = bare + "." + c11Tlds[r.Intn(len(c11Tlds))] // pattern as a prefix, not a suffix
			stats.Inc("dm.probe.pattern_as_prefix")
		case 10:
			b := []byte(bare)
			if len(b) > 0 {
				i := r.Intn(len(b))
				b[i] = "abcxyz019-_."[r.Intn(12)]
			}
			name = string(b)
			stats.Inc("dm.probe.one_char_changed")
		case 11:
			name = bare
			stats.Inc("dm.probe.bare_pattern")
		case 12:
			name = c11Name(r)
			stats.Inc("dm.probe.random_name")
		case 13:
			name = []string{"", ".", "..", "a", "com", "a.", ".a"}[r.Intn(7)]
			stats.Inc("dm.probe.degenerate")
		default:
			name = c11Label(r) + "." + bare
			stats.Inc("dm.probe.subname")
		}
		switch r.Intn(8) {
		case 0:
			name = strings.ToUpper(name)
			stats.Inc("dm.probe.case.upper")
		case 1:
			b := []byte(name)
			for i := range b {
				if r.Bool() && b[i] >= 'a' && b[i] <= 'z' {
					b[i] -= 32
				}
			}
			name = string(b)
			stats.Inc("dm.probe.case.mixed")
		}
		switch r.Intn(10) {
		case 0, 1:
			name += "."
			stats.Inc("dm.probe.trailing_dot")
		case 2:
			if r.Chance(0.3) {
				name += ".."
				stats.Inc("dm.probe.two_trailing_dots")
			}
		}
		if r.Chance(0.02) { // outside the property's alphabet: compared with the model of the code only
			b := []byte(name + "x")
			b[r.Intn(len(b))] = []byte{'^', '$', '/', ' ', '*', '@'}[r.Intn(6)]
			name = string(b)
			stats.Inc("dm.probe.outside_alphabet")
		}
		{ // queried names are ASCII (a pattern with a non-ASCII byte may have seeded the probe)
			b := []byte(name)
			for i := range b {
				if b[i] >= 0x80 {
					b[i] = 'z'
				}
			}
			name = string(b)
		}
		norm := strings.ToLower(strings.TrimSuffix(name, "."))
		hits := []string{}
		for i, re := range regs {
			if re.MatchString(norm) {
				hits = append(hits, strconv.Itoa(i))
			}
		}
		hs := "-"
		if len(hits) > 0 {
			hs = strings.Join(hits, ",")
		}
		op := fmt.Sprintf("q %s %s", c11Hex(name), hs)
		out := VRecover(func() string {
			bm := m.MatchDomainBitmap(name)
			idxs := []string{}
			for i := 0; i < len(bm)*32; i++ {
				if bm[i/32]&(1<<(uint(i)%32)) != 0 {
					idxs = append(idxs, strconv.Itoa(i))
				}
			}
			if len(idxs) == 0 {
				return "m=-"
			}
			return "m=" + strings.Join(idxs, ",")
		})
		if out != "m=-" {
			stats.Inc("dm.probe.result.some_bit_set")
		} else {
			stats.Inc("dm.probe.result.no_bit")
		}
		st.Emit(op, out)
		if q < 2 {
			stats.Sample(op + "   # name=" + strconv.Quote(name))
		}
	}
}

func TestVerifC11Matcher(t *testing.T) {
	r := NewVRand(VSeed() + 7)
	stats := NewVStats()
	st := VOpenStream("c11dm")
	defer st.Close()
	sessions, maxPat, nq := 150, 2000, 120
	if VThorough() {
		sessions, maxPat, nq = 840, 3000, 260
	}
	for s := 0; s < sessions; s++ {
		bitLen := 1024
		switch r.Intn(10) {
		case 0:
			bitLen = []int{1, 3, 32, 33, 64, 65}[r.Intn(6)]
		case 1:
			bitLen = 64
		}
		nsets := r.Range(1, 6)
		if r.Chance(0.2) {
			nsets = r.Range(7, 40)
		}
		mp := 40
		if s%12 == 0 {
			mp = maxPat // a large set now and then
		}
		if VThorough() && s%280 == 5 {
			mp = 50000 // geosite scale (three sessions)
			stats.Inc("dm.session.geosite_scale")
		}
		c11RunSession(st, stats, r, bitLen, nsets, mp, nq)
	}
	stats.Write("c11dm")
}
