package sniffing

// C06 — independent encoders used by the correspondence harness.  Written from the RFCs
// (TLS 1.3 RFC 8446 §4.1.2, SNI RFC 6066 §3, QUIC RFC 9000 §16/§17.2/§19, QUIC-TLS RFC 9001 §5,
// QUIC v2 RFC 9369), NOT from the sniffer: only the Go standard library is used.

import (
	"crypto/aes"
	"crypto/cipher"
	"crypto/hkdf"
	"crypto/sha256"
	"encoding/binary"
)

// ---------------------------------------------------------------- TLS ClientHello

type c06Ext struct {
	Typ  uint16
	Data []byte
}

type c06SniEntry struct {
	Typ  byte
	Name []byte
}

type c06Hello struct {
	Minor      byte // legacy_version minor byte (0x03 for TLS 1.2/1.3)
	Random     []byte
	Sid        []byte
	Suites     []byte
	Comp       []byte
	Exts       []c06Ext
	NoExtBlock bool
}

func c06U16(n int) []byte { return []byte{byte(n >> 8), byte(n)} }

// server_name extension_data: ServerNameList
func c06SniData(entries []c06SniEntry) []byte {
	var list []byte
	for _, e := range entries {
		list = append(list, e.Typ)
		list = append(list, c06U16(len(e.Name))...)
		list = append(list, e.Name...)
	}
	return append(c06U16(len(list)), list...)
}

func c06EncodeExts(exts []c06Ext) []byte {
	var b []byte
	for _, e := range exts {
		b = append(b, c06U16(int(e.Typ))...)
		b = append(b, c06U16(len(e.Data))...)
		b = append(b, e.Data...)
	}
	return b
}

// ClientHello body (without the 4-byte handshake header).
func (h *c06Hello) Body() []byte {
	b := []byte{3, h.Minor}
	b = append(b, h.Random...)
	b = append(b, byte(len(h.Sid)))
	b = append(b, h.Sid...)
	b = append(b, c06U16(len(h.Suites))...)
	b = append(b, h.Suites...)
	b = append(b, byte(len(h.Comp)))
	b = append(b, h.Comp...)
	if !h.NoExtBlock {
		e := c06EncodeExts(h.Exts)
		b = append(b, c06U16(len(e))...)
		b = append(b, e...)
	}
	return b
}

// Handshake message: msg_type client_hello(1), uint24 length, body.
func (h *c06Hello) Handshake() []byte {
	body := h.Body()
	return append([]byte{1, byte(len(body) >> 16), byte(len(body) >> 8), byte(len(body))}, body...)
}

// TLSPlaintext record: handshake(22), legacy_record_version 3.x, uint16 length, fragment.
func c06Record(fragment []byte, recMinor byte) []byte {
	return append([]byte{22, 3, recMinor, byte(len(fragment) >> 8), byte(len(fragment))}, fragment...)
}

// ---------------------------------------------------------------- QUIC

const (
	c06QuicV1 = 0x00000001
	c06QuicV2 = 0x6b3343cf
)

// RFC 9000 §16 variable-length integer in exactly `size` bytes (1,2,4,8); size 0 = minimal.
func c06Varint(v uint64, size int) []byte {
	if size == 0 {
		switch {
		case v < 1<<6:
			size = 1
		case v < 1<<14:
			size = 2
		case v < 1<<30:
			size = 4
		default:
			size = 8
		}
	}
	b := make([]byte, size)
	for i := size - 1; i >= 0; i-- {
		b[i] = byte(v)
		v >>= 8
	}
	switch size {
	case 2:
		b[0] |= 0x40
	case 4:
		b[0] |= 0x80
	case 8:
		b[0] |= 0xc0
	}
	return b
}

func c06ExpandLabel(secret []byte, label string, n int) []byte {
	full := "tls13 " + label
	info := []byte{byte(n >> 8), byte(n), byte(len(full))}
	info = append(info, full...)
	info = append(info, 0)
	out, err := hkdf.Expand(sha256.New, secret, string(info), n)
	if err != nil {
		panic(err)
	}
	return out
}

// RFC 9001 §5.2 / RFC 9369 §3.3: client Initial keys.
func c06QuicClientKeys(version uint32, dcid []byte) (key, iv, hp []byte) {
	var salt []byte
	pfx := "quic "
	if version == c06QuicV2 {
		salt = []byte{0x0d, 0xed, 0xe3, 0xde, 0xf7, 0x00, 0xa6, 0xdb, 0x81, 0x93, 0x81, 0xbe, 0x6e, 0x26, 0x9d, 0xcb, 0xf9, 0xbd, 0x2e, 0xd9}
		pfx = "quicv2 "
	} else {
		salt = []byte{0x38, 0x76, 0x2c, 0xf7, 0xf5, 0x59, 0x34, 0xb3, 0x4d, 0x17, 0x9a, 0xe6, 0xa4, 0xc8, 0x0c, 0xad, 0xcc, 0xbb, 0x7f, 0x0a}
	}
	initial, err := hkdf.Extract(sha256.New, dcid, salt)
	if err != nil {
		panic(err)
	}
	client := c06ExpandLabel(initial, "client in", 32)
	return c06ExpandLabel(client, pfx+"key", 16), c06ExpandLabel(client, pfx+"iv", 12), c06ExpandLabel(client, pfx+"hp", 16)
}

type c06QuicPacket struct {
	Version   uint32
	TypeBits  byte // long packet type bits as they appear on the wire (v1 Initial = 0, v2 Initial = 1)
	Reserved  byte // 2 reserved bits (must be 0; protected)
	Dcid      []byte
	Scid      []byte
	Token     []byte
	TokLenSz  int // varint size for the token length (0 = minimal)
	LenSz     int // varint size for the Length field (0 = minimal, at least 2 is what clients use)
	Pn        uint32
	PnLen     int // 1..4
	Payload   []byte // plaintext frames
	KeyDcid   []byte // DCID the keys are derived from (nil = Dcid); differs for corrupt packets
	PnOffset  int    // filled by Seal: offset of the packet number
	TotalLen  int    // filled by Seal
}

// Seal builds the protected packet (RFC 9001 §5.3, §5.4).
func (p *c06QuicPacket) Seal() []byte {
	first := byte(0xc0) | p.TypeBits<<4 | (p.Reserved&3)<<2 | byte(p.PnLen-1)
	hdr := []byte{first}
	hdr = binary.BigEndian.AppendUint32(hdr, p.Version)
	hdr = append(hdr, byte(len(p.Dcid)))
	hdr = append(hdr, p.Dcid...)
	hdr = append(hdr, byte(len(p.Scid)))
	hdr = append(hdr, p.Scid...)
	hdr = append(hdr, c06Varint(uint64(len(p.Token)), p.TokLenSz)...)
	hdr = append(hdr, p.Token...)
	hdr = append(hdr, c06Varint(uint64(p.PnLen+len(p.Payload)+16), p.LenSz)...)
	p.PnOffset = len(hdr)
	for i := p.PnLen - 1; i >= 0; i-- {
		hdr = append(hdr, byte(p.Pn>>(8*uint(i))))
	}
	kd := p.KeyDcid
	if kd == nil {
		kd = p.Dcid
	}
	key, iv, hp := c06QuicClientKeys(p.Version, kd)
	blk, _ := aes.NewCipher(key)
	aead, _ := cipher.NewGCM(blk)
	nonce := append([]byte(nil), iv...)
	for i := 0; i < 4; i++ {
		nonce[len(nonce)-1-i] ^= byte(p.Pn >> (8 * uint(i)))
	}
	pkt := aead.Seal(append([]byte(nil), hdr...), nonce, p.Payload, hdr)
	// header protection: sample starts 4 bytes after the start of the packet number
	sample := pkt[p.PnOffset+4 : p.PnOffset+4+16]
	hpb, _ := aes.NewCipher(hp)
	mask := make([]byte, 16)
	hpb.Encrypt(mask, sample)
	pkt[0] ^= mask[0] & 0x0f
	for i := 0; i < p.PnLen; i++ {
		pkt[p.PnOffset+i] ^= mask[1+i]
	}
	p.TotalLen = len(pkt)
	return pkt
}

// frames
func c06CryptoFrame(off uint64, data []byte, offSz, lenSz int) []byte {
	b := []byte{0x06}
	b = append(b, c06Varint(off, offSz)...)
	b = append(b, c06Varint(uint64(len(data)), lenSz)...)
	return append(b, data...)
}
