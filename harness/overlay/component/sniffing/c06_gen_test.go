package sniffing

// C06 — independent encoders used by the correspondence harness.  Written from the RFCs
// (TLS 1.3 RFC 8446 §4.1.2, SNI RFC 6066 §3, QUIC RFC 9000 §16/§17.2/§19, QUIC-TLS RFC 9001 §5,
// QUIC v2 RFC 9369), NOT from the sniffer: only the Go standard library is used.

import (
	"bytes"
	"crypto/aes"
	"crypto/cipher"
	"crypto/hkdf"
	"crypto/sha256"
	"encoding/binary"
	"encoding/hex"
	"fmt"
	"sort"
	"strings"
)

// ---------------------------------------------------------------- TLS ClientHello

type c06Ext struct {
	Typ  uint16
	Data []byte
}

type c06SniEntry struct {
	Typ  byte
	Name []byte
}

type c06Hello struct {
	Minor      byte // legacy_version minor byte (0x03 for TLS 1.2/1.3)
	Random     []byte
	Sid        []byte
	Suites     []byte
	Comp       []byte
	Exts       []c06Ext
	NoExtBlock bool
}

func c06U16(n int) []byte { return []byte{byte(n >> 8), byte(n)} }

// server_name extension_data: ServerNameList
func c06SniData(entries []c06SniEntry) []byte {
	var list []byte
	for _, e := range entries {
		list = append(list, e.Typ)
		list = append(list, c06U16(len(e.Name))...)
		list = append(list, e.Name...)
	}
	return append(c06U16(len(list)), list...)
}

func c06EncodeExts(exts []c06Ext) []byte {
	var b []byte
	for _, e := range exts {
		b = append(b, c06U16(int(e.Typ))...)
		b = append(b, c06U16(len(e.Data))...)
		b = append(b, e.Data...)
	}
	return b
}

// ClientHello body (without the 4-byte handshake header).
func (h *c06Hello) Body() []byte {
	b := []byte{3, h.Minor}
	b = append(b, h.Random...)
	b = append(b, byte(len(h.Sid)))
	b = append(b, h.Sid...)
	b = append(b, c06U16(len(h.Suites))...)
	b = append(b, h.Suites...)
	b = append(b, byte(len(h.Comp)))
	b = append(b, h.Comp...)
	if !h.NoExtBlock {
		e := c06EncodeExts(h.Exts)
		b = append(b, c06U16(len(e))...)
		b = append(b, e...)
	}
	return b
}

// Handshake message: msg_type client_hello(1), uint24 length, body.
func (h *c06Hello) Handshake() []byte {
	body := h.Body()
	return append([]byte{1, byte(len(body) >> 16), byte(len(body) >> 8), byte(len(body))}, body...)
}

// TLSPlaintext record: handshake(22), legacy_record_version 3.x, uint16 length, fragment.
func c06Record(fragment []byte, recMinor byte) []byte {
	return append([]byte{22, 3, recMinor, byte(len(fragment) >> 8), byte(len(fragment))}, fragment...)
}

// ---------------------------------------------------------------- QUIC

const (
	c06QuicV1 = 0x00000001
	c06QuicV2 = 0x6b3343cf
)

// RFC 9000 §16 variable-length integer in exactly `size` bytes (1,2,4,8); size 0 = minimal.
func c06Varint(v uint64, size int) []byte {
	if size != 0 && size < 8 && v >= uint64(1)<<(8*uint(size)-2) {
		size = 0 // does not fit the requested width: minimal encoding
	}
	if size == 0 {
		switch {
		case v < 1<<6:
			size = 1
		case v < 1<<14:
			size = 2
		case v < 1<<30:
			size = 4
		default:
			size = 8
		}
	}
	b := make([]byte, size)
	for i := size - 1; i >= 0; i-- {
		b[i] = byte(v)
		v >>= 8
	}
	switch size {
	case 2:
		b[0] |= 0x40
	case 4:
		b[0] |= 0x80
	case 8:
		b[0] |= 0xc0
	}
	return b
}

func c06ExpandLabel(secret []byte, label string, n int) []byte {
	full := "tls13 " + label
	info := []byte{byte(n >> 8), byte(n), byte(len(full))}
	info = append(info, full...)
	info = append(info, 0)
	out, err := hkdf.Expand(sha256.New, secret, string(info), n)
	if err != nil {
		panic(err)
	}
	return out
}

// RFC 9001 §5.2 / RFC 9369 §3.3: client Initial keys.
func c06QuicClientKeys(version uint32, dcid []byte) (key, iv, hp []byte) {
	var salt []byte
	pfx := "quic "
	if version == c06QuicV2 {
		salt = []byte{0x0d, 0xed, 0xe3, 0xde, 0xf7, 0x00, 0xa6, 0xdb, 0x81, 0x93, 0x81, 0xbe, 0x6e, 0x26, 0x9d, 0xcb, 0xf9, 0xbd, 0x2e, 0xd9}
		pfx = "quicv2 "
	} else if version&0xff000000 == 0xff000000 { // draft-29 .. draft-32 (draft-ietf-quic-tls-29 §5.2)
		salt = []byte{0xaf, 0xbf, 0xec, 0x28, 0x99, 0x93, 0xd2, 0x4c, 0x9e, 0x97, 0x86, 0xf1, 0x9c, 0x61, 0x11, 0xe0, 0x43, 0x90, 0xa8, 0x99}
	} else {
		salt = []byte{0x38, 0x76, 0x2c, 0xf7, 0xf5, 0x59, 0x34, 0xb3, 0x4d, 0x17, 0x9a, 0xe6, 0xa4, 0xc8, 0x0c, 0xad, 0xcc, 0xbb, 0x7f, 0x0a}
	}
	initial, err := hkdf.Extract(sha256.New, dcid, salt)
	if err != nil {
		panic(err)
	}
	client := c06ExpandLabel(initial, "client in", 32)
	return c06ExpandLabel(client, pfx+"key", 16), c06ExpandLabel(client, pfx+"iv", 12), c06ExpandLabel(client, pfx+"hp", 16)
}

type c06QuicPacket struct {
	Version   uint32
	TypeBits  byte // long packet type bits as they appear on the wire (v1 Initial = 0, v2 Initial = 1)
	Reserved  byte // 2 reserved bits (must be 0; protected)
	Dcid      []byte
	Scid      []byte
	Token     []byte
	TokLenSz  int // varint size for the token length (0 = minimal)
	LenSz     int // varint size for the Length field (0 = minimal, at least 2 is what clients use)
	Pn        uint32
	PnLen     int // 1..4
	Payload   []byte // plaintext frames
	KeyDcid   []byte // DCID the keys are derived from (nil = Dcid); differs for corrupt packets
	PnOffset  int    // filled by Seal: offset of the packet number
	TotalLen  int    // filled by Seal
}

// Seal builds the protected packet (RFC 9001 §5.3, §5.4).
func (p *c06QuicPacket) Seal() []byte {
	first := byte(0xc0) | p.TypeBits<<4 | (p.Reserved&3)<<2 | byte(p.PnLen-1)
	hdr := []byte{first}
	hdr = binary.BigEndian.AppendUint32(hdr, p.Version)
	hdr = append(hdr, byte(len(p.Dcid)))
	hdr = append(hdr, p.Dcid...)
	hdr = append(hdr, byte(len(p.Scid)))
	hdr = append(hdr, p.Scid...)
	hdr = append(hdr, c06Varint(uint64(len(p.Token)), p.TokLenSz)...)
	hdr = append(hdr, p.Token...)
	hdr = append(hdr, c06Varint(uint64(p.PnLen+len(p.Payload)+16), p.LenSz)...)
	p.PnOffset = len(hdr)
	for i := p.PnLen - 1; i >= 0; i-- {
		hdr = append(hdr, byte(p.Pn>>(8*uint(i))))
	}
	kd := p.KeyDcid
	if kd == nil {
		kd = p.Dcid
	}
	key, iv, hp := c06QuicClientKeys(p.Version, kd)
	blk, _ := aes.NewCipher(key)
	aead, _ := cipher.NewGCM(blk)
	nonce := append([]byte(nil), iv...)
	for i := 0; i < 4; i++ {
		nonce[len(nonce)-1-i] ^= byte(p.Pn >> (8 * uint(i)))
	}
	pkt := aead.Seal(append([]byte(nil), hdr...), nonce, p.Payload, hdr)
	// header protection: sample starts 4 bytes after the start of the packet number
	sample := pkt[p.PnOffset+4 : p.PnOffset+4+16]
	hpb, _ := aes.NewCipher(hp)
	mask := make([]byte, 16)
	hpb.Encrypt(mask, sample)
	pkt[0] ^= mask[0] & 0x0f
	for i := 0; i < p.PnLen; i++ {
		pkt[p.PnOffset+i] ^= mask[1+i]
	}
	p.TotalLen = len(pkt)
	return pkt
}

// frames
func c06CryptoFrame(off uint64, data []byte, offSz, lenSz int) []byte {
	b := []byte{0x06}
	b = append(b, c06Varint(off, offSz)...)
	b = append(b, c06Varint(uint64(len(data)), lenSz)...)
	return append(b, data...)
}

// ---------------------------------------------------------------- generators (package neutral)

func c06Hex(b []byte) string {
	if len(b) == 0 {
		return "-"
	}
	return hex.EncodeToString(b)
}

var c06Methods = []string{"GET", "POST", "PUT", "PATCH", "DELETE", "COPY", "HEAD", "OPTIONS", "LINK", "UNLINK", "PURGE", "LOCK", "UNLOCK", "PROPFIND", "CONNECT", "TRACE"}

type c06Gen struct {
	r     *VRand
	stats *VStats
	// when set, quicCase / quicCaseManyDatagrams use these connection ids instead of drawing them
	forceDcid []byte
	forceScid []byte
}

func (g *c06Gen) bytes(n int) []byte {
	b := make([]byte, n)
	for i := range b {
		b[i] = byte(g.r.U64())
	}
	return b
}

const c06LabelChars = "abcdefghijklmnopqrstuvwxyz0123456789-"

func (g *c06Gen) plainName() string {
	n := g.r.Range(1, 4)
	var labels []string
	for i := 0; i < n; i++ {
		l := g.r.Range(1, 12)
		if g.r.Chance(0.05) {
			l = 63
		}
		var sb strings.Builder
		for j := 0; j < l; j++ {
			sb.WriteByte(c06LabelChars[g.r.Intn(len(c06LabelChars))])
		}
		labels = append(labels, sb.String())
	}
	return strings.Join(labels, ".")
}

// returns the name as carried and, when the documented answer is obvious (a plain DNS name, any
// case, optional trailing dot), that answer; otherwise expect == "?".
func (g *c06Gen) name() (carried []byte, expect string, class string) {
	p := g.plainName()
	switch g.r.Intn(20) {
	case 0, 1, 2, 3, 4, 5, 6, 7:
		return []byte(p), p, "plain"
	case 8, 9:
		return []byte(strings.ToUpper(p[:1]) + p[1:]), p, "mixedcase"
	case 10:
		return []byte(strings.ToUpper(p)), p, "upper"
	case 11, 12:
		return []byte(p + "."), p, "trailingdot"
	case 13:
		weird := []string{"", ".", "..", " a.com ", "a.com:443", "[::1]", "[::1]:443", "::1", "1.2.3.4", "1.2.3.4:80",
			"a:b:c", "]", "[", "a]", "[a", "a.com..", "\ta.com\r\n", "[fe80::1%eth0]:53", "a.com:", ":80", "[]:1", "[a]b:1", "[a]:b:1", "x[y:1", "x]y:1"}
		return []byte(weird[g.r.Intn(len(weird))]), "?", "weird"
	case 14:
		return []byte("b\xc3\xbccher." + p), "?", "nonascii"
	case 15:
		return append([]byte(p), 0xff, 0x85), "?", "nonascii"
	case 16:
		return []byte(strings.Repeat("a", 255)), strings.Repeat("a", 255), "long"
	case 17:
		return []byte(p + ":" + fmt.Sprint(g.r.Intn(65536))), "?", "withport"
	default:
		return []byte(p), p, "plain"
	}
}

type c06HelloCase struct {
	h       *c06Hello
	structT string // structured text for the chenc op
	expect  string // "?" unknown, "nf", "na", or the expected (normalised) name
	class   string
}

func c06Grease(r *VRand) uint16 {
	k := uint16(r.Intn(16))
	return k<<12 | 0x0a00 | k<<4 | 0x0a
}

func (g *c06Gen) hello() *c06HelloCase {
	r := g.r
	h := &c06Hello{Minor: 3, Random: g.bytes(32)}
	switch r.Intn(12) {
	case 0:
		h.Minor = 1
	case 1:
		h.Minor = 2
	}
	switch r.Intn(5) {
	case 0: // empty session id
	case 1:
		h.Sid = g.bytes(r.Range(1, 31))
	default:
		h.Sid = g.bytes(32)
	}
	if r.Chance(0.03) { // longer than TLS allows, still a one-byte length: the walk must cope
		h.Sid = g.bytes(r.Range(33, 255))
		g.stats.Inc("hello.sid_over_32")
	}
	h.Suites = g.bytes(2 * r.Range(1, 20))
	if r.Chance(0.1) {
		h.Suites = g.bytes(2 * r.Range(100, 300))
	}
	h.Comp = []byte{0}
	if r.Chance(0.1) {
		h.Comp = []byte{1, 0}
	}
	if r.Chance(0.03) {
		h.Comp = nil
		g.stats.Inc("hello.no_compression_methods")
	}
	c := &c06HelloCase{h: h, expect: "nf", class: "nosni"}
	type item struct {
		e    c06Ext
		text string
		exp  string // for server_name extensions: documented answer of its first host_name entry ("" = none)
		cls  string
	}
	var items []item
	other := func(t uint16, d []byte) { items = append(items, item{e: c06Ext{t, d}, text: fmt.Sprintf("o%d:%s", t, c06Hex(d))}) }
	// server_name extension(s)
	nSni := 1
	switch r.Intn(20) {
	case 0, 1:
		nSni = 0
	case 2:
		nSni = 2
	}
	for k := 0; k < nSni; k++ {
		var entries []c06SniEntry
		var parts []string
		found := false
		itExp, itCls := "", ""
		ne := 1
		switch r.Intn(12) {
		case 0:
			ne = 0
		case 1:
			ne = 2
		case 2:
			ne = 3
		}
		for j := 0; j < ne; j++ {
			nm, exp, cls := g.name()
			typ := byte(0)
			if r.Chance(0.15) {
				typ = byte(r.Range(1, 255))
			}
			entries = append(entries, c06SniEntry{typ, nm})
			parts = append(parts, fmt.Sprintf("%d.%s", typ, c06Hex(nm)))
			if typ == 0 && !found {
				found = true
				itExp, itCls = exp, cls
			}
		}
		items = append(items, item{c06Ext{0, c06SniData(entries)}, "s" + strings.Join(parts, "/"), itExp, itCls})
	}
	if nSni == 2 {
		g.stats.Inc("hello.two_sni_exts")
	}
	// the usual suspects, in any order
	if r.Chance(0.9) {
		other(43, []byte{2, 3, 4})
	}
	if r.Chance(0.8) {
		other(16, []byte{0, 12, 2, 'h', '2', 8, 'h', 't', 't', 'p', '/', '1', '.', '1'})
	}
	if r.Chance(0.8) {
		ks := g.bytes(r.Range(36, 120))
		if r.Chance(0.2) {
			ks = g.bytes(r.Range(1100, 1300)) // post-quantum sized share
			g.stats.Inc("hello.pq_keyshare")
		}
		other(51, ks)
	}
	if r.Chance(0.6) {
		other(10, []byte{0, 4, 0, 29, 0, 23})
	}
	if r.Chance(0.5) {
		other(13, g.bytes(2*r.Range(2, 10)))
	}
	if r.Chance(0.4) {
		other(23, nil)
	}
	if r.Chance(0.4) {
		other(35, nil)
	}
	if r.Chance(0.3) {
		other(0xff01, []byte{0})
	}
	for k := r.Intn(3); k > 0; k-- {
		d := []byte(nil)
		if r.Bool() {
			d = []byte{0}
		}
		other(c06Grease(r), d)
		g.stats.Inc("hello.grease_ext")
	}
	// shuffle
	for i := len(items) - 1; i > 0; i-- {
		j := r.Intn(i + 1)
		items[i], items[j] = items[j], items[i]
	}
	if r.Chance(0.35) { // padding extension, usually last
		other(21, make([]byte, r.Intn(300)))
		g.stats.Inc("hello.padding_ext")
	}
	if r.Chance(0.1) { // an empty extension as the very last one
		other(uint16(r.Range(1, 60)), nil)
		g.stats.Inc("hello.empty_last_ext")
	}
	if r.Chance(0.08) { // 4-16 KB hellos (many PSK identities, ECH, large padding), also exactly at
		// the sizes where the pooled sniff buffer has to grow
		target := []int{4096, 8192, 12288, 16384}[r.Intn(4)] + r.Range(-3, 3)
		if r.Chance(0.4) {
			target = r.Range(4097, 16384)
		}
		if target > 16384+5 {
			target = 16384 + 5
		}
		tmp := *h
		tmp.Exts = nil
		for _, it := range items {
			tmp.Exts = append(tmp.Exts, it.e)
		}
		if n := target - 5 - len(tmp.Handshake()) - 4; n >= 0 {
			typ := uint16([]int{41, 21, 0xfe0d}[r.Intn(3)])
			at := r.Intn(len(items) + 1)
			d := make([]byte, n)
			if typ != 21 {
				d = g.bytes(n)
			}
			it := item{e: c06Ext{typ, d}, text: fmt.Sprintf("o%d:%s", typ, c06Hex(d))}
			items = append(items[:at:at], append([]item{it}, items[at:]...)...)
			g.stats.Inc(fmt.Sprintf("hello.big.%dk", (target+1023)/1024))
		}
	}
	var texts []string
	decided := false
	for _, it := range items {
		h.Exts = append(h.Exts, it.e)
		texts = append(texts, it.text)
		if it.e.Typ == 0 && it.cls != "" && !decided { // first host_name in wire order
			decided = true
			c.expect, c.class = it.exp, it.cls
		}
	}
	extT := "-"
	if len(texts) > 0 {
		extT = strings.Join(texts, ",")
	}
	if r.Chance(0.02) {
		h.NoExtBlock = true
		h.Exts = nil
		extT = "none"
		c.expect, c.class = "na", "noextblock"
	}
	c.structT = fmt.Sprintf("%d %s %s %s %s %s", h.Minor, c06Hex(h.Random), c06Hex(h.Sid), c06Hex(h.Suites), c06Hex(h.Comp), extT)
	g.stats.Inc("hello.class." + c.class)
	g.stats.Inc(fmt.Sprintf("hello.sid_len.%d", (len(h.Sid)+15)/16*16))
	return c
}

func (g *c06Gen) mutate(b []byte) ([]byte, string) {
	r := g.r
	m := append([]byte(nil), b...)
	if len(m) == 0 {
		return m, "none"
	}
	switch r.Intn(7) {
	case 0:
		return m[:r.Intn(len(m))], "truncate"
	case 1:
		i := r.Intn(len(m))
		m[i] ^= 1 << uint(r.Intn(8))
		return m, "bitflip"
	case 2: // tweak a byte in the structural part by ±1
		lim := len(m)
		if lim > 140 {
			lim = 140
		}
		i := r.Intn(lim)
		if r.Bool() {
			m[i]++
		} else {
			m[i]--
		}
		return m, "tweak_head"
	case 3: // tweak a byte near the end
		i := len(m) - 1 - r.Intn(min(len(m), 24))
		if r.Bool() {
			m[i]++
		} else {
			m[i]--
		}
		return m, "tweak_tail"
	case 4: // zero a length-looking pair
		i := r.Intn(len(m))
		m[i] = 0
		if i+1 < len(m) {
			m[i+1] = byte(r.Intn(3))
		}
		return m, "zero_len"
	case 5:
		k := r.Range(1, 4)
		for ; k > 0; k-- {
			i := r.Intn(len(m))
			m[i] ^= 1 << uint(r.Intn(8))
		}
		return m, "multiflip"
	default:
		i := r.Intn(len(m))
		m[i] = 0xff
		if i+1 < len(m) {
			m[i+1] = 0xff
		}
		return m, "ff_len"
	}
}

// cut b into chunks according to a strategy
func (g *c06Gen) cuts(b []byte) ([][]byte, string) {
	r := g.r
	n := len(b)
	cutAt := func(pos []int) [][]byte {
		sort.Ints(pos)
		var out [][]byte
		prev := 0
		for _, p := range pos {
			if p <= prev || p >= n {
				continue
			}
			out = append(out, b[prev:p])
			prev = p
		}
		return append(out, b[prev:])
	}
	switch r.Intn(9) {
	case 0:
		return [][]byte{b}, "whole"
	case 1:
		return cutAt([]int{5}), "header_then_rest"
	case 2:
		return cutAt([]int{r.Range(1, 4)}), "inside_header"
	case 3:
		return cutAt([]int{5, 5 + r.Intn(max(1, n-5))}), "header_mid_rest"
	case 4: // many random cuts after the header
		k := r.Range(2, 8)
		pos := []int{r.Range(5, 9)}
		for ; k > 0; k-- {
			pos = append(pos, r.Intn(n+1))
		}
		return cutAt(pos), "random_cuts"
	case 5: // byte by byte for the first 60 bytes after the header
		pos := []int{5}
		for i := 6; i < min(n, 66); i++ {
			pos = append(pos, i)
		}
		return cutAt(pos), "bytewise"
	case 6:
		return cutAt([]int{n - 1}), "last_byte_late"
	case 7:
		return cutAt([]int{r.Range(5, 12), n - r.Range(1, 10)}), "tail_late"
	default:
		return cutAt([]int{r.Intn(n + 1)}), "one_cut"
	}
}

func (g *c06Gen) httpHead() (b []byte, expect string, class string) {
	r := g.r
	method := c06Methods[r.Intn(len(c06Methods))]
	target := "/" + g.plainName()
	if r.Chance(0.2) {
		target = "http://" + g.plainName() + ":8080/x?y=z"
	}
	var sb bytes.Buffer
	sb.WriteString(method + " " + target + " HTTP/1.1\r\n")
	type hdr struct{ k, v string }
	var hs []hdr
	nm, exp, cls := g.name()
	if cls == "nonascii" || strings.ContainsAny(string(nm), "\r\n") {
		nm, exp, cls = []byte(g.plainName()), "", "plain"
		exp = string(nm)
	}
	hostKey := []string{"Host", "host", "HOST", "hOsT", "Host", "Host "}[r.Intn(6)]
	sep := []string{" ", "", "  ", "\t"}[r.Intn(4)]
	hs = append(hs, hdr{"User-Agent", " curl/8.0"}, hdr{"Accept", " */*"})
	if r.Chance(0.3) {
		hs = append(hs, hdr{"X-Host", " decoy.example"})
	}
	if r.Chance(0.2) {
		hs = append(hs, hdr{"Hostx", " decoy2.example"})
	}
	withHost := r.Chance(0.85)
	if withHost {
		hs = append(hs, hdr{hostKey, sep + string(nm) + []string{"", " ", "\t "}[r.Intn(3)]})
	} else {
		exp, cls = "nf", "nohost"
	}
	for i := len(hs) - 1; i > 0; i-- {
		j := r.Intn(i + 1)
		hs[i], hs[j] = hs[j], hs[i]
	}
	if withHost && r.Chance(0.15) { // second Host header: the first one wins
		hs = append(hs, hdr{"Host", " second.example"})
	}
	if r.Chance(0.2) { // a large header in front (cookies, tokens): pushes Host far into the head
		hs = append([]hdr{{"Cookie", " " + strings.Repeat("k=v; ", r.Range(50, 450))}}, hs...)
	}
	fold := -1
	if r.Chance(0.15) { // an obs-fold continuation line that looks like a Host header
		fold = r.Intn(len(hs))
	}
	for i, h := range hs {
		sb.WriteString(h.k + ":" + h.v + "\r\n")
		if i == fold {
			sb.WriteString([]string{" ", "\t"}[r.Intn(2)] + "Host: folded.example\r\n")
		}
	}
	if r.Chance(0.1) {
		sb.WriteString("garbage line without colon\r\n")
	}
	sb.WriteString("\r\n")
	if r.Chance(0.3) {
		sb.WriteString("Host: in-body.example\r\n\r\n")
	}
	if withHost && strings.TrimSpace(string(nm)) == "" {
		exp = "nf"
	}
	return sb.Bytes(), exp, "http." + cls
}

type c06Frame struct {
	off  int
	data []byte
}

type c06Sealed struct {
	start, pnOff, stop int
	dcid, plain        []byte
	dead               bool
}

type c06QuicCase struct {
	datagrams [][]byte
	oracle    []*c06Sealed
	class     []string
	hasClose  bool // a CONNECTION_CLOSE frame was put into some packet
	compactAt int  // > 0: CompactPacketState after that many datagrams, then the whole flight again
}

func (g *c06Gen) quicFrames(hs []byte) ([]c06Frame, string) {
	r := g.r
	n := len(hs)
	var cutPos []int
	cls := ""
	switch r.Intn(6) {
	case 0:
		cls = "one_frame"
	case 1:
		cutPos = []int{r.Range(1, max(1, n-1))}
		cls = "two_frames"
	case 2:
		for k := r.Range(2, 7); k > 0; k-- {
			cutPos = append(cutPos, r.Range(1, max(1, n-1)))
		}
		cls = "several_frames"
	case 3: // chrome-like: many small pieces
		for p := r.Range(1, 40); p < n; p += r.Range(1, 120) {
			cutPos = append(cutPos, p)
		}
		cls = "many_frames"
	case 4: // cut right around the first 48 bytes (header / session id area) and the tail
		cutPos = []int{r.Range(1, min(n-1, 48)), n - r.Range(1, min(n-1, 12))}
		cls = "boundary_cuts"
	default:
		cutPos = []int{4, 6, 38, 39}
		cls = "field_cuts"
	}
	sort.Ints(cutPos)
	var frames []c06Frame
	prev := 0
	for _, p := range cutPos {
		if p <= prev || p >= n {
			continue
		}
		frames = append(frames, c06Frame{prev, hs[prev:p]})
		prev = p
	}
	frames = append(frames, c06Frame{prev, hs[prev:]})
	// duplicates / overlaps (consistent with the stream)
	if r.Chance(0.25) {
		a := r.Intn(n)
		b := a + r.Intn(n-a+1)
		frames = append(frames, c06Frame{a, hs[a:b]})
		cls += "+overlap"
	}
	if r.Chance(0.1) {
		frames = append(frames, c06Frame{r.Intn(n + 1), nil}) // zero-length CRYPTO frame
		cls += "+empty"
	}
	// order
	switch r.Intn(4) {
	case 0:
	case 1:
		for i, j := 0, len(frames)-1; i < j; i, j = i+1, j-1 {
			frames[i], frames[j] = frames[j], frames[i]
		}
		cls += "+reversed"
	default:
		for i := len(frames) - 1; i > 0; i-- {
			j := r.Intn(i + 1)
			frames[i], frames[j] = frames[j], frames[i]
		}
		cls += "+shuffled"
	}
	return frames, cls
}

// encode frames into packet payloads (with PADDING / PING sprinkled), packets into datagrams
func (g *c06Gen) quicCase(hs []byte, version uint32) *c06QuicCase {
	r := g.r
	frames, cls := g.quicFrames(hs)
	qc := &c06QuicCase{}
	qc.class = append(qc.class, "frames."+cls)
	nPk := 1
	if len(frames) > 1 {
		nPk = r.Range(1, min(4, len(frames)))
	}
	per := (len(frames) + nPk - 1) / nPk
	dcid := g.bytes([]int{8, 8, 8, 0, 1, 20, 16}[r.Intn(7)])
	scid := g.bytes([]int{0, 0, 8, 20, 5}[r.Intn(5)])
	if g.forceDcid != nil {
		dcid = g.forceDcid
	}
	if g.forceScid != nil {
		scid = g.forceScid
	}
	typeBits := byte(0)
	if version == c06QuicV2 {
		typeBits = 1
	}
	var payloads [][]byte
	for i := 0; i < len(frames); i += per {
		var p []byte
		pad := func() {
			switch r.Intn(5) {
			case 0:
				p = append(p, make([]byte, r.Range(1, 40))...)
			case 1:
				p = append(p, 1) // PING
			case 2:
				p = append(p, 0x40, 0x00) // PADDING type as a 2-byte varint
			}
		}
		for _, f := range frames[i:min(len(frames), i+per)] {
			pad()
			p = append(p, c06CryptoFrame(uint64(f.off), f.data, []int{0, 0, 2, 4, 8}[r.Intn(5)], []int{0, 0, 2, 4}[r.Intn(4)])...)
		}
		pad()
		if r.Chance(0.03) { // CONNECTION_CLOSE (transport or application), or a frame type the sniffer does not know
			p = append(p, []byte{0x1c, 0x1d, 0x02, 0x1e}[r.Intn(4)], 0, 0, 0)
			qc.hasClose = true
			qc.class = append(qc.class, "close_or_unknown_frame")
		}
		payloads = append(payloads, p)
	}
	qc.class = append(qc.class, fmt.Sprintf("packets.%d", len(payloads)))
	// datagram layout: each packet its own datagram, or two coalesced
	var dg []byte
	base := 0
	flush := func() {
		if len(dg) > 0 {
			qc.datagrams = append(qc.datagrams, dg)
			base += len(dg)
			dg = nil
		}
	}
	for i, p := range payloads {
		pk := &c06QuicPacket{Version: version, TypeBits: typeBits, Dcid: dcid, Scid: scid, PnLen: r.Range(1, 4),
			LenSz: []int{0, 2, 2, 4}[r.Intn(4)], TokLenSz: []int{0, 0, 2}[r.Intn(3)]}
		pk.Pn = uint32(i+r.Intn(3)*256+r.Intn(2)*70000) & uint32(uint64(1)<<(8*uint(pk.PnLen))-1)
		if r.Chance(0.15) {
			pk.Token = g.bytes(r.Range(1, 70))
		}
		// pad the packet like clients do (datagram >= 1200) in the single-packet-per-datagram case
		if r.Chance(0.6) && len(p) < 1150 {
			p = append(p, make([]byte, 1150-len(p))...)
		}
		for pk.PnLen+len(p) < 4 {
			p = append(p, 0)
		}
		pk.Payload = p
		raw := pk.Seal()
		se := &c06Sealed{start: base + len(dg), pnOff: pk.PnOffset, stop: pk.TotalLen, dcid: dcid, plain: p}
		qc.oracle = append(qc.oracle, se)
		dg = append(dg, raw...)
		coalesce := r.Chance(0.25) && i+1 < len(payloads)
		if !coalesce {
			switch r.Intn(8) {
			case 0: // trailing garbage that is not a long header
				dg = append(dg, make([]byte, r.Range(1, 30))...)
				qc.class = append(qc.class, "trail.zeros")
			case 1: // a coalesced 0-RTT / Handshake-looking long header packet
				junk := g.bytes(r.Range(20, 60))
				junk[0] = 0xd0 | junk[0]&0x0f
				if version == c06QuicV2 {
					junk[0] = 0xe0 | junk[0]&0x0f
				}
				dg = append(dg, junk...)
				qc.class = append(qc.class, "trail.longhdr")
			}
			flush()
		} else {
			qc.class = append(qc.class, "coalesced")
		}
	}
	flush()
	if r.Chance(0.2) && len(qc.datagrams) > 1 { // datagram reordering
		i, j := r.Intn(len(qc.datagrams)), r.Intn(len(qc.datagrams))
		if i != j {
			c06SwapDatagrams(qc, i, j)
			qc.class = append(qc.class, "datagrams.reordered")
		}
	}
	return qc
}

// the shape real clients emit for a large ClientHello: CRYPTO data in stream order, about 1150
// bytes per packet, one packet per 1200-byte datagram - as many datagrams as it takes (7-15 for
// the 8-17 KB hellos); optionally two neighbouring datagrams swapped
func (g *c06Gen) quicCaseManyDatagrams(hs []byte, version uint32) *c06QuicCase {
	r := g.r
	qc := &c06QuicCase{}
	dcid := g.bytes([]int{8, 8, 16, 20}[r.Intn(4)])
	scid := g.bytes([]int{0, 8}[r.Intn(2)])
	if g.forceDcid != nil {
		dcid = g.forceDcid
	}
	if g.forceScid != nil {
		scid = g.forceScid
	}
	typeBits := byte(0)
	if version == c06QuicV2 {
		typeBits = 1
	}
	base := 0
	for off, i := 0, 0; off < len(hs); i++ {
		n := min(len(hs)-off, r.Range(900, 1150))
		p := c06CryptoFrame(uint64(off), hs[off:off+n], 0, 0)
		if len(p) < 1160 {
			p = append(p, make([]byte, 1160-len(p))...)
		}
		pk := &c06QuicPacket{Version: version, TypeBits: typeBits, Dcid: dcid, Scid: scid, Pn: uint32(i), PnLen: r.Range(1, 4), LenSz: 2, Payload: p}
		if r.Chance(0.1) {
			pk.Token = g.bytes(r.Range(71, 300))
		}
		raw := pk.Seal()
		qc.oracle = append(qc.oracle, &c06Sealed{start: base, pnOff: pk.PnOffset, stop: pk.TotalLen, dcid: dcid, plain: p})
		qc.datagrams = append(qc.datagrams, raw)
		base += len(raw)
		off += n
	}
	qc.class = append(qc.class, "many_datagrams", fmt.Sprintf("packets.%d", len(qc.datagrams)))
	if len(qc.datagrams) > 2 && r.Chance(0.3) {
		i := r.Intn(len(qc.datagrams) - 1)
		c06SwapDatagrams(qc, i, i+1)
		qc.class = append(qc.class, "datagrams.reordered")
	}
	return qc
}

// a ClientHello of at least `atLeast` bytes (handshake message)
func (g *c06Gen) bigHello(atLeast int) *c06HelloCase {
	for {
		hc := g.hello()
		if len(hc.h.Handshake()) >= atLeast && hc.class != "nonascii" {
			return hc
		}
	}
}

// swap two datagrams and recompute the absolute packet offsets of the oracle
func c06SwapDatagrams(qc *c06QuicCase, i, j int) {
	starts := make([]int, len(qc.datagrams)+1)
	for k, d := range qc.datagrams {
		starts[k+1] = starts[k] + len(d)
	}
	owner := make([]int, len(qc.oracle))
	rel := make([]int, len(qc.oracle))
	for k, se := range qc.oracle {
		for d := range qc.datagrams {
			if se.start >= starts[d] && se.start < starts[d+1] {
				owner[k], rel[k] = d, se.start-starts[d]
			}
		}
	}
	qc.datagrams[i], qc.datagrams[j] = qc.datagrams[j], qc.datagrams[i]
	for k := range owner {
		if owner[k] == i {
			owner[k] = j
		} else if owner[k] == j {
			owner[k] = i
		}
	}
	for k, d := range qc.datagrams {
		starts[k+1] = starts[k] + len(d)
	}
	for k, se := range qc.oracle {
		se.start = starts[owner[k]] + rel[k]
	}
}

// corrupt one byte of one datagram; packets covering it stop authenticating
func (g *c06Gen) quicCorrupt(qc *c06QuicCase) { g.quicCorruptFrom(qc, 0) }

// same, but never within the first `minIdx` bytes of the datagram (connection ids stay intact)
func (g *c06Gen) quicCorruptFrom(qc *c06QuicCase, minIdx int) {
	r := g.r
	d := r.Intn(len(qc.datagrams))
	if len(qc.datagrams[d]) == 0 {
		return
	}
	abs := 0
	for k := 0; k < d; k++ {
		abs += len(qc.datagrams[k])
	}
	i := r.Intn(len(qc.datagrams[d]))
	if r.Chance(0.5) {
		i = r.Intn(min(len(qc.datagrams[d]), 60)) // header area
	}
	if i < minIdx {
		i = min(minIdx+i, len(qc.datagrams[d])-1)
	}
	qc.datagrams[d] = append([]byte(nil), qc.datagrams[d]...)
	qc.datagrams[d][i] ^= 1 << uint(r.Intn(8))
	for _, se := range qc.oracle {
		if abs+i >= se.start && abs+i < se.start+se.stop {
			se.dead = true
		}
	}
	qc.class = append(qc.class, "corrupt")
}

func c06WantStr(hc *c06HelloCase) string {
	// documented answer BEFORE NormalizeDomain, computed from the structure (not from bytes)
	if hc.h.NoExtBlock {
		return "err:na"
	}
	for _, e := range hc.h.Exts {
		if e.Typ != 0 {
			continue
		}
		// walk the ServerNameList we encoded ourselves
		d := e.Data[2:]
		for len(d) >= 3 {
			l := int(d[1])<<8 | int(d[2])
			if d[0] == 0 {
				return "ok:" + c06Hex(bytes.TrimSuffix(d[3:3+l], []byte(".")))
			}
			d = d[3+l:]
		}
	}
	return "err:nf"
}

// property-level oracle on the implementation side: the answer is the carried name.
