package sniffing

// C06 correspondence harness (package sniffing, white box).  Runs the REAL sniffer code —
// extractSniFromTls / SniffTls / SniffHttp / NormalizeDomain, ConnSniffer over a scripted
// connection (SniffTcp + the four ways the relay drains it), quicutils.ReassembleCryptos /
// LinearLocator, and the packet sniffer (AppendData + SniffUdp + Data) on QUIC Initial packets
// built by the independent encoders of c06_gen_test.go — and writes one op line + one answer line
// per case; the Lean driver c06drv answers the same op lines from the proved model.
// Op grammar: lean/DaeVerif/C06/Main.lean.

import (
	"bytes"
	"context"
	"encoding/hex"
	"errors"
	"fmt"
	"io"
	"io/fs"
	"net"
	"os"
	"strings"
	"testing"
	"time"

	"github.com/daeuniverse/dae/component/sniffing/internal/quicutils"
)

// ------------------------------------------------------------------ canonical forms

var c06ErrRst = errors.New("c06: connection reset by peer")

type c06TimeoutErr struct{}

func (c06TimeoutErr) Error() string   { return "c06: i/o timeout" }
func (c06TimeoutErr) Timeout() bool   { return true }
func (c06TimeoutErr) Temporary() bool { return true }
func (c06TimeoutErr) Is(t error) bool { return t == os.ErrDeadlineExceeded }

func c06Err(err error) string {
	var ne net.Error
	switch {
	case err == nil:
		return "-"
	case errors.Is(err, context.DeadlineExceeded), errors.As(err, &ne) && ne.Timeout():
		return "timeout"
	case errors.Is(err, c06ErrRst):
		return "io"
	case errors.Is(err, ErrNotFound):
		return "nf"
	case errors.Is(err, ErrNotApplicable):
		return "na"
	case errors.Is(err, ErrNeedMore):
		return "needmore"
	case errors.Is(err, quicutils.ErrMissingCrypto):
		return "missing"
	case errors.Is(err, fs.ErrClosed):
		return "closed"
	case errors.Is(err, quicutils.ErrUnknownFrameType):
		return "unknownframe"
	case errors.Is(err, io.ErrUnexpectedEOF), errors.Is(err, quicutils.ErrOutOfRange):
		return "eof"
	case errors.Is(err, io.EOF):
		return "-"
	}
	return "other:" + strings.ReplaceAll(err.Error(), " ", "_")
}

func c06Res(d string, err error) string {
	if err != nil {
		return "err:" + c06Err(err)
	}
	return "ok:" + c06Hex([]byte(d))
}

// a panic caused by an out-of-range slice/index is the model's `oob`; anything else is a crash.
func c06Guard(f func() string) (out string) {
	defer func() {
		if r := recover(); r != nil {
			msg := fmt.Sprint(r)
			if strings.Contains(msg, "out of range") {
				out = "err:oob"
			} else {
				out = "crash:" + strings.ReplaceAll(msg, " ", "_")
			}
		}
	}()
	return f()
}

func c06NonASCII(b []byte) bool {
	for _, c := range b {
		if c >= 0x80 {
			return true
		}
	}
	return false
}

func c06Exact(b []byte) []byte {
	c := make([]byte, len(b))
	copy(c, b)
	return c[:len(b):len(b)]
}

func c06StartsWithMethod(b []byte) bool {
	if len(b) > 12 {
		b = b[:12]
	}
	i := bytes.IndexByte(b, ' ')
	if i < 0 {
		return false
	}
	for _, m := range c06Methods {
		if string(b[:i]) == m {
			return true
		}
	}
	return false
}

// ------------------------------------------------------------------ scripted connection

type c06Ev struct {
	kind byte // 'd' data, 'e' EOF, 's' stall (nothing before the deadline), 'r' reset
	data []byte
}

func (e c06Ev) String() string {
	if e.kind == 'd' {
		return "d:" + c06Hex(e.data)
	}
	return string(e.kind)
}

type c06Conn struct {
	script   []c06Ev
	armed    bool
	log      []c06Ev // events in the order they were consumed (data events split as the reads split them)
	eofArmed bool    // an armed read already returned EOF: the next armed read hits the deadline
	closed   bool
	written     []byte // what was written towards the client
	closedWrite bool
	usable      string // filled by c06RunTcpOpt: "" or what is wrong with the server->client direction
	merge    bool // io.Reader style: the last data of the stream comes together with io.EOF (and, once
	draining bool // the relay is draining, with the reset) in one Read call
}

func (c *c06Conn) Read(p []byte) (int, error) {
	for {
		if len(c.script) == 0 || c.script[0].kind == 'e' { // client closed: sticky
			if c.armed {
				if c.eofArmed {
					return 0, c06TimeoutErr{}
				}
				c.eofArmed = true
			}
			return 0, io.EOF
		}
		ev := c.script[0]
		switch ev.kind {
		case 'd':
			n := copy(p, ev.data)
			c.log = append(c.log, c06Ev{'d', append([]byte(nil), ev.data[:n]...)})
			if n < len(ev.data) {
				c.script[0].data = ev.data[n:]
				return n, nil
			}
			c.script = c.script[1:]
			if c.merge && n > 0 {
				if len(c.script) == 0 || c.script[0].kind == 'e' {
					return n, io.EOF
				}
				if c.draining && c.script[0].kind == 'r' {
					return n, c06ErrRst
				}
			}
			return n, nil
		case 'r': // sticky: a reset connection keeps failing (the event stays at the head of the script)
			return 0, c06ErrRst
		default: // 's'
			c.script = c.script[1:]
			c.log = append(c.log, ev)
			if c.armed {
				return 0, c06TimeoutErr{}
			}
		}
	}
}
func (c *c06Conn) Write(p []byte) (int, error) {
	c.written = append(c.written, p...)
	return len(p), nil
}
func (c *c06Conn) CloseWrite() error { c.closedWrite = true; return nil }
func (c *c06Conn) Close() error      { c.closed = true; return nil }
func (c *c06Conn) LocalAddr() net.Addr                { return &net.TCPAddr{IP: net.IPv4(127, 0, 0, 1), Port: 1} }
func (c *c06Conn) RemoteAddr() net.Addr               { return &net.TCPAddr{IP: net.IPv4(127, 0, 0, 1), Port: 2} }
func (c *c06Conn) SetDeadline(t time.Time) error      { c.armed = !t.IsZero(); return nil }
func (c *c06Conn) SetReadDeadline(t time.Time) error  { c.armed = !t.IsZero(); return nil }
func (c *c06Conn) SetWriteDeadline(t time.Time) error { return nil }

// plain io.Reader (no deadlines): exercises the async read path. Only data/EOF scripts.
type c06Reader struct{ c *c06Conn }

func (r *c06Reader) Read(p []byte) (int, error) { return r.c.Read(p) }

func c06ClientBytes(script []c06Ev) (b []byte, end string) {
	for _, e := range script {
		switch e.kind {
		case 'd':
			b = append(b, e.data...)
		case 'e':
			return b, "-"
		case 'r':
			return b, "io"
		}
	}
	return b, "-"
}

func c06CopyScript(s []c06Ev) []c06Ev {
	out := make([]c06Ev, len(s))
	for i, e := range s {
		out[i] = c06Ev{e.kind, append([]byte(nil), e.data...)}
	}
	return out
}

var c06Drains = []string{"read", "writeto", "prefixread", "prefixconn"}

// one stream case: sniff, then drain the way `drain` says; returns op and impl answer.
func c06RunTcp(script []c06Ev, drain string, async bool) (op, out string) {
	return c06RunTcpOpt(script, drain, async, false, 1<<16)
}

// merge: the connection returns trailing data together with EOF / reset; readSize: buffer size of the
// relay's Read calls (small sizes drain the sniff buffer piecewise)
// tcpSink, when set, returns a connected loopback pair (server side is a *net.TCPConn to write into)
var tcpSink func() (srv *net.TCPConn, cli net.Conn, err error)

func c06RunTcpOpt(script []c06Ev, drain string, async, merge bool, readSize int) (op, out string) {
	orig := c06CopyScript(script)
	conn := &c06Conn{script: c06CopyScript(script), merge: merge}
	var cs *ConnSniffer
	if async {
		// the scripts given to the async path always complete: the timeout is never meant to fire
		cs = &ConnSniffer{Conn: conn, Sniffer: NewStreamSniffer(&c06Reader{conn}, 20*time.Second)}
	} else {
		cs = NewConnSniffer(conn, time.Hour)
	}
	out = c06Guard(func() string {
		d, err := cs.SniffTcp()
		buf := append([]byte(nil), cs.buf.Bytes()...)
		res := c06Res(d, err)
		// canonical form for names / heads that go through Go's Unicode folding (not modelled)
		if raw, terr := cs.SniffTls(); terr == nil {
			if c06NonASCII([]byte(raw)) {
				res = "nonascii"
			}
		} else if errors.Is(terr, ErrNotApplicable) && c06StartsWithMethod(buf) && c06NonASCII(buf) {
			res = "nonascii"
		}
		nm := "0"
		if err != nil && errors.Is(err, ErrNeedMore) {
			nm = "1"
		}
		armed := "0"
		if conn.armed {
			armed = "1"
		}
		derr := c06Err(cs.dataError)
		// a second SniffTcp after a name was found answers from the cache and reads nothing
		if err == nil && d != "" {
			before := len(conn.log)
			d2, err2 := cs.SniffTcp()
			if d2 != d || err2 != nil || len(conn.log) != before {
				conn.usable = fmt.Sprintf("second SniffTcp: %q %v (first %q), reads %d->%d", d2, err2, d, before, len(conn.log))
			}
		}
		var relay []byte
		var end error
		if cs.dataError != nil {
			readSize = 1 << 16 // Read hands over the buffered bytes together with the latched error: one call
		}
		p := make([]byte, readSize)
		conn.draining = true
		readLoop := func() {
			for i := 0; i < 100000; i++ {
				n, err := cs.Read(p)
				relay = append(relay, p[:n]...)
				if err != nil {
					end = err
					return
				}
			}
			end = errors.New("read loop did not end")
		}
		switch drain {
		case "read":
			readLoop()
		case "writeto":
			if tcpSink != nil {
				// the writer is a real *net.TCPConn: ConnSniffer.WriteTo takes its TCP (splice) branch
				srv, cli, terr := tcpSink()
				if terr == nil {
					done := make(chan []byte, 1)
					go func() { b, _ := io.ReadAll(cli); done <- b }()
					_, end = cs.WriteTo(srv)
					_ = srv.Close()
					relay = <-done
					_ = cli.Close()
					break
				}
			}
			var w bytes.Buffer
			_, end = cs.WriteTo(&w)
			relay = w.Bytes()
		case "prefixread":
			relay = append(relay, cs.TakeRelayPrefix()...)
			readLoop()
		case "prefixconn":
			relay = append(relay, cs.TakeRelayPrefix()...)
			var w bytes.Buffer
			_, end = cs.CopyRelayRemainder(&w, p)
			relay = append(relay, w.Bytes()...)
		}
		// the other direction and the half-close still work on the wrapped connection
		if conn.usable == "" {
			msg := []byte("HTTP/1.1 200 OK\r\n\r\nserver-to-client")
			if n, werr := cs.Write(msg[:10]); n != 10 || werr != nil {
				conn.usable = fmt.Sprintf("Write: %d %v", n, werr)
			} else if n, rerr := cs.ReadFrom(bytes.NewReader(msg[10:])); int(n) != len(msg)-10 || rerr != nil {
				conn.usable = fmt.Sprintf("ReadFrom: %d %v", n, rerr)
			} else if !bytes.Equal(conn.written, msg) {
				conn.usable = fmt.Sprintf("client received %q", conn.written)
			} else if cerr := cs.CloseWrite(); cerr != nil || !conn.closedWrite {
				conn.usable = fmt.Sprintf("CloseWrite: %v forwarded=%v", cerr, conn.closedWrite)
			}
		}
		want, wantEnd := c06ClientBytes(orig)
		intact := "0"
		if bytes.Equal(relay, want) && c06Err(end) == wantEnd {
			intact = "1"
		}
		return fmt.Sprintf("res=%s armed=%s relay=%s end=%s intact=%s # nm=%s buf=%d derr=%s", res, armed, c06Hex(relay), c06Err(end), intact, nm, len(buf), derr)
	})
	_ = cs.Close()
	if conn.usable == "" && !conn.closed {
		conn.usable = "Close did not close the wrapped connection"
	}
	if conn.usable != "" && !strings.HasPrefix(out, "crash:") {
		out += " usable=" + strings.ReplaceAll(conn.usable, " ", "_")
	}
	// the op is the script as the reads saw it, followed by what was never consumed
	evs := append(append([]c06Ev(nil), conn.log...), conn.script...)
	toks := make([]string, 0, len(evs)+2)
	toks = append(toks, "tcp", drain)
	for _, e := range evs {
		toks = append(toks, e.String())
	}
	return strings.Join(toks, " "), out
}

// ------------------------------------------------------------------ generators: names, hellos

// ------------------------------------------------------------------ generators: mutations, cuts

func (g *c06Gen) script(chunks [][]byte, tail string) []c06Ev {
	r := g.r
	var s []c06Ev
	for i, c := range chunks {
		if i > 0 && r.Chance(0.03) {
			s = append(s, c06Ev{'d', nil}) // a zero-length read
		}
		s = append(s, c06Ev{'d', c})
	}
	// what follows the sniffed prefix: application data, stalls, the end
	switch tail {
	case "more":
		for k := r.Range(1, 3); k > 0; k-- {
			if r.Chance(0.3) {
				s = append(s, c06Ev{'s', nil})
			}
			s = append(s, c06Ev{'d', g.bytes(r.Range(1, 200))})
		}
		s = append(s, c06Ev{'e', nil})
	case "eof":
		s = append(s, c06Ev{'e', nil})
	case "rst":
		s = append(s, c06Ev{'r', nil})
	case "none":
	}
	return s
}

// ------------------------------------------------------------------ HTTP heads

// ------------------------------------------------------------------ QUIC cases

func c06RunUdp(qc *c06QuicCase) (op, out string) {
	var os_ []string
	for _, se := range qc.oracle {
		if se.dead {
			continue
		}
		os_ = append(os_, fmt.Sprintf("%d:%d:%d:%s:%s", se.start, se.pnOff, se.stop, c06Hex(se.dcid), c06Hex(se.plain)))
	}
	orc := "-"
	if len(os_) > 0 {
		orc = strings.Join(os_, ",")
	}
	// the sequence handed to the sniffer: nil = CompactPacketState
	seq := qc.datagrams
	if qc.compactAt > 0 && qc.compactAt <= len(qc.datagrams) {
		seq = append(append(append([][]byte(nil), qc.datagrams[:qc.compactAt]...), nil), qc.datagrams...)
	}
	var ds []string
	for _, d := range seq {
		if d == nil {
			ds = append(ds, "C")
		} else {
			ds = append(ds, c06Hex(d))
		}
	}
	op = "udp " + orc + " " + strings.Join(ds, ",")
	out = c06Guard(func() string {
		s := NewPacketSniffer(nil, time.Hour)
		defer s.Close()
		var outs, diag []string
		var kept [][]byte
		for _, d := range seq {
			if d == nil {
				s.CompactPacketState()
				kept = nil
				continue
			}
			kept = append(kept, d)
			// the caller's buffer is recycled as soon as AppendData returns (pooled ingress buffers)
			mine := append([]byte(nil), d...)
			s.AppendData(mine)
			for i := range mine {
				mine[i] = 0xa5
			}
			name, err := s.SniffUdp()
			nm := "0"
			if s.NeedMore() {
				nm = "1"
			}
			res := c06Res(name, err)
			if err == nil {
				if raw, rerr := extractSniFromTls(quicutils.NewLinearLocator(s.quicCryptos)); rerr == nil && c06NonASCII([]byte(raw)) {
					res = "nonascii"
				}
				if c06NonASCII([]byte(name)) {
					res = "nonascii"
				}
			}
			outs = append(outs, fmt.Sprintf("%s/%s", res, nm))
			diag = append(diag, fmt.Sprintf("%d/%d", s.quicNextRead, len(s.quicCryptos)))
		}
		intact := "1"
		data := s.Data()
		if len(data) != len(kept)+1 || len(data[0]) != 0 {
			intact = "0"
		} else {
			for i, d := range kept {
				if !bytes.Equal(data[i+1], d) {
					intact = "0"
				}
			}
		}
		return strings.Join(outs, " ") + " intact=" + intact + " # " + strings.Join(diag, " ")
	})
	return op, out
}

// ------------------------------------------------------------------ the test

func c06BlocksStr(bs []*quicutils.CryptoFrameOffset) string {
	if len(bs) == 0 {
		return "-"
	}
	var p []string
	for _, b := range bs {
		p = append(p, fmt.Sprintf("%d:%s", b.UpperAppOffset, c06Hex(b.Data)))
	}
	return strings.Join(p, ",")
}

func TestVerifC06(t *testing.T) {
	seed := VSeed()
	g := &c06Gen{r: NewVRand(seed), stats: NewVStats()}
	st := VOpenStream("c06")
	defer st.Close()
	viol, _ := os.Create(VOutDir() + "/c06.viol")
	defer viol.Close()
	violation := func(format string, a ...any) {
		fmt.Fprintf(viol, format+"\n", a...)
	}
	scale := 3
	if VThorough() {
		scale = 30
	}
	scale = VEnvInt("C06_SCALE", scale)

	tlsOp := func(b []byte) string {
		out := c06Guard(func() string { return c06Res(extractSniFromTls(quicutils.BuiltinBytesLocator(c06Exact(b)))) })
		st.Emit("tls "+c06Hex(b), out)
		return out
	}
	recOp := func(b []byte) string {
		out := c06Guard(func() string {
			s := NewPacketSniffer(b, time.Hour)
			defer s.Close()
			return c06Res(s.SniffTls())
		})
		st.Emit("rec "+c06Hex(b), out)
		return out
	}
	// loopback listener for WriteTo's *net.TCPConn branch (absence is reported through a generator floor)
	var ln net.Listener
	if l, lerr := net.Listen("tcp", "127.0.0.1:0"); lerr == nil {
		ln = l
		defer ln.Close()
	}
	tcpOp := func(script []c06Ev, drain string, async bool) string {
		tcpSink = nil
		if ln != nil && drain == "writeto" && g.r.Chance(0.5) {
			tcpSink = func() (*net.TCPConn, net.Conn, error) {
				cli, err := net.Dial("tcp", ln.Addr().String())
				if err != nil {
					return nil, nil, err
				}
				srv, err := ln.Accept()
				if err != nil {
					cli.Close()
					return nil, nil, err
				}
				g.stats.Inc("tcp.writeto_real_tcpconn")
				return srv.(*net.TCPConn), cli, nil
			}
		}
		merge := g.r.Chance(0.4)
		readSize := []int{1 << 16, 1 << 16, 32 << 10, 512, 7, 1}[g.r.Intn(6)]
		if readSize < 512 && len(script) > 0 && len(script[0].data) > 600 {
			readSize = 512 // keep byte-wise drains to small cases
		}
		op, out := c06RunTcpOpt(script, drain, async, merge, readSize)
		if merge {
			g.stats.Inc("tcp.data_with_eof_or_reset")
		}
		g.stats.Inc(fmt.Sprintf("tcp.read_size.%d", readSize))
		st.Emit(op, out)
		if strings.HasPrefix(out, "crash:") {
			violation("panic in stream sniffer: %s  op: %.300s", out, op)
		} else if u := c06Field(out, "usable"); u != out {
			violation("sniffed connection not usable: %s  op: %.300s", u, op)
		} else if c06Field(out, "intact") != "1" {
			violation("relay bytes differ from what the client sent (or the stream ended differently): %.400s  op: %.400s", out, op)
		}
		return out
	}

	// ---- (0) fixed replays: the findings that were repaired in /repo
	{
		// 329a199: server_name extension with 0/1 bytes of data as the last extension
		for _, l := range []int{0, 1} {
			for _, trail := range []int{0, 1} {
				h := &c06Hello{Minor: 3, Random: make([]byte, 32), Suites: []byte{0x13, 0x01}, Comp: []byte{0},
					Exts: []c06Ext{{21, make([]byte, 7)}, {0, make([]byte, l)}}}
				body := h.Handshake()
				for k := 0; k < trail; k++ { // one stray byte inside the extensions block
					body = append(body, 0)
					n := len(body) - 4 - 2 - 32 - 1 - 4 - 2 - 2
					body[4+2+32+1+4+2], body[4+2+32+1+4+2+1] = byte(n>>8), byte(n)
				}
				tlsOp(body)
				g.stats.Inc("replay.short_sni_ext")
			}
		}
		// same at the exact end of a 4096-byte read (buffer capacity)
		h := &c06Hello{Minor: 3, Random: make([]byte, 32), Suites: []byte{0x13, 0x01}, Comp: []byte{0}}
		fill := 4096 - 5 - len((&c06Hello{Minor: 3, Random: make([]byte, 32), Suites: []byte{0x13, 0x01}, Comp: []byte{0}, Exts: []c06Ext{{21, nil}, {0, []byte{0}}}}).Handshake())
		h.Exts = []c06Ext{{21, make([]byte, fill)}, {0, []byte{0}}}
		rec := c06Record(h.Handshake(), 1)
		tcpOp([]c06Ev{{'d', rec}, {'e', nil}}, "read", false)
		// 9872939: record header + a little, nothing more before the deadline, the rest later
		for _, dr := range c06Drains {
			tcpOp([]c06Ev{{'d', []byte{22, 3, 1, 0, 100, 1, 0, 0}}, {'s', nil}, {'d', []byte("REST-OF-DATA")}, {'e', nil}}, dr, false)
			g.stats.Inc("replay.timeout_then_data")
		}
	}

	// ---- (1) ClientHellos: encoder agreement, extraction, mutations, chunkings
	nHello := 220 * scale
	for i := 0; i < nHello; i++ {
		hc := g.hello()
		hs := hc.h.Handshake()
		recMinor := byte([]int{1, 1, 3, 3, 2, 0, 4}[g.r.Intn(7)])
		rec := c06Record(hs, recMinor)
		// the Lean encoder (what the theorems quantify over) produces these very bytes
		st.Emit(fmt.Sprintf("chenc %d %s", recMinor, hc.structT), fmt.Sprintf("bytes=%s want=%s", c06Hex(rec), c06WantStr(hc)))
		out := tlsOp(hs)
		c06CheckExpect(violation, "extractSniFromTls", out, hc, false, hs)
		recOp(rec)
		g.stats.Sample("tls " + c06Hex(hs[:min(len(hs), 64)]) + "…")
		// mutations of the handshake message and of the record
		for k := 0; k < 3; k++ {
			m, cls := g.mutate(hs)
			tlsOp(m)
			g.stats.Inc("tls.mutation." + cls)
		}
		m, cls := g.mutate(rec)
		recOp(m)
		g.stats.Inc("rec.mutation." + cls)
		// through the stream sniffer, cut into reads
		for k := 0; k < 2; k++ {
			chunks, ccls := g.cuts(rec)
			tail := []string{"more", "more", "eof", "rst", "none"}[g.r.Intn(5)]
			drain := c06Drains[g.r.Intn(len(c06Drains))]
			out := tcpOp(g.script(chunks, tail), drain, false)
			g.stats.Inc("tcp.cuts." + ccls)
			g.stats.Inc("tcp.tail." + tail)
			g.stats.Inc("tcp.drain." + drain)
			if len(chunks[0]) >= 5 {
				c06CheckExpect(violation, "SniffTcp/"+ccls, c06Field(out, "res"), hc, true, rec)
			}
		}
		// with a stall somewhere between the chunks (sniff times out, relay must still work)
		if g.r.Chance(0.5) {
			chunks, _ := g.cuts(rec)
			s := g.script(chunks, "more")
			at := g.r.Intn(len(s))
			s = append(s[:at:at], append([]c06Ev{{'s', nil}}, s[at:]...)...)
			tcpOp(s, c06Drains[g.r.Intn(len(c06Drains))], false)
			g.stats.Inc("tcp.stall_inserted")
		}
		// mutated record through the stream sniffer
		if g.r.Chance(0.5) {
			m, _ := g.mutate(rec)
			chunks, _ := g.cuts(m)
			if len(m) > 0 {
				tcpOp(g.script(chunks, []string{"more", "eof", "rst"}[g.r.Intn(3)]), c06Drains[g.r.Intn(len(c06Drains))], false)
				g.stats.Inc("tcp.mutated_record")
			}
		}
	}
	// async read path (reader without deadlines): data/EOF scripts only, a 20 s wall-clock timeout that only a >20 s stall of the process could fire
	for i := 0; i < 6*scale; i++ {
		hc := g.hello()
		rec := c06Record(hc.h.Handshake(), 1)
		chunks, _ := g.cuts(rec)
		tcpOp(g.script(chunks, "eof"), []string{"read", "prefixread"}[g.r.Intn(2)], true)
		g.stats.Inc("tcp.async")
	}

	// ---- (2) HTTP heads
	for i := 0; i < 150*scale; i++ {
		b, exp, cls := g.httpHead()
		out := c06Guard(func() string {
			if c06NonASCII(b) {
				return "nonascii"
			}
			s := NewPacketSniffer(b, time.Hour)
			defer s.Close()
			return c06Res(s.SniffHttp())
		})
		st.Emit("http "+c06Hex(b), out)
		g.stats.Inc(cls)
		tail := []string{"more", "eof", "none"}[g.r.Intn(3)]
		tout := tcpOp(g.script([][]byte{b}, tail), c06Drains[g.r.Intn(len(c06Drains))], false)
		if exp != "?" {
			want := "ok:" + c06Hex([]byte(exp))
			if exp == "nf" {
				want = "err:nf"
			}
			if got := c06Field(tout, "res"); got != want && !(want == "err:nf" && (got == "err:na" || got == "err:needmore")) {
				violation("HTTP head in one read: SniffTcp answered %s, the Host header says %s; head %q", got, want, b)
			}
		}
		// the same head cut into two reads: the answer is the carried Host or "not found" (the
		// head did not arrive in one read), never a different name
		if exp != "?" {
			cut := g.r.Intn(len(b) + 1)
			if i := bytes.Index(bytes.ToLower(b), []byte("\r\nhost")); i >= 0 && g.r.Chance(0.7) {
				j := bytes.Index(b[i+2:], []byte("\r\n"))
				cut = i + 2 + g.r.Intn(j+3)
			}
			if cut > 0 && cut < len(b) {
				cout := tcpOp(g.script([][]byte{b[:cut], b[cut:]}, "more"), c06Drains[g.r.Intn(len(c06Drains))], false)
				g.stats.Inc("http.cut_in_two")
				want := "ok:" + c06Hex([]byte(exp))
				got := c06Field(cout, "res")
				if got != want && got != "err:nf" && got != "err:na" && got != "err:needmore" && got != "err:timeout" {
					violation("HTTP head cut at %d: SniffTcp answered %s, the Host header says %s; head %q", cut, got, want, b)
				}
			}
		}
		// cut / mutated heads: must not crash, must replay
		if g.r.Chance(0.4) {
			m, mc := g.mutate(b)
			out := c06Guard(func() string {
				if c06NonASCII(m) {
					return "nonascii"
				}
				s := NewPacketSniffer(m, time.Hour)
				defer s.Close()
				return c06Res(s.SniffHttp())
			})
			st.Emit("http "+c06Hex(m), out)
			g.stats.Inc("http.mutation." + mc)
			chunks, _ := g.cuts(m)
			if len(m) > 0 {
				tcpOp(g.script(chunks, "more"), c06Drains[g.r.Intn(len(c06Drains))], false)
			}
		}
	}
	// directed scenario for the open finding c06-http-method-outside-list: registered HTTP/1 methods that
	// are not among the sixteen of common.IsValidHttpMethod, head in ONE read
	if kf, kerr := os.Create(VOutDir() + "/c06.known"); kerr == nil {
		for _, m := range []string{"MKCOL", "MOVE", "PROPPATCH", "REPORT", "SEARCH", "MKCALENDAR", "QUERY"} {
			head := []byte(m + " /dav/x HTTP/1.1\r\nHost: dav.example.org\r\nContent-Length: 0\r\n\r\n")
			_, out := c06RunTcpOpt([]c06Ev{{'d', head}, {'e', nil}}, "read", false, false, 1<<16)
			if got := c06Field(out, "res"); got != "ok:"+c06Hex([]byte("dav.example.org")) {
				fmt.Fprintf(kf, "c06-http-method-outside-list %s head in one read: SniffTcp answered %s, the Host header says dav.example.org (relay intact=%s)\n", m, got, c06Field(out, "intact"))
			}
			g.stats.Inc("http.directed_method_outside_list")
		}
		kf.Close()
	}
	// NormalizeDomain
	for i := 0; i < 120*scale; i++ {
		nm, _, cls := g.name()
		if g.r.Chance(0.3) {
			nm, _ = g.mutate(nm)
		}
		out := "nonascii"
		if !c06NonASCII(nm) {
			out = "ok:" + c06Hex([]byte(NormalizeDomain(string(nm))))
		}
		st.Emit("norm "+c06Hex(nm), out)
		g.stats.Inc("norm." + cls)
	}

	// ---- (3) neither TLS nor HTTP: random bytes, short inputs, near misses
	for i := 0; i < 120*scale; i++ {
		var b []byte
		switch g.r.Intn(6) {
		case 0:
			b = g.bytes(g.r.Range(0, 12))
		case 1:
			b = g.bytes(g.r.Range(13, 600))
		case 2:
			b = append([]byte{22, 3, byte(g.r.Intn(5))}, g.bytes(g.r.Range(0, 80))...)
		case 3:
			b = append([]byte{22, 3, 1, 0, byte(g.r.Range(0, 60)), 1, 0, 0, byte(g.r.Intn(60)), 3, byte(g.r.Intn(5))}, g.bytes(g.r.Range(0, 80))...)
		case 4:
			b = []byte("SSH-2.0-OpenSSH_9.6\r\n")
		default:
			b = append([]byte(c06Methods[g.r.Intn(len(c06Methods))]+[]string{" ", "  ", "", "X "}[g.r.Intn(4)]), g.bytes(g.r.Range(0, 40))...)
		}
		tlsOp(b)
		recOp(b)
		if len(b) > 0 {
			chunks, _ := g.cuts(b)
			tcpOp(g.script(chunks, []string{"more", "eof", "rst", "none"}[g.r.Intn(4)]), c06Drains[g.r.Intn(len(c06Drains))], false)
		} else {
			tcpOp(g.script(nil, "eof"), c06Drains[g.r.Intn(len(c06Drains))], false)
		}
		g.stats.Inc("junk")
	}

	// ---- (4) QUIC: varints, frames, reassembly, locator, packets
	for i := 0; i < 60*scale; i++ {
		b := g.bytes(g.r.Range(0, 9))
		v, n, err := quicutils.BigEndianUvarint(b)
		out := fmt.Sprintf("ok %d %d", v, n)
		if err != nil {
			out = "err:" + c06Err(err)
		}
		st.Emit("uvar "+c06Hex(b), out)
	}
	for i := 0; i < 160*scale; i++ {
		hc := g.hello()
		hs := hc.h.Handshake()
		frames, fcls := g.quicFrames(hs)
		// direct reassembly in two steps (existing offsets + new payload)
		split := g.r.Intn(len(frames) + 1)
		enc := func(fs []c06Frame) []byte {
			var p []byte
			for _, f := range fs {
				if g.r.Chance(0.3) {
					p = append(p, make([]byte, g.r.Range(1, 9))...)
				}
				if g.r.Chance(0.1) {
					p = append(p, 1)
				}
				p = append(p, c06CryptoFrame(uint64(f.off), f.data, 0, 0)...)
			}
			return p
		}
		p1, p2 := enc(frames[:split]), enc(frames[split:])
		if g.r.Chance(0.15) { // frame-level corruption
			p2, _ = g.mutate(p2)
			g.stats.Inc("frames.mutated")
		} else if g.r.Chance(0.05) {
			p2 = append(p2, []byte{0x1c, 0x1d, 0x02}[g.r.Intn(3)], 0, 0)
			g.stats.Inc("frames.close_or_unknown")
		}
		var cur []*quicutils.CryptoFrameOffset
		step := func(p []byte) {
			op := "frames " + c06BlocksStr(cur) + " " + c06Hex(p)
			out := c06Guard(func() string {
				nw, err := quicutils.ReassembleCryptos(cur, c06Exact(p))
				if err != nil {
					return "err:" + c06Err(err)
				}
				cur = nw
				return "ok " + c06BlocksStr(nw)
			})
			st.Emit(op, out)
		}
		step(p1)
		// the locator over a partial stream
		st.Emit("qext "+c06BlocksStr(cur), c06Guard(func() string { return c06Res(extractSniFromTls(quicutils.NewLinearLocator(cur))) }))
		step(p2)
		out := c06Guard(func() string { return c06Res(extractSniFromTls(quicutils.NewLinearLocator(cur))) })
		st.Emit("qext "+c06BlocksStr(cur), out)
		g.stats.Inc("frames." + strings.SplitN(fcls, "+", 2)[0])
		// gaps: drop one frame and look again
		if len(frames) > 1 {
			drop := g.r.Intn(len(frames))
			var rest []c06Frame
			rest = append(rest, frames[:drop]...)
			rest = append(rest, frames[drop+1:]...)
			nw, err := quicutils.ReassembleCryptos(nil, enc(rest))
			if err == nil {
				st.Emit("qext "+c06BlocksStr(nw), c06Guard(func() string { return c06Res(extractSniFromTls(quicutils.NewLinearLocator(nw))) }))
				g.stats.Inc("qext.gap")
			}
		}
	}
	// frame encoders: the Lean encoder of the theorems produces the bytes of the independent Go
	// encoder, and the real frame walker finds exactly the CRYPTO frames that were put in
	for i := 0; i < 60*scale; i++ {
		var payload []byte
		var its, want []string
		for k := g.r.Intn(5); k > 0; k-- {
			pad := 0
			if g.r.Chance(0.5) {
				pad = g.r.Range(1, 20)
			}
			payload = append(payload, make([]byte, pad)...)
			if g.r.Chance(0.2) {
				payload = append(payload, 1)
				its = append(its, fmt.Sprintf("p%dG", pad))
				continue
			}
			ko, kl := g.r.Intn(4), g.r.Intn(4)
			off := uint64(g.r.Intn(1 << 13))
			if ko == 0 {
				off &= 63
			}
			data := g.bytes(g.r.Intn(50))
			payload = append(payload, c06CryptoFrame(off, data, 1<<uint(ko), 1<<uint(kl))...)
			its = append(its, fmt.Sprintf("p%dC%d.%s.%d.%d", pad, off, c06Hex(data), ko, kl))
			want = append(want, fmt.Sprintf("%d:%s", off, c06Hex(data)))
		}
		tp := g.r.Intn(3) * g.r.Intn(30)
		payload = append(payload, make([]byte, tp)...)
		it := "-"
		if len(its) > 0 {
			it = strings.Join(its, ",")
		}
		out := c06Guard(func() string {
			var got []string
			for p := 0; p < len(payload); {
				o, sz, err := quicutils.ExtractCryptoFrameOffset(payload[p:], p)
				if err != nil {
					return "err:" + c06Err(err)
				}
				if o != nil {
					got = append(got, fmt.Sprintf("%d:%s", o.UpperAppOffset, c06Hex(o.Data)))
				}
				p += sz
			}
			fr := "-"
			if len(got) > 0 {
				fr = strings.Join(got, ",")
			}
			return fmt.Sprintf("bytes=%s frames=%s", c06Hex(payload), fr)
		})
		st.Emit(fmt.Sprintf("fenc %d %s", tp, it), out)
		g.stats.Inc("fenc")
	}
	// long-header encoder: the Lean encoder of `quic_header_walk_roundtrip` produces the bytes of the
	// independent Go encoder (first byte as protected on the wire)
	for i := 0; i < 40*scale; i++ {
		version := []uint32{c06QuicV1, c06QuicV1, c06QuicV2}[g.r.Intn(3)]
		pk := &c06QuicPacket{Version: version, Dcid: g.bytes([]int{0, 1, 8, 8, 20}[g.r.Intn(5)]), Scid: g.bytes([]int{0, 0, 8, 20}[g.r.Intn(4)]),
			PnLen: g.r.Range(1, 4), LenSz: []int{0, 2, 4, 8}[g.r.Intn(4)], TokLenSz: []int{0, 0, 2, 4}[g.r.Intn(4)], Payload: g.bytes(g.r.Range(20, 1300))}
		if version == c06QuicV2 {
			pk.TypeBits = 1
		}
		if g.r.Chance(0.3) {
			pk.Token = g.bytes(g.r.Range(1, 300))
		}
		raw := pk.Seal()
		hdr := raw[:pk.PnOffset]
		tokAt := 7 + len(pk.Dcid) + len(pk.Scid)
		kTok := int(hdr[tokAt] >> 6)
		lenAt := tokAt + (1 << uint(kTok)) + len(pk.Token)
		kLen := int(hdr[lenAt] >> 6)
		ln := pk.PnLen + len(pk.Payload) + 16
		st.Emit(fmt.Sprintf("henc %d %s %s %s %s %d %d %d", hdr[0], c06Hex(hdr[1:5]), c06Hex(pk.Dcid), c06Hex(pk.Scid), c06Hex(pk.Token), kTok, kLen, ln),
			fmt.Sprintf("bytes=%s walk=%d/%d/%s", c06Hex(hdr), pk.PnOffset, pk.PnOffset+ln, c06Hex(pk.Dcid)))
		g.stats.Inc("henc")
	}
	for i := 0; i < 40*scale; i++ {
		b := g.bytes(g.r.Range(0, 40))
		if g.r.Bool() && len(b) > 5 {
			b[0] = 0xc0 | b[0]&0x3f
			if g.r.Bool() {
				copy(b[1:5], []byte{0x6b, 0x33, 0x43, 0xcf})
			}
		}
		o := "0"
		if IsLikelyQuicInitialPacket(b) {
			o = "1"
		}
		st.Emit("likely "+c06Hex(b), "- # "+o) // diagnostic: the classification matters only through udp / pkt answers
	}
	nQuic := 140 * scale
	for i := 0; i < nQuic; i++ {
		hc := g.hello()
		hs := hc.h.Handshake()
		version := uint32(c06QuicV1)
		vclass := "v1"
		switch g.r.Intn(8) {
		case 0, 1:
			version, vclass = c06QuicV2, "v2"
		case 2:
			version, vclass = 0xff00001d, "draft29" // authentic draft-29 keys
		case 3:
			version, vclass = 0x0a0a0a0a|uint32(g.r.Intn(16))<<28|uint32(g.r.Intn(16))<<20|uint32(g.r.Intn(16))<<12|uint32(g.r.Intn(16))<<4, "grease_version" // handled as v1 by the repo
		case 4:
			version, vclass = 0x12345678, "unknown_version" // ParseVersion fails: never authenticates
		}
		qc := g.quicCase(hs, version)
		if g.r.Chance(0.12) && (vclass == "v1" || vclass == "v2") { // 6-15 datagrams of 1200 bytes
			hc = g.bigHello(6000)
			hs = hc.h.Handshake()
			qc = g.quicCaseManyDatagrams(hs, version)
		}
		if vclass == "unknown_version" {
			for _, se := range qc.oracle {
				se.dead = true
			}
		}
		qc.class = append(qc.class, "version."+vclass)
		corrupt := g.r.Chance(0.2)
		if corrupt {
			g.quicCorrupt(qc)
		}
		if g.r.Chance(0.15) { // the session is compacted in mid-flight and used again
			qc.compactAt = g.r.Range(1, len(qc.datagrams))
			qc.class = append(qc.class, "compacted_then_reused")
		}
		op, out := c06RunUdp(qc)
		st.Emit(op, out)
		for _, c := range qc.class {
			g.stats.Inc("quic." + c)
		}
		g.stats.Inc(fmt.Sprintf("quic.datagrams.%d", len(qc.datagrams)))
		if strings.HasPrefix(out, "crash:") || strings.HasPrefix(out, "err:oob") {
			violation("panic in packet sniffer: %s  op: %.300s", out, op)
			continue
		} else if c06Field(out, "intact") != "1" {
			violation("datagrams kept by the packet sniffer differ from what was appended: %.300s", out)
		}
		if !corrupt && vclass != "unknown_version" && !qc.hasClose {
			// every CRYPTO byte has arrived: the last answer must be the carried name
			steps := strings.Fields(strings.SplitN(out, " # ", 2)[0])
			last := strings.SplitN(steps[len(steps)-2], "/", 2)[0]
			if hc.expect == "na" {
				hc.expect = "nf" // SniffQuic answers "not found" for every hello it cannot read a name from
			}
			c06CheckExpect(violation, "SniffUdp", last, hc, true, hs)
			if hc.expect != "?" && strings.HasSuffix(strings.Split(steps[len(steps)-2], "/")[1], "1") {
				violation("SniffUdp still asks for more datagrams after the whole ClientHello arrived: %.200s", out)
			}
		}
	}
	// non-QUIC datagrams
	for i := 0; i < 30*scale; i++ {
		qc := &c06QuicCase{}
		for k := g.r.Range(1, 3); k > 0; k-- {
			b := g.bytes(g.r.Range(1, 80))
			if g.r.Bool() {
				b[0] = 0xc0 | b[0]&0x0f
			}
			qc.datagrams = append(qc.datagrams, b)
		}
		op, out := c06RunUdp(qc)
		st.Emit(op, out)
		g.stats.Inc("quic.junk")
	}

	g.stats.Write("c06")
	if st.N < 100 {
		t.Fatalf("too few ops: %d", st.N)
	}
}

func c06Field(out, key string) string {
	for _, f := range strings.Fields(out) {
		if strings.HasPrefix(f, key+"=") {
			return f[len(key)+1:]
		}
	}
	return out
}

func c06CheckExpect(violation func(string, ...any), where, got string, hc *c06HelloCase, normalised bool, input []byte) {
	if hc.expect == "?" {
		return
	}
	want := "ok:" + c06Hex([]byte(hc.expect))
	switch hc.expect {
	case "nf":
		want = "err:nf"
	case "na":
		want = "err:na"
	}
	if !normalised && hc.expect != "nf" && hc.expect != "na" {
		// raw extraction keeps the case; compare case-insensitively
		if strings.HasPrefix(got, "ok:") {
			raw, _ := hex.DecodeString(strings.TrimPrefix(strings.TrimPrefix(got, "ok:"), "-"))
			if strings.ToLower(string(raw)) == hc.expect {
				return
			}
		}
	} else if got == want {
		return
	} else if strings.HasPrefix(want, "err:") && (got == "err:nf" || got == "err:na" || got == "err:needmore") {
		return // "no name": which sniffing error says so is outside the property
	}
	violation("%s reported %s for a ClientHello that carries %s (class %s); input %s", where, got, want, hc.class, c06Hex(input[:min(len(input), 400)]))
}
