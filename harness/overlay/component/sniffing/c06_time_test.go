package sniffing

// C06 — the stream sniffer under VIRTUAL TIME (testing/synctest).  The scripted connection delivers
// each chunk at its scheduled instant and honours the *value* handed to SetReadDeadline; the harness
// records at which (virtual) millisecond SniffTcp returned.  The Lean model `sniffTcpT` predicts
// answer and return time; independently the harness checks "returned no later than the timeout".

import (
	"bytes"
	"errors"
	"fmt"
	"io"
	"net"
	"os"
	"strings"
	"testing"
	"testing/synctest"
	"time"
)

type c06TEv struct {
	delay int // ms after the previous event
	kind  byte
	data  []byte
}

func (e c06TEv) String() string {
	if e.kind == 'd' {
		return fmt.Sprintf("%d:d:%s", e.delay, c06Hex(e.data))
	}
	return fmt.Sprintf("%d:%c", e.delay, e.kind)
}

type c06TConn struct {
	evs      []c06TEv
	nextAt   time.Time // arrival instant of evs[0]
	deadline time.Time
	start    time.Time
	noDL     bool // plain reader: deadlines unsupported (async path)
	written  []byte
	closed   bool
}

func newC06TConn(start time.Time, evs []c06TEv) *c06TConn {
	c := &c06TConn{evs: evs, start: start}
	if len(evs) > 0 {
		c.nextAt = start.Add(time.Duration(evs[0].delay) * time.Millisecond)
	} else {
		c.nextAt = start
	}
	return c
}

func (c *c06TConn) advance() {
	at := c.nextAt
	c.evs = c.evs[1:]
	if len(c.evs) > 0 {
		c.nextAt = at.Add(time.Duration(c.evs[0].delay) * time.Millisecond)
	}
}

func (c *c06TConn) Read(p []byte) (int, error) {
	for {
		now := time.Now()
		armed := !c.deadline.IsZero()
		if now.Sub(c.start) > 5*time.Second {
			// a sniffer still reading five (virtual) seconds after its creation - 20x the longest
			// timeout - never stops by itself: end it
			return 0, errors.New("c06: connection given up after 5 s")
		}
		if armed && !now.Before(c.deadline) {
			return 0, c06TimeoutErr{}
		}
		if len(c.evs) > 0 && c.nextAt.After(now) {
			if armed && !c.nextAt.Before(c.deadline) { // the deadline comes first
				time.Sleep(c.deadline.Sub(now))
				return 0, c06TimeoutErr{}
			}
			time.Sleep(c.nextAt.Sub(now))
			continue
		}
		if len(c.evs) == 0 || c.evs[0].kind == 'e' { // closed by the client: every read returns EOF
			if armed || c.noDL {
				time.Sleep(time.Millisecond) // a read takes time: the EOF spin of SniffTcp advances the clock
			}
			return 0, io.EOF
		}
		ev := c.evs[0]
		if ev.kind == 'r' {
			return 0, c06ErrRst
		}
		n := copy(p, ev.data)
		if n < len(ev.data) {
			c.evs[0].data = ev.data[n:]
			return n, nil
		}
		c.advance()
		return n, nil
	}
}
func (c *c06TConn) Write(p []byte) (int, error)   { c.written = append(c.written, p...); return len(p), nil }
func (c *c06TConn) Close() error                  { c.closed = true; return nil }
func (c *c06TConn) LocalAddr() net.Addr           { return &net.TCPAddr{IP: net.IPv4(127, 0, 0, 1), Port: 1} }
func (c *c06TConn) RemoteAddr() net.Addr          { return &net.TCPAddr{IP: net.IPv4(127, 0, 0, 1), Port: 2} }
func (c *c06TConn) SetDeadline(t time.Time) error { return c.SetReadDeadline(t) }
func (c *c06TConn) SetReadDeadline(t time.Time) error {
	if c.noDL {
		return errors.New("deadlines not supported")
	}
	c.deadline = t
	return nil
}
func (c *c06TConn) SetWriteDeadline(t time.Time) error { return nil }

type c06TReader struct{ c *c06TConn }

func (r *c06TReader) Read(p []byte) (int, error) { return r.c.Read(p) }

func c06RunTimed(D int, evs []c06TEv, drain string) (op, out string, tms int64) {
	toks := []string{"ttcp", fmt.Sprint(D), drain}
	var sent []byte
	wantEnd := "-"
	total := 0
	for _, e := range evs {
		toks = append(toks, e.String())
		total += e.delay
	}
	for _, e := range evs {
		if e.kind == 'd' {
			sent = append(sent, e.data...)
			continue
		}
		if e.kind == 'r' {
			wantEnd = "io"
		}
		break
	}
	op = strings.Join(toks, " ")
	cp := make([]c06TEv, len(evs))
	for i, e := range evs {
		cp[i] = c06TEv{e.delay, e.kind, append([]byte(nil), e.data...)}
	}
	start := time.Now()
	conn := newC06TConn(start, cp)
	var cs *ConnSniffer
	if drain == "async" {
		conn.noDL = true
		cs = &ConnSniffer{Conn: conn, Sniffer: NewStreamSniffer(&c06TReader{conn}, time.Duration(D)*time.Millisecond)}
	} else {
		cs = NewConnSniffer(conn, time.Duration(D)*time.Millisecond)
	}
	out = c06Guard(func() string {
		d, err := cs.SniffTcp()
		tms = time.Since(start).Milliseconds()
		if drain == "async" {
			// a read that was pending when the sniff timed out still owns the reader: let it finish
			// before anything else touches the sniffer (inputs of this mode are ASCII-only)
			time.Sleep(time.Duration(total+D+1000) * time.Millisecond)
			return fmt.Sprintf("res=%s t=%d", c06Res(d, err), tms)
		}
		buf := append([]byte(nil), cs.buf.Bytes()...)
		res := c06Res(d, err)
		if raw, terr := cs.SniffTls(); terr == nil {
			if c06NonASCII([]byte(raw)) {
				res = "nonascii"
			}
		} else if errors.Is(terr, ErrNotApplicable) && c06StartsWithMethod(buf) && c06NonASCII(buf) {
			res = "nonascii"
		}
		armed := "0"
		if !conn.deadline.IsZero() {
			armed = "1"
		}
		var relay []byte
		var end error
		p := make([]byte, 1<<16)
		readLoop := func() {
			for i := 0; i < 100000; i++ {
				n, err := cs.Read(p)
				relay = append(relay, p[:n]...)
				if err != nil {
					end = err
					return
				}
			}
			end = errors.New("read loop did not end")
		}
		switch drain {
		case "read":
			readLoop()
		case "writeto":
			var w bytes.Buffer
			_, end = cs.WriteTo(&w)
			relay = w.Bytes()
		case "prefixread":
			relay = append(relay, cs.TakeRelayPrefix()...)
			readLoop()
		case "prefixconn":
			relay = append(relay, cs.TakeRelayPrefix()...)
			var w bytes.Buffer
			_, end = cs.CopyRelayRemainder(&w, p)
			relay = append(relay, w.Bytes()...)
		}
		intact := "0"
		if bytes.Equal(relay, sent) && c06Err(end) == wantEnd {
			intact = "1"
		}
		return fmt.Sprintf("res=%s t=%d armed=%s relay=%s end=%s intact=%s", res, tms, armed, c06Hex(relay), c06Err(end), intact)
	})
	_ = cs.Close()
	return op, out, tms
}

func TestVerifC06Timed(t *testing.T) {
	synctest.Test(t, func(t *testing.T) {
		g := &c06Gen{r: NewVRand(VSeed() + 4242), stats: NewVStats()}
		st := VOpenStream("c06time")
		defer st.Close()
		viol, _ := os.Create(VOutDir() + "/c06time.viol")
		defer viol.Close()
		n := 400
		if VThorough() {
			n = 4000
		}
		n = VEnvInt("C06_TIMED", n)
		for i := 0; i < n; i++ {
			hc := g.hello()
			rec := c06Record(hc.h.Handshake(), 1)
			for len(rec) > 1800 {
				hc = g.hello()
				rec = c06Record(hc.h.Handshake(), 1)
			}
			var chunks [][]byte
			if g.r.Chance(0.2) {
				b, _, _ := g.httpHead()
				if len(b) > 1800 {
					b = b[:1800]
				}
				chunks = [][]byte{b}
			} else {
				chunks, _ = g.cuts(rec)
			}
			D := []int{20, 50, 100, 250}[g.r.Intn(4)]
			var evs []c06TEv
			pattern := []string{"fast", "gap_near_deadline", "trickle", "late_first_byte", "eof_after_part", "reset_after_part"}[g.r.Intn(6)]
			k := len(chunks)
			gapAt := g.r.Intn(k)
			for j, c := range chunks {
				d := g.r.Intn(3)
				switch pattern {
				case "gap_near_deadline":
					if j == gapAt {
						d = D + []int{-3, -2, -1, 1, 2, 7}[g.r.Intn(6)]
					}
				case "trickle": // every gap below the timeout, the sum above it
					d = D/max(1, k-1) + g.r.Range(1, D/2+1)
					if d >= D {
						d = D - 1
					}
				case "late_first_byte":
					if j == 0 {
						d = D + g.r.Range(-2, 30)
					}
				}
				evs = append(evs, c06TEv{d, 'd', c})
			}
			switch pattern {
			case "eof_after_part":
				cut := g.r.Range(1, len(evs))
				evs = append(evs[:cut:cut], c06TEv{g.r.Intn(D + 10), 'e', nil})
			case "reset_after_part":
				cut := g.r.Range(1, len(evs))
				evs = append(evs[:cut:cut], c06TEv{g.r.Intn(D + 10), 'r', nil})
			default:
				if g.r.Chance(0.5) {
					evs = append(evs, c06TEv{g.r.Intn(2 * D), 'd', g.bytes(g.r.Range(1, 100))})
				}
				evs = append(evs, c06TEv{g.r.Intn(3), 'e', nil})
			}
			// an event that lands exactly on the deadline is a coin toss between two timers: avoid
			at := 0
			for j := range evs {
				at += evs[j].delay
				if at == D {
					evs[j].delay++
					at++
				}
			}
			drain := c06Drains[g.r.Intn(len(c06Drains))]
			if g.r.Chance(0.12) && pattern != "reset_after_part" && hc.class != "nonascii" && len(chunks) > 0 && chunks[0][0] == 22 {
				drain = "async"
			}
			op, out, tms := c06RunTimed(D, evs, drain)
			st.Emit(op, out)
			g.stats.Inc("timed." + pattern)
			g.stats.Inc("timed.drain." + drain)
			if strings.Contains(out, "res=err:timeout") {
				g.stats.Inc("timed.answer.timeout")
			}
			if strings.HasPrefix(out, "crash:") {
				fmt.Fprintf(viol, "panic in stream sniffer (timed): %s  op: %.300s\n", out, op)
				continue
			}
			if tms > int64(D) {
				fmt.Fprintf(viol, "SniffTcp returned after %d ms with a sniffing timeout of %d ms (%s): %.200s  op: %.300s\n", tms, D, pattern, out, op)
			}
			if drain != "async" && c06Field(out, "intact") != "1" {
				fmt.Fprintf(viol, "relay bytes differ from what the client sent (timed, %s): %.300s  op: %.300s\n", pattern, out, op)
			}
		}
		g.stats.Write("c06time")
	})
}
