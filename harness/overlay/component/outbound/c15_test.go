package outbound

// C15 correspondence harness (package outbound, white-box through `go test -overlay`; the file
// harness/overlay/component/outbound/dialer/c15_shim.go is added to package dialer the same way).
//
// Real code exercised: dialer.NewDialerContext, Dialer.markAvailable / markUnavailableInternal /
// ReportAvailableTraffic / informDialerGroupUpdate, LatenciesN, snapshotLatencyForPolicy,
// AliveDialerSet (NotifyLatencyChange, calcMinLatency, GetMinLatency, GetRandExcluded, Len,
// SortingLatency, SetSelectionPolicy), NewDialerGroup, DialerGroup.SetSelectionPolicy,
// SelectWithExclusionResult / _select / selectionNetworkTypes / preferAlternateSelectionNetworkType.
//
// Op grammar (one per line, answered by lean/DaeVerif/C15/Main.lean):
//   world <n>                                  n fresh dialers, all six health domains alive
//   group <tol> <policy> <fixedIdx> <offs|->   NewDialerGroup(tolerance, policy, add_latency offsets)
//   sample <type> <dialer> <latency>           successful probe: markAvailable + inform
//   told <type> <dialer> <0|1>                 a failure/traffic report after which the sets are told `alive`
//   pen <type> <dialer> <ns>                   backoff penalty of the dialer for that domain changed
//   policy <policy> <fixedIdx>                 DialerGroup.SetSelectionPolicy
//   sel <t|u> <4|6> <isDns> <dom> <strict> <excl|->   SelectWithExclusionResult
//   rand <type> <excl|->                       GetRandExcluded on one set (distinct answers of several draws)
//   same <type>                                nothing happened (a probe that was skipped): print the set again
//   restore <dialer> <a;ma;l,l,..|..x6>        RestoreHealthSnapshot with these six collections (type order)
//   capture                                    CaptureReloadSelectionFallback (answer: the recorded node per type)
//   floor <f0,..,f5>                           EnsureReloadSelectionFloor with that fallback (- = none)
// Stream c15g2 carries the same grammar for the second group of a scenario (dialer indices of that group).
// Latencies print as `T` when equal to dialer.Timeout; "nobody" prints as `nil` without a latency.
// type: 0 dns-udp4 1 dns-udp6 2 tcp4 3 tcp6 4 data-udp4 5 data-udp6.  All times in ns.

import (
	"context"
	"errors"
	"fmt"
	"io"
	"sort"
	"strconv"
	"strings"
	"testing"
	"time"

	"github.com/daeuniverse/dae/common/consts"
	"github.com/daeuniverse/dae/component/outbound/dialer"
	"github.com/daeuniverse/dae/config"
	"github.com/daeuniverse/dae/pkg/config_parser"
	"github.com/daeuniverse/outbound/netproxy"
	"github.com/sirupsen/logrus"
)

type c15Noop struct{}

func (c15Noop) DialContext(context.Context, string, string) (netproxy.Conn, error) {
	return nil, errors.New("not implemented")
}

var c15PolicyNames = []consts.DialerSelectionPolicy{
	consts.DialerSelectionPolicy_Random,
	consts.DialerSelectionPolicy_Fixed,
	consts.DialerSelectionPolicy_MinLastLatency,
	consts.DialerSelectionPolicy_MinAverage10Latencies,
	consts.DialerSelectionPolicy_MinMovingAverageLatencies,
}

const c15Hour = int64(time.Hour)

type c15World struct {
	n        int
	opt      *dialer.GlobalOption
	dialers  []*dialer.Dialer
	foreign  *dialer.Dialer
	types    [6]*dialer.NetworkType
	g        *DialerGroup
	cbs      []string
	pens     [][6]int64
	policy   consts.DialerSelectionPolicy
	lastSel  int
	big      bool
	lastBest map[int]string
	// a second group sharing some of the dialers (own stream, own model world): every report about a
	// shared dialer must reach the sets of BOTH groups
	sec    *c15World
	ownIdx int         // in a second group: index of the dialer only it has (-1: none)
	secIdx map[int]int // primary dialer index -> index in the second group
	st     *VStream
	stats  *VStats
	// concurrency extension (c15conc_test.go): callback-window actions, reports taken and delivered
	// separately; cbHook is called from the group's aliveChangeCallback (i.e. inside the window)
	conc     *c15Conc
	cbHook   func(tIdx int, alive, isInit bool)
	logInfo  bool
	useAlias bool // the next report names TCP by its TCP-DNS network type (same health domain)
}

// nt: the network type a report is made with: the standard one of the health domain, or — for the TCP
// domains, when useAlias is set — the TCP-DNS type {tcp, IsDns:true}, which shares the domain.
func (w *c15World) nt(t int) *dialer.NetworkType {
	if w.useAlias && (t == 2 || t == 3) {
		a := *w.types[t]
		a.IsDns = true
		if a.Index() == w.types[t].Index() {
			w.stats.Inc("ev.report_named_tcp_dns_alias")
			return &a
		}
	}
	return w.types[t]
}

func c15NewDialer(opt *dialer.GlobalOption, name string) *dialer.Dialer {
	// An already-cancelled context: the recovery-confirmation timers (C16's subject) are never
	// armed, so nothing changes a dialer's state behind the harness's back.
	ctx, cancel := context.WithCancel(context.Background())
	cancel()
	p := &dialer.Property{}
	p.Name = name
	return dialer.NewDialerContext(ctx, c15Noop{}, opt, dialer.InstanceOption{DisableCheck: true}, p)
}

func c15NewWorld(st *VStream, stats *VStats, n int, logInfo bool, big bool) *c15World {
	lg := logrus.New()
	lg.SetOutput(io.Discard)
	if logInfo {
		lg.SetLevel(logrus.InfoLevel) // run the logging branches (printLatencies, name lookups) too
	} else {
		lg.SetLevel(logrus.PanicLevel)
	}
	w := &c15World{n: n, st: st, stats: stats, lastSel: -1, lastBest: map[int]string{}, logInfo: logInfo}
	w.opt = &dialer.GlobalOption{Log: lg, CheckInterval: 30 * time.Second}
	if big {
		// a long check interval lets the backoff penalty take several values (1 s .. 20 s)
		w.opt.CheckInterval = 10 * time.Minute
	}
	w.big = big
	for i := 0; i < n; i++ {
		w.dialers = append(w.dialers, c15NewDialer(w.opt, "n"+strconv.Itoa(i)))
	}
	w.foreign = c15NewDialer(w.opt, "foreign")
	w.types = standardSelectionNetworkTypes()
	w.pens = make([][6]int64, n)
	st.Emit(fmt.Sprintf("world %d", n), "ok")
	return w
}

// position of the health domain in StandardHealthKeys order (no assumption on collection slot numbers)
func (w *c15World) typeIdx(nt *dialer.NetworkType) int {
	for i, t := range w.types {
		if t.Index() == nt.Index() {
			return i
		}
	}
	return -9
}

func (w *c15World) dialerIdx(d *dialer.Dialer) int {
	for i, x := range w.dialers {
		if x == d {
			return i
		}
	}
	if d == w.foreign {
		return w.n
	}
	return -7
}

func (w *c15World) takeCbs() string {
	s := "cb=[" + strings.Join(w.cbs, ",") + "]"
	w.cbs = w.cbs[:0]
	return s
}

func (w *c15World) setDump(t int) string {
	if w.g == nil {
		return "nogroup"
	}
	set := w.g.currentSelectionState().aliveDialerSets[w.types[t].Index()]
	if set == nil {
		return "nosets"
	}
	return dialer.VerifC15SetDump(set, w.dialers)
}

func (w *c15World) groupDump() string {
	if w.g.currentSelectionState().aliveDialerSets[w.types[0].Index()] == nil {
		return "nosets"
	}
	parts := make([]string, 6)
	for t := 0; t < 6; t++ {
		parts[t] = w.setDump(t)
	}
	return strings.Join(parts, " | ")
}

// c15ParsePolicy builds the policy the way the configuration does: through the real
// NewDialerSelectionPolicyFromGroupParam from a group's `policy:` parameter (`min_avg10`, `fixed(3)`).
func c15ParsePolicy(pol consts.DialerSelectionPolicy, fixedIdx int) DialerSelectionPolicy {
	var param config.FunctionListOrString = string(pol)
	if pol == consts.DialerSelectionPolicy_Fixed {
		param = &config_parser.Function{Name: "fixed", Params: []*config_parser.Param{{Val: strconv.Itoa(fixedIdx)}}}
	}
	p, err := NewDialerSelectionPolicyFromGroupParam(&config.Group{Policy: param})
	if err != nil || p == nil {
		panic(fmt.Sprintf("policy %v(%d) rejected by the parser: %v", pol, fixedIdx, err))
	}
	return *p
}

func (w *c15World) makeGroup(tol int64, pol consts.DialerSelectionPolicy, fixedIdx int, offs []int64) {
	w.opt.CheckTolerance = time.Duration(tol)
	ann := make([]*dialer.Annotation, w.n)
	os := make([]string, w.n)
	for i := range ann {
		ann[i] = &dialer.Annotation{AddLatency: time.Duration(offs[i])}
		os[i] = strconv.FormatInt(offs[i], 10)
	}
	offStr := strings.Join(os, ",")
	if w.n == 0 {
		offStr = "-"
	}
	op := fmt.Sprintf("group %d %s %d %s", tol, pol, fixedIdx, offStr)
	out := VRecover(func() string {
		w.g = NewDialerGroup(w.opt, "g", w.dialers, ann, c15ParsePolicy(pol, fixedIdx),
			func(alive bool, nt *dialer.NetworkType, isInit bool) {
				s := strconv.Itoa(w.typeIdx(nt))
				if alive {
					s += "+"
				} else {
					s += "-"
				}
				if isInit {
					s += "i"
				}
				w.cbs = append(w.cbs, s)
				if w.cbHook != nil {
					w.cbHook(w.typeIdx(nt), alive, isInit)
				}
			})
		w.policy = pol
		return w.takeCbs() + " " + w.groupDump()
	})
	w.st.Emit(op, out)
}

func c15BestOf(dump string) string {
	i := strings.Index(dump, " best=")
	if i < 0 {
		return ""
	}
	rest := dump[i+6:]
	if j := strings.IndexByte(rest, ':'); j >= 0 {
		return rest[:j]
	}
	return ""
}

func (w *c15World) afterTell(t, d int) string {
	if w.g == nil {
		return "nogroup"
	}
	dump := w.setDump(t)
	// distribution of what happened to the cached choice of this domain (min policies)
	if strings.Contains(dump, " pol=min") {
		b := c15BestOf(dump)
		prev, seen := w.lastBest[t]
		switch {
		case !seen || prev == b:
			w.stats.Inc("best.unchanged")
		case b == "nil":
			w.stats.Inc("best.to_nil")
		case prev == "nil":
			w.stats.Inc("best.from_nil")
		default:
			w.stats.Inc("best.switched")
		}
		w.lastBest[t] = b
	} else {
		delete(w.lastBest, t)
	}
	return w.takeCbs() + " " + dump
}

func (w *c15World) syncPens(d int) {
	for t := 0; t < 6; t++ {
		v := int64(dialer.VerifC15Penalty(w.dialers[d], w.types[t]))
		if v != w.pens[d][t] {
			w.pens[d][t] = v
			w.st.Emit(fmt.Sprintf("pen %d %d %d", t, d, v), "ok")
			w.mirror(d, func(s *c15World, d2 int) { s.st.Emit(fmt.Sprintf("pen %d %d %d", t, d2, v), "ok") })
			w.stats.Inc("ev.penalty_change")
		}
	}
}

// mirror: the same event as seen by the second group (if the dialer is one of its members)
func (w *c15World) mirror(d int, f func(s *c15World, d2 int)) {
	if w.sec == nil {
		return
	}
	if d2, ok := w.secIdx[d]; ok {
		f(w.sec, d2)
	}
}

func (w *c15World) mirrorTold(t, d int, op string) {
	w.mirror(d, func(s *c15World, d2 int) {
		s.st.Emit(fmt.Sprintf(op, t, d2), VRecover(func() string { return s.afterTell(t, d2) }))
	})
}

func (w *c15World) sample(t, d int, lat int64) {
	w.winArm(t)
	out := VRecover(func() string {
		dialer.VerifC15Sample(w.dialers[d], w.nt(t), time.Duration(lat))
		return w.afterTell(t, d)
	})
	w.winEmit(t, fmt.Sprintf("sample %d %d %d", t, d, lat), out)
	w.mirrorTold(t, d, "sample %d %d "+strconv.FormatInt(lat, 10))
	w.syncPens(d)
}

// probe goes through the REAL Dialer.Check: whether and what the sets are told is decided by the
// production code; the latency is the one Check measured itself (read back from the collection).
func (w *c15World) probe(t, d int, outcome int, periodic, resus bool) {
	var kind string
	var lat time.Duration
	var alive bool
	if outcome == 2 {
		// the penalty the sets will read is the one after the failure is recorded: no window here
		// (the `pen` line has to precede the `told` line), see fail() for windowed failures
	} else {
		w.winArm(t)
	}
	pre := VRecover(func() string {
		kind, lat, alive = dialer.VerifC15Probe(w.dialers[d], w.nt(t), outcome, periodic, resus)
		return ""
	})
	if pre != "" {
		w.winEmit(t, fmt.Sprintf("told %d %d 0", t, d), pre)
		return
	}
	w.stats.Inc("ev.probe_via_check." + kind)
	if periodic {
		w.stats.Inc("ev.probe_periodic_cycle")
	}
	switch kind {
	case "sample":
		w.winEmit(t, fmt.Sprintf("sample %d %d %d", t, d, int64(lat)), VRecover(func() string { return w.afterTell(t, d) }))
		w.mirrorTold(t, d, "sample %d %d "+strconv.FormatInt(int64(lat), 10))
		w.syncPens(d)
	case "told":
		w.syncPens(d) // the penalty moves before the sets are told
		a := "0"
		if alive {
			a = "1"
		}
		w.st.Emit(fmt.Sprintf("told %d %d %s", t, d, a), VRecover(func() string { return w.afterTell(t, d) }))
		w.mirrorTold(t, d, "told %d %d "+a)
	default:
		// skip: nothing may have changed; `same` asks the model to print the domain's set again
		w.winDisarm()
		w.st.Emit(fmt.Sprintf("same %d", t), VRecover(func() string {
			if w.g == nil {
				return "nogroup"
			}
			return w.takeCbs() + " " + w.setDump(t)
		}))
		w.mirror(d, func(s *c15World, d2 int) {
			s.st.Emit(fmt.Sprintf("same %d", t), VRecover(func() string {
				if s.g == nil {
					return "nogroup"
				}
				return s.takeCbs() + " " + s.setDump(t)
			}))
		})
	}
}

// ---- reload hand-over (dialer.go RestoreHealthSnapshot / MarkAliveForReloadFallback,
// dialer_group.go CaptureReloadSelectionFallback / EnsureReloadSelectionFloor)

// c15SnapString renders the six collections of a health snapshot in type order as
// `alive;movingAverage;l1,l2,...` (latencies oldest first); ok=false when the TCP-DNS alias slots
// disagree with the TCP slots (never the case for snapshots taken from a dialer).
func c15SnapString(types [6]*dialer.NetworkType, snap dialer.DialerHealthSnapshot) (string, bool) {
	parts := make([]string, 6)
	for t := 0; t < 6; t++ {
		c := snap.Collections[types[t].Index()]
		ls := c.Latencies.Latencies
		if len(ls) >= 10 && c.Latencies.Head > 0 && c.Latencies.Head < len(ls) {
			ls = append(append([]time.Duration{}, ls[c.Latencies.Head:]...), ls[:c.Latencies.Head]...)
		}
		xs := make([]string, len(ls))
		for i, l := range ls {
			xs[i] = strconv.FormatInt(int64(l), 10)
		}
		parts[t] = fmt.Sprintf("%s;%d;%s", c15B(c.Alive), int64(c.MovingAverage), strings.Join(xs, ","))
	}
	// alias slots (TCP-DNS) must agree with the TCP slots they alias, whatever their numbers are
	ok := true
	for _, al := range []int{dialer.IdxDnsTcp4, dialer.IdxDnsTcp6} {
		tcp := types[2].Index()
		if al == dialer.IdxDnsTcp6 {
			tcp = types[3].Index()
		}
		if al != tcp && snap.Collections[al].Alive != snap.Collections[tcp].Alive {
			ok = false
		}
	}
	return strings.Join(parts, "|"), ok
}

func (w *c15World) restore(d int, snap dialer.DialerHealthSnapshot, kind string) {
	if w.g == nil {
		return
	}
	str, ok := c15SnapString(w.types, snap)
	if !ok {
		return
	}
	out := VRecover(func() string {
		w.dialers[d].RestoreHealthSnapshot(snap)
		w.lastBest = map[int]string{}
		return w.takeCbs() + " " + w.groupDump()
	})
	w.st.Emit(fmt.Sprintf("restore %d %s", d, str), out)
	w.mirror(d, func(s *c15World, d2 int) {
		if s.g != nil {
			s.st.Emit(fmt.Sprintf("restore %d %s", d2, str), VRecover(func() string {
				s.lastBest = map[int]string{}
				return s.takeCbs() + " " + s.groupDump()
			}))
		}
	})
	w.syncPens(d)
	w.stats.Inc("reload.restore." + kind)
}

func (w *c15World) donorSnapshot(r *VRand, d int) (dialer.DialerHealthSnapshot, string) {
	switch x := r.Intn(10); {
	case x < 5 && w.n > 1:
		j := r.Intn(w.n)
		return w.dialers[j].ReloadHealthSnapshot(), "from_member"
	case x < 7:
		return w.foreign.ReloadHealthSnapshot(), "from_foreign"
	case x < 8:
		return c15NewDialer(w.opt, "fresh").ReloadHealthSnapshot(), "fresh_all_alive_no_latency"
	case x < 9:
		return dialer.DialerHealthSnapshot{}, "zero_all_dead_no_latency"
	default:
		return w.dialers[d].ReloadHealthSnapshot(), "own"
	}
}

func (w *c15World) capture() ReloadSelectionFallback {
	var fb ReloadSelectionFallback
	out := VRecover(func() string {
		fb = w.g.CaptureReloadSelectionFallback()
		xs := make([]string, 6)
		for t := 0; t < 6; t++ {
			if p := fb[w.types[t].Index()]; p != nil {
				xs[t] = strconv.Itoa(w.dialerIdx(p))
			} else {
				xs[t] = "-"
			}
		}
		return "fb=" + strings.Join(xs, ",")
	})
	w.st.Emit("capture", out)
	w.stats.Inc("reload.capture")
	return fb
}

func (w *c15World) floor(fb ReloadSelectionFallback) {
	xs := make([]string, 6)
	for t := 0; t < 6; t++ {
		if p := fb[w.types[t].Index()]; p != nil {
			xs[t] = strconv.Itoa(w.dialerIdx(p))
		} else {
			xs[t] = "-"
		}
	}
	// which (domain, node) pairs does the floor tell?  It acts only on EMPTY sets and marks exactly one
	// candidate alive there (MarkAliveForReloadFallback tells every registered set, the second group's
	// included — also when the flag was up already because an update about it is still in flight): the
	// pairs are read off the group's own sets, empty before and holding one member afterwards.
	emptyBefore := [6]bool{}
	for t := 0; t < 6; t++ {
		if set := w.g.currentSelectionState().aliveDialerSets[w.types[t].Index()]; set != nil {
			emptyBefore[t] = set.Len() == 0
		}
	}
	out := VRecover(func() string {
		w.g.EnsureReloadSelectionFloor(fb)
		w.lastBest = map[int]string{}
		return w.takeCbs() + " " + w.groupDump()
	})
	w.st.Emit("floor "+strings.Join(xs, ","), out)
	for t := 0; t < 6; t++ {
		set := w.g.currentSelectionState().aliveDialerSets[w.types[t].Index()]
		if !emptyBefore[t] || set == nil || set.Len() != 1 {
			continue
		}
		for d := 0; d < w.n; d++ {
			if md, _ := set.GetMinLatency(nil); md == w.dialers[d] || (md == nil && set.GetRand() == w.dialers[d]) {
				w.mirrorTold(t, d, "told %d %d 1")
			}
		}
	}
	for d := 0; d < w.n; d++ {
		w.syncPens(d)
	}
	w.stats.Inc("reload.floor")
}

// the production order of ControlPlane.InheritDialerHealthFrom for one group:
// capture, restore every matched member, ensure the floor
func (w *c15World) reloadHandover(r *VRand) {
	if w.g == nil || w.n == 0 {
		return
	}
	fb := w.capture()
	for d := 0; d < w.n; d++ {
		if r.Chance(0.8) {
			snap, kind := w.donorSnapshot(r, d)
			w.restore(d, snap, kind)
		}
	}
	w.floor(fb)
	w.stats.Inc("reload.handover")
}

func (w *c15World) setLevel(t, d, k int) {
	dialer.VerifC15SetBackoffLevel(w.dialers[d], w.types[t], k)
	w.syncPens(d)
	w.stats.Inc(fmt.Sprintf("ev.backoff_level=%d", k))
}

func (w *c15World) fail(t, d int, force, traffic bool) {
	var alive bool
	var inform func()
	pre := VRecover(func() string {
		alive, inform = dialer.VerifC15Fail(w.dialers[d], w.nt(t), force, traffic)
		return ""
	})
	if pre != "" {
		w.st.Emit(fmt.Sprintf("told %d %d 0", t, d), pre)
		return
	}
	w.syncPens(d)
	a := "0"
	if alive {
		a = "1"
	}
	w.winArm(t)
	out := VRecover(func() string {
		inform()
		return w.afterTell(t, d)
	})
	w.winEmit(t, fmt.Sprintf("told %d %d %s", t, d, a), out)
	w.mirrorTold(t, d, "told %d %d "+a)
}

func (w *c15World) traffic(t, d int) {
	var told bool
	w.winArm(t)
	out := VRecover(func() string {
		told = dialer.VerifC15Traffic(w.dialers[d], w.types[t])
		return w.afterTell(t, d)
	})
	if told || strings.HasPrefix(out, "crash:") {
		w.winEmit(t, fmt.Sprintf("told %d %d 1", t, d), out)
		w.mirrorTold(t, d, "told %d %d 1")
		w.syncPens(d)
		w.stats.Inc("ev.traffic_revival")
	} else {
		w.winDisarm()
		w.stats.Inc("ev.traffic_noop")
	}
}

func (w *c15World) setPolicy(pol consts.DialerSelectionPolicy, fixedIdx int) {
	out := VRecover(func() string {
		w.g.SetSelectionPolicy(c15ParsePolicy(pol, fixedIdx))
		w.policy = pol
		return w.takeCbs() + " " + w.groupDump()
	})
	w.st.Emit(fmt.Sprintf("policy %s %d", pol, fixedIdx), out)
}

// dialer.Timeout (the latency of the last resort) prints as `T`, whatever its value
func c15Lat(l time.Duration) string {
	if l == dialer.Timeout {
		return "T"
	}
	return strconv.FormatInt(int64(l), 10)
}

func c15B(b bool) string {
	if b {
		return "1"
	}
	return "0"
}

func (w *c15World) exclArg(e int) (*dialer.Dialer, string) {
	switch {
	case e < 0:
		return nil, "-"
	case e == w.n:
		return w.foreign, strconv.Itoa(e)
	default:
		return w.dialers[e], strconv.Itoa(e)
	}
}

// via: 0 = SelectWithExclusionResult, 1 = Select (no exclusion), 2 = SelectWithExclusion — the
// production wrappers; they do not return the admitting domain, printed as `*`.
func (w *c15World) sel(udp, ip6, isDns bool, dom int, strict bool, excl int, via int) {
	nt := &dialer.NetworkType{L4Proto: consts.L4ProtoStr_TCP, IpVersion: consts.IpVersionStr_4, IsDns: isDns, UdpHealthDomain: dialer.UdpHealthDomain(dom)}
	l4, ip := "t", "4"
	if udp {
		nt.L4Proto = consts.L4ProtoStr_UDP
		l4 = "u"
	}
	if ip6 {
		nt.IpVersion = consts.IpVersionStr_6
		ip = "6"
	}
	ex, exs := w.exclArg(excl)
	op := fmt.Sprintf("sel %s %s %s %d %s %s", l4, ip, c15B(isDns), dom, c15B(strict), exs)
	draws := 1
	if w.policy == consts.DialerSelectionPolicy_Random {
		draws = 6
	}
	want := w.typeIdx(nt)
	out := VRecover(func() string {
		seen := map[string]bool{}
		for i := 0; i < draws; i++ {
			ntCopy := *nt
			var d *dialer.Dialer
			var lat time.Duration
			var selType *dialer.NetworkType
			var err error
			switch via {
			case 1:
				d, lat, err = w.g.Select(&ntCopy, strict)
			case 2:
				d, lat, err = w.g.SelectWithExclusion(&ntCopy, strict, ex)
			default:
				d, lat, selType, err = w.g.SelectWithExclusionResult(&ntCopy, strict, ex)
			}
			if ntCopy != *nt {
				seen["mutated-network-type"] = true
			}
			if err != nil {
				switch {
				case errors.Is(err, ErrNoAliveDialer):
					seen["err=noalive"] = true
					w.stats.Inc("sel.noalive")
				default:
					seen["err=other"] = true // which error (empty group, index out of range) is outside the property
				}
				continue
			}
			if d == nil || (via == 0 && selType == nil) {
				seen["ok-with-nil"] = true
				continue
			}
			di := w.dialerIdx(d)
			si := want
			if via == 0 {
				si = w.typeIdx(selType)
				seen[fmt.Sprintf("%d:%s:%d", di, c15Lat(lat), si)] = true
			} else {
				seen[fmt.Sprintf("%d:%s:*", di, c15Lat(lat))] = true
			}
			w.lastSel = di
			if i == 0 {
				w.stats.Inc("sel.ok")
				if si != want {
					w.stats.Inc("sel.admitted_by_other_domain")
				}
				if lat == dialer.Timeout {
					w.stats.Inc("sel.last_resort")
				}
				if di == excl {
					w.stats.Inc("sel.returned_excluded")
				}
				if excl >= 0 {
					w.stats.Inc("sel.with_exclusion")
				}
			}
		}
		var oks, errs []string
		for k := range seen {
			if strings.HasPrefix(k, "err=") || strings.HasPrefix(k, "ok-with-nil") || strings.HasPrefix(k, "mutated") {
				errs = append(errs, k)
			} else {
				oks = append(oks, k)
			}
		}
		sort.Strings(oks)
		sort.Strings(errs)
		switch {
		case len(errs) == 0:
			return "ok " + strings.Join(oks, ",")
		case len(oks) == 0 && len(errs) == 1:
			return errs[0]
		default:
			return "mixed:" + strings.Join(append(oks, errs...), ",")
		}
	})
	w.st.Emit(op, out)
}

func (w *c15World) rand(t, excl int) {
	if w.g == nil {
		return
	}
	set := w.g.currentSelectionState().aliveDialerSets[w.types[t].Index()]
	if set == nil {
		return
	}
	ex, exs := w.exclArg(excl)
	out := VRecover(func() string {
		got := dialer.VerifC15RandDraws(set, w.dialers, ex, 10)
		s := make([]string, 0, len(got))
		for _, v := range got {
			if v == -1 && len(got) == 1 {
				continue
			}
			s = append(s, strconv.Itoa(v))
		}
		return "cands=" + strings.Join(s, ",")
	})
	w.st.Emit(fmt.Sprintf("rand %d %s", t, exs), out)
}

// ---------------------------------------------------------------- generators

// "big" scenarios work in seconds: tolerance and latencies comparable to the backoff penalties
// (1 s, 2 s, 4 s ... 20 s) so that penalised nodes stay in the race.
const c15Sec = int64(time.Second)

func c15PickTol(r *VRand, big bool) int64 {
	if big {
		return []int64{0, c15Sec / 2, c15Sec, 3 * c15Sec, 3 * c15Sec}[r.Intn(5)]
	}
	if r.Chance(0.06) {
		// inside the theorems, never meaningful in practice: negative and very large tolerances
		return []int64{-5, -50, 5000, 1 << 40}[r.Intn(4)]
	}
	switch r.Intn(8) {
	case 0, 1:
		return 0
	case 2:
		return 1
	case 3:
		return 10
	case 4, 5:
		return 50
	case 6:
		return 100
	default:
		return 1000
	}
}

// boundary-heavy latency values: small, around the tolerance, exact multiples (ties are common)
func c15PickLat(r *VRand, tol int64) int64 {
	if tol >= c15Sec/2 && tol < 1<<39 {
		base := []int64{c15Sec / 5, c15Sec / 2, c15Sec, c15Sec + 1, 3 * c15Sec / 2, 2 * c15Sec, 3 * c15Sec, 5 * c15Sec, tol, tol + 1, 2 * tol, tol + c15Sec}
		return base[r.Intn(len(base))]
	}
	base := []int64{1, 2, 3, 5, 10, 49, 50, 51, 99, 100, 101, 150, 200, 1000}
	if tol > 1 {
		base = append(base, tol-1, tol, tol+1, 2*tol, 2*tol+1, 3*tol)
	}
	v := base[r.Intn(len(base))]
	if r.Chance(0.08) {
		v = 1 + int64(r.Intn(400))
	}
	return v
}

func c15PickOff(r *VRand, tol int64) int64 {
	if r.Chance(0.6) {
		return 0
	}
	c := []int64{1, 7, -3, -60, 100, tol, tol + 1, 2 * tol}
	return c[r.Intn(len(c))]
}

func c15PickN(r *VRand) int {
	switch x := r.Intn(100); {
	case x < 2:
		return 0
	case x < 17:
		return 1
	case x < 42:
		return 2
	case x < 67:
		return 3
	case x < 97:
		return 4 + r.Intn(3)
	default:
		return 8 + r.Intn(5)
	}
}

func c15PickPolicy(r *VRand) consts.DialerSelectionPolicy {
	switch x := r.Intn(100); {
	case x < 14:
		return consts.DialerSelectionPolicy_Random
	case x < 24:
		return consts.DialerSelectionPolicy_Fixed
	case x < 56:
		return consts.DialerSelectionPolicy_MinLastLatency
	case x < 78:
		return consts.DialerSelectionPolicy_MinAverage10Latencies
	default:
		return consts.DialerSelectionPolicy_MinMovingAverageLatencies
	}
}

func (w *c15World) pickFixed(r *VRand) int {
	if w.n == 0 || r.Chance(0.12) {
		return r.Intn(w.n+3) - 1
	}
	return r.Intn(w.n)
}

func (w *c15World) pickType(r *VRand, fam int) int {
	if r.Chance(0.75) {
		return []int{0, 2, 4}[r.Intn(3)] + fam
	}
	return r.Intn(6)
}

func (w *c15World) event(r *VRand, tol int64, fam int) {
	if w.n == 0 {
		return
	}
	t := w.pickType(r, fam)
	d := r.Intn(w.n)
	w.useAlias = (t == 2 || t == 3) && r.Chance(0.3)
	defer func() { w.useAlias = false }()
	if w.big && r.Chance(0.12) {
		w.setLevel(t, d, r.Intn(7))
		return
	}
	if w.g != nil {
		switch x := r.Intn(1000); {
		case x < 25:
			snap, kind := w.donorSnapshot(r, d)
			w.restore(d, snap, kind)
			return
		case x < 37:
			w.reloadHandover(r)
			return
		case x < 45:
			w.floor(ReloadSelectionFallback{})
			return
		}
	}
	switch x := r.Intn(100); {
	case x < 4:
		// burst: fill and wrap the 10-slot latency ring of one (domain, node)
		k := 12 + r.Intn(14)
		for i := 0; i < k; i++ {
			w.sample(t, d, c15PickLat(r, tol))
		}
		w.stats.Inc("ev.burst_over_ring")
	case x < 36:
		w.sample(t, d, c15PickLat(r, tol))
		w.stats.Inc("ev.sample")
	case x < 46:
		// through the real Dialer.Check: success / "no applicable IP" skip / error (two attempts)
		w.probe(t, d, []int{0, 0, 0, 1, 2}[r.Intn(5)], r.Chance(0.6), r.Chance(0.3))
	case x < 72:
		w.fail(t, d, true, true)
		w.stats.Inc("ev.forced_death")
	case x < 84:
		w.fail(t, d, false, false)
		w.stats.Inc("ev.probe_failure")
	case x < 88:
		w.fail(t, d, false, true)
		w.stats.Inc("ev.traffic_failure")
	case x < 94:
		// kill everybody of this domain: empty sets drive the fallback chain
		for i := 0; i < w.n; i++ {
			w.fail(t, i, true, true)
		}
		w.stats.Inc("ev.kill_all_of_domain")
	default:
		// successful proxied traffic: revives data-UDP only; for the other domains the real code decides
		// that nothing is told
		if r.Chance(0.8) {
			w.traffic(4+r.Intn(2), d)
		} else {
			w.traffic(t, d)
		}
	}
}

func (w *c15World) selection(r *VRand, fam int) {
	udp := r.Chance(0.65)
	ip6 := fam == 1
	if r.Chance(0.2) {
		ip6 = !ip6
	}
	isDns := r.Chance(0.3)
	dom := 2
	if udp {
		switch x := r.Intn(10); {
		case x < 6:
			dom = 2
		case x < 8:
			dom = 0
		default:
			dom = 1
		}
	} else if r.Chance(0.8) {
		dom = 0
	}
	excl := -1
	switch x := r.Intn(100); {
	case x < 35:
	case x < 65:
		excl = w.lastSel
		if excl > w.n {
			excl = -1
		}
	case x < 95:
		if w.n > 0 {
			excl = r.Intn(w.n)
		}
	default:
		excl = w.n
	}
	via := 0
	switch x := r.Intn(10); {
	case x < 2 && excl < 0:
		via = 1
		w.stats.Inc("sel.via_Select")
	case x < 4:
		via = 2
		w.stats.Inc("sel.via_SelectWithExclusion")
	}
	w.sel(udp, ip6, isDns, dom, r.Chance(0.5), excl, via)
}

func c15Scenario(r *VRand, st *VStream, st2 *VStream, stats *VStats, nOps int, outOfBounds bool) {
	n := c15PickN(r)
	if outOfBounds && n == 0 {
		n = 2
	}
	big := !outOfBounds && r.Chance(0.2)
	w := c15NewWorld(st, stats, n, r.Chance(0.25), big)
	if big {
		stats.Inc("scenario.seconds_scale_with_backoff_levels")
	}
	tol := c15PickTol(r, big)
	fam := r.Intn(2)
	// a second group over an overlapping subset of the dialers (plus, sometimes, one of its own)
	if st2 != nil && n >= 2 && r.Chance(0.3) {
		sec := &c15World{st: st2, stats: NewVStats(), lastSel: -1, lastBest: map[int]string{}, types: w.types, foreign: w.foreign, big: big}
		o := *w.opt
		sec.opt = &o
		w.secIdx = map[int]int{}
		for d := 0; d < n; d++ {
			if r.Chance(0.6) || (d == n-1 && len(sec.dialers) == 0) {
				w.secIdx[d] = len(sec.dialers)
				sec.dialers = append(sec.dialers, w.dialers[d])
			}
		}
		if r.Chance(0.3) {
			sec.dialers = append(sec.dialers, c15NewDialer(sec.opt, "own"))
			sec.ownIdx = len(sec.dialers) - 1
		} else {
			sec.ownIdx = -1
		}
		sec.n = len(sec.dialers)
		sec.pens = make([][6]int64, sec.n)
		st2.Emit(fmt.Sprintf("world %d", sec.n), "ok")
		w.sec = sec
		stats.Inc("scenario.second_group_sharing_dialers")
		stats.Add("scenario.shared_dialers", len(w.secIdx))
	}
	stats.Inc(fmt.Sprintf("scenario.n=%d", n))
	stats.Inc(fmt.Sprintf("scenario.tol=%d", tol))
	// dialers may already carry history when the group is created
	if r.Chance(0.35) {
		k := r.Intn(3 * (n + 1))
		for i := 0; i < k; i++ {
			w.event(r, tol, fam)
		}
		stats.Inc("scenario.with_prehistory")
	}
	offs := make([]int64, n)
	for i := range offs {
		offs[i] = c15PickOff(r, tol)
	}
	if outOfBounds {
		// a sorting latency at or beyond time.Hour
		offs[r.Intn(n)] = c15Hour - int64(r.Intn(3)) + int64(r.Intn(2))*1000
		stats.Inc("scenario.offset_at_hour_sentinel")
	}
	pol := c15PickPolicy(r)
	stats.Inc("scenario.policy=" + string(pol))
	w.makeGroup(tol, pol, w.pickFixed(r), offs)
	if s := w.sec; s != nil {
		offs2 := make([]int64, s.n)
		for i := range offs2 {
			offs2[i] = c15PickOff(r, tol)
		}
		s.makeGroup(c15PickTol(r, big), c15PickPolicy(r), s.pickFixed(r), offs2)
	}
	if c15ConcCfg != nil {
		w.conc = c15ConcCfg(w, r, tol, fam)
	}
	for i := 0; i < nOps; i++ {
		if w.conc != nil && w.conc.step(w, r, tol, fam) {
			continue
		}
		if s := w.sec; s != nil && r.Chance(0.15) {
			// the second group's own life: policy switches, selections, events on its own dialer
			switch y := r.Intn(10); {
			case y < 2:
				s.setPolicy(c15PickPolicy(r), s.pickFixed(r))
			case y < 8:
				s.selection(r, fam)
			default:
				if s.ownIdx >= 0 {
					s.sample(s.pickType(r, fam), s.ownIdx, c15PickLat(r, tol))
				}
			}
			stats.Inc("op.on_second_group")
			continue
		}
		switch x := r.Intn(100); {
		case x < 58:
			w.event(r, tol, fam)
		case x < 64:
			p := c15PickPolicy(r)
			w.setPolicy(p, w.pickFixed(r))
			stats.Inc("op.policy_switch")
		case x < 95:
			w.selection(r, fam)
			stats.Inc("op.select")
		default:
			excl := -1
			if w.n > 0 && r.Chance(0.7) {
				excl = r.Intn(w.n)
			}
			w.rand(w.pickType(r, fam), excl)
			stats.Inc("op.rand")
		}
	}
	if w.conc != nil {
		w.conc.finish(w, r)
	}
	_ = w.g.Close()
	if w.sec != nil {
		_ = w.sec.g.Close()
	}
}

func TestVerifC15(t *testing.T) {
	r := NewVRand(VSeed())
	stats := NewVStats()
	st := VOpenStream("c15")
	stg2 := VOpenStream("c15g2") // the second groups of the scenarios that have one (own model world)
	defer func() { st.Close(); stg2.Close(); stats.Write("c15") }()

	nScen, maxOps := 260, 70
	if VThorough() {
		nScen, maxOps = 5000, 320
	}
	nScen = VEnvInt("VERIF_C15_SCENARIOS", nScen)
	for i := 0; i < nScen; i++ {
		nOps := 20 + r.Intn(maxOps)
		c15Scenario(r, st, stg2, stats, nOps, false)
	}
	stats.Add("ops", st.N)

	// separate stream: one offset at/around time.Hour (the former sentinel of the minimum scans)
	st2 := VOpenStream("c15oob")
	for i := 0; i < nScen/10+3; i++ {
		c15Scenario(r, st2, nil, stats, 30, true)
	}
	st2.Close()
	stats.Add("ops_oob", st2.N)

	// the concurrent parts (c15conc_test.go).  First the two race witnesses (own stream, found by name);
	// whether the first one crashed decides a carve-out of the random in-window actions.
	st5 := VOpenStream("c15race")
	c15WinCrashPresent = c15RaceWindowPolicySwitch(st5, stats)
	if c15WinCrashPresent {
		stats.Inc("race.window_policy_switch_witness_crashed")
	}
	c15RaceBuildWindow(st5, stats)
	st5.Close()
	// then the generator's scenarios with callback-window actions and/or deferred deliveries
	st4 := VOpenStream("c15conc")
	st4g2 := VOpenStream("c15concg2")
	c15ConcCfg = func(w *c15World, r *VRand, tol int64, fam int) *c15Conc {
		x := r.Intn(10)
		return c15NewConc(w, r, tol, fam, x < 7, x >= 4)
	}
	nConc := nScen/2 + 10
	if VThorough() {
		nConc = nScen/4 + 10
	}
	for i := 0; i < nConc; i++ {
		c15Scenario(r, st4, st4g2, stats, 20+r.Intn(maxOps), false)
	}
	c15ConcCfg = nil
	st4.Close()
	st4g2.Close()
	stats.Add("ops_conc", st4.N)

	// own stream (found by name, not by position)
	st3 := VOpenStream("c15wit")
	// regression witness of fix addc261 (former finding c15-hour-sentinel, design_notes/C15.md):
	// two nodes, node 0 carries add_latency = 1h; node 1 dies for tcp4; node 0 is probed fine.
	{
		w := c15NewWorld(st3, stats, 2, false, false)
		w.makeGroup(0, consts.DialerSelectionPolicy_MinLastLatency, 0, []int64{c15Hour, 0})
		w.fail(2, 1, true, true)
		w.fail(2, 0, true, true)
		w.sample(2, 0, 1000000)
		w.sel(false, false, false, 0, true, -1, 0)
		_ = w.g.Close()
	}
	// interpretation witness (design_notes/C15.md, "Interpretation"): tolerance 30, node 0 measured
	// 100 is the choice, node 1 alive and never measured; node 0's next sample 101 hands the choice to
	// node 1 (ranked as latency 0 by the code's optimistic start-up semantics).
	{
		w := c15NewWorld(st3, stats, 2, false, false)
		w.makeGroup(30, consts.DialerSelectionPolicy_MinLastLatency, 0, []int64{0, 0})
		w.sample(2, 0, 100)
		w.sel(false, false, false, 0, true, -1, 0)
		w.sample(2, 0, 101)
		w.sel(false, false, false, 0, true, -1, 0)
		_ = w.g.Close()
	}
	// interpretation witness: the min clause is per health domain and data-UDP is never measured.
	// a = 300, b = 200, c = 20 on dns-udp4 and tcp4; a tcp4 request gets c, a data-udp4 request gets a.
	{
		w := c15NewWorld(st3, stats, 3, false, false)
		w.makeGroup(0, consts.DialerSelectionPolicy_MinLastLatency, 0, []int64{0, 0, 0})
		for _, t := range []int{0, 2} {
			w.sample(t, 0, 300)
			w.sample(t, 1, 200)
			w.sample(t, 2, 20)
		}
		w.sel(false, false, false, 0, true, -1, 0)
		w.sel(true, false, false, 2, true, -1, 0)
		_ = w.g.Close()
	}
	// reload witness (design_notes/C15.md, reload): node 0 measured 100 is the choice, node 1 measured
	// 10 and then dead; node 1 is restored from an emptier snapshot (alive, no latencies): it rejoins
	// with sorting latency 0 while the set keeps its recorded latency 10 (the `RestoreOk` side condition
	// of tolerance_invariant_survives_reload_partial is violated).
	{
		w := c15NewWorld(st3, stats, 2, false, false)
		w.makeGroup(30, consts.DialerSelectionPolicy_MinLastLatency, 0, []int64{0, 0})
		w.sample(2, 0, 100)
		w.sample(2, 1, 10)
		w.fail(2, 1, true, true)
		w.sample(2, 0, 100)
		w.restore(1, c15NewDialer(w.opt, "fresh").ReloadHealthSnapshot(), "witness")
		_ = w.g.Close()
	}
	st3.Close()
}
