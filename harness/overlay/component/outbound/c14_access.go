package outbound

// Read-only accessors injected (by -overlay, never in /repo) next to filter.go / dialer_group.go so
// that the package-control C14 harness can OBSERVE the pool and the groups the real control-plane code
// built.  Nothing here is used to build or change state.

import "github.com/daeuniverse/dae/component/outbound/dialer"

// the pool, in pool order
func (s *DialerSet) VerifC14Dialers() []*dialer.Dialer { return s.dialers }

// the subscription tag the filter code sees for a node
func (s *DialerSet) VerifC14Tag(d *dialer.Dialer) (string, bool) {
	t, ok := s.nodeToTagMap[d]
	return t, ok
}

// the annotations a group holds, aligned with Dialers
func (g *DialerGroup) VerifC14Annotations() []*dialer.Annotation { return g.dialersAnnotations }

// the alive sets of the group's current selection state (all nil under `fixed`)
func (g *DialerGroup) VerifC14AliveSets() [8]*dialer.AliveDialerSet {
	return g.currentSelectionState().aliveDialerSets
}
