package outbound

// C15, the concurrent parts (model: lean/DaeVerif/C15/Conc.lean).  Everything here is driven on ONE
// goroutine with explicit schedules — no timing:
//
//   * callback windows: AliveDialerSet.notifyLatencyChange releases `mu` around aliveChangeCallback.  The
//     harness's callback IS that window: from inside it the harness selects, draws, dumps the sets and
//     switches the group's policy, i.e. it does what another goroutine could do at that point
//     (notifications of the same set would wait on notifyMu; they are not issued).  Stream order: the
//     event's line carries the set as seen INSIDE the window, then the in-window lines, then `same <t>`
//     with the set after the call returned — the model is atomic, so all three must agree with it.
//   * reports taken and delivered separately: markUnavailableInternal / markAvailable return the
//     collectionUpdate; informDialerGroupUpdate(update) is kept as a closure and run later, in any
//     order (`mark`/`obs` … `deliver`), with policy switches, reload ops and selections in between.
//   * op `agree`: members whose set membership differs from the dialer-side flag (the model adds which
//     of them no update in flight explains — property-level oracle of deliveries_agree_except_pending).
//
// Additional op grammar (answered by Main.lean through `stepAcb`):
//   mark <id> <type> <dialer> <0|1>     flag written, update <id> taken, nobody told
//   obs <id> <type> <dialer> <latency>  markAvailable: sample stored, flag raised, update <id> taken
//   deliver <id>                        informDialerGroupUpdate(update <id>)
//   agree                               dis=<type:dialer,...>
//   pbegin <policy> <fixedIdx> / pbuild / pend   a policy switch that builds sets, step by step (stream c15race)

import (
	"bufio"
	"bytes"
	"fmt"
	"strconv"
	"strings"
	"time"

	"github.com/daeuniverse/dae/common/consts"
	"github.com/daeuniverse/dae/component/outbound/dialer"
)

type c15Pending struct {
	id, t, d int
	inform   func()
}

type c15Conc struct {
	win, async bool
	r          *VRand
	tol        int64
	fam        int
	// window state
	armed, entered, inWindow bool
	armT                     int
	winDump                  string
	bo, bi                   bytes.Buffer
	script                   []func() // scripted in-window actions (witnesses); nil = random actions
	lastCrash                bool     // the last windowed event panicked
	noSwitchToRandom         bool     // open finding c15-policy-switch-in-callback-window-nil-deref present and Info logging on
	// updates in flight
	pend   []*c15Pending
	nextID int
}

// set by TestVerifC15 around the streams whose scenarios run with the concurrency extension
var c15ConcCfg func(w *c15World, r *VRand, tol int64, fam int) *c15Conc

// whether the witness of c15-policy-switch-in-callback-window-nil-deref crashed on this tree
var c15WinCrashPresent bool

func c15NewConc(w *c15World, r *VRand, tol int64, fam int, win, async bool) *c15Conc {
	c := &c15Conc{win: win, async: async, r: r, tol: tol, fam: fam}
	c.noSwitchToRandom = c15WinCrashPresent && w.logInfo
	if win {
		w.cbHook = func(tIdx int, alive, isInit bool) { c.onCallback(w, tIdx, alive, isInit) }
		w.stats.Inc("conc.scenario.with_callback_window_actions")
	}
	if async {
		w.stats.Inc("conc.scenario.with_deferred_deliveries")
	}
	return c
}

// ---- callback windows

func (w *c15World) winArm(t int) {
	if c := w.conc; c != nil && c.win && w.g != nil && !c.inWindow {
		c.armed, c.entered, c.armT, c.winDump = true, false, t, ""
		c.bo.Reset()
		c.bi.Reset()
	}
}

func (w *c15World) winDisarm() {
	if c := w.conc; c != nil {
		c.armed = false
	}
}

func (c *c15Conc) onCallback(w *c15World, tIdx int, alive, isInit bool) {
	if !c.armed || c.entered || c.inWindow || isInit || tIdx != c.armT {
		return
	}
	c.entered, c.inWindow = true, true
	defer func() { c.inWindow = false }()
	c.winDump = w.setDump(tIdx)
	if alive {
		w.stats.Inc("conc.window.callback_alive")
	} else {
		w.stats.Inc("conc.window.callback_dead")
	}
	savedCbs, savedSt := w.cbs, w.st
	w.cbs = nil
	scratch := &VStream{ops: bufio.NewWriter(&c.bo), impl: bufio.NewWriter(&c.bi)}
	w.st = scratch
	defer func() {
		scratch.ops.Flush()
		scratch.impl.Flush()
		w.st = savedSt
		w.cbs = append(savedCbs, w.cbs...)
	}()
	if c.script != nil {
		for _, f := range c.script {
			f()
		}
		return
	}
	r := c.r
	switched := false
	for k := 1 + r.Intn(3); k > 0; k-- {
		switch x := r.Intn(100); {
		case x < 50:
			w.selection(r, c.fam)
			w.stats.Inc("conc.window.action.select")
		case x < 62:
			excl := -1
			if r.Chance(0.7) {
				excl = r.Intn(w.n)
			}
			w.rand(w.pickType(r, c.fam), excl)
			w.stats.Inc("conc.window.action.rand")
		case x < 82 && !switched:
			p := c15PickPolicy(r)
			if p == consts.DialerSelectionPolicy_Random && c.noSwitchToRandom {
				w.stats.Inc("conc.window.action.policy_switch_to_random_skipped_known_finding")
				continue
			}
			switched = true
			for d := 0; d < w.n; d++ {
				w.syncPens(d)
			}
			w.setPolicy(p, w.pickFixed(r))
			w.stats.Inc("conc.window.action.policy_switch")
			w.stats.Inc("conc.window.action.policy_switch.to_" + string(p))
		default:
			t := w.pickType(r, c.fam)
			if r.Chance(0.5) {
				t = tIdx
			}
			w.st.Emit(fmt.Sprintf("same %d", t), "cb=[] "+w.setDump(t))
			w.stats.Inc("conc.window.action.dump")
		}
	}
}

// winEmit emits the line of an event that was armed with winArm.  out = what the harness computed after
// the call returned (`cb=[…] <dump>` or `crash:…`).
func (w *c15World) winEmit(t int, op, out string) {
	c := w.conc
	if c == nil || !c.armed || c.inWindow {
		w.st.Emit(op, out)
		return
	}
	c.armed = false
	c.lastCrash = strings.HasPrefix(out, "crash:")
	if !c.entered {
		w.st.Emit(op, out)
		return
	}
	w.stats.Inc("conc.window.entered")
	i := strings.Index(out, "] ")
	if strings.HasPrefix(out, "crash:") || !strings.HasPrefix(out, "cb=[") || i < 0 {
		w.st.Emit(op, out)
		c.replay(w)
		return
	}
	w.st.Emit(op, out[:i+2]+c.winDump)
	c.replay(w)
	w.st.Emit(fmt.Sprintf("same %d", t), "cb=[] "+out[i+2:])
	if c.winDump != out[i+2:] {
		w.stats.Inc("conc.window.set_changed_inside_window")
	}
}

func (c *c15Conc) replay(w *c15World) {
	ops := strings.Split(strings.TrimSuffix(c.bo.String(), "\n"), "\n")
	impl := strings.Split(strings.TrimSuffix(c.bi.String(), "\n"), "\n")
	if c.bo.Len() == 0 {
		return
	}
	for i := range ops {
		o := ""
		if i < len(impl) {
			o = impl[i]
		}
		w.st.Emit(ops[i], o)
		w.stats.Inc("conc.window.lines_inside_windows")
	}
	c.bo.Reset()
	c.bi.Reset()
}

// ---- reports taken and delivered separately

func (c *c15Conc) pickTD(w *c15World, r *VRand, fam int) (int, int) {
	if len(c.pend) > 0 && r.Chance(0.5) {
		p := c.pend[r.Intn(len(c.pend))]
		return p.t, p.d // a second update about the same (domain, node): deliveries can cross
	}
	return w.pickType(r, fam), r.Intn(w.n)
}

func (c *c15Conc) step(w *c15World, r *VRand, tol int64, fam int) bool {
	if !c.async || w.g == nil || w.n == 0 {
		return false
	}
	switch x := r.Intn(100); {
	case x < 12:
		t, d := c.pickTD(w, r, fam)
		c.deferObs(w, t, d, c15PickLat(r, tol))
	case x < 26:
		t, d := c.pickTD(w, r, fam)
		switch y := r.Intn(10); {
		case y < 6:
			c.deferMark(w, t, d, true, true)
		case y < 9:
			c.deferMark(w, t, d, false, false)
		default:
			c.deferMark(w, t, d, false, true)
		}
	case x < 46:
		if len(c.pend) == 0 {
			return false
		}
		c.deliver(w, r.Intn(len(c.pend)))
	case x < 50:
		c.agree(w)
	case x < 54:
		// reload floor / restore while an update is in flight: everybody of one domain is dead and
		// delivered, one node's revival (flag up) is taken but not delivered — the set is empty although
		// a flag is up — then EnsureReloadSelectionFloor / RestoreHealthSnapshot run, then the delivery
		t := w.pickType(r, fam)
		for i := 0; i < w.n; i++ {
			w.fail(t, i, true, true)
		}
		d := r.Intn(w.n)
		c.deferObs(w, t, d, c15PickLat(r, tol))
		switch y := r.Intn(3); {
		case y == 0:
			w.floor(ReloadSelectionFallback{})
		case y == 1:
			var fb ReloadSelectionFallback
			fb[w.types[t].Index()] = w.dialers[r.Intn(w.n)]
			w.floor(fb)
		default:
			snap, kind := w.donorSnapshot(r, d)
			w.restore(d, snap, kind)
		}
		w.stats.Inc("conc.async.reload_op_while_revival_in_flight")
		if len(c.pend) > 0 && r.Chance(0.7) {
			c.deliver(w, len(c.pend)-1)
		}
	default:
		return false
	}
	return true
}

func (c *c15Conc) noteCrossing(w *c15World, t, d int) {
	for _, p := range c.pend {
		if p.t == t && p.d == d {
			w.stats.Inc("conc.async.second_update_about_same_domain_and_node_in_flight")
			return
		}
	}
}

func (c *c15Conc) deferMark(w *c15World, t, d int, force, traffic bool) {
	var alive bool
	var inform func()
	pre := VRecover(func() string {
		alive, inform = dialer.VerifC15Fail(w.dialers[d], w.nt(t), force, traffic)
		return ""
	})
	if pre != "" {
		w.st.Emit(fmt.Sprintf("told %d %d 0", t, d), pre)
		return
	}
	c.noteCrossing(w, t, d)
	id := c.nextID
	c.nextID++
	w.st.Emit(fmt.Sprintf("mark %d %d %d %s", id, t, d, c15B(alive)),
		VRecover(func() string { return w.takeCbs() + " " + w.setDump(t) }))
	w.mirror(d, func(s *c15World, d2 int) {
		s.st.Emit(fmt.Sprintf("mark %d %d %d %s", id, t, d2, c15B(alive)),
			VRecover(func() string { return s.takeCbs() + " " + s.setDump(t) }))
	})
	w.syncPens(d)
	c.pend = append(c.pend, &c15Pending{id, t, d, inform})
	w.stats.Inc("conc.async.mark")
}

func (c *c15Conc) deferObs(w *c15World, t, d int, lat int64) {
	var inform func()
	pre := VRecover(func() string {
		inform = dialer.VerifC15Obs(w.dialers[d], w.nt(t), time.Duration(lat))
		return ""
	})
	if pre != "" {
		w.st.Emit(fmt.Sprintf("sample %d %d %d", t, d, lat), pre)
		return
	}
	c.noteCrossing(w, t, d)
	id := c.nextID
	c.nextID++
	w.st.Emit(fmt.Sprintf("obs %d %d %d %d", id, t, d, lat),
		VRecover(func() string { return w.takeCbs() + " " + w.setDump(t) }))
	w.mirror(d, func(s *c15World, d2 int) {
		s.st.Emit(fmt.Sprintf("obs %d %d %d %d", id, t, d2, lat),
			VRecover(func() string { return s.takeCbs() + " " + s.setDump(t) }))
	})
	w.syncPens(d)
	c.pend = append(c.pend, &c15Pending{id, t, d, inform})
	w.stats.Inc("conc.async.obs")
}

func (c *c15Conc) deliver(w *c15World, k int) {
	p := c.pend[k]
	if k != 0 {
		w.stats.Inc("conc.async.deliver_overtaking_an_older_update")
	}
	for j := k + 1; j < len(c.pend); j++ {
		if c.pend[j].t == p.t && c.pend[j].d == p.d {
			w.stats.Inc("conc.async.deliver_while_newer_update_about_same_pair_in_flight")
			break
		}
	}
	for j := 0; j < k; j++ {
		if c.pend[j].t == p.t && c.pend[j].d == p.d {
			w.stats.Inc("conc.async.deliver_before_older_update_about_same_pair")
			break
		}
	}
	c.pend = append(c.pend[:k:k], c.pend[k+1:]...)
	w.syncPens(p.d)
	w.winArm(p.t)
	out := VRecover(func() string {
		p.inform()
		return w.afterTell(p.t, p.d)
	})
	w.winEmit(p.t, fmt.Sprintf("deliver %d", p.id), out)
	w.mirror(p.d, func(s *c15World, d2 int) {
		s.st.Emit(fmt.Sprintf("deliver %d", p.id), VRecover(func() string { return s.afterTell(p.t, d2) }))
	})
	w.syncPens(p.d)
	w.stats.Inc("conc.async.deliver")
}

func c15DisagreeString(w *c15World) string {
	if w.g == nil {
		return "dis="
	}
	var xs []string
	for t := 0; t < 6; t++ {
		set := w.g.currentSelectionState().aliveDialerSets[w.types[t].Index()]
		if set == nil {
			continue
		}
		for _, d := range dialer.VerifC15Disagree(set, w.dialers) {
			xs = append(xs, strconv.Itoa(t)+":"+strconv.Itoa(d))
		}
	}
	return "dis=" + strings.Join(xs, ",")
}

func (c *c15Conc) agree(w *c15World) {
	out := VRecover(func() string { return c15DisagreeString(w) })
	w.st.Emit("agree", out)
	if out != "dis=" {
		w.stats.Inc("conc.agree.with_unsettled_pairs")
	} else {
		w.stats.Inc("conc.agree.settled")
	}
	if s := w.sec; s != nil {
		s.st.Emit("agree", VRecover(func() string { return c15DisagreeString(s) }))
	}
}

// finish: quiescence — every update in flight is delivered (random order), then the sets must agree
// with the flags.
func (c *c15Conc) finish(w *c15World, r *VRand) {
	for len(c.pend) > 0 {
		c.deliver(w, r.Intn(len(c.pend)))
	}
	c.agree(w)
	w.stats.Inc("conc.quiescent_end_of_scenario")
}

// ---- witnesses of the two races found (stream c15race)

// c15RaceWindowPolicySwitch: min policy, Info logging, both nodes dead for data-udp4; node 0 is revived
// by traffic (no latency: branch "alive && minPolicy && minLatency.dialer == nil"); inside that
// notification's callback window the group's policy is switched to random.  Returns whether the real
// code panicked (nil minLatency.dialer dereferenced for the log line after the window).
func c15RaceWindowPolicySwitch(st *VStream, stats *VStats) bool {
	w := c15NewWorld(st, stats, 2, true, false)
	w.makeGroup(0, consts.DialerSelectionPolicy_MinLastLatency, 0, []int64{0, 0})
	w.fail(4, 0, true, true)
	w.fail(4, 1, true, true)
	c := &c15Conc{win: true}
	c.script = []func(){func() { w.setPolicy(consts.DialerSelectionPolicy_Random, 0) }}
	w.cbHook = func(tIdx int, alive, isInit bool) { c.onCallback(w, tIdx, alive, isInit) }
	w.conc = c
	w.traffic(4, 0)
	w.conc, w.cbHook = nil, nil
	crashed := c.lastCrash
	if !crashed {
		w.sel(true, false, false, 2, true, -1, 0)
	}
	_ = w.g.Close()
	return crashed
}

// c15RaceBuildWindow: a fixed -> min policy switch builds the six sets from the members' flags and
// registers them afterwards; a report about node 1 / dns-udp4 lands while the tcp4 set is being built
// (dns-udp4's set is built already, nobody is registered yet).
func c15RaceBuildWindow(st *VStream, stats *VStats) {
	w := c15NewWorld(st, stats, 2, false, false)
	w.makeGroup(0, consts.DialerSelectionPolicy_Fixed, 0, []int64{0, 0})
	fired := false
	built := 0
	w.cbHook = func(tIdx int, alive, isInit bool) {
		if fired || isInit || tIdx != 2 {
			return
		}
		fired = true
		for ; built <= tIdx; built++ {
			st.Emit("pbuild", "cb=[] ok")
		}
		w.fail(0, 1, true, true)
	}
	st.Emit("pbegin min 0", VRecover(func() string { return w.takeCbs() + " " + w.groupDump() }))
	out := VRecover(func() string {
		w.g.SetSelectionPolicy(c15ParsePolicy(consts.DialerSelectionPolicy_MinLastLatency, 0))
		w.policy = consts.DialerSelectionPolicy_MinLastLatency
		return ""
	})
	w.cbHook = nil
	for ; built < 6; built++ {
		st.Emit("pbuild", "cb=[] ok")
	}
	if out == "" {
		out = VRecover(func() string { return w.takeCbs() + " " + w.groupDump() })
	}
	st.Emit("pend", out)
	st.Emit("agree", VRecover(func() string { return c15DisagreeString(w) }))
	w.sel(true, false, true, 1, true, 0, 0)
	if fired {
		stats.Inc("race.report_landed_in_build_window")
	}
	_ = w.g.Close()
}
