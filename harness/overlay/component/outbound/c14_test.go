package outbound

// C14 correspondence harness: the REAL DialerSet.FilterAndAnnotate / filterHit / validateFilter,
// dialer.NewAnnotation, NewDialerSelectionPolicyFromGroupParam, NewDialerGroup + Select (fixed) —
// on group definitions that went through the REAL config parser (config_parser.Parse + config.New)
// whenever the text form exists — against the Lean model driver c14drv.
// One op per line; grammar in lean/DaeVerif/C14/Main.lean.

import (
	"fmt"
	"os"
	"path/filepath"
	"runtime"
	"strings"
	"testing"
	"time"

	"github.com/daeuniverse/dae/common/consts"
	"github.com/daeuniverse/dae/component/outbound/dialer"
	"github.com/daeuniverse/dae/config"
	"github.com/daeuniverse/dae/pkg/config_parser"
	"github.com/sirupsen/logrus"
)

// ---------------------------------------------------------------- the real code

type c14Pool struct {
	set   *DialerSet
	index map[*dialer.Dialer]int
	nodes []c14Node
}

var c14Log = func() *logrus.Logger {
	l := logrus.New()
	l.SetLevel(logrus.PanicLevel)
	l.SetOutput(os.Stderr)
	return l
}()

var c14Opt = &dialer.GlobalOption{Log: c14Log, CheckInterval: 30 * time.Second, CheckTolerance: 0}

func c14NewPool(nodes []c14Node) *c14Pool {
	p := &c14Pool{
		set:   &DialerSet{log: c14Log, dialers: make([]*dialer.Dialer, 0), nodeToTagMap: map[*dialer.Dialer]string{}},
		index: map[*dialer.Dialer]int{}, nodes: nodes,
	}
	for i, n := range nodes {
		prop := &dialer.Property{SubscriptionTag: n.Tag}
		prop.Name = n.Name
		d := dialer.NewDialer(nil, c14Opt, dialer.InstanceOption{DisableCheck: true}, prop)
		p.set.dialers = append(p.set.dialers, d)
		p.set.nodeToTagMap[d] = n.Tag
		p.index[d] = i
	}
	return p
}

func (p *c14Pool) Close() { _ = p.set.Close() }

func c14Members(p *c14Pool, ds []*dialer.Dialer, an []*dialer.Annotation) string {
	if len(ds) != len(an) {
		return fmt.Sprintf("annolen-mismatch:%d/%d", len(ds), len(an))
	}
	if len(ds) == 0 {
		return "-"
	}
	parts := make([]string, 0, len(ds))
	for i, d := range ds {
		idx, ok := p.index[d]
		if !ok {
			parts = append(parts, "?")
			continue
		}
		if an[i] == nil {
			parts = append(parts, fmt.Sprintf("%d:nil", idx))
			continue
		}
		parts = append(parts, fmt.Sprintf("%d:%d", idx, int64(an[i].AddLatency)))
	}
	return strings.Join(parts, ",")
}

// the six standard selection network types, as dialer_group.go's standardSelectionNetworkTypes
var c14NetTypes = []*dialer.NetworkType{
	{L4Proto: consts.L4ProtoStr_TCP, IpVersion: consts.IpVersionStr_4},
	{L4Proto: consts.L4ProtoStr_TCP, IpVersion: consts.IpVersionStr_6},
	{L4Proto: consts.L4ProtoStr_UDP, IpVersion: consts.IpVersionStr_4, IsDns: true, UdpHealthDomain: dialer.UdpHealthDomainDns},
	{L4Proto: consts.L4ProtoStr_UDP, IpVersion: consts.IpVersionStr_6, IsDns: true, UdpHealthDomain: dialer.UdpHealthDomainDns},
	{L4Proto: consts.L4ProtoStr_UDP, IpVersion: consts.IpVersionStr_4, UdpHealthDomain: dialer.UdpHealthDomainData},
	{L4Proto: consts.L4ProtoStr_UDP, IpVersion: consts.IpVersionStr_6, UdpHealthDomain: dialer.UdpHealthDomainData},
	{L4Proto: consts.L4ProtoStr_TCP, IpVersion: consts.IpVersionStr_4, IsDns: true},
}

// c14FixedSel: what fixed(i) designates, asked under every network type, strict and not, with and
// without an excluded dialer (the first member): "the i-th member" must not depend on any of these.
func c14FixedSel(grp *DialerGroup, fixedIndex int, index func(*dialer.Dialer) (int, bool)) string {
	// an error is classified by the SITUATION (the harness knows the index and the group size), not by
	// its wording
	one := func(d *dialer.Dialer, err error) string {
		switch {
		case err == nil:
			if idx, ok := index(d); ok {
				return fmt.Sprint(idx)
			}
			return "?"
		case len(grp.Dialers) == 0:
			return "empty"
		case fixedIndex < 0 || fixedIndex >= len(grp.Dialers):
			return "range"
		}
		return "err:" + c14x(err.Error())
	}
	var excluded *dialer.Dialer
	if len(grp.Dialers) > 0 {
		excluded = grp.Dialers[0]
	}
	seen := map[string]bool{}
	var order []string
	for _, nt := range c14NetTypes {
		for _, strict := range []bool{false, true} {
			d, _, err := grp.Select(nt, strict)
			a := one(d, err)
			d, _, err = grp.SelectWithExclusion(nt, strict, excluded)
			b := one(d, err)
			for _, x := range []string{a, b} {
				if !seen[x] {
					seen[x] = true
					order = append(order, x)
				}
			}
		}
	}
	if len(order) == 1 {
		return order[0]
	}
	return "DISAGREE(" + strings.Join(order, "|") + ")"
}

// c14Group REPLICATES the loop body of control.NewControlPlane ("Filter out groups") with the real
// functions; the real loop itself is executed by the package-control harness
// (harness/overlay/control/c14_test.go).  Kept for volume: policy parsing and fixed(i) on
// hand-made pools with arbitrary bytes.
func c14Group(p *c14Pool, g *config.Group) string {
	policy, err := NewDialerSelectionPolicyFromGroupParam(g)
	if err != nil {
		return "perr " + c14PolicyErr(err)
	}
	ds, an, err := p.set.FilterAndAnnotate(g.Filter, g.FilterAnnotation)
	if err != nil {
		return "ferr " + c14FilterErr(err)
	}
	grp := NewDialerGroup(c14Opt, g.Name, ds, an, *policy, func(bool, *dialer.NetworkType, bool) {})
	defer grp.Close()
	pol := string(policy.Policy)
	sel := "-"
	if policy.Policy == consts.DialerSelectionPolicy_Fixed {
		pol = fmt.Sprintf("fixed:%d", policy.FixedIndex)
		sel = c14FixedSel(grp, policy.FixedIndex, func(d *dialer.Dialer) (int, bool) { i, ok := p.index[d]; return i, ok })
	}
	idxOf := func(d *dialer.Dialer) (int, bool) { i, ok := p.index[d]; return i, ok }
	return fmt.Sprintf("ok pol=%s members=%s sel=%s off=%s", pol, c14Members(p, grp.Dialers, grp.dialersAnnotations), sel,
		c14Offsets(grp.VerifC14AliveSets(), grp.Dialers, idxOf))
}

// ---------------------------------------------------------------- the test

func TestVerifC14(t *testing.T) {
	r := NewVRand(VSeed())
	stats := NewVStats()
	st := VOpenStream("c14")
	side, err := os.Create(filepath.Join(VOutDir(), "c14.side"))
	if err != nil {
		t.Fatal(err)
	}
	defer func() { st.Close(); side.Close(); stats.Write("c14") }()
	nOps := 0

	run := func(nodes []c14Node, pool *c14Pool, d *c14Def, forceDirect bool) {
		nOps++
		// 1. obtain the real config.Group: through the real parser when the text form exists
		g, _, via, parserChanged := c14Obtain(r, d, forceDirect, stats)

		// 2. op body + oracles
		var body strings.Builder
		o := c14BodyTok(&body, nodes, g)
		valid := c14Valid(o, g)
		ev := c14SpecEval(o, nodes, g)

		// 3. FilterAndAnnotate alone
		fa := VRecover(func() string {
			ds, an, err := pool.set.FilterAndAnnotate(g.Filter, g.FilterAnnotation)
			if err != nil {
				return "err " + c14FilterErr(err)
			}
			return "ok " + c14Members(pool, ds, an) + " spec=" + ev.Members
		})
		st.Emit("fa"+body.String(), fa)
		nmem := 0
		if strings.HasPrefix(fa, "ok ") && !strings.HasPrefix(fa, "ok - ") {
			nmem = strings.Count(strings.Fields(fa)[1], ",") + 1
		}
		pc := "-"
		if parserChanged != "" {
			pc = c14x(parserChanged)
		}
		fmt.Fprintf(side, "fa valid=%v lens=%d/%d nodes=%d members=%d via=%s parserchanged=%s kwsubtag=%v structonly=%v\n", valid, len(g.Filter), len(g.FilterAnnotation), len(nodes), nmem, via, pc, c14OnlyKeywordOnSubtag(o, g), c14StructOnly(g))
		if valid && len(g.Filter) == len(g.FilterAnnotation) {
			c14Discrim(stats, o, nodes, g, ev, nOps%3 == 0 && len(nodes) <= 64)
		}
		if !valid && len(g.Filter) == len(g.FilterAnnotation) {
			// would per-node (lazy) evaluation have reached the invalid item?  Measures how many
			// generated cases are sensitive to the defect fixed by 367c759.
			reached := c14LazyReaches(o, nodes, g)
			if reached {
				stats.Inc("invalid_def.reached_by_per_node_evaluation")
			} else {
				stats.Inc("discrim.invalid_item_NOT_reached_by_per_node_evaluation")
			}
		}
		switch {
		case strings.HasPrefix(fa, "err "):
			stats.Inc("result.error." + strings.Fields(fa)[1])
		case nmem == 0:
			stats.Inc("result.empty_group")
		case nmem == len(nodes):
			stats.Inc("result.all_nodes")
		default:
			stats.Inc("result.proper_subset")
		}

		// 4. the whole group (replica of the control-plane loop): policy -> filter -> NewDialerGroup -> Select(fixed)
		var pb strings.Builder
		c14PolicyTok(&pb, g.Policy)
		gr := VRecover(func() string { return c14Group(pool, g) })
		st.Emit("grp"+pb.String()+body.String(), gr)
		fmt.Fprintf(side, "grp valid=%v lenient=%v kwsubtag=%v structonly=%v\n", valid, c14LenientPolicy(g.Policy), c14OnlyKeywordOnSubtag(o, g), c14StructOnly(g))
		c14GroupStats(stats, gr)
	}

	// directed cases first
	dn, dd := c14Directed()
	dp := c14NewPool(dn)
	for _, d := range dd {
		run(dn, dp, d, false)
	}
	ep := c14NewPool(nil)
	for _, d := range dd[:4] { // the same invalid definitions over an EMPTY pool
		run(nil, ep, d, false)
	}
	dp.Close()
	ep.Close()
	sn, sd := c14DirectedSlowRegex()
	sp := c14NewPool(sn)
	for _, d := range sd {
		run(sn, sp, d, false)
		stats.Inc("discrim.slow_regex_match_found_after_backtracking")
	}
	sp.Close()
	_ = os.WriteFile(filepath.Join(VOutDir(), "c14.goversion"), []byte(runtime.Version()), 0o644)

	// the mirrored time.ParseDuration against the real dialer.NewAnnotation (which calls the library)
	nDur := 3000
	if VThorough() {
		nDur = 60000
	}
	for k := 0; k < nDur; k++ {
		v := c14GenDur(r, stats)
		out := VRecover(func() string {
			a, err := dialer.NewAnnotation([]*config_parser.Param{{Key: "add_latency", Val: v}})
			if err != nil {
				return "err"
			}
			return fmt.Sprintf("ok %d", int64(a.AddLatency))
		})
		st.Emit("dur "+c14x(v), out)
		fmt.Fprintf(side, "dur\n")
		if out == "err" {
			stats.Inc("dur.result_error")
		} else {
			stats.Inc("dur.result_ok")
			if strings.Contains(v, ".") {
				stats.Inc("dur.result_ok_with_fraction")
			}
		}
	}

	nPools := 2500
	if VThorough() {
		nPools = 24000
	}
	for pi := 0; pi < nPools; pi++ {
		nodes := c14GenPool(r, stats)
		pool := c14NewPool(nodes)
		nd := 3 + r.Intn(6)
		if len(nodes) > 64 {
			nd = 2 + r.Intn(2)
		}
		var prevDef *c14Def
		for k := 0; k < nd; k++ {
			d := c14GenDef(r, nodes, stats)
			if prevDef != nil && r.Chance(0.2) { // a near twin of the previous definition over the SAME pool object
				d = c14Twin(r, prevDef, stats)
				stats.Inc("def.near_twin_of_previous_definition_same_pool")
			}
			prevDef = d
			if len(nodes) > 64 && k == 0 { // at least one multi-line annotated definition per large pool
				for len(d.Lines) < 2 {
					d = c14GenDef(r, nodes, stats)
				}
			}
			direct := r.Chance(0.15)
			if direct && r.Chance(0.2) && len(d.Lines) > 0 { // the [CODE BUG] length guard
				if r.Bool() {
					d.Annos = d.Annos[:len(d.Annos)-1]
				} else {
					d.Annos = append(d.Annos, nil)
				}
				stats.Inc("def.length_mismatch")
			}
			run(nodes, pool, d, direct)
		}
		// a HISTORY: one definition, evaluated again after each of a few subscription updates (a node
		// renamed / moved to another subscription / removed / added / offered twice / two swapped / no
		// change) — what a reload does; the previous pool is closed only after the next one was
		// evaluated.  State kept between calls (the package-level regexp cache; anything a change
		// might add) must not leak from one pool into the next.
		if len(nodes) <= 64 && r.Chance(0.12) {
			d := c14GenDef(r, nodes, stats)
			for try := 0; try < 6 && len(d.Lines) == 0; try++ {
				d = c14GenDef(r, nodes, stats)
			}
			direct := r.Chance(0.15)
			bag := func(ns []c14Node) (string, bool) {
				g := c14Direct(d)
				var b strings.Builder
				o := c14BodyTok(&b, ns, g)
				return c14MemberBag(o, ns, g), c14Valid(o, g)
			}
			stats.Inc("hist.histories")
			cur, prevPool := nodes, pool
			last, _ := bag(cur)
			run(cur, prevPool, d, direct)
			for step := 2 + r.Intn(3); step > 0; step-- {
				var edit string
				cur, edit = c14MutatePool(r, cur)
				stats.Inc("hist.step." + edit)
				np := c14NewPool(cur)
				run(cur, np, d, direct)
				if now, valid := bag(cur); valid {
					if now != last {
						stats.Inc("discrim.hist_pool_edit_changes_members")
					} else {
						stats.Inc("hist.pool_edit_leaves_members_unchanged")
					}
					last = now
				}
				if prevPool != pool {
					prevPool.Close()
				}
				prevPool = np
			}
			if prevPool != pool {
				prevPool.Close()
			}
		}
		pool.Close()
	}
}
