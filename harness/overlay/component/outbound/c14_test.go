package outbound

// C14 correspondence harness: the REAL DialerSet.FilterAndAnnotate / filterHit / validateFilter,
// dialer.NewAnnotation, NewDialerSelectionPolicyFromGroupParam, NewDialerGroup + Select (fixed) —
// on group definitions that went through the REAL config parser (config_parser.Parse + config.New)
// whenever the text form exists — against the Lean model driver c14drv.
// One op per line; grammar in lean/DaeVerif/C14/Main.lean.

import (
	"encoding/hex"
	"fmt"
	"os"
	"path/filepath"
	"sort"
	"strings"
	"testing"
	"time"

	"github.com/daeuniverse/dae/common/consts"
	"github.com/daeuniverse/dae/component/outbound/dialer"
	"github.com/daeuniverse/dae/config"
	"github.com/daeuniverse/dae/pkg/config_parser"
	"github.com/dlclark/regexp2"
	"github.com/sirupsen/logrus"
)

// ---------------------------------------------------------------- intended definitions

type c14Param struct{ Key, Val string }
type c14Func struct {
	Name   string
	Not    bool
	Params []c14Param
}
type c14Def struct {
	Lines  [][]c14Func
	Annos  [][]c14Param // same length as Lines unless lenBug
	Policy any          // string | c14Func | []c14Func | int (unsupported type)
}
type c14Node struct{ Name, Tag string }

func c14x(s string) string { return "x" + hex.EncodeToString([]byte(s)) }

// ---------------------------------------------------------------- text rendering (for the real parser)

func c14IsBare(s string) bool {
	if s == "" {
		return false
	}
	for i := 0; i < len(s); i++ {
		c := s[i]
		if !(c >= 'a' && c <= 'z' || c >= 'A' && c <= 'Z' || c >= '0' && c <= '9' || c == '_') {
			return false
		}
	}
	return true
}

// ok=false when the value cannot be written in dae's config syntax (quotes are not unescaped).
func c14Lit(r *VRand, s string) (string, bool) {
	if strings.ContainsAny(s, "\n\r") {
		return "", false
	}
	if c14IsBare(s) && r.Chance(0.5) {
		return s, true
	}
	if !strings.Contains(s, "'") && !strings.HasSuffix(s, "\\") {
		return "'" + s + "'", true
	}
	if !strings.Contains(s, "\"") && !strings.HasSuffix(s, "\\") {
		return "\"" + s + "\"", true
	}
	return "", false
}

func c14ParamsText(r *VRand, ps []c14Param) (string, bool) {
	var parts []string
	for _, p := range ps {
		v, ok := c14Lit(r, p.Val)
		if !ok {
			return "", false
		}
		if p.Key == "" {
			parts = append(parts, v)
		} else {
			if !c14IsBare(p.Key) {
				return "", false
			}
			parts = append(parts, p.Key+": "+v)
		}
	}
	return strings.Join(parts, ", "), true
}

func c14FuncText(r *VRand, f c14Func) (string, bool) {
	if !c14IsBare(f.Name) {
		return "", false
	}
	ps, ok := c14ParamsText(r, f.Params)
	if !ok {
		return "", false
	}
	s := f.Name + "(" + ps + ")"
	if f.Not {
		s = "!" + s
	}
	return s, true
}

func c14FuncsText(r *VRand, fs []c14Func) (string, bool) {
	var parts []string
	for _, f := range fs {
		t, ok := c14FuncText(r, f)
		if !ok {
			return "", false
		}
		parts = append(parts, t)
	}
	return strings.Join(parts, " && "), len(parts) > 0
}

func c14DefText(r *VRand, d *c14Def) (string, bool) {
	if len(d.Lines) != len(d.Annos) {
		return "", false
	}
	var b strings.Builder
	b.WriteString("global {}\nrouting { fallback: direct }\ngroup {\n  g {\n")
	for j, l := range d.Lines {
		t, ok := c14FuncsText(r, l)
		if !ok {
			return "", false
		}
		b.WriteString("    filter: " + t)
		if d.Annos[j] != nil {
			a, ok := c14ParamsText(r, d.Annos[j])
			if !ok || len(d.Annos[j]) == 0 {
				return "", false
			}
			b.WriteString(" [" + a + "]")
		}
		b.WriteString("\n")
	}
	switch p := d.Policy.(type) {
	case string:
		if !c14IsBare(p) {
			return "", false
		}
		b.WriteString("    policy: " + p + "\n")
	case []c14Func:
		t, ok := c14FuncsText(r, p)
		if !ok {
			return "", false
		}
		b.WriteString("    policy: " + t + "\n")
	default:
		return "", false
	}
	b.WriteString("  }\n}\n")
	return b.String(), true
}

// ---------------------------------------------------------------- to the real types

func c14ToParams(ps []c14Param) []*config_parser.Param {
	if ps == nil {
		return nil
	}
	out := make([]*config_parser.Param, 0, len(ps))
	for _, p := range ps {
		out = append(out, &config_parser.Param{Key: p.Key, Val: p.Val})
	}
	return out
}

func c14ToFuncs(fs []c14Func) []*config_parser.Function {
	out := make([]*config_parser.Function, 0, len(fs))
	for _, f := range fs {
		out = append(out, &config_parser.Function{Name: f.Name, Not: f.Not, Params: c14ToParams(f.Params)})
	}
	return out
}

func c14Direct(d *c14Def) *config.Group {
	g := &config.Group{Name: "g"}
	for _, l := range d.Lines {
		g.Filter = append(g.Filter, c14ToFuncs(l))
	}
	for _, a := range d.Annos {
		g.FilterAnnotation = append(g.FilterAnnotation, c14ToParams(a))
	}
	switch p := d.Policy.(type) {
	case string:
		g.Policy = p
	case c14Func:
		g.Policy = c14ToFuncs([]c14Func{p})[0]
	case []c14Func:
		g.Policy = c14ToFuncs(p)
	default:
		g.Policy = p
	}
	return g
}

// the real parser: text -> sections -> config.Config -> Group
func c14Parse(text string) (g *config.Group, err error) {
	defer func() {
		if r := recover(); r != nil {
			g, err = nil, fmt.Errorf("panic: %v", r)
		}
	}()
	secs, err := config_parser.Parse(text)
	if err != nil {
		return nil, err
	}
	c, err := config.New(secs)
	if err != nil {
		return nil, err
	}
	if len(c.Group) != 1 {
		return nil, fmt.Errorf("groups: %d", len(c.Group))
	}
	return &c.Group[0], nil
}

// ---------------------------------------------------------------- op serialisation (from the REAL structs)

func c14ParamsTok(b *strings.Builder, ps []*config_parser.Param) {
	fmt.Fprintf(b, " %d", len(ps))
	for _, p := range ps {
		b.WriteString(" " + c14x(p.Key) + " " + c14x(p.Val))
	}
}

func c14FuncTok(b *strings.Builder, f *config_parser.Function) {
	n := "0"
	if f.Not {
		n = "1"
	}
	b.WriteString(" " + c14x(f.Name) + " " + n)
	c14ParamsTok(b, f.Params)
}

func c14PolicyTok(b *strings.Builder, p any) {
	switch v := p.(type) {
	case string:
		b.WriteString(" PS " + c14x(v))
	case *config_parser.Function:
		b.WriteString(" PF")
		c14FuncTok(b, v)
	case []*config_parser.Function:
		fmt.Fprintf(b, " PL %d", len(v))
		for _, f := range v {
			c14FuncTok(b, f)
		}
	default:
		b.WriteString(" PO")
	}
}

type c14Oracle struct {
	re  map[string]*regexp2.Regexp // nil = compile error
	dur map[string]*time.Duration  // nil = parse error
}

func c14BodyTok(b *strings.Builder, pool []c14Node, g *config.Group) *c14Oracle {
	fmt.Fprintf(b, " P %d", len(pool))
	for _, n := range pool {
		b.WriteString(" " + c14x(n.Name) + " " + c14x(n.Tag))
	}
	fmt.Fprintf(b, " L %d", len(g.Filter))
	pats := map[string]bool{}
	for _, l := range g.Filter {
		fmt.Fprintf(b, " %d", len(l))
		for _, f := range l {
			c14FuncTok(b, f)
			for _, p := range f.Params {
				if p.Key == "regex" {
					pats[p.Val] = true
				}
			}
		}
	}
	fmt.Fprintf(b, " A %d", len(g.FilterAnnotation))
	durs := map[string]bool{}
	for _, a := range g.FilterAnnotation {
		c14ParamsTok(b, a)
		for _, p := range a {
			durs[p.Val] = true
		}
	}
	// library oracles, evaluated independently of the filter code
	subj := map[string]bool{}
	for _, n := range pool {
		subj[n.Name] = true
		subj[n.Tag] = true
	}
	subjects := make([]string, 0, len(subj))
	for s := range subj {
		subjects = append(subjects, s)
	}
	sort.Strings(subjects)
	o := &c14Oracle{re: map[string]*regexp2.Regexp{}, dur: map[string]*time.Duration{}}
	pl := make([]string, 0, len(pats))
	for p := range pats {
		pl = append(pl, p)
	}
	sort.Strings(pl)
	fmt.Fprintf(b, " R %d", len(pl))
	for _, p := range pl {
		re, err := regexp2.Compile(p, 0)
		if err != nil {
			o.re[p] = nil
			b.WriteString(" " + c14x(p) + " 0 0")
			continue
		}
		o.re[p] = re
		fmt.Fprintf(b, " %s 1 %d", c14x(p), len(subjects))
		for _, s := range subjects {
			m, _ := re.MatchString(s)
			if m {
				b.WriteString(" " + c14x(s) + " 1")
			} else {
				b.WriteString(" " + c14x(s) + " 0")
			}
		}
	}
	dl := make([]string, 0, len(durs))
	for d := range durs {
		dl = append(dl, d)
	}
	sort.Strings(dl)
	fmt.Fprintf(b, " D %d", len(dl))
	for _, d := range dl {
		v, err := time.ParseDuration(d)
		if err != nil {
			o.dur[d] = nil
			b.WriteString(" " + c14x(d) + " 0 0")
		} else {
			vv := v
			o.dur[d] = &vv
			fmt.Fprintf(b, " %s 1 %d", c14x(d), int64(v))
		}
	}
	return o
}

// ---------------------------------------------------------------- independent oracles on the Go side

// what the definition MEANS (written from the documentation, not from filter.go).
func c14Spec(o *c14Oracle, pool []c14Node, g *config.Group) string {
	var out []string
	for i, n := range pool {
		if len(g.Filter) == 0 {
			out = append(out, fmt.Sprintf("%d:0", i))
			continue
		}
		for j, line := range g.Filter {
			holds := true
			for _, f := range line {
				subject := n.Tag
				if f.Name == "name" {
					subject = n.Name
				}
				any := false
				for _, p := range f.Params {
					switch p.Key {
					case "regex":
						if re := o.re[p.Val]; re != nil {
							if m, _ := re.MatchString(subject); m {
								any = true
							}
						}
					case "keyword":
						any = any || strings.Contains(subject, p.Val)
					default:
						any = any || subject == p.Val
					}
				}
				if any == f.Not {
					holds = false
				}
			}
			if holds {
				var lat int64
				if j < len(g.FilterAnnotation) {
					for _, p := range g.FilterAnnotation[j] {
						if d := o.dur[p.Val]; d != nil && *d != 0 {
							lat = int64(*d)
							break
						}
					}
				}
				out = append(out, fmt.Sprintf("%d:%d", i, lat))
				break
			}
		}
	}
	if len(out) == 0 {
		return "-"
	}
	return strings.Join(out, ",")
}

// is the definition valid (documented inputs/keys, regexes compile, annotations well formed)?
func c14Valid(o *c14Oracle, g *config.Group) bool {
	for _, line := range g.Filter {
		for _, f := range line {
			if f.Name != "name" && f.Name != "subtag" {
				return false
			}
			for _, p := range f.Params {
				switch {
				case p.Key == "":
				case p.Key == "regex":
					if o.re[p.Val] == nil {
						return false
					}
				case p.Key == "keyword" && f.Name == "name":
				default:
					return false
				}
			}
		}
	}
	for _, a := range g.FilterAnnotation {
		for _, p := range a {
			if p.Key != "add_latency" || o.dur[p.Val] == nil {
				return false
			}
		}
	}
	return true
}

// ---------------------------------------------------------------- the real code

type c14Pool struct {
	set   *DialerSet
	index map[*dialer.Dialer]int
	nodes []c14Node
}

var c14Log = func() *logrus.Logger {
	l := logrus.New()
	l.SetLevel(logrus.PanicLevel)
	l.SetOutput(os.Stderr)
	return l
}()

var c14Opt = &dialer.GlobalOption{Log: c14Log, CheckInterval: 30 * time.Second, CheckTolerance: 0}

func c14NewPool(nodes []c14Node) *c14Pool {
	p := &c14Pool{
		set:   &DialerSet{log: c14Log, dialers: make([]*dialer.Dialer, 0), nodeToTagMap: map[*dialer.Dialer]string{}},
		index: map[*dialer.Dialer]int{}, nodes: nodes,
	}
	for i, n := range nodes {
		prop := &dialer.Property{SubscriptionTag: n.Tag}
		prop.Name = n.Name
		d := dialer.NewDialer(nil, c14Opt, dialer.InstanceOption{DisableCheck: true}, prop)
		p.set.dialers = append(p.set.dialers, d)
		p.set.nodeToTagMap[d] = n.Tag
		p.index[d] = i
	}
	return p
}

func (p *c14Pool) Close() { _ = p.set.Close() }

func c14FilterErr(err error) string {
	m := err.Error()
	switch {
	case strings.HasPrefix(m, "[CODE BUG]: unmatched annotations length: "):
		var a, b int
		fmt.Sscanf(m, "[CODE BUG]: unmatched annotations length: %d filters and %d annotations", &a, &b)
		return fmt.Sprintf("len %d %d", a, b)
	case strings.HasPrefix(m, "unsupported filter input type: "):
		return "input " + c14x(m)
	case strings.HasPrefix(m, "unsupported filter key "):
		return "key " + c14x(m)
	case strings.HasPrefix(m, "bad regexp in filter "):
		return "regex"
	case strings.HasPrefix(m, "apply filter annotation: unknown filter annotation: "):
		return "annokey " + c14x(m)
	case strings.HasPrefix(m, "apply filter annotation: incorrect latency format: "):
		return "annolat"
	}
	return "other " + c14x(m)
}

func c14PolicyErr(err error) string {
	m := err.Error()
	switch {
	case strings.HasPrefix(m, "unsupported function-list-or-string value type: "):
		return "type"
	case strings.HasPrefix(m, "policy should be exact 1 function: got "):
		return "count " + strings.TrimPrefix(m, "policy should be exact 1 function: got ")
	case strings.HasPrefix(m, "policy param does not support not operator: "):
		return "not " + c14x(m)
	case strings.HasPrefix(m, "invalid \"") && strings.HasSuffix(m, "\" param format"):
		return "format " + c14x(m)
	case strings.HasPrefix(m, "invalid \"") && strings.Contains(m, "\" param format: "):
		return "atoi"
	case strings.HasPrefix(m, "unexpected policy: "):
		return "unexpected " + c14x(m)
	}
	return "other " + c14x(m)
}

func c14Members(p *c14Pool, ds []*dialer.Dialer, an []*dialer.Annotation) string {
	if len(ds) != len(an) {
		return fmt.Sprintf("annolen-mismatch:%d/%d", len(ds), len(an))
	}
	if len(ds) == 0 {
		return "-"
	}
	parts := make([]string, 0, len(ds))
	for i, d := range ds {
		idx, ok := p.index[d]
		if !ok {
			parts = append(parts, "?")
			continue
		}
		if an[i] == nil {
			parts = append(parts, fmt.Sprintf("%d:nil", idx))
			continue
		}
		parts = append(parts, fmt.Sprintf("%d:%d", idx, int64(an[i].AddLatency)))
	}
	return strings.Join(parts, ",")
}

var c14Tcp4 = &dialer.NetworkType{L4Proto: consts.L4ProtoStr_TCP, IpVersion: consts.IpVersionStr_4}

// mirrors the loop body of control.NewControlPlane (control_plane.go, "Filter out groups"):
// policy, then FilterAndAnnotate, then NewDialerGroup(dialers, annos, *policy).
func c14Group(p *c14Pool, g *config.Group) string {
	policy, err := NewDialerSelectionPolicyFromGroupParam(g)
	if err != nil {
		return "perr " + c14PolicyErr(err)
	}
	ds, an, err := p.set.FilterAndAnnotate(g.Filter, g.FilterAnnotation)
	if err != nil {
		return "ferr " + c14FilterErr(err)
	}
	grp := NewDialerGroup(c14Opt, g.Name, ds, an, *policy, func(bool, *dialer.NetworkType, bool) {})
	defer grp.Close()
	pol := string(policy.Policy)
	sel := "-"
	if policy.Policy == consts.DialerSelectionPolicy_Fixed {
		pol = fmt.Sprintf("fixed:%d", policy.FixedIndex)
		d, _, err := grp.Select(c14Tcp4, false)
		switch {
		case err == nil:
			if idx, ok := p.index[d]; ok {
				sel = fmt.Sprint(idx)
			} else {
				sel = "?"
			}
		case strings.Contains(err.Error(), "out of range"):
			sel = "range"
		case strings.Contains(err.Error(), "no dialer in this group"):
			sel = "empty"
		default:
			sel = "err:" + c14x(err.Error())
		}
	}
	return fmt.Sprintf("ok pol=%s members=%s sel=%s", pol, c14Members(p, grp.Dialers, grp.dialersAnnotations), sel)
}

// ---------------------------------------------------------------- generators

var c14Tokens = []string{"hk", "HK", "sg", "us", "jp", "tw", "disney", "netflix", "01", "1", "2", "-", "_", " ", "|", "(", ")",
	"[", ".", "*", "+", "香港", "🇭🇰", "é", "\xff", "'", "\"", "premium", "x", "IPLC", "\\", "$", "^"}
var c14Tags = []string{"", "my_sub", "my_sub", "sub2", "my_", "机场", "a b", "MY_SUB", "sub"}

func c14Pick(r *VRand, l []string) string { return l[r.Intn(len(l))] }

func c14GenName(r *VRand, existing []c14Node) string {
	switch {
	case r.Chance(0.06):
		return ""
	case len(existing) > 0 && r.Chance(0.15):
		return existing[r.Intn(len(existing))].Name // duplicate
	case len(existing) > 0 && r.Chance(0.10):
		return existing[r.Intn(len(existing))].Name + c14Pick(r, c14Tokens) // extension of another name
	}
	n := 1 + r.Intn(4)
	s := ""
	for i := 0; i < n; i++ {
		if i > 0 && r.Chance(0.5) {
			s += c14Pick(r, []string{"-", " ", "_", ""})
		}
		s += c14Pick(r, c14Tokens)
	}
	return s
}

func c14GenPool(r *VRand, stats *VStats) []c14Node {
	var n int
	switch k := r.Intn(20); {
	case k == 0:
		n = 0
		stats.Inc("pool.empty")
	case k == 1:
		n = 1
	case k < 16:
		n = 2 + r.Intn(5)
	default:
		n = 7 + r.Intn(8)
	}
	nodes := make([]c14Node, 0, n)
	dup := false
	for i := 0; i < n; i++ {
		nm := c14GenName(r, nodes)
		for _, e := range nodes {
			if e.Name == nm {
				dup = true
			}
		}
		if nm == "" {
			stats.Inc("node.empty_name")
		}
		nodes = append(nodes, c14Node{Name: nm, Tag: c14Pick(r, c14Tags)})
	}
	if dup {
		stats.Inc("pool.with_duplicate_names")
	}
	stats.Add("pool.nodes", n)
	return nodes
}

func c14Sub(r *VRand, s string) string {
	if s == "" {
		return ""
	}
	a := r.Intn(len(s))
	b := a + 1 + r.Intn(len(s)-a)
	return s[a:b]
}

func c14QuoteMeta(s string) string {
	var b strings.Builder
	for _, c := range s {
		if strings.ContainsRune(`\.+*?()|[]{}^$#- `, c) {
			b.WriteByte('\\')
		}
		b.WriteRune(c)
	}
	return b.String()
}

var c14BadRegex = []string{"(", "[a-", "*a", "(?<n", "a{2,1}", "(?P<x>a)(?P<x>b", "\\"}

func c14GenRegex(r *VRand, subject func() string, stats *VStats) string {
	tok := func() string {
		s := c14Sub(r, subject())
		if len(s) > 6 {
			s = s[:6]
		}
		return c14QuoteMeta(strings.ToValidUTF8(s, ""))
	}
	switch r.Intn(14) {
	case 0:
		return "^" + tok()
	case 1:
		return tok() + "$"
	case 2:
		return tok() + "|" + tok()
	case 3:
		return ".*"
	case 4:
		return "^$"
	case 5:
		return `\d+`
	case 6:
		return "(?i)" + tok()
	case 7:
		return "^(?!.*" + tok() + ").*$" // negative look-ahead: regexp2 only
	case 8:
		return `^[a-zA-Z]+[-_ ]?\d*$`
	case 9:
		return tok() + ".*" + tok()
	case 10:
		return "^" + c14QuoteMeta(strings.ToValidUTF8(subject(), "")) + "$"
	case 11:
		return "HK|TW|SG"
	case 12:
		return "^my_"
	default:
		return tok()
	}
}

// one param; inv selects an invalid form (0 = valid)
func c14GenParam(r *VRand, fname string, subject func() string, inv int, stats *VStats) c14Param {
	switch inv {
	case 1: // unknown key
		stats.Inc("invalid.key")
		return c14Param{Key: c14Pick(r, []string{"badkey", "Regex", "keywords", "exact", "link"}), Val: subject()}
	case 2: // key valid for the other input only
		stats.Inc("invalid.key_keyword_on_subtag")
		return c14Param{Key: "keyword", Val: c14Sub(r, subject())}
	case 3:
		stats.Inc("invalid.regex")
		return c14Param{Key: "regex", Val: c14Pick(r, c14BadRegex)}
	}
	k := r.Intn(10)
	if fname != "name" && k >= 3 && k < 6 {
		k = 0 // no keyword: on subtag: exact instead
	}
	switch {
	case k < 3:
		stats.Inc("param.exact")
		switch r.Intn(6) {
		case 0:
			return c14Param{Val: c14Sub(r, subject())}
		case 1:
			return c14Param{Val: subject() + c14Pick(r, c14Tokens)}
		case 2:
			return c14Param{Val: c14Pick(r, c14Tokens)}
		default:
			return c14Param{Val: subject()}
		}
	case k < 6 && fname == "name":
		stats.Inc("param.keyword")
		switch r.Intn(8) {
		case 0:
			return c14Param{Key: "keyword", Val: ""}
		case 1:
			return c14Param{Key: "keyword", Val: c14Pick(r, c14Tokens)}
		case 2:
			return c14Param{Key: "keyword", Val: subject() + "x"}
		default:
			return c14Param{Key: "keyword", Val: c14Sub(r, subject())}
		}
	default:
		stats.Inc("param.regex")
		return c14Param{Key: "regex", Val: c14GenRegex(r, subject, stats)}
	}
}

var c14GoodDur = []string{"5ms", "0s", "0", "-3ms", "1h2m", "1.5s", "100us", "+7ms", "0ms", "2562047h", "1ns", ".5s", "1µs"}
var c14BadDur = []string{"5", "ms", "5 ms", "abc", "", "1d", "9223372036854775808ns", "1.s.", "--1s", "1e3ms"}

func c14GenAnno(r *VRand, inv int, stats *VStats) []c14Param {
	if inv == 0 && r.Chance(0.45) {
		stats.Inc("anno.absent")
		return nil
	}
	n := 1
	if r.Chance(0.35) {
		n = 2 + r.Intn(2)
		stats.Inc("anno.multi")
	}
	a := make([]c14Param, 0, n)
	for i := 0; i < n; i++ {
		a = append(a, c14Param{Key: "add_latency", Val: c14Pick(r, c14GoodDur)})
	}
	switch inv {
	case 1:
		stats.Inc("invalid.anno_key")
		a[r.Intn(n)].Key = c14Pick(r, []string{"nonsense", "add_latenc", "latency", "Add_latency"})
	case 2:
		stats.Inc("invalid.anno_latency")
		a[r.Intn(n)].Val = c14Pick(r, c14BadDur)
	default:
		stats.Inc("anno.valid")
	}
	return a
}

func c14GenPolicy(r *VRand, nMembersHint int, stats *VStats) any {
	fx := func(v string) []c14Func { return []c14Func{{Name: "fixed", Params: []c14Param{{Val: v}}}} }
	switch k := r.Intn(20); {
	case k < 6:
		stats.Inc("policy.simple")
		return c14Pick(r, []string{"random", "min", "min_avg10", "min_moving_avg"})
	case k < 12:
		stats.Inc("policy.fixed_near_range")
		return fx(fmt.Sprint(c14Pick(r, []string{"-1", "0", "1", "2"})))
	case k < 14:
		stats.Inc("policy.fixed_at_len")
		return fx(fmt.Sprint(nMembersHint - 1 + r.Intn(3)))
	case k == 14:
		stats.Inc("policy.fixed_odd_number")
		return fx(c14Pick(r, []string{"+1", "-0", "01", "1_0", " 1", "", "9223372036854775807", "9223372036854775808",
			"-9223372036854775808", "-9223372036854775809", "99999999999999999999", "0x1", "1.0", "a", "١"}))
	case k == 15:
		stats.Inc("policy.fixed_bad_shape")
		switch r.Intn(5) {
		case 0:
			return []c14Func{{Name: "fixed", Not: true, Params: []c14Param{{Val: "0"}}}}
		case 1:
			return []c14Func{{Name: "fixed", Params: []c14Param{{Key: "k", Val: "0"}}}}
		case 2:
			return []c14Func{{Name: "fixed", Params: []c14Param{{Val: "0"}, {Val: "1"}}}}
		case 3:
			return []c14Func{{Name: "fixed"}}
		default:
			return "fixed"
		}
	case k == 16:
		stats.Inc("policy.simple_with_extras")
		return []c14Func{{Name: c14Pick(r, []string{"random", "min", "min_avg10", "min_moving_avg"}), Not: r.Bool(),
			Params: []c14Param{{Key: c14Pick(r, []string{"", "k"}), Val: "7"}}}}
	case k == 17:
		stats.Inc("policy.unknown_name")
		return c14Pick(r, []string{"foo", "Min", "min_avg", "minimum", "fix", "randomm", "min_last"})
	case k == 18:
		stats.Inc("policy.wrong_count")
		if r.Bool() {
			return []c14Func{{Name: "min"}, {Name: "random"}}
		}
		return []c14Func{}
	default:
		stats.Inc("policy.odd_type")
		switch r.Intn(3) {
		case 0:
			return c14Func{Name: c14Pick(r, []string{"min", "fixed", "zzz"}), Params: []c14Param{{Val: "0"}}}
		case 1:
			return 7
		default:
			return []string{"min"}
		}
	}
}

func c14GenDef(r *VRand, pool []c14Node, stats *VStats) *c14Def {
	d := &c14Def{}
	var nl int
	switch k := r.Intn(12); {
	case k == 0:
		nl = 0
		stats.Inc("def.no_filter")
	case k < 6:
		nl = 1
	case k < 10:
		nl = 2 + r.Intn(2)
	default:
		nl = 4 + r.Intn(3)
	}
	// at most one invalid item per definition, at a random place (so that evaluation often does
	// not reach it): 0 none, 1 input, 2 key, 3 regex, 4 anno key, 5 anno latency
	inv := 0
	if nl > 0 && r.Chance(0.30) {
		inv = 1 + r.Intn(5)
	}
	invLine := r.Intn(nl + 1)
	if nl > 0 {
		invLine = r.Intn(nl)
	}
	anyName := func() string {
		if len(pool) == 0 || r.Chance(0.1) {
			return c14Pick(r, c14Tokens)
		}
		return pool[r.Intn(len(pool))].Name
	}
	anyTag := func() string {
		if len(pool) == 0 || r.Chance(0.1) {
			return c14Pick(r, c14Tags)
		}
		return pool[r.Intn(len(pool))].Tag
	}
	for j := 0; j < nl; j++ {
		nf := 1
		if r.Chance(0.45) {
			nf = 2 + r.Intn(2)
		}
		invFunc := r.Intn(nf)
		line := make([]c14Func, 0, nf)
		for k := 0; k < nf; k++ {
			f := c14Func{Name: "name", Not: r.Chance(0.25)}
			subject := anyName
			if r.Chance(0.3) {
				f.Name = "subtag"
				subject = anyTag
			}
			if f.Not {
				stats.Inc("func.negated")
			}
			here := inv != 0 && j == invLine && k == invFunc
			if here && inv == 1 {
				stats.Inc("invalid.input")
				f.Name = c14Pick(r, []string{"bogus", "link", "Name", "names", "tag", "sub_tag"})
			}
			np := 1
			if r.Chance(0.4) {
				np = 2 + r.Intn(2)
			}
			if r.Chance(0.02) {
				np = 0
				stats.Inc("func.no_params")
			}
			invParam := r.Intn(np + 1)
			if np > 0 {
				invParam = r.Intn(np)
			}
			for q := 0; q < np; q++ {
				pi := 0
				if here && q == invParam {
					switch inv {
					case 2:
						pi = 1
						if f.Name == "subtag" && r.Bool() {
							pi = 2
						}
					case 3:
						pi = 3
					}
				}
				f.Params = append(f.Params, c14GenParam(r, f.Name, subject, pi, stats))
			}
			stats.Inc("func." + map[bool]string{true: "name", false: "other"}[f.Name == "name"])
			line = append(line, f)
		}
		if nf > 1 {
			stats.Inc("line.conjunction")
		}
		d.Lines = append(d.Lines, line)
		ai := 0
		if j == invLine && inv >= 4 {
			ai = inv - 3
		}
		d.Annos = append(d.Annos, c14GenAnno(r, ai, stats))
	}
	if inv != 0 {
		stats.Inc("def.with_one_invalid_item")
	} else {
		stats.Inc("def.valid")
	}
	stats.Add("def.lines", nl)
	d.Policy = c14GenPolicy(r, len(pool), stats)
	return d
}

// the reproduced instances of the lazy-validation defect (DESIGN §7 item 8) and neighbours
func c14Directed() ([]c14Node, []*c14Def) {
	pool := []c14Node{{"hk-1", "my_sub"}, {"sg-2", "my_sub"}, {"us-3", "sub2"}}
	kw := func(v string) c14Func { return c14Func{Name: "name", Params: []c14Param{{Key: "keyword", Val: v}}} }
	defs := []*c14Def{
		{Lines: [][]c14Func{{kw("zzz"), {Name: "bogus", Params: []c14Param{{Val: "x"}}}}}, Annos: [][]c14Param{nil}, Policy: "min"},
		{Lines: [][]c14Func{{kw("zzz")}}, Annos: [][]c14Param{{{Key: "nonsense", Val: "1"}}}, Policy: "min"},
		{Lines: [][]c14Func{{kw("zzz"), {Name: "name", Params: []c14Param{{Key: "regex", Val: "("}}}}}, Annos: [][]c14Param{nil}, Policy: "min"},
		{Lines: [][]c14Func{{kw("zzz")}}, Annos: [][]c14Param{{{Key: "add_latency", Val: "5"}}}, Policy: "min"},
		{Lines: [][]c14Func{{kw("hk"), kw("sg")}, {{Name: "subtag", Params: []c14Param{{Key: "keyword", Val: "my"}}}}}, Annos: [][]c14Param{nil, nil}, Policy: "min"},
		{Lines: [][]c14Func{{kw("")}, {{Name: "bogus"}}}, Annos: [][]c14Param{nil, nil}, Policy: "min"},                   // catch-all line first
		{Lines: [][]c14Func{{kw("hk"), {Name: "name", Params: []c14Param{{Val: "hk-1"}, {Key: "badkey", Val: "q"}}}}}, Annos: [][]c14Param{nil}, Policy: "min"}, // OR leaves before the bad key
		{Lines: [][]c14Func{{{Name: "bogus", Params: []c14Param{{Val: "x"}}}}}, Annos: [][]c14Param{nil}, Policy: "min"},
		{Lines: [][]c14Func{{{Name: "name", Params: []c14Param{{Key: "keyword", Val: "hk"}, {Key: "badkey", Val: "q"}}}}}, Annos: [][]c14Param{nil}, Policy: "min"},
		{Lines: [][]c14Func{{kw("hk")}}, Annos: [][]c14Param{{{Key: "add_latency", Val: "5ms"}}}, Policy: "min"},
		{Lines: [][]c14Func{{kw("hk")}}, Annos: [][]c14Param{{{Key: "add_latency", Val: "0s"}, {Key: "add_latency", Val: "7ms"}, {Key: "add_latency", Val: "9ms"}}}, Policy: "min"},
		{Lines: [][]c14Func{{{Name: "name", Not: true, Params: []c14Param{{Key: "regex", Val: "HK|TW|SG"}, {Key: "keyword", Val: "sg"}}}, kw("-")}}, Annos: [][]c14Param{nil}, Policy: []c14Func{{Name: "fixed", Params: []c14Param{{Val: "1"}}}}},
		{Lines: [][]c14Func{{{Name: "subtag", Params: []c14Param{{Val: "my_sub"}, {Key: "regex", Val: "^sub"}}}}}, Annos: [][]c14Param{nil}, Policy: []c14Func{{Name: "fixed", Params: []c14Param{{Val: "3"}}}}},
		{Lines: nil, Annos: nil, Policy: []c14Func{{Name: "fixed", Params: []c14Param{{Val: "2"}}}}},
	}
	return pool, defs
}

// ---------------------------------------------------------------- the test

func TestVerifC14(t *testing.T) {
	r := NewVRand(VSeed())
	stats := NewVStats()
	st := VOpenStream("c14")
	side, err := os.Create(filepath.Join(VOutDir(), "c14.side"))
	if err != nil {
		t.Fatal(err)
	}
	defer func() { st.Close(); side.Close(); stats.Write("c14") }()

	run := func(nodes []c14Node, pool *c14Pool, d *c14Def, forceDirect bool) {
		// 1. obtain the real config.Group: through the real parser when the text form exists
		var g *config.Group
		via := "direct"
		if !forceDirect {
			if text, ok := c14DefText(r, d); ok {
				if pg, err := c14Parse(text); err == nil {
					g, via = pg, "parser"
					stats.Sample(strings.Join(strings.Fields(text[strings.Index(text, "  g {"):]), " "))
				} else {
					stats.Inc("text.rejected_by_parser")
				}
			}
		}
		if g == nil {
			g = c14Direct(d)
		}
		stats.Inc("via." + via)

		// 2. op body + oracles
		var body strings.Builder
		o := c14BodyTok(&body, nodes, g)
		valid := c14Valid(o, g)

		// 3. FilterAndAnnotate alone
		fa := VRecover(func() string {
			ds, an, err := pool.set.FilterAndAnnotate(g.Filter, g.FilterAnnotation)
			if err != nil {
				return "err " + c14FilterErr(err)
			}
			return "ok " + c14Members(pool, ds, an) + " spec=" + c14Spec(o, nodes, g)
		})
		st.Emit("fa"+body.String(), fa)
		nmem := 0
		if strings.HasPrefix(fa, "ok ") && !strings.HasPrefix(fa, "ok - ") {
			nmem = strings.Count(strings.Fields(fa)[1], ",") + 1
		}
		fmt.Fprintf(side, "fa valid=%v lens=%d/%d nodes=%d members=%d via=%s\n", valid, len(g.Filter), len(g.FilterAnnotation), len(nodes), nmem, via)
		if !valid && len(g.Filter) == len(g.FilterAnnotation) {
			// would per-node (lazy) evaluation have reached the invalid item?  Measures how many
			// generated cases are sensitive to the defect fixed by 367c759.
			reached := false
		lazy:
			for _, d := range pool.set.dialers {
				for j, f := range g.Filter {
					hit, err := pool.set.filterHit(d, f)
					if err != nil {
						reached = true
						break lazy
					}
					if hit {
						if _, err := dialer.NewAnnotation(g.FilterAnnotation[j]); err != nil {
							reached = true
							break lazy
						}
						break
					}
				}
			}
			if reached {
				stats.Inc("invalid_def.reached_by_per_node_evaluation")
			} else {
				stats.Inc("invalid_def.NOT_reached_by_per_node_evaluation")
			}
		}
		switch {
		case strings.HasPrefix(fa, "err "):
			stats.Inc("result.error." + strings.Fields(fa)[1])
		case nmem == 0:
			stats.Inc("result.empty_group")
		case nmem == len(nodes):
			stats.Inc("result.all_nodes")
		default:
			stats.Inc("result.proper_subset")
		}

		// 4. the whole group: policy -> filter -> NewDialerGroup -> Select(fixed)
		var pb strings.Builder
		c14PolicyTok(&pb, g.Policy)
		gr := VRecover(func() string { return c14Group(pool, g) })
		st.Emit("grp"+pb.String()+body.String(), gr)
		fmt.Fprintf(side, "grp valid=%v\n", valid)
		f := strings.Fields(gr)
		switch f[0] {
		case "perr":
			stats.Inc("group.policy_error." + f[1])
		case "ferr":
			stats.Inc("group.filter_error")
		case "ok":
			stats.Inc("group.built")
			if strings.HasPrefix(f[1], "pol=fixed") {
				switch s := strings.TrimPrefix(f[3], "sel="); s {
				case "range", "empty":
					stats.Inc("group.fixed_" + s)
				default:
					stats.Inc("group.fixed_selected")
				}
			}
		}
	}

	// directed cases first
	dn, dd := c14Directed()
	dp := c14NewPool(dn)
	for _, d := range dd {
		run(dn, dp, d, false)
	}
	ep := c14NewPool(nil)
	for _, d := range dd[:4] { // the same invalid definitions over an EMPTY pool
		run(nil, ep, d, false)
	}
	dp.Close()
	ep.Close()

	nPools := 2500
	if VThorough() {
		nPools = 30000
	}
	for pi := 0; pi < nPools; pi++ {
		nodes := c14GenPool(r, stats)
		pool := c14NewPool(nodes)
		nd := 3 + r.Intn(6)
		for k := 0; k < nd; k++ {
			d := c14GenDef(r, nodes, stats)
			direct := r.Chance(0.15)
			if direct && r.Chance(0.2) && len(d.Lines) > 0 { // the [CODE BUG] length guard
				if r.Bool() {
					d.Annos = d.Annos[:len(d.Annos)-1]
				} else {
					d.Annos = append(d.Annos, nil)
				}
				stats.Inc("def.length_mismatch")
			}
			run(nodes, pool, d, direct)
		}
		pool.Close()
	}
}
