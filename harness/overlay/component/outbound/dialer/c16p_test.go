package dialer_test

// C16, stream c16p: the REAL probe loop.  Nodes are created with checks enabled; their
// Dialer.aliveBackground goroutine (timer, NotifyCheck / NotifyCheckTcp / NotifyCheckDnsUdp, the
// CheckOpts table, filterCheckOptsByFamily, hasAliveDialerSets, the ants worker pool, Dialer.check's
// attempt loop, the real HttpCheck over net/http and the real DnsCheck over netutils.ResolveNetip) runs
// inside a testing/synctest bubble against a scripted in-memory proxy endpoint (netproxy.Dialer).
// The model is told, per loop iteration, what each of the four endpoints (tcp/udp x v4/v6) answers to
// the first and second attempt; WHICH endpoints are probed, how often they are dialled and what that
// does to the node, its groups and the callbacks is the model's prediction (Model.cycleEvents,
// dialsUsed) and is compared with the real state and the endpoint's hit counters after every iteration.
// Probes of one iteration run concurrently on pool workers; nodes of this stream have no proxy
// address, so their effects commute (Props.cycle_slot_independent).

import (
	"bufio"
	"context"
	"errors"
	"fmt"
	"io"
	"math"
	"net"
	"net/http"
	"net/netip"
	"sort"
	"strings"
	"sync"
	"testing"
	"testing/synctest"
	"time"

	"github.com/daeuniverse/dae/component/outbound"
	"github.com/daeuniverse/dae/component/outbound/dialer"
	D "github.com/daeuniverse/outbound/dialer"
	"github.com/daeuniverse/outbound/netproxy"
	dnsmessage "github.com/miekg/dns"
)

var c16pEndpoints = []string{"t4", "t6", "d4", "d6"}

// the scripted proxy endpoint of one node
type c16pDialer struct {
	mu     sync.Mutex
	script map[string][2]string // endpoint -> what attempt 1 / attempt 2 of this iteration meets
	used   map[string]int
	hits   map[string]int
	epoch  int // iteration counter: picks the flavour of an error deterministically
	bad    []string
}

func newC16pDialer() *c16pDialer {
	return &c16pDialer{script: map[string][2]string{}, used: map[string]int{}, hits: map[string]int{}}
}

func (p *c16pDialer) arm(script map[string][2]string) {
	p.mu.Lock()
	p.script = script
	p.used = map[string]int{}
	p.hits = map[string]int{}
	p.epoch++
	p.mu.Unlock()
}

func (p *c16pDialer) hitString() string {
	p.mu.Lock()
	defer p.mu.Unlock()
	var parts []string
	for _, e := range c16pEndpoints {
		parts = append(parts, fmt.Sprintf("%s:%d", e, p.hits[e]))
	}
	for k, v := range p.hits { // an endpoint the probe table must never dial
		known := false
		for _, e := range c16pEndpoints {
			known = known || e == k
		}
		if !known {
			parts = append(parts, fmt.Sprintf("%s:%d", k, v))
		}
	}
	sort.Strings(parts[len(c16pEndpoints):])
	return strings.Join(parts, ",")
}

const c16pHTTP204 = "HTTP/1.1 204 No Content\r\nConnection: close\r\nContent-Length: 0\r\n\r\n"

func (p *c16pDialer) DialContext(ctx context.Context, network, addr string) (netproxy.Conn, error) {
	mn, err := netproxy.ParseMagicNetwork(network)
	if err != nil {
		return nil, err
	}
	ap, err := netip.ParseAddrPort(addr)
	if err != nil {
		return nil, fmt.Errorf("c16p: unexpected dial address %q: %w", addr, err)
	}
	key := "t"
	if mn.Network == "udp" {
		key = "d"
	} else if mn.Network != "tcp" {
		key = mn.Network
	}
	if ap.Addr().Is4() || ap.Addr().Is4In6() {
		key += "4"
	} else {
		key += "6"
	}
	p.mu.Lock()
	k := p.used[key]
	p.used[key]++
	p.hits[key]++
	a := "err"
	if sc, ok := p.script[key]; ok && k < 2 {
		a = sc[k]
	} else {
		p.bad = append(p.bad, fmt.Sprintf("%s#%d", key, k))
	}
	flavour := (p.epoch*7 + k*3 + int(key[1])) % 4
	p.mu.Unlock()
	switch {
	case strings.HasPrefix(a, "ok:"):
		var ns int64
		fmt.Sscanf(a[3:], "%d", &ns)
		if ns > 0 {
			time.Sleep(time.Duration(ns))
		}
		if key[0] == 't' {
			return c16pHTTPConn(c16pHTTP204), nil
		}
		return newC16pDNSConn(0), nil
	case a == "cancel":
		// the proxy dial is torn down: every real outbound wraps the context error
		return nil, fmt.Errorf("dial %s: %w", addr, context.Canceled)
	case a == "hang":
		if key[0] == 'd' && flavour%2 == 0 {
			return newC16pDNSConn(9), nil // connected, never answers
		}
		<-ctx.Done()
		return nil, ctx.Err()
	}
	// a real error, in one of several places
	if key[0] == 't' {
		switch flavour {
		case 0:
			return nil, errors.New("connection refused")
		case 1:
			return c16pHTTPConn("HTTP/1.1 502 Bad Gateway\r\nConnection: close\r\nContent-Length: 0\r\n\r\n"), nil
		case 2:
			return c16pHTTPConn("HTTP/1.1 200 OK\r\nConnection: close\r\nContent-Length: 0\r\n\r\n"), nil // generate_204 wants 204
		}
		return c16pHTTPConn(""), nil // closes without a response
	}
	if flavour == 0 {
		return nil, errors.New("network is unreachable")
	}
	return newC16pDNSConn(flavour), nil
}

// an in-memory HTTP/1.1 server for one connection
func c16pHTTPConn(resp string) netproxy.Conn {
	c1, c2 := net.Pipe()
	go func() {
		defer c2.Close()
		br := bufio.NewReader(c2)
		req, err := http.ReadRequest(br)
		if err != nil {
			return
		}
		_, _ = io.Copy(io.Discard, req.Body)
		if resp != "" {
			_, _ = io.WriteString(c2, resp)
		}
	}()
	return c1
}

// an in-memory DNS server for one "connection": mode 0 answers with an A record, 1 with no record,
// 2 with a foreign transaction id, 3 with garbage, 9 never
type c16pDNSConn struct {
	mode   int
	ch     chan []byte
	closed chan struct{}
	once   sync.Once
}

func newC16pDNSConn(mode int) *c16pDNSConn {
	return &c16pDNSConn{mode: mode, ch: make(chan []byte, 8), closed: make(chan struct{})}
}

func (c *c16pDNSConn) reply(q []byte) {
	if c.mode == 9 {
		return
	}
	var msg dnsmessage.Msg
	if err := msg.Unpack(q); err != nil || len(msg.Question) == 0 {
		return
	}
	resp := new(dnsmessage.Msg)
	resp.SetReply(&msg)
	switch c.mode {
	case 0:
		resp.Answer = append(resp.Answer, &dnsmessage.A{
			Hdr: dnsmessage.RR_Header{Name: msg.Question[0].Name, Rrtype: dnsmessage.TypeA, Class: dnsmessage.ClassINET, Ttl: 60},
			A:   net.IPv4(203, 0, 113, 7)})
	case 2:
		resp.Id = msg.Id + 1
	}
	b, err := resp.Pack()
	if err != nil {
		return
	}
	if c.mode == 3 {
		b = []byte{0xde, 0xad}
	}
	select {
	case c.ch <- b:
	default:
	}
}

func (c *c16pDNSConn) Write(b []byte) (int, error) { c.reply(b); return len(b), nil }
func (c *c16pDNSConn) WriteTo(b []byte, _ string) (int, error) {
	c.reply(b)
	return len(b), nil
}
func (c *c16pDNSConn) Read(b []byte) (int, error) {
	select {
	case m := <-c.ch:
		return copy(b, m), nil
	case <-c.closed:
		return 0, net.ErrClosed
	}
}
func (c *c16pDNSConn) ReadFrom(b []byte) (int, netip.AddrPort, error) {
	n, err := c.Read(b)
	return n, netip.AddrPort{}, err
}
func (c *c16pDNSConn) Close() error                     { c.once.Do(func() { close(c.closed) }); return nil }
func (c *c16pDNSConn) SetDeadline(time.Time) error      { return nil }
func (c *c16pDNSConn) SetReadDeadline(time.Time) error  { return nil }
func (c *c16pDNSConn) SetWriteDeadline(time.Time) error { return nil }

// ---- scenario

type c16pNode struct {
	*c16Node
	pd         *c16pDialer
	tcp4, tcp6 bool // does the check URL / the check DNS server have an address of that family
	dns4, dns6 bool
}

type c16pScn struct {
	*c16Scn
	pnodes []*c16pNode
}

// an interval so long that the periodic timer never fires inside a scenario (every iteration of this
// stream is triggered explicitly; the first one is the cold-start check)
const c16pInterval = time.Duration(math.MaxInt64 / 2)

func (s *c16pScn) setAddrs(n *c16pNode) {
	tcp := []string{"http://probe.c16.invalid/generate_204"}
	if n.tcp4 {
		tcp = append(tcp, "192.0.2.10")
	}
	if n.tcp6 {
		tcp = append(tcp, "2001:db8::10")
	}
	if !n.tcp4 && !n.tcp6 {
		tcp = append(tcp, "not-an-address") // len(raw) > 1: no resolution is attempted; no family has an address
	}
	dns := []string{"dns.c16.invalid:53"}
	if n.dns4 {
		dns = append(dns, "192.0.2.53")
	}
	if n.dns6 {
		dns = append(dns, "2001:db8::53")
	}
	if !n.dns4 && !n.dns6 {
		dns = append(dns, "not-an-address")
	}
	n.d.TcpCheckOptionRaw.Raw = tcp
	n.d.CheckDnsOptionRaw.Raw = dns
}

func (s *c16pScn) addProbeNode() *c16pNode {
	n := &c16Node{id: s.nextN, addr: 0}
	s.nextN++
	pd := newC16pDialer()
	opt := &dialer.GlobalOption{Log: s.log, CheckInterval: c16pInterval,
		TcpCheckOptionRaw: dialer.TcpCheckOptionRaw{Log: s.log, ResolverNetwork: "udp"},
		CheckDnsOptionRaw: dialer.CheckDnsOptionRaw{ResolverNetwork: "udp"}}
	n.d = dialer.NewDialer(pd, opt, dialer.InstanceOption{DisableCheck: false},
		&dialer.Property{Property: D.Property{Name: fmt.Sprintf("n%d", n.id), Address: ""}})
	n.d.RegisterAliveTransitionCallback(func(nt *dialer.NetworkType, alive bool) {
		s.trans = append(s.trans, fmt.Sprintf("%d%s%s", n.id, c16Tok(nt), c16Bool(alive)))
	})
	pn := &c16pNode{c16Node: n, pd: pd, tcp4: true, tcp6: true, dns4: true, dns6: true}
	switch s.r.Intn(6) {
	case 0:
		pn.tcp6 = false
	case 1:
		pn.dns4 = false
	case 2:
		pn.tcp4, pn.dns6 = false, false
	}
	s.setAddrs(pn)
	s.nodes = append(s.nodes, n)
	s.byD[n.d] = n
	s.pnodes = append(s.pnodes, pn)
	s.emit(fmt.Sprintf("node %d %d", n.id, 0), nil)
	return pn
}

func (n *c16pNode) hasAddr(e string) bool {
	switch e {
	case "t4":
		return n.tcp4
	case "t6":
		return n.tcp6
	case "d4":
		return n.dns4
	}
	return n.dns6
}

// what the four endpoints answer in one iteration
func (s *c16pScn) genScript(n *c16pNode, allowHang bool, force map[string][2]string) map[string][2]string {
	sc := map[string][2]string{}
	for _, e := range c16pEndpoints {
		if f, ok := force[e]; ok {
			sc[e] = f
			continue
		}
		lat := []int64{0, 1000, 1000000, 20000000, 300000000}[s.r.Intn(5)]
		ok := fmt.Sprintf("ok:%d", lat)
		switch x := s.r.Intn(20); {
		case x < 9:
			sc[e] = [2]string{ok, "-"}
		case x < 13:
			sc[e] = [2]string{"err", "err"}
		case x < 15:
			sc[e] = [2]string{"err", ok}
		case x < 16:
			sc[e] = [2]string{"cancel", "-"}
		case x < 17:
			sc[e] = [2]string{"err", "cancel"}
		case x < 18 && allowHang:
			sc[e] = [2]string{"hang", "err"}
		case x < 19 && allowHang:
			sc[e] = [2]string{"err", "hang"}
		default:
			sc[e] = [2]string{ok, "-"}
		}
	}
	return sc
}

// the op's view of a script: latencies are not told to the model (they only feed the latency oracle),
// an endpoint whose family has no address is "skip" whatever the script says
func (n *c16pNode) scriptTokens(sc map[string][2]string) string {
	var parts []string
	for _, e := range c16pEndpoints {
		a := sc[e]
		for i := range a {
			if strings.HasPrefix(a[i], "ok:") {
				a[i] = "ok:0"
			}
		}
		if !n.hasAddr(e) {
			a = [2]string{"skip", "-"}
		}
		parts = append(parts, fmt.Sprintf("%s=%s,%s", e, a[0], a[1]))
	}
	return strings.Join(parts, " ")
}

const c16pWindow = 30 * time.Second // stagger (< 2 s) + two attempts of at most Timeout each + slack

func (s *c16pScn) emitCycle(n *c16pNode, fam string, sc map[string][2]string, window time.Duration) {
	for _, e := range c16pEndpoints {
		a := sc[e]
		if !n.hasAddr(e) {
			s.stats.Inc("cycle.endpoint.skip")
			continue
		}
		s.stats.Inc("cycle.endpoint." + strings.SplitN(a[0], ":", 2)[0] + "/" + strings.SplitN(a[1], ":", 2)[0])
	}
	impl := s.dump() + " H[" + n.pd.hitString() + "]"
	s.st.Emit(fmt.Sprintf("cycle %d %s %d %s |%s", n.id, fam, int64(window), n.scriptTokens(sc), s.oracle([]*c16Node{n.c16Node})), impl)
	for _, t := range s.trans {
		if strings.HasSuffix(t, "0") {
			s.stats.Inc("cycle.death")
			if strings.Contains(t, "d4") || strings.Contains(t, "d6") {
				s.stats.Inc("cycle.death.udp")
			} else {
				s.stats.Inc("cycle.death.tcp")
			}
		} else {
			s.stats.Inc("cycle.revival")
		}
	}
	if n.pd.hitString() == "t4:0,t6:0,d4:0,d6:0" {
		s.stats.Inc("cycle.nothing_dialled")
	}
	s.stats.Inc("cycle." + fam)
	s.trans, s.cbs, s.esc = nil, nil, nil
	s.nEv++
}

// make sure the node's probe goroutine runs; a newly started one performs the cold-start check by
// itself (unless the node's first check is deferred by a reload hand-over)
func (s *c16pScn) ensureActive(n *c16pNode, sc map[string][2]string) {
	if dialer.VCheckActivated(n.d) {
		return
	}
	deferred := dialer.VReloadInherited(n.d)
	n.pd.arm(sc)
	n.d.ActivateCheck()
	window := time.Second + c16pWindow
	time.Sleep(window)
	synctest.Wait()
	if deferred && n.pd.hitString() == "t4:0,t6:0,d4:0,d6:0" {
		// the first check is deferred by one interval after a hand-over (when that check happens is not the
		// property's business: if it ran at once after all, it is accounted as the iteration it is)
		s.stats.Inc("activate.first_check_deferred")
		s.st.Emit(fmt.Sprintf("tick %d |", int64(window)), s.dump())
		return
	}
	s.stats.Inc("activate.cold_start")
	s.emitCycle(n, "full", sc, window)
}

func (s *c16pScn) cycle(n *c16pNode, fam string, allowHang bool, force map[string][2]string) {
	s.ensureActive(n, s.genScript(n, allowHang, force))
	if !dialer.VCheckActivated(n.d) {
		// the goroutine found the node unused and went away again: a trigger would only be left in the
		// channel for the next goroutine
		s.stats.Inc("cycle.goroutine_exited_unused")
		return
	}
	sc := s.genScript(n, allowHang, force)
	n.pd.arm(sc)
	switch fam {
	case "full":
		n.d.NotifyCheck()
	case "tcp":
		n.d.NotifyCheckTcp()
	default:
		n.d.NotifyCheckDnsUdp()
	}
	time.Sleep(c16pWindow)
	synctest.Wait()
	s.emitCycle(n, fam, sc, c16pWindow)
}

var c16pFams = []string{"full", "full", "tcp", "udp"}

func (s *c16pScn) randP() *c16pNode { return s.pnodes[s.r.Intn(len(s.pnodes))] }

// one endpoint fails k-1 .. k+2 iterations in a row (k = 1 TCP, 3 UDP), other iterations and events in between
func (s *c16pScn) genStreak() {
	n := s.randP()
	e := c16pEndpoints[[]int{0, 1, 2, 2, 3, 3}[s.r.Intn(6)]]
	th := 1
	if e[0] == 'd' {
		th = 3
	}
	k := th - 1 + s.r.Intn(4)
	for i := 0; i < k; i++ {
		fam := "full"
		if s.r.Chance(0.4) {
			if e[0] == 't' {
				fam = "tcp"
			} else {
				fam = "udp"
			}
		}
		fail := [2]string{"err", "err"}
		if s.r.Chance(0.15) {
			fail = [2]string{"hang", "err"}
		}
		s.cycle(n, fam, false, map[string][2]string{e: fail})
		if s.r.Chance(0.2) { // an iteration of the OTHER family does not touch the streak
			o := "udp"
			if e[0] == 'd' {
				o = "tcp"
			}
			s.cycle(n, o, false, nil)
		}
		if s.r.Chance(0.15) {
			s.cycle(n, "full", false, map[string][2]string{e: {"cancel", "-"}}) // a cancelled probe neither counts nor clears
		}
	}
	s.stats.Inc(fmt.Sprintf("streak.k-th=%+d", k-th))
	if s.r.Chance(0.6) {
		s.cycle(n, "full", false, map[string][2]string{e: {"ok:1000000", "-"}})
	}
}

func (s *c16pScn) runProbeScenario(maxEv int) {
	for i := 1 + s.r.Intn(3); i > 0; i-- {
		s.addProbeNode()
	}
	for i := s.r.Intn(3); i > 0; i-- {
		n := s.randNode()
		s.failBy(1+s.r.Intn(2), n, s.randTok())
	}
	ng := 1 + s.r.Intn(3)
	if s.r.Chance(0.1) {
		ng = 0 // nobody uses the nodes: the probe goroutines go away at once
	}
	for i := ng; i > 0; i-- {
		s.genGroup(s.nodes)
	}
	if ng > 0 {
		// every node is used by at least one group that keeps alive sets (otherwise its probe goroutine exits)
		for _, pn := range s.pnodes {
			used := false
			for _, g := range s.groups {
				for _, m := range g.members {
					used = used || (m == pn.c16Node && g.pol != "fixed")
				}
			}
			if !used {
				s.addGroup("min_last", 0, []*c16Node{pn.c16Node}, []time.Duration{0})
			}
		}
	}
	for s.nEv < maxEv {
		n := s.randP()
		switch x := s.r.Intn(100); {
		case x < 35:
			s.cycle(n, c16pFams[s.r.Intn(len(c16pFams))], true, nil)
		case x < 55:
			s.genStreak()
		case x < 62: // reports of the data path between iterations
			s.forced(n.c16Node, s.randTok())
		case x < 68:
			s.tok(n.c16Node, s.randTok())
		case x < 74:
			s.tfail(n.c16Node, s.randTok(), s.r.Chance(0.2))
		case x < 78:
			s.txn(n.c16Node, s.randTok(), s.r.Chance(0.2))
		case x < 84: // probe failures while a reload is in progress, and inside the quiesce window after it
			s.sbegin()
			s.cycle(n, "full", false, nil)
			if s.r.Bool() {
				s.cycle(s.randP(), c16pFams[s.r.Intn(len(c16pFams))], false, map[string][2]string{"t4": {"err", "err"}, "d6": {"err", "err"}})
			}
			s.send()
			if s.r.Bool() {
				// the quiesce window is not over yet; keep the whole iteration (stagger < 2 s, no hanging
				// attempt) inside it, then leave it
				s.stats.Inc("cycle.in_quiesce_window")
				if c16Quiesce > 5*time.Second {
					sc := s.genScript(n, false, map[string][2]string{"t6": {"err", "err"}})
					if dialer.VCheckActivated(n.d) {
						n.pd.arm(sc)
						n.d.NotifyCheck()
						time.Sleep(3 * time.Second)
						synctest.Wait()
						s.emitCycle(n, "full", sc, 3*time.Second)
					}
				}
			}
			s.tick(c16Quiesce + time.Second)
		case x < 88:
			if len(s.groups) > 0 {
				s.closeGroup(s.groups[s.r.Intn(len(s.groups))])
			}
		case x < 93:
			if len(s.groups) < 5 {
				s.genGroup(s.nodes)
			}
		case x < 96: // hand-over between two nodes: an all-alive snapshot defers the receiver's first check
			m := s.randP()
			s.inherit(n.c16Node, m.c16Node)
		default:
			// the addresses the check URL / DNS server resolve to change
			n.tcp4, n.tcp6, n.dns4, n.dns6 = s.r.Chance(0.8), s.r.Chance(0.8), s.r.Chance(0.8), s.r.Chance(0.8)
			s.setAddrs(n)
			s.stats.Inc("addrs.changed")
		}
	}
}

func TestVerifC16Probe(t *testing.T) {
	st := dialer.VOpenStream("c16p")
	defer st.Close()
	stats := dialer.NewVStats()
	distinct := map[string]struct{}{}
	r := dialer.NewVRand(dialer.VSeed() + 1616)
	c16Quiesce, c16TTL, c16Cleanup = dialer.VParams()
	st.Emit(fmt.Sprintf("params %d %d %d", int64(c16Quiesce), int64(c16TTL), int64(c16Cleanup)), "ok")
	nScn, maxEv := 120, 40
	if dialer.VThorough() {
		nScn, maxEv = 600, 50
	}
	nScn = dialer.VEnvInt("VERIF_C16_PROBE_SCENARIOS", nScn)
	var bad []string
	for i := 0; i < nScn; i++ {
		rs := r.Fork()
		synctest.Test(t, func(t *testing.T) {
			base := newC16Scn(rs, st, stats)
			base.distinct = distinct
			s := &c16pScn{c16Scn: base}
			out := dialer.VRecover(func() string {
				s.runProbeScenario(maxEv)
				return ""
			})
			if out != "" {
				st.Emit("crash", out)
			}
			for _, n := range s.pnodes {
				bad = append(bad, n.pd.bad...)
			}
			s.close()
			synctest.Wait()
			dialer.VReleaseCheckPool()
		})
	}
	if len(bad) > 0 {
		stats.Add("unscripted_dials", len(bad))
		stats.Sample("unscripted dials: " + strings.Join(bad[:min(len(bad), 8)], " "))
	}
	stats.Add("distinct", len(distinct))
	stats.Add("scenarios", nScn)
	stats.Write("c16p")
}

var _ = outbound.ErrNoAliveDialer
