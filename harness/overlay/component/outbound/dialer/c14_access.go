package dialer

// C14: read-only accessors injected (by -overlay, never in /repo) next to alive_dialer_set.go so that
// the C14 harnesses can OBSERVE the latency offsets an AliveDialerSet copied from the annotations
// NewDialerGroup handed it.  Nothing here builds or changes state.

import "time"

// the offset the set adds to a measured latency of d (false = the set holds no entry for d)
func (a *AliveDialerSet) VerifC14LatencyOffset(d *Dialer) (time.Duration, bool) {
	a.mu.RLock()
	defer a.mu.RUnlock()
	v, ok := a.dialerToLatencyOffset[d]
	return v, ok
}

// number of entries of the offset map
func (a *AliveDialerSet) VerifC14OffsetCount() int {
	a.mu.RLock()
	defer a.mu.RUnlock()
	return len(a.dialerToLatencyOffset)
}
