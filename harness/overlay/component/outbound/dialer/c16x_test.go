package dialer_test

// C16 correspondence harness.  Real dialer.Dialer / dialer.AliveDialerSet / outbound.DialerGroup
// objects are driven through generated event histories (probe results through the real
// Dialer.Check attempt loop, traffic / transactional / forced reports, ignorable errors, reload
// suppression windows, virtual-time ticks, snapshot/restore, reload selection floor); after every
// event the complete observable state (alive flags, both failure counters, transition callbacks,
// group callbacks, set membership in slice order, selected best node, address failure table,
// suppression state) is printed and compared with the Lean model driver c16drv.
// Virtual time: every scenario runs inside a testing/synctest bubble.

import (
	"context"
	"errors"
	"fmt"
	"io"
	"net"
	"net/netip"
	"net/url"
	"os"
	"sort"
	"strings"
	"syscall"
	"testing"
	"testing/synctest"
	"time"

	"github.com/daeuniverse/dae/common/consts"
	commonerrors "github.com/daeuniverse/dae/common/errors"
	"github.com/daeuniverse/dae/common/netutils"
	"github.com/daeuniverse/dae/component/outbound"
	"github.com/daeuniverse/dae/component/outbound/dialer"
	D "github.com/daeuniverse/outbound/dialer"
	"github.com/daeuniverse/outbound/netproxy"
	"github.com/sirupsen/logrus"
)

type c16Noop struct{}

func (c16Noop) DialContext(context.Context, string, string) (netproxy.Conn, error) {
	return nil, errors.New("not implemented")
}

// read from the real code in TestVerifC16 (VParams); the model gets the same values as parameters
var c16Quiesce, c16TTL, c16Cleanup = 20 * time.Second, 15 * time.Minute, 5 * time.Minute

// proxy addresses: the SAME host on different ports are different addresses for the failure table
func c16Addr(id int) string {
	if id == 0 {
		return ""
	}
	return fmt.Sprintf("proxy.example:%d", 443+8000*(id-1))
}

func c16FailTable() string {
	m := dialer.VProxyFailures()
	var parts []string
	for id := 1; id <= 4; id++ {
		if c, ok := m[c16Addr(id)]; ok {
			parts = append(parts, fmt.Sprintf("%d:%d", id, c))
			delete(m, c16Addr(id))
		}
	}
	for k, c := range m { // an address the harness never used: show it verbatim
		parts = append(parts, fmt.Sprintf("%s:%d", k, c))
	}
	return strings.Join(parts, ",")
}

var c16Typs = []string{"t4", "t6", "T4", "T6", "d4", "d6", "u4", "u6", "x4", "x6", "d4", "d6", "u4", "u6", "y4", "y6", "z4", "z6", "a4", "a6", "b4", "b6"}

func c16NT(tok string) *dialer.NetworkType {
	nt := &dialer.NetworkType{IpVersion: consts.IpVersionStr_4}
	if tok[1] == '6' {
		nt.IpVersion = consts.IpVersionStr_6
	}
	switch tok[0] {
	case 't':
		nt.L4Proto = consts.L4ProtoStr_TCP
	case 'T':
		nt.L4Proto = consts.L4ProtoStr_TCP
		nt.IsDns = true
	case 'a': // what the DNS-over-TCP data path reports (control_plane.go)
		nt.L4Proto = consts.L4ProtoStr_TCP
		nt.IsDns = true
		nt.UdpHealthDomain = dialer.UdpHealthDomainDns
	case 'b':
		nt.L4Proto = consts.L4ProtoStr_TCP
		nt.UdpHealthDomain = dialer.UdpHealthDomainData
	case 'd':
		nt.L4Proto = consts.L4ProtoStr_UDP
		nt.IsDns = true
		nt.UdpHealthDomain = dialer.UdpHealthDomainDns
	case 'u':
		nt.L4Proto = consts.L4ProtoStr_UDP
		nt.UdpHealthDomain = dialer.UdpHealthDomainData
	case 'x':
		nt.L4Proto = consts.L4ProtoStr_UDP
	case 'y':
		nt.L4Proto = consts.L4ProtoStr_UDP
		nt.IsDns = true
	case 'z':
		nt.L4Proto = consts.L4ProtoStr_UDP
		nt.UdpHealthDomain = dialer.UdpHealthDomainDns
	}
	return nt
}

// token of a NetworkType as the real code handed it to a callback
func c16Tok(nt *dialer.NetworkType) string {
	v := "4"
	if nt.IpVersion == consts.IpVersionStr_6 {
		v = "6"
	}
	if nt.L4Proto == consts.L4ProtoStr_TCP {
		switch {
		case nt.UdpHealthDomain == dialer.UdpHealthDomainDns:
			return "a" + v
		case nt.UdpHealthDomain == dialer.UdpHealthDomainData:
			return "b" + v
		case nt.IsDns:
			return "T" + v
		}
		return "t" + v
	}
	switch nt.UdpHealthDomain {
	case dialer.UdpHealthDomainDns:
		if !nt.IsDns {
			return "z" + v
		}
		return "d" + v
	case dialer.UdpHealthDomainData:
		return "u" + v
	}
	if nt.IsDns {
		return "y" + v
	}
	return "x" + v
}

func c16IsUdp(tok string) bool  { return strings.ContainsRune("duxyz", rune(tok[0])) }
func c16IsData(tok string) bool { return strings.ContainsRune("uxy", rune(tok[0])) }
func c16Idx(tok string) int {
	b := 0
	if tok[1] == '6' {
		b = 1
	}
	switch tok[0] {
	case 't', 'T', 'a', 'b':
		return 4 + b
	case 'd', 'z':
		return 2 + b
	}
	return 6 + b
}

type c16Node struct {
	id   int
	addr int
	d    *dialer.Dialer
}

type c16Cb struct {
	gid, idx int
	alive    bool
	init     bool
}

type c16Group struct {
	id, ob  int
	pol     string
	g       *outbound.DialerGroup
	members []*c16Node
	closed  bool
}

type c16Scn struct {
	r        *dialer.VRand
	st       *dialer.VStream
	stats    *dialer.VStats
	log      *logrus.Logger
	opt      *dialer.GlobalOption
	nodes    []*c16Node
	groups   []*c16Group
	byD      map[*dialer.Dialer]*c16Node
	trans    []string
	cbs      []c16Cb
	esc      []string
	kbit     map[[2]int]bool
	t0       time.Time
	nextN    int
	nextG    int
	nEv      int
	preCnt   int
	distinct map[string]struct{}
}

var c16Policies = map[string]consts.DialerSelectionPolicy{
	"min_last":   consts.DialerSelectionPolicy_MinLastLatency,
	"min_avg":    consts.DialerSelectionPolicy_MinAverage10Latencies,
	"min_moving": consts.DialerSelectionPolicy_MinMovingAverageLatencies,
	"random":     consts.DialerSelectionPolicy_Random,
	"fixed":      consts.DialerSelectionPolicy_Fixed,
}

func (s *c16Scn) idOf(d *dialer.Dialer) int {
	if n := s.byD[d]; n != nil {
		return n.id
	}
	return -1
}

func c16Bool(b bool) string {
	if b {
		return "1"
	}
	return "0"
}

// ---- state dump (same format as lean/DaeVerif/C16/Main.lean showWorld)

func (s *c16Scn) dump() string {
	var sb strings.Builder
	sb.WriteString("N[")
	for i, n := range s.nodes {
		if i > 0 {
			sb.WriteByte(';')
		}
		h := n.d.HealthSnapshot()
		fmt.Fprintf(&sb, "%d:", n.id)
		for _, ix := range []int{2, 3, 4, 5, 6, 7} {
			sb.WriteString(c16Bool(h.Collections[ix].Alive))
		}
		sb.WriteByte('/')
		for ix := 0; ix < 8; ix++ {
			if ix > 0 {
				sb.WriteByte(',')
			}
			fmt.Fprint(&sb, h.Collections[ix].FailCount)
		}
		sb.WriteByte('/')
		for ix := 0; ix < 8; ix++ {
			if ix > 0 {
				sb.WriteByte(',')
			}
			fmt.Fprint(&sb, h.Collections[ix].TrafficFailCount)
		}
	}
	sb.WriteString("] T[")
	sb.WriteString(strings.Join(s.trans, ","))
	sb.WriteString("] G[")
	sort.SliceStable(s.cbs, func(i, j int) bool {
		if s.cbs[i].gid != s.cbs[j].gid {
			return s.cbs[i].gid < s.cbs[j].gid
		}
		return s.cbs[i].idx < s.cbs[j].idx
	})
	for i, c := range s.cbs {
		if i > 0 {
			sb.WriteByte(',')
		}
		fmt.Fprintf(&sb, "%d.%d=%s", c.gid, c.idx, c16Bool(c.alive))
		if c.init {
			sb.WriteByte('i')
		}
	}
	sb.WriteString("] E[")
	sb.WriteString(strings.Join(s.esc, ","))
	sb.WriteString("] S[")
	first := true
	var kb strings.Builder
	for _, g := range s.groups {
		if g.pol == "fixed" {
			continue
		}
		for _, tok := range []string{"d4", "d6", "t4", "t6", "u4", "u6"} {
			a := g.g.MustGetAliveDialerSet(c16NT(tok))
			if !first {
				sb.WriteByte(';')
			}
			first = false
			sb.WriteString(dialer.VSetDump(a, g.id, !g.closed, s.idOf))
			kb.WriteString(c16Bool(s.kbit[[2]int{g.id, c16Idx(tok)}]))
		}
	}
	fmt.Fprintf(&sb, "] K[%s] P[now=%d sup=%s pf=%s]", kb.String(), int64(time.Since(s.t0)),
		c16Bool(dialer.VSuppressed()), c16FailTable())
	return sb.String()
}

func newC16Scn(r *dialer.VRand, st *dialer.VStream, stats *dialer.VStats) *c16Scn {
	s := &c16Scn{r: r, st: st, stats: stats, byD: map[*dialer.Dialer]*c16Node{}, kbit: map[[2]int]bool{}}
	s.log = logrus.New()
	s.log.SetOutput(io.Discard)
	s.log.SetLevel(logrus.WarnLevel)
	s.opt = &dialer.GlobalOption{Log: s.log, CheckInterval: 30 * time.Second}
	s.t0 = time.Now()
	dialer.VResetGlobals()
	st.Emit("scenario", "ok")
	return s
}

func (s *c16Scn) close() {
	for _, g := range s.groups {
		if !g.closed {
			_ = g.g.Close()
		}
	}
	for _, n := range s.nodes {
		_ = n.d.Close()
	}
}

func (s *c16Scn) oracle(nodes []*c16Node) string {
	var sb strings.Builder
	for _, g := range s.groups {
		if g.pol == "fixed" || g.pol == "random" {
			continue
		}
		for _, tok := range []string{"d4", "d6", "t4", "t6", "u4", "u6"} {
			a := g.g.MustGetAliveDialerSet(c16NT(tok))
			for _, n := range nodes {
				in := false
				for _, m := range g.members {
					if m == n {
						in = true
					}
				}
				if !in {
					continue
				}
				if raw, has := dialer.VSetLatency(a, n.d); has {
					fmt.Fprintf(&sb, " %d.%d.%d:%d", g.id, c16Idx(tok), n.id, raw)
				}
			}
		}
	}
	return sb.String()
}

func (s *c16Scn) emit(head string, nodes []*c16Node) string {
	impl := s.dump()
	s.st.Emit(head+" |"+s.oracle(nodes), impl)
	for _, t := range s.trans {
		if strings.HasSuffix(t, "0") {
			s.stats.Inc("transition.dead")
		} else {
			s.stats.Inc("transition.alive")
		}
	}
	for _, c := range s.cbs {
		if !c.init {
			if c.alive {
				s.stats.Inc("groupcb.nonempty")
			} else {
				s.stats.Inc("groupcb.empty")
			}
		}
	}
	s.stats.Inc("op." + strings.SplitN(head, " ", 2)[0])
	s.trans, s.cbs, s.esc = nil, nil, nil
	s.nEv++
	return impl
}

func (s *c16Scn) addNode(addr int) *c16Node {
	n := &c16Node{id: s.nextN, addr: addr}
	s.nextN++
	a := c16Addr(addr)
	n.d = dialer.NewDialer(c16Noop{}, s.opt, dialer.InstanceOption{DisableCheck: true},
		&dialer.Property{Property: D.Property{Name: fmt.Sprintf("n%d", n.id), Address: a}})
	n.d.RegisterAliveTransitionCallback(func(nt *dialer.NetworkType, alive bool) {
		s.trans = append(s.trans, fmt.Sprintf("%d%s%s", n.id, c16Tok(nt), c16Bool(alive)))
	})
	s.nodes = append(s.nodes, n)
	s.byD[n.d] = n
	s.emit(fmt.Sprintf("node %d %d", n.id, addr), nil)
	return n
}

func (s *c16Scn) addGroup(pol string, tol time.Duration, members []*c16Node, offs []time.Duration) *c16Group {
	g := &c16Group{id: s.nextG, ob: 2 + s.nextG, pol: pol, members: members}
	s.nextG++
	ds := make([]*dialer.Dialer, len(members))
	ans := make([]*dialer.Annotation, len(members))
	var ms []string
	for i, m := range members {
		ds[i] = m.d
		ans[i] = &dialer.Annotation{AddLatency: offs[i]}
		ms = append(ms, fmt.Sprintf("%d:%d", m.id, int64(offs[i])))
	}
	opt := *s.opt
	opt.CheckTolerance = tol
	g.g = outbound.NewDialerGroup(&opt, fmt.Sprintf("g%d", g.id), ds, ans,
		outbound.DialerSelectionPolicy{Policy: c16Policies[pol], FixedIndex: 0},
		func(alive bool, nt *dialer.NetworkType, isInit bool) {
			s.cbs = append(s.cbs, c16Cb{g.id, nt.Index(), alive, isInit})
			s.kbit[[2]int{g.id, nt.Index()}] = alive
		})
	s.groups = append(s.groups, g)
	mstr := "-"
	if len(ms) > 0 {
		mstr = strings.Join(ms, ",")
	}
	s.emit(fmt.Sprintf("group %d %d %s %d %s", g.id, g.ob, pol, int64(tol), mstr), members)
	s.stats.Inc("group." + pol)
	return g
}

func (s *c16Scn) closeGroup(g *c16Group) {
	if g.closed {
		return
	}
	_ = g.g.Close()
	g.closed = true
	s.emit(fmt.Sprintf("close %d", g.id), nil)
}

// Errors every path counts. Closed-connection errors are deliberately NOT in this pool: Dialer.check
// ignores only context.Canceled while the Report* paths ignore IsCanceledOrClosed; which of the two is
// right for a probe is outside what the check pins (see design note, "error classes").
var c16ProbeErrs = []error{errors.New("connection refused"), errors.New("timeout"),
	syscall.ECONNRESET, errors.New("bad status code: 502")}
var c16Canceled = []error{context.Canceled, fmt.Errorf("Get \"http://x\": %w", context.Canceled)}

// attempt tokens: ok:<ns> | err | cancel | skip
func (s *c16Scn) probe(n *c16Node, tok string, a1, a2 string) string {
	script := []string{a1, a2}
	i := 0
	opt := dialer.VNewCheckOption(c16NT(tok), func(ctx context.Context, typ *dialer.NetworkType) (bool, error) {
		a := "err"
		if i < len(script) {
			a = script[i]
		}
		i++
		switch {
		case strings.HasPrefix(a, "ok:"):
			var ns int64
			fmt.Sscanf(a[3:], "%d", &ns)
			time.Sleep(time.Duration(ns))
			return true, nil
		case a == "cancel":
			if s.r.Chance(0.4) {
				// the REAL HttpCheck under a cancelled context: its error must still be recognised as a cancellation
				cctx, cancel := context.WithCancel(ctx)
				cancel()
				u, _ := url.Parse("http://probe.invalid/generate_204")
				_, err := n.d.HttpCheck(cctx, dialer.IdxTcp4, &netutils.URL{URL: u}, netip.MustParseAddr("192.0.2.1"), "GET", 0, false)
				s.stats.Inc("probe.real_httpcheck_cancelled")
				return false, err
			}
			return false, c16Canceled[s.r.Intn(len(c16Canceled))]
		case a == "skip":
			return false, nil
		}
		return false, c16ProbeErrs[s.r.Intn(len(c16ProbeErrs))]
	})
	sup := dialer.VSuppressed()
	pre := n.d.MustGetAlive(c16NT(tok))
	s.preCnt = c16AliveCount(n)
	_, _ = n.d.Check(opt)
	impl := s.emit(fmt.Sprintf("probe %d %s %s %s", n.id, tok, a1, a2), []*c16Node{n})
	s.note("probe", tok, a1+"/"+a2, sup, pre, n)
	return impl
}

var c16Ignorable = []error{context.Canceled, fmt.Errorf("dial tcp: %w", context.Canceled), net.ErrClosed,
	&net.OpError{Op: "read", Net: "udp", Err: net.ErrClosed}, os.ErrClosed,
	errors.New("read udp 1.2.3.4:5: use of closed network connection"),
	errors.New("rpc error: operation was canceled"), errors.New("quic: context canceled"),
	commonerrors.ErrClosedConnection, commonerrors.ErrClosedListener,
	&url.Error{Op: "Get", URL: "http://x", Err: net.ErrClosed}, &net.OpError{Op: "dial", Err: context.Canceled}}
var c16Counted = []error{nil, errors.New("i/o timeout"), syscall.ECONNREFUSED, io.EOF, context.DeadlineExceeded,
	io.ErrUnexpectedEOF, errors.New("connection reset by peer"), syscall.ENETUNREACH}

func (s *c16Scn) pickErr(ign bool) error {
	if ign {
		return c16Ignorable[s.r.Intn(len(c16Ignorable))]
	}
	return c16Counted[s.r.Intn(len(c16Counted))]
}

func c16AliveCount(n *c16Node) int {
	c := 0
	for _, tok := range []string{"d4", "d6", "t4", "t6", "u4", "u6"} {
		if n.d.MustGetAlive(c16NT(tok)) {
			c++
		}
	}
	return c
}

func (s *c16Scn) note(kind, tok, detail string, sup, pre bool, n *c16Node) {
	s.stats.Inc("typ." + tok)
	// an escalation is recognised by its EFFECT: one counted failure takes all six domains down
	if (kind == "txn" || kind == "tfail" || kind == "probe") && s.preCnt >= 2 && c16AliveCount(n) == 0 {
		s.stats.Inc("escalation")
	}
	h := n.d.HealthSnapshot().Collections[c16Idx(tok)]
	s.distinct[fmt.Sprintf("%s|%s|%s|sup%v|pre%v|post%v|f%d|t%d", kind, tok, detail, sup, pre, h.Alive,
		c16Bucket(h.FailCount), c16Bucket(int(h.TrafficFailCount)))] = struct{}{}
	if kind != "probe" || strings.HasSuffix(detail, "err/err") {
		if kind == "txn" || kind == "tfail" || kind == "probe" {
			if sup {
				s.stats.Inc("fail.suppressed")
			}
			if pre && !h.Alive {
				dom := "tcp"
				if c16IsUdp(tok) {
					dom = "udp"
				}
				src := "probe"
				if kind == "tfail" {
					src = "traffic"
				}
				s.stats.Inc("death." + src + "." + dom)
			}
		}
	}
}

func c16Bucket(c int) int {
	switch {
	case c <= 3:
		return c
	case c < 9:
		return 4
	case c <= 11:
		return c
	case c < 49:
		return 12
	case c <= 51:
		return c
	}
	return 52
}

func (s *c16Scn) txn(n *c16Node, tok string, ign bool) {
	sup, pre := dialer.VSuppressed(), n.d.MustGetAlive(c16NT(tok))
	s.preCnt = c16AliveCount(n)
	n.d.ReportUnavailableTransactional(c16NT(tok), s.pickErr(ign))
	s.emit(fmt.Sprintf("txn %d %s %s", n.id, tok, c16Bool(ign)), []*c16Node{n})
	if ign {
		s.stats.Inc("fail.ignorable")
		s.note("txn-ign", tok, "", sup, pre, n)
	} else {
		s.note("txn", tok, "", sup, pre, n)
	}
}

func (s *c16Scn) tfail(n *c16Node, tok string, ign bool) {
	sup, pre := dialer.VSuppressed(), n.d.MustGetAlive(c16NT(tok))
	s.preCnt = c16AliveCount(n)
	n.d.ReportUnavailable(c16NT(tok), s.pickErr(ign))
	s.emit(fmt.Sprintf("tfail %d %s %s", n.id, tok, c16Bool(ign)), []*c16Node{n})
	if ign {
		s.stats.Inc("fail.ignorable")
		s.note("tfail-ign", tok, "", sup, pre, n)
	} else {
		s.note("tfail", tok, "", sup, pre, n)
	}
}

func (s *c16Scn) forced(n *c16Node, tok string) {
	sup, pre := dialer.VSuppressed(), n.d.MustGetAlive(c16NT(tok))
	n.d.ReportUnavailableForced(c16NT(tok), s.pickErr(s.r.Chance(0.3)))
	s.emit(fmt.Sprintf("forced %d %s", n.id, tok), []*c16Node{n})
	s.note("forced", tok, "", sup, pre, n)
}

func (s *c16Scn) tok(n *c16Node, tok string) {
	sup, pre := dialer.VSuppressed(), n.d.MustGetAlive(c16NT(tok))
	n.d.ReportAvailableTraffic(c16NT(tok))
	s.emit(fmt.Sprintf("tok %d %s", n.id, tok), []*c16Node{n})
	s.note("tok", tok, "", sup, pre, n)
}

func (s *c16Scn) sbegin() { dialer.BeginReloadProxyFailureSuppression(); s.emit("sbegin", nil) }
func (s *c16Scn) send()   { dialer.EndReloadProxyFailureSuppression(); s.emit("send", nil) }
func (s *c16Scn) tick(d time.Duration) {
	time.Sleep(d)
	s.emit(fmt.Sprintf("tick %d", int64(d)), nil)
}
func (s *c16Scn) resetGlobal() { dialer.ResetGlobalProxyStateForReload(); s.emit("resetglobal", nil) }

func (s *c16Scn) inherit(n, m *c16Node) {
	n.d.RestoreHealthSnapshot(m.d.ReloadHealthSnapshot())
	s.emit(fmt.Sprintf("inherit %d %d", n.id, m.id), []*c16Node{n})
}

func (s *c16Scn) restoreRaw(n *c16Node, alive [8]bool, fc, tc [8]int) {
	snap := n.d.HealthSnapshot() // keeps the node's own latency history / recovery state
	var bits, fs, ts []string
	for i := 0; i < 8; i++ {
		snap.Collections[i].Alive = alive[i]
		snap.Collections[i].FailCount = fc[i]
		snap.Collections[i].TrafficFailCount = int32(tc[i])
		bits = append(bits, c16Bool(alive[i]))
		fs = append(fs, fmt.Sprint(fc[i]))
		ts = append(ts, fmt.Sprint(tc[i]))
	}
	n.d.RestoreHealthSnapshot(snap)
	s.emit(fmt.Sprintf("restore %d %s %s %s", n.id, strings.Join(bits, ""), strings.Join(fs, ","), strings.Join(ts, ",")),
		[]*c16Node{n})
}

// the real CaptureReloadSelectionFallback (SelectWithExclusionResult -> _select -> GetMinLatency, data-UDP
// fallback chain, other IP family, single-member rule); for a latency policy the answer is determined and
// compared with Model.captureFallback
func (s *c16Scn) capture(g *c16Group) outbound.ReloadSelectionFallback {
	fb := g.g.CaptureReloadSelectionFallback()
	if strings.HasPrefix(g.pol, "min_") {
		var toks []string
		for i := 2; i < 8; i++ {
			if fb[i] != nil {
				toks = append(toks, fmt.Sprintf("%d:%d", i, s.idOf(fb[i])))
			}
		}
		if fb[0] != nil || fb[1] != nil {
			toks = append(toks, "unexpected-index")
		}
		s.st.Emit(fmt.Sprintf("capture %d", g.id), "F["+strings.Join(toks, ",")+"]")
		s.stats.Inc("capture")
		first := -1
		if len(g.members) > 0 {
			first = g.members[0].id
		}
		for i := 2; i < 8; i++ {
			if fb[i] != nil && s.idOf(fb[i]) != first {
				s.stats.Inc("capture.not_first_member")
				break
			}
		}
		for i := 2; i < 8; i++ {
			if fb[i] == nil {
				s.stats.Inc("capture.none_for_some_type")
				break
			}
		}
	}
	return fb
}

func (s *c16Scn) floor(g *c16Group, fb outbound.ReloadSelectionFallback) {
	var toks []string
	for i := 0; i < 8; i++ {
		if fb[i] != nil {
			toks = append(toks, fmt.Sprintf("%d:%d", i, s.idOf(fb[i])))
		}
	}
	g.g.EnsureReloadSelectionFloor(fb)
	fbs := "-"
	if len(toks) > 0 {
		fbs = strings.Join(toks, ",")
	}
	before := s.nEv
	_ = before
	if len(s.trans) > 0 {
		s.stats.Add("floor.marked", len(s.trans))
	}
	s.emit(fmt.Sprintf("floor %d %s", g.id, fbs), g.members)
}

// ---- generators

var c16Lats = []time.Duration{time.Millisecond, time.Millisecond, 5 * time.Millisecond, 20 * time.Millisecond,
	100 * time.Millisecond, 0, 1, 3 * time.Second}

func (s *c16Scn) randTok() string { return c16Typs[s.r.Intn(len(c16Typs))] }
func (s *c16Scn) randNode() *c16Node {
	return s.nodes[s.r.Intn(len(s.nodes))]
}
func (s *c16Scn) okAttempt() string {
	return fmt.Sprintf("ok:%d", int64(c16Lats[s.r.Intn(len(c16Lats))]))
}

func (s *c16Scn) probeOk(n *c16Node, tok string) {
	if s.r.Chance(0.2) {
		s.probe(n, tok, "err", s.okAttempt())
	} else {
		s.probe(n, tok, s.okAttempt(), "-")
	}
}
func (s *c16Scn) probeFail(n *c16Node, tok string) { s.probe(n, tok, "err", "err") }
func (s *c16Scn) probeNothing(n *c16Node, tok string) {
	switch s.r.Intn(4) {
	case 0:
		s.probe(n, tok, "cancel", "-")
	case 1:
		s.probe(n, tok, "skip", "-")
	case 2:
		s.probe(n, tok, "err", "cancel")
	default:
		s.probe(n, tok, "err", "skip")
	}
	s.stats.Inc("probe.nothing")
}

// one failure of the given source
func (s *c16Scn) failBy(src int, n *c16Node, tok string) {
	switch src {
	case 0:
		s.probeFail(n, tok)
	case 1:
		s.txn(n, tok, false)
	default:
		s.tfail(n, tok, false)
	}
}

func c16Threshold(tok string, src int) int {
	if c16IsUdp(tok) {
		if src == 2 {
			return 50
		}
		return 3
	}
	if src == 2 {
		return 10
	}
	return 1
}

// noise that must not change the streak on (n, tok, src)
func (s *c16Scn) noise(n *c16Node, tok string, src int) {
	switch s.r.Intn(9) {
	case 0:
		s.txn(n, tok, true)
	case 1:
		s.tfail(n, tok, true)
	case 2:
		s.probeNothing(n, tok)
	case 3: // other type of the same node
		o := s.randTok()
		if c16Idx(o) != c16Idx(tok) {
			s.failBy(s.r.Intn(3), n, o)
		}
	case 4: // other node
		if len(s.nodes) > 1 {
			m := s.randNode()
			if m != n {
				s.failBy(s.r.Intn(3), m, s.randTok())
			}
		}
	case 5: // a suppressed failure
		s.sbegin()
		s.failBy(src, n, tok)
		if s.r.Bool() {
			s.failBy(s.r.Intn(3), n, tok)
		}
		s.send()
		if s.r.Bool() {
			s.failBy(src, n, tok) // inside the quiesce window
			s.tick(c16Quiesce - time.Duration(s.r.Intn(2)))
			s.failBy(src, n, tok) // 1 ns before the end / exactly at the end
			s.tick(time.Duration(s.r.Intn(2)))
		} else {
			s.tick(c16Quiesce + time.Duration(s.r.Intn(3)))
		}
	case 6: // the other failure source on the same slot (separate counter)
		if src == 2 {
			if c16Threshold(tok, 0) > 1 {
				s.txn(n, tok, false)
			}
		} else {
			s.tfail(n, tok, false)
		}
	case 7:
		s.tick(time.Duration(s.r.Intn(5000)) * time.Millisecond)
	case 8: // traffic success: clears only the traffic counter unless data-UDP & dead
		if src != 2 {
			s.tok(n, tok)
		}
	}
}

// threshold boundary: k-1 / k / k+1 counted failures with noise in between, optional success
func (s *c16Scn) genThreshold() {
	n := s.randNode()
	tok := s.randTok()
	src := s.r.Intn(3)
	th := c16Threshold(tok, src)
	k := th - 1 + s.r.Intn(4)
	noiseP := 0.25
	if th >= 10 {
		noiseP = 0.04
	}
	breakAt := -1
	if s.r.Chance(0.35) && k > 1 {
		breakAt = 1 + s.r.Intn(k-1)
	}
	for i := 0; i < k; i++ {
		if i == breakAt {
			// a success in the middle restarts the streak
			switch {
			case src == 2 && s.r.Bool():
				s.tok(n, tok)
			default:
				s.probeOk(n, tok)
			}
			s.stats.Inc("streak.broken")
		}
		for s.r.Chance(noiseP) {
			s.noise(n, tok, src)
		}
		s.failBy(src, n, tok)
	}
	s.stats.Inc(fmt.Sprintf("threshold.k-th=%+d", k-th))
	if s.r.Chance(0.7) {
		if c16IsData(tok) && s.r.Bool() {
			s.tok(n, tok)
		} else {
			s.probeOk(n, tok)
		}
	}
}

// quickest non-forced death of (n, tok)
func (s *c16Scn) kill(n *c16Node, tok string) {
	if !n.d.MustGetAlive(c16NT(tok)) {
		return
	}
	th := c16Threshold(tok, 0)
	for i := 0; i < th+3 && n.d.MustGetAlive(c16NT(tok)); i++ {
		if s.r.Bool() {
			s.probeFail(n, tok)
		} else {
			s.txn(n, tok, false)
		}
	}
}

func (s *c16Scn) revive(n *c16Node, tok string) {
	if c16IsData(tok) && s.r.Chance(0.7) {
		s.tok(n, tok)
	} else {
		s.probeOk(n, tok)
	}
}

// three death transitions of one address, with optional interruptions
func (s *c16Scn) genEscalation() {
	n := s.randNode()
	var same []*c16Node
	for _, m := range s.nodes {
		if m.addr == n.addr {
			same = append(same, m)
		}
	}
	toks := []string{"t4", "t6", "d4", "d6", "u4", "u6", "T4", "x6"}
	deaths := 2 + s.r.Intn(3)
	for i := 0; i < deaths; i++ {
		m := same[s.r.Intn(len(same))]
		tok := toks[s.r.Intn(len(toks))]
		if !m.d.MustGetAlive(c16NT(tok)) {
			s.revive(m, tok) // a success: clears the address entry
		}
		switch s.r.Intn(12) {
		case 0:
			s.tick(c16TTL + time.Duration(s.r.Intn(3)-1)) // TTL boundary
		case 1:
			s.resetGlobal()
		case 2:
			o := same[s.r.Intn(len(same))]
			s.probeOk(o, s.randTok())
		case 3:
			s.forced(m, s.randTok()) // forced deaths are not counted for the address
		case 4:
			s.tick(c16Cleanup)
		}
		if s.r.Chance(0.2) {
			for j := 0; j < 12 && m.d.MustGetAlive(c16NT(tok)); j++ {
				s.tfail(m, tok, false)
			}
			if c16IsUdp(tok) {
				for j := 0; j < 40 && m.d.MustGetAlive(c16NT(tok)); j++ {
					s.tfail(m, tok, false)
				}
			}
		} else {
			s.kill(m, tok)
		}
	}
	s.stats.Inc("gen.escalation")
}

// kill every member of a group in one domain, then revive one or more
func (s *c16Scn) genAllDead() {
	if len(s.groups) == 0 {
		return
	}
	g := s.groups[s.r.Intn(len(s.groups))]
	if len(g.members) == 0 {
		return
	}
	toks := []string{"t4", "t6", "d4", "d6", "u4", "u6", "u4", "u6", "T4", "x4"}
	tok := toks[s.r.Intn(len(toks))]
	for _, m := range g.members {
		if s.r.Chance(0.9) {
			if s.r.Chance(0.3) {
				s.forced(m, tok)
			} else {
				s.kill(m, tok)
			}
		}
	}
	k := 1 + s.r.Intn(len(g.members))
	for i := 0; i < k; i++ {
		s.revive(g.members[s.r.Intn(len(g.members))], tok)
	}
	s.stats.Inc("gen.alldead")
}

func (s *c16Scn) genRandomEvent() {
	n := s.randNode()
	tok := s.randTok()
	switch s.r.Intn(16) {
	case 0, 1:
		s.probeOk(n, tok)
	case 2, 3:
		s.probeFail(n, tok)
	case 4:
		s.probeNothing(n, tok)
	case 5:
		s.txn(n, tok, s.r.Chance(0.25))
	case 6, 7:
		s.tfail(n, tok, s.r.Chance(0.25))
	case 8:
		s.forced(n, tok)
	case 9, 10:
		s.tok(n, tok)
	case 11:
		if s.r.Bool() {
			s.sbegin()
		} else {
			s.send()
		}
	case 12:
		s.tick(time.Duration(s.r.Intn(30000)) * time.Millisecond)
	case 13:
		var alive [8]bool
		var fc, tc [8]int
		consistent := s.r.Chance(0.6)
		for i := 0; i < 8; i++ {
			alive[i] = s.r.Chance(0.6)
			if s.r.Chance(0.3) {
				fc[i] = s.r.Intn(4)
				tc[i] = s.r.Intn(52)
			}
		}
		if consistent {
			alive[0], alive[1] = alive[4], alive[5]
		}
		s.restoreRaw(n, alive, fc, tc)
	case 14:
		m := s.randNode()
		s.inherit(n, m)
	case 15:
		if len(s.groups) > 0 {
			g := s.groups[s.r.Intn(len(s.groups))]
			var fb outbound.ReloadSelectionFallback
			if s.r.Chance(0.4) {
				fb = s.capture(g) // the group's own choice in whatever state it is in
			} else if len(g.members) > 0 {
				for i := 2; i < 8; i++ {
					if s.r.Chance(0.5) {
						fb[i] = g.members[s.r.Intn(len(g.members))].d
					}
				}
			}
			if s.r.Chance(0.8) {
				s.floor(g, fb)
			}
		}
	}
}

var c16Pols = []string{"min_last", "min_avg", "min_moving", "min_last", "random", "fixed"}

func (s *c16Scn) genTopology() {
	nn := 1 + s.r.Intn(4)
	addrs := []int{0, 1, 1, 2}
	for i := 0; i < nn; i++ {
		s.addNode(addrs[s.r.Intn(len(addrs))])
	}
	// some pre-history before groups exist (groups are built from the nodes' current state)
	for i := s.r.Intn(4); i > 0; i-- {
		s.genRandomEvent()
	}
	ng := s.r.Intn(4)
	for i := 0; i < ng; i++ {
		s.genGroup(s.nodes)
	}
}

func (s *c16Scn) genGroup(pool []*c16Node) *c16Group {
	var ms []*c16Node
	var offs []time.Duration
	for _, n := range pool {
		if s.r.Chance(0.75) {
			ms = append(ms, n)
			offs = append(offs, []time.Duration{0, 0, time.Millisecond, 30 * time.Millisecond}[s.r.Intn(4)])
		}
	}
	s.r.Intn(1)
	// shuffle member order (g.Dialers[0] is the floor's default candidate)
	for i := len(ms) - 1; i > 0; i-- {
		j := s.r.Intn(i + 1)
		ms[i], ms[j] = ms[j], ms[i]
		offs[i], offs[j] = offs[j], offs[i]
	}
	tol := []time.Duration{0, 0, time.Millisecond, 50 * time.Millisecond}[s.r.Intn(4)]
	return s.addGroup(c16Pols[s.r.Intn(len(c16Pols))], tol, ms, offs)
}

// a reload: new generation of nodes and groups inherits the old generation's health
func (s *c16Scn) genReload() {
	old := append([]*c16Node(nil), s.nodes...)
	oldGroups := append([]*c16Group(nil), s.groups...)
	sup := s.r.Chance(0.7)
	if sup {
		s.sbegin()
	}
	if s.r.Chance(0.5) {
		s.resetGlobal()
	}
	newOf := map[*c16Node]*c16Node{}
	for _, o := range old {
		if s.r.Chance(0.9) {
			newOf[o] = s.addNode(o.addr)
		}
	}
	type pend struct {
		g  *c16Group
		fb outbound.ReloadSelectionFallback
		og *c16Group
	}
	var pends []pend
	for _, og := range oldGroups {
		var ms []*c16Node
		var offs []time.Duration
		for _, m := range og.members {
			if nn := newOf[m]; nn != nil {
				ms = append(ms, nn)
				offs = append(offs, 0)
			}
		}
		tol := []time.Duration{0, time.Millisecond}[s.r.Intn(2)]
		ng := s.addGroup(og.pol, tol, ms, offs)
		pends = append(pends, pend{ng, s.capture(ng), og})
	}
	// the order of InheritDialerHealthFrom (fix a4cd600): all fallbacks are captured above while every
	// new node is fresh, then every matched dialer of every group is restored, then every group floored.
	// (The real method itself is driven by the control-package harness.)
	shared := false
	seen := map[*c16Node]bool{}
	for _, p := range pends {
		for _, m := range p.og.members {
			if nn := newOf[m]; nn != nil && s.r.Chance(0.95) {
				if seen[nn] {
					shared = true
				}
				seen[nn] = true
				s.inherit(nn, m)
			}
		}
	}
	if shared {
		s.stats.Inc("gen.reload.shared")
	}
	for _, p := range pends {
		if s.r.Chance(0.9) {
			s.floor(p.g, p.fb)
		}
	}
	for _, og := range oldGroups {
		if s.r.Chance(0.8) {
			s.closeGroup(og)
		}
	}
	if sup {
		s.send()
	}
	// failures right after the reload are suppressed for the quiesce window
	for i := s.r.Intn(4); i > 0; i-- {
		n := s.randNode()
		s.failBy(s.r.Intn(3), n, s.randTok())
	}
	if s.r.Bool() {
		s.tick(c16Quiesce)
	}
	s.stats.Inc("gen.reload")
}

func (s *c16Scn) runScenario(maxEv int) {
	s.genTopology()
	for s.nEv < maxEv {
		switch x := s.r.Intn(100); {
		case x < 30:
			s.genThreshold()
		case x < 45:
			s.genEscalation()
		case x < 65:
			s.genAllDead()
		case x < 72:
			if len(s.nodes) <= 6 {
				s.genReload()
			}
		case x < 75:
			if len(s.groups) > 0 {
				s.closeGroup(s.groups[s.r.Intn(len(s.groups))])
			}
		case x < 78:
			if len(s.groups) < 5 {
				s.genGroup(s.nodes)
			}
		default:
			s.genRandomEvent()
		}
		if len(s.groups) > 0 && s.r.Chance(0.12) {
			s.capture(s.groups[s.r.Intn(len(s.groups))])
		}
	}
}

// finding #13 replay (fixed by 307ce76): all-dead then revival without a latency sample
func (s *c16Scn) replayFinding13() {
	a, b := s.addNode(0), s.addNode(0)
	s.addGroup("min_last", 0, []*c16Node{a, b}, []time.Duration{0, 0})
	for _, tok := range []string{"u4", "d6"} {
		s.forced(a, tok)
		s.forced(b, tok)
	}
	s.tok(b, "u4") // data-UDP revives by traffic, never has a latency
	var al [8]bool
	for i := range al {
		al[i] = true
	}
	s.restoreRaw(b, al, [8]int{}, [8]int{}) // dns-udp6 revives by restore without latency
}

// boundary of the one-hour start value in NotifyLatencyChange / calcMinLatency: before fix addc261 a
// node reviving with a sorting latency above time.Hour (minus tolerance) was added to the set but never
// selected (no group callback, kernel bit stuck at 0); now it is selected whatever its latency.
func (s *c16Scn) replayHourSentinel() {
	a := s.addNode(0)
	s.addGroup("min_last", 0, []*c16Node{a}, []time.Duration{0})
	s.forced(a, "t4")
	s.probe(a, "t4", fmt.Sprintf("ok:%d", int64(time.Hour+1)), "-")
	s.forced(a, "t6")
	s.probe(a, "t6", fmt.Sprintf("ok:%d", int64(time.Hour)), "-")
	b := s.addNode(0)
	s.addGroup("min_last", 50*time.Millisecond, []*c16Node{b}, []time.Duration{0})
	s.forced(b, "d4")
	s.probe(b, "d4", fmt.Sprintf("ok:%d", int64(time.Hour-50*time.Millisecond+1)), "-")
	s.forced(b, "d6")
	s.probe(b, "d6", fmt.Sprintf("ok:%d", int64(time.Hour-50*time.Millisecond)), "-")
}

func TestVerifC16(t *testing.T) {
	st := dialer.VOpenStream("c16")
	defer st.Close()
	stats := dialer.NewVStats()
	distinct := map[string]struct{}{}
	r := dialer.NewVRand(dialer.VSeed())
	// static facts first
	for _, tok := range c16Typs {
		nt := c16NT(tok)
		st.Emit("typidx "+tok, fmt.Sprintf("idx=%d udp=%s data=%s", nt.Index(), c16Bool(nt.L4Proto == consts.L4ProtoStr_UDP),
			c16Bool(nt.L4Proto == consts.L4ProtoStr_UDP && nt.EffectiveUdpHealthDomain() == dialer.UdpHealthDomainData)))
	}
	st.Emit("consts", dialer.VConsts())
	c16Quiesce, c16TTL, c16Cleanup = dialer.VParams()
	st.Emit(fmt.Sprintf("params %d %d %d", int64(c16Quiesce), int64(c16TTL), int64(c16Cleanup)), "ok")
	nScn, maxEv := 250, 90
	if dialer.VThorough() {
		nScn, maxEv = 4000, 110
	}
	nScn = dialer.VEnvInt("VERIF_C16_SCENARIOS", nScn)
	for i := -1; i < nScn+1; i++ {
		rs := r.Fork()
		synctest.Test(t, func(t *testing.T) {
			s := newC16Scn(rs, st, stats)
			s.distinct = distinct
			defer s.close()
			out := dialer.VRecover(func() string {
				if i == -1 {
					s.replayHourSentinel()
				} else if i == 0 {
					s.replayFinding13()
				} else {
					s.runScenario(maxEv)
				}
				return ""
			})
			if out != "" {
				st.Emit("crash", out)
			}
		})
	}
	stats.Add("distinct", len(distinct))
	stats.Add("scenarios", nScn+2)
	stats.Write("c16")
}
