package dialer

// C16: injected into the NON-test build of package dialer by checks/c16.py (overlay) only for the
// control-package harness, which needs to see how many alive-transition callbacks the production
// wiring registered on a dialer. Exposes state, adds no behaviour.

func (d *Dialer) VerifC16TransitionCallbacks() int {
	d.aliveTransitionMu.RLock()
	defer d.aliveTransitionMu.RUnlock()
	return len(d.aliveTransitionCallbacks)
}
