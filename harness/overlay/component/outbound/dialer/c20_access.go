package dialer

import "time"

// C20 harness accessors (injected by `go test -overlay` only while the C20 check builds package
// cmd's test binary; never part of /repo): the reload suppression counter is an unexported
// package variable.

func VerifC20Suppression() int32 { return reloadProxyFailureSuppression.Load() }

func VerifC20ResetSuppression() {
	reloadProxyFailureSuppression.Store(0)
	reloadProxyFailureSuppressUntil.Store(0)
}

// VerifC20SuppressedNow reports proxyFailureSuppressedForReload() (counter > 0 or inside the
// post-reload quiesce window).
func VerifC20SuppressedNow() bool { return proxyFailureSuppressedForReload() }

// VerifC20Quiesce is the length of the post-reload mute window.
func VerifC20Quiesce() time.Duration { return reloadFailureQuiesce }
