package dialer

// C16 white-box shims (in-package test file, injected by -overlay): they only EXPOSE unexported
// state / constructors of the real package to the external harness package (c16x_test.go, package
// dialer_test, which may import component/outbound).  No behaviour lives here.

import (
	"context"
	"encoding/json"
	"errors"
	"fmt"
	"io"
	"os"
	"path/filepath"
	"strings"
	"sync"
	"testing"
	"time"

	"github.com/daeuniverse/dae/common/consts"
	D "github.com/daeuniverse/outbound/dialer"
	"github.com/daeuniverse/outbound/netproxy"
	"github.com/sirupsen/logrus"
)

func VNewCheckOption(nt *NetworkType, f func(ctx context.Context, typ *NetworkType) (bool, error)) *CheckOption {
	return &CheckOption{networkType: nt, CheckFunc: f}
}

// VResetGlobals puts the process-global proxy failure tracker and the reload suppression state
// back to their start-up values (each scenario runs in its own synctest bubble whose clock restarts).
func VResetGlobals() {
	resetGlobalProxyState()
	reloadProxyFailureSuppression.Store(0)
	reloadProxyFailureSuppressUntil.Store(0)
}

func VSuppressed() bool { return proxyFailureSuppressedForReload() }

// VProxyFailures: address -> consecutive death count, entries with a positive count only (how the table
// represents "no deaths recorded" — absent or zero — is not the property's business).
func VProxyFailures() map[string]int32 {
	globalProxyIpHealthTracker.Lock()
	defer globalProxyIpHealthTracker.Unlock()
	out := map[string]int32{}
	for k, e := range globalProxyIpHealthTracker.failures {
		if e.count > 0 {
			out[k] = e.count
		}
	}
	return out
}

func VConsts() string { return fmt.Sprintf("max=%d", maxConsecutiveFailures) }

// VParams: the durations the property does not fix; handed to the model as parameters, not compared.
func VParams() (quiesce, ttl, cleanup time.Duration) {
	return reloadFailureQuiesce, proxyFailureTTL, proxyFailureCleanupInterval
}

// VSetDump prints "<idx><a|i>[n:lat,...]m=<n|->:<minLat>" from the set's real fields.
func VSetDump(a *AliveDialerSet, gid int, active bool, id func(*Dialer) int) string {
	a.mu.RLock()
	defer a.mu.RUnlock()
	var sb strings.Builder
	act := "i"
	if active {
		act = "a"
	}
	fmt.Fprintf(&sb, "%d.%d%s[", gid, a.CheckTyp.Index(), act)
	for i, e := range a.aliveEntries {
		if i > 0 {
			sb.WriteByte(',')
		}
		fmt.Fprintf(&sb, "%d:%d", id(e.dialer), int64(e.sortingLatency))
		// the index map must agree with the slice (the model keeps only the slice)
		if a.dialerToIndex[e.dialer] != i {
			fmt.Fprintf(&sb, "!idx%d", a.dialerToIndex[e.dialer])
		}
	}
	m := "-"
	if a.minLatency.dialer != nil {
		m = fmt.Sprint(id(a.minLatency.dialer))
	}
	fmt.Fprintf(&sb, "]m=%s:%d", m, int64(a.minLatency.sortingLatency))
	for d, ix := range a.dialerToIndex {
		if ix >= 0 && (ix >= len(a.aliveEntries) || a.aliveEntries[ix].dialer != d) {
			fmt.Fprintf(&sb, "!stale%d", id(d))
		}
	}
	return sb.String()
}

// VSetLatency is what NotifyLatencyChange read for this node the last time it was notified (the
// model's oracle input).  Whether a measurement exists is re-read from the node (it cannot change
// between the notification and the end of the event); the value is the one the set recorded at that
// notification (dialerToLatency), because RestoreHealthSnapshot resets the back-off penalty AFTER it
// has notified the groups.
func VSetLatency(a *AliveDialerSet, d *Dialer) (int64, bool) {
	if !isMinLatencyPolicy(a.selectionPolicy) {
		return 0, false
	}
	raw, has := d.snapshotLatencyForPolicy(a.CheckTyp, a.selectionPolicy)
	if !has {
		return 0, false
	}
	a.mu.RLock()
	defer a.mu.RUnlock()
	if seen, ok := a.dialerToLatency[d]; ok {
		return int64(seen), true
	}
	return int64(raw), true
}

func VSetRegistered(a *AliveDialerSet, d *Dialer) bool {
	d.collectionFineMu.RLock()
	defer d.collectionFineMu.RUnlock()
	return d.mustGetCollection(a.CheckTyp).AliveDialerSetSet[a] > 0
}

func VReloadInherited(d *Dialer) bool { return d.reloadInheritedHealth.Load() }

// VCheckActivated: is the aliveBackground goroutine of this dialer running (or about to).
func VCheckActivated(d *Dialer) bool {
	d.tickerMu.Lock()
	defer d.tickerMu.Unlock()
	return d.checkActivated
}

// VReleaseCheckPool releases the process-global probe worker pool and forgets it: its goroutines,
// tickers and channels belong to the synctest bubble that created it and must not outlive it.
func VReleaseCheckPool() {
	poolMu.Lock()
	defer poolMu.Unlock()
	if connectivityCheckPool != nil {
		connectivityCheckPool.Release()
		connectivityCheckPool = nil
	}
	poolActiveCount = 0
}

// VProbeTimeout is the per-attempt deadline of Dialer.check.
func VProbeTimeout() time.Duration { return Timeout }

// ---- concurrency probe (fix 13e43e7): two racing reports on one node, one set; at quiescence the set
// must agree with the node and the last value handed to the group callback with the set.
// On the fixed tree 0 disagreements is a fact (Props.concurrent_reports_agree_at_quiescence is the
// argument); on the old protocol ~1 round in 1000 disagrees, so this is a probabilistic detector.

type c16RaceDialer struct{}

func (c16RaceDialer) DialContext(context.Context, string, string) (netproxy.Conn, error) {
	return nil, errors.New("not implemented")
}

func TestVerifC16Race(t *testing.T) {
	log := logrus.New()
	log.SetOutput(io.Discard)
	log.SetLevel(logrus.ErrorLevel)
	opt := &GlobalOption{Log: log, CheckInterval: 30 * time.Second}
	rounds := 20000
	if VThorough() {
		rounds = 100000
	}
	rounds = VEnvInt("VERIF_C16_RACE_ROUNDS", rounds)
	type res struct {
		Rounds, NodeVsSet, SetVsCallback, FirstRound int
		Detail                                       string
	}
	out := map[string]*res{}
	tcp4 := &NetworkType{L4Proto: consts.L4ProtoStr_TCP, IpVersion: consts.IpVersionStr_4}
	udp6 := &NetworkType{L4Proto: consts.L4ProtoStr_UDP, IpVersion: consts.IpVersionStr_6, UdpHealthDomain: UdpHealthDomainData}
	udp4 := &NetworkType{L4Proto: consts.L4ProtoStr_UDP, IpVersion: consts.IpVersionStr_4, UdpHealthDomain: UdpHealthDomainData}
	variants := []struct {
		name    string
		nt      *NetworkType
		addr    string
		predead bool
		a, b    func(d *Dialer, nt *NetworkType)
	}{
		// only exported entry points, so that inlining private helpers does not break the build
		{"forced_vs_traffic_revival", udp4, "", true,
			func(d *Dialer, nt *NetworkType) { d.ReportUnavailableForced(nt, nil) },
			func(d *Dialer, nt *NetworkType) { d.ReportAvailableTraffic(nt) }},
		{"forced_vs_probe_success", udp6, "", false,
			func(d *Dialer, nt *NetworkType) { d.ReportUnavailableForced(nt, nil) },
			func(d *Dialer, nt *NetworkType) {
				_, _ = d.Check(&CheckOption{networkType: nt, CheckFunc: func(context.Context, *NetworkType) (bool, error) { return true, nil }})
			}},
		// two racing counted failures on a TCP slot (threshold 1): ONE death, one transition callback, one
		// death recorded for the address
		{"two_racing_failures", tcp4, "race.example:443", false,
			func(d *Dialer, nt *NetworkType) { d.ReportUnavailableTransactional(nt, errors.New("timeout")) },
			func(d *Dialer, nt *NetworkType) { d.ReportUnavailableTransactional(nt, errors.New("refused")) }},
	}
	for _, v := range variants {
		r := &res{Rounds: rounds / len(variants), FirstRound: -1}
		out[v.name] = r
		for i := 0; i < r.Rounds; i++ {
			var bitMu sync.Mutex
			bit := true
			deadCbs := 0
			resetGlobalProxyState()
			d := NewDialer(c16RaceDialer{}, opt, InstanceOption{DisableCheck: true}, &Property{Property: D.Property{Name: "n", Address: v.addr}})
			if v.predead {
				d.ReportUnavailableForced(v.nt, nil)
			}
			d.RegisterAliveTransitionCallback(func(_ *NetworkType, alive bool) {
				if !alive {
					bitMu.Lock()
					deadCbs++
					bitMu.Unlock()
				}
			})
			set := NewAliveDialerSet(log, "g", v.nt, 0, consts.DialerSelectionPolicy_MinLastLatency, []*Dialer{d}, []*Annotation{{}},
				func(b bool) { bitMu.Lock(); bit = b; bitMu.Unlock() }, false)
			set.NotifyLatencyChange(d, d.MustGetAlive(v.nt))
			bit = set.Len() == 1
			d.RegisterAliveDialerSet(set)
			pairs := 1
			if v.name == "two_racing_failures" {
				pairs = 4 // eight racing failures: still exactly one death
			}
			var wg sync.WaitGroup
			start := make(chan struct{})
			for k := 0; k < pairs; k++ {
				wg.Add(2)
				go func() { defer wg.Done(); <-start; v.a(d, v.nt) }()
				go func() { defer wg.Done(); <-start; v.b(d, v.nt) }()
			}
			close(start)
			wg.Wait()
			alive, in := d.MustGetAlive(v.nt), set.Len() == 1
			bad := alive != in
			detail := fmt.Sprintf("node alive=%v, set lists it=%v", alive, in)
			if v.name == "two_racing_failures" {
				pf := VProxyFailures()[v.addr]
				if deadCbs != 1 || pf != 1 || alive {
					bad = true
					detail = fmt.Sprintf("one death expected: alive=%v, not-alive callbacks=%d, deaths recorded for the address=%d", alive, deadCbs, pf)
				}
			}
			if bad {
				r.NodeVsSet++
				if r.FirstRound < 0 {
					r.FirstRound = i
					r.Detail = detail
				}
			}
			if bit != in {
				r.SetVsCallback++
			}
			_ = d.Close()
		}
	}
	resetGlobalProxyState()
	b, _ := json.MarshalIndent(out, "", " ")
	_ = os.WriteFile(filepath.Join(VOutDir(), "c16r.json"), b, 0o644)
}
