package dialer

// C16 white-box shims (in-package test file, injected by -overlay): they only EXPOSE unexported
// state / constructors of the real package to the external harness package (c16x_test.go, package
// dialer_test, which may import component/outbound).  No behaviour lives here.

import (
	"context"
	"fmt"
	"sort"
	"strings"
	"time"
)

func VNewCheckOption(nt *NetworkType, f func(ctx context.Context, typ *NetworkType) (bool, error)) *CheckOption {
	return &CheckOption{networkType: nt, CheckFunc: f}
}

// VResetGlobals puts the process-global proxy failure tracker and the reload suppression state
// back to their start-up values (each scenario runs in its own synctest bubble whose clock restarts).
func VResetGlobals() {
	resetGlobalProxyState()
	reloadProxyFailureSuppression.Store(0)
	reloadProxyFailureSuppressUntil.Store(0)
}

func VSuppressed() bool { return proxyFailureSuppressedForReload() }

func VProxyFailures() string {
	globalProxyIpHealthTracker.Lock()
	defer globalProxyIpHealthTracker.Unlock()
	var ks []string
	for k := range globalProxyIpHealthTracker.failures {
		ks = append(ks, k)
	}
	sort.Strings(ks)
	var sb strings.Builder
	for i, k := range ks {
		if i > 0 {
			sb.WriteByte(',')
		}
		fmt.Fprintf(&sb, "%s:%d", strings.TrimPrefix(k, "addr"), globalProxyIpHealthTracker.failures[k].count)
	}
	return sb.String()
}

func VConsts() string {
	return fmt.Sprintf("max=%d quiesce=%d ttl=%d cleanup=%d hour=%d", maxConsecutiveFailures,
		int64(reloadFailureQuiesce), int64(proxyFailureTTL), int64(proxyFailureCleanupInterval), int64(time.Hour))
}

// VSetDump prints "<idx><a|i>[n:lat,...]m=<n|->:<minLat>" from the set's real fields.
func VSetDump(a *AliveDialerSet, gid int, active bool, id func(*Dialer) int) string {
	a.mu.RLock()
	defer a.mu.RUnlock()
	var sb strings.Builder
	act := "i"
	if active {
		act = "a"
	}
	fmt.Fprintf(&sb, "%d.%d%s[", gid, a.CheckTyp.Index(), act)
	for i, e := range a.aliveEntries {
		if i > 0 {
			sb.WriteByte(',')
		}
		fmt.Fprintf(&sb, "%d:%d", id(e.dialer), int64(e.sortingLatency))
		// the index map must agree with the slice (the model keeps only the slice)
		if a.dialerToIndex[e.dialer] != i {
			fmt.Fprintf(&sb, "!idx%d", a.dialerToIndex[e.dialer])
		}
	}
	m := "-"
	if a.minLatency.dialer != nil {
		m = fmt.Sprint(id(a.minLatency.dialer))
	}
	fmt.Fprintf(&sb, "]m=%s:%d", m, int64(a.minLatency.sortingLatency))
	for d, ix := range a.dialerToIndex {
		if ix >= 0 && (ix >= len(a.aliveEntries) || a.aliveEntries[ix].dialer != d) {
			fmt.Fprintf(&sb, "!stale%d", id(d))
		}
	}
	return sb.String()
}

// VSetLatency is what NotifyLatencyChange read for this node the last time it was notified (the
// model's oracle input).  Whether a measurement exists is re-read from the node (it cannot change
// between the notification and the end of the event); the value is the one the set recorded at that
// notification (dialerToLatency), because RestoreHealthSnapshot resets the back-off penalty AFTER it
// has notified the groups.
func VSetLatency(a *AliveDialerSet, d *Dialer) (int64, bool) {
	if !isMinLatencyPolicy(a.selectionPolicy) {
		return 0, false
	}
	raw, has := d.snapshotLatencyForPolicy(a.CheckTyp, a.selectionPolicy)
	if !has {
		return 0, false
	}
	a.mu.RLock()
	defer a.mu.RUnlock()
	if seen, ok := a.dialerToLatency[d]; ok {
		return int64(seen), true
	}
	return int64(raw), true
}

func VSetRegistered(a *AliveDialerSet, d *Dialer) bool {
	d.collectionFineMu.RLock()
	defer d.collectionFineMu.RUnlock()
	return d.mustGetCollection(a.CheckTyp).AliveDialerSetSet[a] > 0
}

func VReloadInherited(d *Dialer) bool { return d.reloadInheritedHealth.Load() }
