package dialer

// C15 white-box shim.  NOT a test file: it is added to package dialer through `go test -overlay`
// (as zz_verif_c15_shim.go) so that the harness living in package outbound (and control) can
//   * drive the production state-changing paths of a Dialer (markAvailable,
//     markUnavailableInternal, markAvailableTraffic + informDialerGroupUpdate) with chosen latencies,
//   * read the observable answers of an AliveDialerSet and check its internal index consistency.
// It contains no logic of its own beyond formatting.

import (
	"context"
	"errors"
	"fmt"
	"sort"
	"strconv"
	"strings"
	"time"
)

// VerifC15Sample = the success branch of Dialer.check: markAvailable then informDialerGroupUpdate.
func VerifC15Sample(d *Dialer, typ *NetworkType, lat time.Duration) {
	update, _ := d.markAvailable(typ, lat)
	d.informDialerGroupUpdate(update)
}

// VerifC15Fail runs markUnavailableInternal and returns (the dialer's alive flag afterwards — what
// the sets are told: since 13e43e7 NotifyAliveState reads the flag at delivery — and the deferred
// informDialerGroupUpdate).  Split in two so the caller can observe the backoff penalty between the
// two steps, exactly where the set will read it.  No field of collectionUpdate is touched here.
func VerifC15Fail(d *Dialer, typ *NetworkType, force, traffic bool) (bool, func()) {
	u := d.markUnavailableInternal(typ, force, traffic)
	return d.MustGetAlive(typ), func() { d.informDialerGroupUpdate(u) }
}

// VerifC15Obs = markAvailable alone (sample stored, flag raised, update taken); the returned closure is
// the deferred informDialerGroupUpdate(update) — the two halves of the success branch of Dialer.check,
// which the probe pool runs concurrently with other reports about the same dialer.
func VerifC15Obs(d *Dialer, typ *NetworkType, lat time.Duration) func() {
	u, _ := d.markAvailable(typ, lat)
	return func() { d.informDialerGroupUpdate(u) }
}

// VerifC15Disagree lists the members whose membership in the set's alive list differs from the
// dialer-side Alive flag of the set's health domain (indices into dialers, sorted).
func VerifC15Disagree(a *AliveDialerSet, dialers []*Dialer) []int {
	a.mu.RLock()
	in := make(map[*Dialer]bool, len(a.aliveEntries))
	for k := range a.aliveEntries {
		in[a.aliveEntries[k].dialer] = true
	}
	a.mu.RUnlock()
	var out []int
	for i, d := range dialers {
		if in[d] != d.MustGetAlive(a.CheckTyp) {
			out = append(out, i)
		}
	}
	return out
}

// VerifC15Traffic = ReportAvailableTraffic (data-UDP revival by traffic); returns whether the sets
// were told anything.
func VerifC15Traffic(d *Dialer, typ *NetworkType) bool {
	was := d.MustGetAlive(typ)
	d.ReportAvailableTraffic(typ)
	return !was && d.MustGetAlive(typ)
}

// VerifC15Probe runs the REAL Dialer.Check (two attempts, the skip rule, markAvailable /
// markUnavailable + informDialerGroupUpdate) with a stub CheckFunc.
// outcome 0: success -> ("sample", the latency Check measured and stored, true)
// outcome 1: ok=false, err=nil ("no applicable IP") -> ("skip", 0, current flag): nothing may change
// outcome 2: error -> ("told", 0, alive flag after markUnavailable)
// periodic: go through the internal check() with a non-nil cycleResult, as the production
// aliveBackground -> submitCheckTasks path does (the exported Check passes cycle == nil).
func VerifC15Probe(d *Dialer, typ *NetworkType, outcome int, periodic, resuscitation bool) (string, time.Duration, bool) {
	opts := &CheckOption{networkType: typ, CheckFunc: func(ctx context.Context, _ *NetworkType) (bool, error) {
		switch outcome {
		case 0:
			return true, nil
		case 1:
			return false, nil
		default:
			return false, errors.New("verif: probe failed")
		}
	}}
	if periodic {
		_, _ = d.check(opts, resuscitation, &cycleResult{})
	} else {
		_, _ = d.Check(opts)
	}
	switch outcome {
	case 0:
		l, _ := d.mustGetCollection(typ).Latencies10.LastLatency()
		return "sample", l, true
	case 1:
		return "skip", 0, d.MustGetAlive(typ)
	default:
		return "told", 0, d.MustGetAlive(typ)
	}
}

// VerifC15SetBackoffLevel puts the dialer's recovery domain of `typ` at backoff level k (environment
// manipulation: the penalty is an input of the sets; how levels evolve is C16's subject).
func VerifC15SetBackoffLevel(d *Dialer, typ *NetworkType, k int) {
	m := d.ensureRecoveryManager()
	st := m.state(m.indexForType(typ))
	st.Lock()
	st.backoffLevel = k
	st.Unlock()
}

func VerifC15Penalty(d *Dialer, typ *NetworkType) time.Duration {
	return d.getBackoffPenaltyForType(typ)
}

func verifC15Min(idx map[*Dialer]int, d *Dialer, l time.Duration) string {
	if d == nil {
		return "nil" // the latency handed out next to "nobody" is a placeholder
	}
	i, ok := idx[d]
	if !ok {
		return "foreign:" + strconv.FormatInt(int64(l), 10)
	}
	return strconv.Itoa(i) + ":" + strconv.FormatInt(int64(l), 10)
}

// VerifC15SetDump prints the observable answers of the set (Len, members, GetMinLatency for
// every exclusion, SortingLatency of every member, policy) and three internal-consistency bits:
// index map inverse of the entries array / cached best is a member / cached best nil iff empty.
func VerifC15SetDump(a *AliveDialerSet, dialers []*Dialer) string {
	idx := make(map[*Dialer]int, len(dialers))
	for i, d := range dialers {
		idx[d] = i
	}
	var sb strings.Builder
	a.mu.RLock()
	n := len(a.aliveEntries)
	members := make([]int, 0, n)
	idxOk := true
	for k := range a.aliveEntries {
		d := a.aliveEntries[k].dialer
		i, ok := idx[d]
		if !ok {
			idxOk = false
			i = -1
		}
		members = append(members, i)
		if v, ok := a.dialerToIndex[d]; !ok || v != k {
			idxOk = false
		}
	}
	for _, d := range dialers {
		v, ok := a.dialerToIndex[d]
		if !ok {
			idxOk = false
			continue
		}
		if v >= 0 {
			if v >= n || a.aliveEntries[v].dialer != d {
				idxOk = false
			}
		} else if v != -Init && v != -NotAlive {
			idxOk = false
		}
	}
	best := a.minLatency.dialer
	bestAlive := true
	if best != nil {
		bestAlive = false
		for k := range a.aliveEntries {
			if a.aliveEntries[k].dialer == best {
				bestAlive = true
			}
		}
	}
	nilIff := best == nil
	if isMinLatencyPolicy(a.selectionPolicy) {
		nilIff = (best != nil) == (n != 0)
	}
	pol := a.selectionPolicy
	// what the set has recorded as measured (dialerToLatency): the notion of "has a measurement"
	// the tolerance clauses are about
	lt := make([]string, len(dialers))
	for i, d := range dialers {
		if v, ok := a.dialerToLatency[d]; ok {
			lt[i] = strconv.FormatInt(int64(v), 10)
		} else {
			lt[i] = "-"
		}
	}
	a.mu.RUnlock()

	sort.Ints(members)
	ms := make([]string, len(members))
	for i, m := range members {
		ms[i] = strconv.Itoa(m)
	}
	fmt.Fprintf(&sb, "len=%d alive=%s", a.Len(), strings.Join(ms, ","))
	bd, bl := a.GetMinLatency(nil)
	sb.WriteString(" best=" + verifC15Min(idx, bd, bl))
	ex := make([]string, len(dialers))
	sl := make([]string, len(dialers))
	isMember := map[int]bool{}
	for _, m := range members {
		isMember[m] = true
	}
	for i, d := range dialers {
		md, ml := a.GetMinLatency(d)
		ex[i] = verifC15Min(idx, md, ml)
		// SortingLatency() of a node the set does not believe alive is outside the property: not compared
		if isMember[i] {
			sl[i] = strconv.FormatInt(int64(a.SortingLatency(d)), 10)
		} else {
			sl[i] = "-"
		}
	}
	sb.WriteString(" ex=" + strings.Join(ex, ","))
	sb.WriteString(" sl=" + strings.Join(sl, ","))
	sb.WriteString(" lt=" + strings.Join(lt, ","))
	sb.WriteString(" pol=" + string(pol))
	b := func(x bool) string {
		if x {
			return "1"
		}
		return "0"
	}
	sb.WriteString(" inv=" + b(idxOk) + b(bestAlive) + b(nilIff))
	return sb.String()
}

// VerifC15RandDraws calls GetRandExcluded k times and returns the distinct answers
// (member indices, -1 for nil), sorted.
func VerifC15RandDraws(a *AliveDialerSet, dialers []*Dialer, excluded *Dialer, k int) []int {
	idx := make(map[*Dialer]int, len(dialers))
	for i, d := range dialers {
		idx[d] = i
	}
	seen := map[int]bool{}
	for i := 0; i < k; i++ {
		d := a.GetRandExcluded(excluded)
		if d == nil {
			seen[-1] = true
		} else if j, ok := idx[d]; ok {
			seen[j] = true
		} else {
			seen[-2] = true
		}
	}
	out := make([]int, 0, len(seen))
	for v := range seen {
		out = append(out, v)
	}
	sort.Ints(out)
	return out
}
