package outbound

// C14 harness, package-agnostic part (generators, text rendering for the real parser, op
// serialisation, library oracles, Go-side meaning/validity oracles, error classification).
// checks/c14.py instantiates this file a second time with `package control` for the
// control-plane harness (harness/overlay/control/c14_test.go).

import (
	"encoding/hex"
	"fmt"
	"sort"
	"strings"
	"time"
	"unicode/utf8"

	"github.com/daeuniverse/dae/component/outbound/dialer"
	"github.com/daeuniverse/dae/config"
	"github.com/daeuniverse/dae/pkg/config_parser"
	"github.com/dlclark/regexp2"
)

var _ = utf8.ValidString

// ---------------------------------------------------------------- intended definitions

type c14Param struct{ Key, Val string }
type c14Func struct {
	Name   string
	Not    bool
	Params []c14Param
}
type c14Def struct {
	Lines  [][]c14Func
	Annos  [][]c14Param // same length as Lines unless lenBug
	Policy any          // string | c14Func | []c14Func | int (unsupported type)
	Over   int          // bit mask of per-group check overrides (tcp_check_url, tcp_check_http_method, udp_check_dns, check_interval, check_tolerance)
}
type c14Node struct{ Name, Tag string }

func c14x(s string) string { return "x" + hex.EncodeToString([]byte(s)) }

// ---------------------------------------------------------------- text rendering (for the real parser)

func c14IsBare(s string) bool {
	if s == "" {
		return false
	}
	for i := 0; i < len(s); i++ {
		c := s[i]
		if !(c >= 'a' && c <= 'z' || c >= 'A' && c <= 'Z' || c >= '0' && c <= '9' || c == '_') {
			return false
		}
	}
	return true
}

// ok=false when the value cannot be written in dae's config syntax (quotes are not unescaped).
func c14Lit(r *VRand, s string) (string, bool) {
	if strings.ContainsAny(s, "\n\r") {
		return "", false
	}
	if c14IsBare(s) && r.Chance(0.5) {
		return s, true
	}
	if !strings.Contains(s, "'") && !strings.HasSuffix(s, "\\") {
		return "'" + s + "'", true
	}
	if !strings.Contains(s, "\"") && !strings.HasSuffix(s, "\\") {
		return "\"" + s + "\"", true
	}
	return "", false
}

func c14ParamsText(r *VRand, ps []c14Param) (string, bool) {
	var parts []string
	for _, p := range ps {
		v, ok := c14Lit(r, p.Val)
		if !ok {
			return "", false
		}
		if p.Key == "" {
			parts = append(parts, v)
		} else {
			if !c14IsBare(p.Key) {
				return "", false
			}
			parts = append(parts, p.Key+": "+v)
		}
	}
	return strings.Join(parts, ", "), true
}

func c14FuncText(r *VRand, f c14Func) (string, bool) {
	if !c14IsBare(f.Name) {
		return "", false
	}
	ps, ok := c14ParamsText(r, f.Params)
	if !ok {
		return "", false
	}
	s := f.Name + "(" + ps + ")"
	if f.Not {
		s = "!" + s
	}
	return s, true
}

func c14FuncsText(r *VRand, fs []c14Func) (string, bool) {
	var parts []string
	for _, f := range fs {
		t, ok := c14FuncText(r, f)
		if !ok {
			return "", false
		}
		parts = append(parts, t)
	}
	return strings.Join(parts, " && "), len(parts) > 0
}

func c14DefText(r *VRand, d *c14Def) (string, bool) {
	if len(d.Lines) != len(d.Annos) {
		return "", false
	}
	var b strings.Builder
	b.WriteString("global {}\nrouting { fallback: direct }\ngroup {\n  g {\n")
	for j, l := range d.Lines {
		t, ok := c14FuncsText(r, l)
		if !ok {
			return "", false
		}
		b.WriteString("    filter: " + t)
		if d.Annos[j] != nil {
			a, ok := c14ParamsText(r, d.Annos[j])
			if !ok || len(d.Annos[j]) == 0 {
				return "", false
			}
			b.WriteString(" [" + a + "]")
		}
		b.WriteString("\n")
	}
	if d.Over&1 != 0 {
		b.WriteString("    tcp_check_url: 'http://cp.example.org/generate_204'\n")
	}
	if d.Over&2 != 0 {
		b.WriteString("    tcp_check_http_method: GET\n")
	}
	if d.Over&4 != 0 {
		b.WriteString("    udp_check_dns: 'dns.example.org:53'\n")
	}
	if d.Over&8 != 0 {
		b.WriteString("    check_interval: 45s\n")
	}
	if d.Over&16 != 0 {
		b.WriteString("    check_tolerance: 50ms\n")
	}
	switch p := d.Policy.(type) {
	case string:
		if !c14IsBare(p) {
			return "", false
		}
		b.WriteString("    policy: " + p + "\n")
	case []c14Func:
		t, ok := c14FuncsText(r, p)
		if !ok {
			return "", false
		}
		b.WriteString("    policy: " + t + "\n")
	default:
		return "", false
	}
	b.WriteString("  }\n}\n")
	return b.String(), true
}

// ---------------------------------------------------------------- to the real types

func c14ToParams(ps []c14Param) []*config_parser.Param {
	if ps == nil {
		return nil
	}
	out := make([]*config_parser.Param, 0, len(ps))
	for _, p := range ps {
		out = append(out, &config_parser.Param{Key: p.Key, Val: p.Val})
	}
	return out
}

func c14ToFuncs(fs []c14Func) []*config_parser.Function {
	out := make([]*config_parser.Function, 0, len(fs))
	for _, f := range fs {
		out = append(out, &config_parser.Function{Name: f.Name, Not: f.Not, Params: c14ToParams(f.Params)})
	}
	return out
}

func c14Direct(d *c14Def) *config.Group {
	g := &config.Group{Name: "g"}
	for _, l := range d.Lines {
		g.Filter = append(g.Filter, c14ToFuncs(l))
	}
	for _, a := range d.Annos {
		g.FilterAnnotation = append(g.FilterAnnotation, c14ToParams(a))
	}
	if d.Over&1 != 0 {
		g.TcpCheckUrl = []string{"http://cp.example.org/generate_204"}
	}
	if d.Over&2 != 0 {
		g.TcpCheckHttpMethod = "GET"
	}
	if d.Over&4 != 0 {
		g.UdpCheckDns = []string{"dns.example.org:53"}
	}
	if d.Over&8 != 0 {
		g.CheckInterval = 45 * time.Second
	}
	if d.Over&16 != 0 {
		g.CheckTolerance = 50 * time.Millisecond
	}
	switch p := d.Policy.(type) {
	case string:
		g.Policy = p
	case c14Func:
		g.Policy = c14ToFuncs([]c14Func{p})[0]
	case []c14Func:
		g.Policy = c14ToFuncs(p)
	default:
		g.Policy = p
	}
	return g
}

// the real parser: text -> sections -> config.Config -> Group (+ the parsed Global, which the
// group override path needs)
func c14Parse(text string) (g *config.Group, global *config.Global, err error) {
	defer func() {
		if r := recover(); r != nil {
			g, global, err = nil, nil, fmt.Errorf("panic: %v", r)
		}
	}()
	secs, err := config_parser.Parse(text)
	if err != nil {
		return nil, nil, err
	}
	c, err := config.New(secs)
	if err != nil {
		return nil, nil, err
	}
	if len(c.Group) != 1 {
		return nil, nil, fmt.Errorf("groups: %d", len(c.Group))
	}
	return &c.Group[0], &c.Global, nil
}

var c14DefGlobal *config.Global

func c14DefaultGlobal() *config.Global {
	if c14DefGlobal == nil {
		secs, err := config_parser.Parse("global {}\nrouting { fallback: direct }\n")
		if err != nil {
			panic(err)
		}
		c, err := config.New(secs)
		if err != nil {
			panic(err)
		}
		c14DefGlobal = &c.Global
	}
	return c14DefGlobal
}

// c14SameDef compares what the harness wrote with what the real parser + config.New delivered:
// function names, negations, keys, values, WHICH annotation belongs to WHICH line, policy, overrides.
// "" = identical.
func c14SameDef(d *c14Def, g *config.Group) string {
	sameParams := func(a []c14Param, b []*config_parser.Param) bool {
		if len(a) != len(b) {
			return false
		}
		for i := range a {
			if a[i].Key != b[i].Key || a[i].Val != b[i].Val || b[i].AndFunctions != nil {
				return false
			}
		}
		return true
	}
	sameFuncs := func(a []c14Func, b []*config_parser.Function) bool {
		if len(a) != len(b) {
			return false
		}
		for i := range a {
			if a[i].Name != b[i].Name || a[i].Not != b[i].Not || !sameParams(a[i].Params, b[i].Params) {
				return false
			}
		}
		return true
	}
	if len(g.Filter) != len(d.Lines) || len(g.FilterAnnotation) != len(d.Lines) {
		return fmt.Sprintf("lines: wrote %d, parsed %d filters / %d annotation slots", len(d.Lines), len(g.Filter), len(g.FilterAnnotation))
	}
	for j := range d.Lines {
		if !sameFuncs(d.Lines[j], g.Filter[j]) {
			return fmt.Sprintf("filter line %d differs", j)
		}
		if !sameParams(d.Annos[j], g.FilterAnnotation[j]) {
			return fmt.Sprintf("annotation of line %d differs", j)
		}
	}
	switch p := d.Policy.(type) {
	case string:
		if gp, ok := g.Policy.(string); !ok || gp != p {
			return "policy differs"
		}
	case []c14Func:
		if gp, ok := g.Policy.([]*config_parser.Function); !ok || !sameFuncs(p, gp) {
			return "policy differs"
		}
	}
	want := c14Direct(d)
	if fmt.Sprint(want.TcpCheckUrl, want.TcpCheckHttpMethod, want.UdpCheckDns, want.CheckInterval, want.CheckTolerance) !=
		fmt.Sprint(g.TcpCheckUrl, g.TcpCheckHttpMethod, g.UdpCheckDns, g.CheckInterval, g.CheckTolerance) {
		return "group check overrides differ"
	}
	return ""
}

func c14DefValidUTF8(d *c14Def) bool {
	ok := true
	chk := func(ps []c14Param) {
		for _, p := range ps {
			ok = ok && utf8.ValidString(p.Key) && utf8.ValidString(p.Val)
		}
	}
	for j, l := range d.Lines {
		for _, f := range l {
			ok = ok && utf8.ValidString(f.Name)
			chk(f.Params)
		}
		if j < len(d.Annos) {
			chk(d.Annos[j])
		}
	}
	return ok
}

func c14HasEmptyParamList(d *c14Def) bool {
	for _, l := range d.Lines {
		for _, f := range l {
			if len(f.Params) == 0 {
				return true
			}
		}
	}
	if p, ok := d.Policy.([]c14Func); ok {
		for _, f := range p {
			if len(f.Params) == 0 {
				return true
			}
		}
	}
	return false
}

// c14Obtain turns an intended definition into the REAL config.Group: through the real parser when
// the text form exists, else as structs.  parserChanged != "" when the parser delivered something
// else than was written (compared only when every string is valid UTF-8: ANTLR replaces invalid
// bytes by U+FFFD, which is C17's subject).
func c14Obtain(r *VRand, d *c14Def, forceDirect bool, stats *VStats) (g *config.Group, global *config.Global, via string, parserChanged string) {
	via = "direct"
	if !forceDirect {
		if text, ok := c14DefText(r, d); ok {
			pg, pglobal, err := c14Parse(text)
			switch {
			case err == nil:
				g, global, via = pg, pglobal, "parser"
				stats.Sample(strings.Join(strings.Fields(text[strings.Index(text, "  g {"):]), " "))
				if c14DefValidUTF8(d) {
					parserChanged = c14SameDef(d, pg)
					stats.Inc("parser.definition_compared_with_what_was_written")
				} else {
					stats.Inc("parser.not_compared_invalid_utf8")
				}
			case c14HasEmptyParamList(d):
				stats.Inc("text.rejected_by_parser.empty_parameter_list")
			default:
				stats.Inc("text.rejected_by_parser.OTHER")
				stats.Sample("PARSER-REJECTED: " + err.Error())
			}
		} else {
			stats.Inc("text.not_expressible")
		}
	}
	if g == nil {
		g, global = c14Direct(d), c14DefaultGlobal()
	}
	stats.Inc("via." + via)
	return
}

// ---------------------------------------------------------------- op serialisation (from the REAL structs)

func c14ParamsTok(b *strings.Builder, ps []*config_parser.Param) {
	fmt.Fprintf(b, " %d", len(ps))
	for _, p := range ps {
		b.WriteString(" " + c14x(p.Key) + " " + c14x(p.Val))
	}
}

func c14FuncTok(b *strings.Builder, f *config_parser.Function) {
	n := "0"
	if f.Not {
		n = "1"
	}
	b.WriteString(" " + c14x(f.Name) + " " + n)
	c14ParamsTok(b, f.Params)
}

func c14PolicyTok(b *strings.Builder, p any) {
	switch v := p.(type) {
	case string:
		b.WriteString(" PS " + c14x(v))
	case *config_parser.Function:
		b.WriteString(" PF")
		c14FuncTok(b, v)
	case []*config_parser.Function:
		fmt.Fprintf(b, " PL %d", len(v))
		for _, f := range v {
			c14FuncTok(b, f)
		}
	default:
		b.WriteString(" PO")
	}
}

type c14Oracle struct {
	re  map[string]*regexp2.Regexp // nil = compile error
	dur map[string]*time.Duration  // nil = parse error
}

func c14PoolTok(b *strings.Builder, pool []c14Node) {
	fmt.Fprintf(b, " P %d", len(pool))
	for _, n := range pool {
		b.WriteString(" " + c14x(n.Name) + " " + c14x(n.Tag))
	}
}

// lines + annotations of one group; collects the regex patterns and duration strings it mentions
func c14DefTok(b *strings.Builder, g *config.Group, pats, durs map[string]bool) {
	fmt.Fprintf(b, " L %d", len(g.Filter))
	for _, l := range g.Filter {
		fmt.Fprintf(b, " %d", len(l))
		for _, f := range l {
			c14FuncTok(b, f)
			for _, p := range f.Params {
				if p.Key == "regex" {
					pats[p.Val] = true
				}
			}
		}
	}
	fmt.Fprintf(b, " A %d", len(g.FilterAnnotation))
	for _, a := range g.FilterAnnotation {
		c14ParamsTok(b, a)
		for _, p := range a {
			durs[p.Val] = true
		}
	}
}

// library oracles, evaluated independently of the filter code
func c14OracleTok(b *strings.Builder, pool []c14Node, pats, durs map[string]bool) *c14Oracle {
	subj := map[string]bool{}
	for _, n := range pool {
		subj[n.Name] = true
		subj[n.Tag] = true
	}
	subjects := make([]string, 0, len(subj))
	for s := range subj {
		subjects = append(subjects, s)
	}
	sort.Strings(subjects)
	o := &c14Oracle{re: map[string]*regexp2.Regexp{}, dur: map[string]*time.Duration{}}
	pl := make([]string, 0, len(pats))
	for p := range pats {
		pl = append(pl, p)
	}
	sort.Strings(pl)
	fmt.Fprintf(b, " R %d", len(pl))
	for _, p := range pl {
		re, err := regexp2.Compile(p, 0)
		if err != nil {
			o.re[p] = nil
			b.WriteString(" " + c14x(p) + " 0 0")
			continue
		}
		o.re[p] = re
		fmt.Fprintf(b, " %s 1 %d", c14x(p), len(subjects))
		for _, s := range subjects {
			m, _ := re.MatchString(s)
			if m {
				b.WriteString(" " + c14x(s) + " 1")
			} else {
				b.WriteString(" " + c14x(s) + " 0")
			}
		}
	}
	dl := make([]string, 0, len(durs))
	for d := range durs {
		dl = append(dl, d)
	}
	sort.Strings(dl)
	fmt.Fprintf(b, " D %d", len(dl))
	for _, d := range dl {
		v, err := time.ParseDuration(d)
		if err != nil {
			o.dur[d] = nil
			b.WriteString(" " + c14x(d) + " 0 0")
		} else {
			vv := v
			o.dur[d] = &vv
			fmt.Fprintf(b, " %s 1 %d", c14x(d), int64(v))
		}
	}
	return o
}

func c14BodyTok(b *strings.Builder, pool []c14Node, g *config.Group) *c14Oracle {
	pats, durs := map[string]bool{}, map[string]bool{}
	c14PoolTok(b, pool)
	c14DefTok(b, g, pats, durs)
	return c14OracleTok(b, pool, pats, durs)
}

// several groups over one pool, in configuration order: `grps POOL n (POLICY LINES ANNOS){n} RETAB DURTAB`
func c14MultiTok(b *strings.Builder, pool []c14Node, gs []*config.Group) *c14Oracle {
	pats, durs := map[string]bool{}, map[string]bool{}
	c14PoolTok(b, pool)
	fmt.Fprintf(b, " %d", len(gs))
	for _, g := range gs {
		c14PolicyTok(b, g.Policy)
		c14DefTok(b, g, pats, durs)
	}
	return c14OracleTok(b, pool, pats, durs)
}

// the whole outbound configuration: `cfg POOL n (NAME POLICY LINES ANNOS){n} RETAB DURTAB`
func c14CfgTok(b *strings.Builder, pool []c14Node, gs []*config.Group) *c14Oracle {
	pats, durs := map[string]bool{}, map[string]bool{}
	c14PoolTok(b, pool)
	fmt.Fprintf(b, " %d", len(gs))
	for _, g := range gs {
		b.WriteString(" " + c14x(g.Name))
		c14PolicyTok(b, g.Policy)
		c14DefTok(b, g, pats, durs)
	}
	return c14OracleTok(b, pool, pats, durs)
}

// ---------------------------------------------------------------- independent oracles on the Go side

// what the definition MEANS (written from the documentation, not from filter.go).
// c14Eval keeps, per node, the list of lines the node satisfies, for the discrimination counters.
type c14Eval struct {
	Members string
	Hits    [][]int // per node: indices of the lines it satisfies
	Lat     []int64 // per line: the latency its annotation denotes
}

func c14LineHolds(o *c14Oracle, n c14Node, line []*config_parser.Function) bool {
	for _, f := range line {
		subject := n.Tag
		if f.Name == "name" {
			subject = n.Name
		}
		any := false
		for _, p := range f.Params {
			switch p.Key {
			case "regex":
				if re := o.re[p.Val]; re != nil {
					if m, _ := re.MatchString(subject); m {
						any = true
					}
				}
			case "keyword":
				any = any || strings.Contains(subject, p.Val)
			default:
				any = any || subject == p.Val
			}
		}
		if any == f.Not {
			return false
		}
	}
	return true
}

func c14SpecEval(o *c14Oracle, pool []c14Node, g *config.Group) *c14Eval {
	ev := &c14Eval{Hits: make([][]int, len(pool)), Lat: make([]int64, len(g.Filter))}
	for j := range g.Filter {
		if j < len(g.FilterAnnotation) {
			for _, p := range g.FilterAnnotation[j] {
				if d := o.dur[p.Val]; d != nil && *d != 0 {
					ev.Lat[j] = int64(*d)
					break
				}
			}
		}
	}
	var out []string
	for i, n := range pool {
		if len(g.Filter) == 0 {
			out = append(out, fmt.Sprintf("%d:0", i))
			continue
		}
		for j, line := range g.Filter {
			if c14LineHolds(o, n, line) {
				ev.Hits[i] = append(ev.Hits[i], j)
			}
		}
		if len(ev.Hits[i]) > 0 {
			out = append(out, fmt.Sprintf("%d:%d", i, ev.Lat[ev.Hits[i][0]]))
		}
	}
	ev.Members = "-"
	if len(out) > 0 {
		ev.Members = strings.Join(out, ",")
	}
	return ev
}

func c14Spec(o *c14Oracle, pool []c14Node, g *config.Group) string {
	return c14SpecEval(o, pool, g).Members
}

// Discrimination counters: how many accepted ops can tell the interesting alternatives apart.
// checks/c14.py copies them into the evidence and refuses to run a tier in which one is 0.
func c14Discrim(stats *VStats, o *c14Oracle, pool []c14Node, g *config.Group, ev *c14Eval, sampleRegexOpts bool) {
	if len(g.Filter) == 0 {
		return
	}
	nonzero, notLine0, multi, firstWins, zeroFirstHit, multiNonzeroHit, negDisagree, emptyCond := false, false, false, false, false, false, false, false
	firstLineSeq := []int{}
	for i := range pool {
		h := ev.Hits[i]
		if len(h) == 0 {
			continue
		}
		firstLineSeq = append(firstLineSeq, h[0])
		if ev.Lat[h[0]] != 0 {
			nonzero = true
		}
		if h[0] != 0 {
			notLine0 = true
		}
		if len(h) >= 2 {
			multi = true
			for _, j := range h[1:] {
				if ev.Lat[j] != ev.Lat[h[0]] {
					firstWins = true
				}
			}
		}
		// annotation shapes on the line that is actually used
		if h[0] < len(g.FilterAnnotation) {
			var vals []int64
			for _, p := range g.FilterAnnotation[h[0]] {
				if d := o.dur[p.Val]; d != nil {
					vals = append(vals, int64(*d))
				}
			}
			if len(vals) >= 2 && vals[0] == 0 && ev.Lat[h[0]] != 0 {
				zeroFirstHit = true
			}
			nz := map[int64]bool{}
			for _, v := range vals {
				if v != 0 {
					nz[v] = true
				}
			}
			if len(nz) >= 2 {
				multiNonzeroHit = true
			}
		}
	}
	// members grouped by line (line-major) would come out in another order
	lineMajor := false
	for k := 1; k < len(firstLineSeq); k++ {
		if firstLineSeq[k] < firstLineSeq[k-1] {
			lineMajor = true
		}
	}
	// same name, different verdict (needs subtag)
	sameName := false
	byName := map[string]int{}
	for i, n := range pool {
		v := 1
		if len(ev.Hits[i]) > 0 {
			v = 2
		}
		if old, ok := byName[n.Name]; ok && old != v {
			sameName = true
		}
		byName[n.Name] = v
	}
	for _, line := range g.Filter {
		if len(line) == 0 {
			emptyCond = true
		}
		for _, f := range line {
			if f.Not && len(f.Params) >= 2 {
				for _, n := range pool {
					t, fl := 0, 0
					for _, p := range f.Params {
						one := &config_parser.Function{Name: f.Name, Params: []*config_parser.Param{p}}
						if c14LineHolds(o, n, []*config_parser.Function{one}) {
							t++
						} else {
							fl++
						}
					}
					if t > 0 && fl > 0 {
						negDisagree = true
					}
				}
			}
		}
	}
	inc := func(b bool, k string) {
		if b {
			stats.Inc("discrim." + k)
		}
	}
	inc(nonzero, "member_with_nonzero_annotation")
	inc(notLine0, "first_hit_is_not_line0")
	inc(multi, "member_satisfies_2_or_more_lines")
	inc(firstWins, "first_line_wins_observable")
	inc(lineMajor, "line_major_order_differs_from_pool_order")
	inc(zeroFirstHit, "zero_first_then_nonzero_annotation_on_hit_line")
	inc(multiNonzeroHit, "two_distinct_nonzero_latencies_on_hit_line")
	inc(sameName, "same_name_different_verdict")
	inc(negDisagree, "negated_condition_values_disagree")
	inc(emptyCond, "line_without_conditions")
	inc(len(pool) > 64, "large_pool_65_plus")
	if !sampleRegexOpts {
		return
	}
	// would another regexp2 option word change the RESULT of this op?
	pats := []string{}
	for p, re := range o.re {
		if re != nil {
			pats = append(pats, p)
		}
	}
	if len(pats) == 0 {
		return
	}
	for _, opt := range []struct {
		name string
		v    regexp2.RegexOptions
	}{{"Multiline", regexp2.Multiline}, {"Singleline", regexp2.Singleline}, {"IgnorePatternWhitespace", regexp2.IgnorePatternWhitespace},
		{"IgnoreCase", regexp2.IgnoreCase}, {"RE2", regexp2.RE2}, {"ECMAScript", regexp2.ECMAScript}} {
		o2 := &c14Oracle{re: map[string]*regexp2.Regexp{}, dur: o.dur}
		for p, re := range o.re {
			o2.re[p] = re
		}
		for _, p := range pats {
			re, err := regexp2.Compile(p, opt.v)
			if err != nil {
				re = nil
			}
			o2.re[p] = re
		}
		if c14SpecEval(o2, pool, g).Members != ev.Members {
			stats.Inc("discrim.regexopt." + opt.name + "_would_change_members")
		}
	}
}

// is the definition valid (documented inputs/keys, regexes compile, annotations well formed)?
// c14OnlyKeywordOnSubtag: the definition is invalid ONLY because `keyword:` is used on `subtag(...)`
// (the one relaxation whose meaning is obvious: substring of the tag — which is what c14Spec computes).
func c14OnlyKeywordOnSubtag(o *c14Oracle, g *config.Group) bool {
	if c14Valid(o, g) {
		return false
	}
	g2 := *g
	g2.Filter = nil
	for _, line := range g.Filter {
		var l2 []*config_parser.Function
		for _, f := range line {
			f2 := *f
			if f.Name == "subtag" {
				f2.Params = nil
				for _, p := range f.Params {
					if p.Key == "keyword" {
						continue
					}
					f2.Params = append(f2.Params, p)
				}
			}
			l2 = append(l2, &f2)
		}
		g2.Filter = append(g2.Filter, l2)
	}
	return c14Valid(o, &g2)
}

func c14Valid(o *c14Oracle, g *config.Group) bool {
	for _, line := range g.Filter {
		for _, f := range line {
			if f.Name != "name" && f.Name != "subtag" {
				return false
			}
			for _, p := range f.Params {
				switch {
				case p.Key == "":
				case p.Key == "regex":
					if o.re[p.Val] == nil {
						return false
					}
				case p.Key == "keyword" && f.Name == "name":
				default:
					return false
				}
			}
		}
	}
	for _, a := range g.FilterAnnotation {
		for _, p := range a {
			if p.Key != "add_latency" || o.dur[p.Val] == nil {
				return false
			}
		}
	}
	return true
}

func c14FilterErr(err error) string {
	m := err.Error()
	switch {
	case strings.HasPrefix(m, "[CODE BUG]: unmatched annotations length: "):
		var a, b int
		fmt.Sscanf(m, "[CODE BUG]: unmatched annotations length: %d filters and %d annotations", &a, &b)
		return fmt.Sprintf("len %d %d", a, b)
	case strings.HasPrefix(m, "unsupported filter input type: "):
		return "input " + c14x(m)
	case strings.HasPrefix(m, "unsupported filter key "):
		return "key " + c14x(m)
	case strings.HasPrefix(m, "bad regexp in filter "):
		return "regex"
	case strings.HasPrefix(m, "apply filter annotation: unknown filter annotation: "):
		return "annokey " + c14x(m)
	case strings.HasPrefix(m, "apply filter annotation: incorrect latency format: "):
		return "annolat"
	}
	return "other " + c14x(m)
}

func c14PolicyErr(err error) string {
	m := err.Error()
	switch {
	case strings.HasPrefix(m, "unsupported function-list-or-string value type: "):
		return "type"
	case strings.HasPrefix(m, "policy should be exact 1 function: got "):
		return "count " + strings.TrimPrefix(m, "policy should be exact 1 function: got ")
	case strings.HasPrefix(m, "policy param does not support not operator: "):
		return "not " + c14x(m)
	case strings.HasPrefix(m, "invalid \"") && strings.HasSuffix(m, "\" param format"):
		return "format " + c14x(m)
	case strings.HasPrefix(m, "invalid \"") && strings.Contains(m, "\" param format: "):
		return "atoi"
	case strings.HasPrefix(m, "unexpected policy: "):
		return "unexpected " + c14x(m)
	}
	return "other " + c14x(m)
}

// ---------------------------------------------------------------- generators

var c14Long = strings.Repeat("node-long-name_", 14) // 210 bytes

var c14Tokens = []string{"hk", "HK", "sg", "us", "jp", "tw", "disney", "netflix", "01", "1", "2", "-", "_", " ", "|", "(", ")",
	"[", ".", "*", "+", "香港", "🇭🇰", "é", "\xff", "'", "\"", "premium", "x", "IPLC", "\\", "$", "^",
	// classes the config syntax cannot express or that separate regexp2 option words / engines
	"\n", "\n", "\t", "\x00", "#", "#", "١", "e\u0301", " 01", "hk\nsg", "HK 01", "a #b"}
var c14Tags = []string{"", "my_sub", "my_sub", "sub2", "my_", "机场", "a b", "MY_SUB", "sub", "T a", "a.b", "\xfe", "My(Sub", "sub\n2", "su#b 2"}

func c14Pick(r *VRand, l []string) string { return l[r.Intn(len(l))] }

func c14GenName(r *VRand, existing []c14Node) string {
	switch {
	case r.Chance(0.06):
		return ""
	case len(existing) > 0 && r.Chance(0.15):
		return existing[r.Intn(len(existing))].Name // duplicate
	case len(existing) > 0 && r.Chance(0.10):
		return existing[r.Intn(len(existing))].Name + c14Pick(r, c14Tokens) // extension of another name
	}
	if r.Chance(0.01) {
		return c14Long + c14Pick(r, c14Tokens)
	}
	n := 1 + r.Intn(4)
	s := ""
	for i := 0; i < n; i++ {
		if i > 0 && r.Chance(0.5) {
			s += c14Pick(r, []string{"-", " ", "_", ""})
		}
		s += c14Pick(r, c14Tokens)
	}
	return s
}

// c14LargeBoost: extra per-mille of large pools (set by a harness that wants more of them).
var c14LargeBoost = 0

func c14GenPool(r *VRand, stats *VStats) []c14Node {
	var n int
	switch k := r.Intn(1000); {
	case k < 50:
		n = 0
		stats.Inc("pool.empty")
	case k < 100:
		n = 1
	case k < 800:
		n = 2 + r.Intn(5)
	case k < 985-c14LargeBoost:
		n = 7 + r.Intn(8)
	default: // subscriptions have hundreds of nodes
		n = 65 + r.Intn(536)
		if r.Chance(0.3) {
			n = 64 + r.Intn(3) // around a plausible chunk threshold
		}
		stats.Inc("pool.large_65_to_600")
	}
	nodes := make([]c14Node, 0, n)
	dup := false
	for i := 0; i < n; i++ {
		nm := c14GenName(r, nodes)
		for _, e := range nodes {
			if e.Name == nm {
				dup = true
			}
		}
		if nm == "" {
			stats.Inc("node.empty_name")
		}
		nodes = append(nodes, c14Node{Name: nm, Tag: c14Pick(r, c14Tags)})
	}
	if dup {
		stats.Inc("pool.with_duplicate_names")
	}
	stats.Add("pool.nodes", n)
	return nodes
}

// c14MutatePool: one subscription update between two (re)loads — a node renamed, moved to another
// subscription, removed, added, offered a second time under another subscription, two nodes swapped,
// or nothing at all.  Returns a fresh slice and the kind of edit.
func c14MutatePool(r *VRand, nodes []c14Node) ([]c14Node, string) {
	out := append([]c14Node{}, nodes...)
	if len(out) == 0 {
		return append(out, c14Node{Name: c14GenName(r, nil), Tag: c14Pick(r, c14Tags)}), "add"
	}
	k := r.Intn(len(out))
	switch r.Intn(8) {
	case 0:
		return out, "unchanged"
	case 1:
		out[k].Name = c14GenName(r, out)
		return out, "rename"
	case 2:
		out[k].Name += c14Pick(r, c14Tokens)
		return out, "rename"
	case 3:
		out[k].Tag = c14Pick(r, c14Tags)
		return out, "retag"
	case 4:
		return append(out[:k], out[k+1:]...), "remove"
	case 5:
		n := c14Node{Name: c14GenName(r, out), Tag: c14Pick(r, c14Tags)}
		out = append(out, c14Node{})
		copy(out[k+1:], out[k:])
		out[k] = n
		return out, "add"
	case 6:
		return append(out, c14Node{Name: out[k].Name, Tag: c14Pick(r, c14Tags)}), "second_offer"
	default:
		j := r.Intn(len(out))
		out[k], out[j] = out[j], out[k]
		return out, "swap"
	}
}

// the members a definition means over a pool, as a multiset of (name, tag, latency): comparable
// between two pools whatever their order
func c14MemberBag(o *c14Oracle, pool []c14Node, g *config.Group) string {
	ev := c14SpecEval(o, pool, g)
	var l []string
	if ev.Members != "-" {
		for _, m := range strings.Split(ev.Members, ",") {
			var i int
			var lat int64
			fmt.Sscanf(m, "%d:%d", &i, &lat)
			l = append(l, fmt.Sprintf("%s/%s/%d", c14x(pool[i].Name), c14x(pool[i].Tag), lat))
		}
	}
	sort.Strings(l)
	return strings.Join(l, ",")
}

func c14Sub(r *VRand, s string) string {
	if s == "" {
		return ""
	}
	a := r.Intn(len(s))
	b := a + 1 + r.Intn(len(s)-a)
	return s[a:b]
}

func c14QuoteMeta(s string) string {
	var b strings.Builder
	for _, c := range s {
		if strings.ContainsRune(`\.+*?()|[]{}^$#- `, c) {
			b.WriteByte('\\')
		}
		b.WriteRune(c)
	}
	return b.String()
}

var c14BadRegex = []string{"(", "[a-", "*a", "(?<n", "a{2,1}", "(?P<x>a)(?P<x>b", "\\"}

func c14GenRegex(r *VRand, subject func() string, stats *VStats) string {
	tok := func() string {
		s := c14Sub(r, subject())
		if len(s) > 6 {
			s = s[:6]
		}
		return c14QuoteMeta(strings.ToValidUTF8(s, ""))
	}
	raw := func() string { // NOT escaped: spaces and '#' stay as written (IgnorePatternWhitespace shows)
		var b strings.Builder
		for _, c := range strings.ToValidUTF8(c14Sub(r, subject()), "") {
			if c >= 'a' && c <= 'z' || c >= 'A' && c <= 'Z' || c >= '0' && c <= '9' || c == ' ' || c == '#' || c == '_' || c == '-' {
				b.WriteRune(c)
			}
		}
		return b.String()
	}
	switch r.Intn(19) {
	case 14, 15:
		return raw()
	case 16, 17: // one line of a multi-line subject, anchored (Multiline shows) / '.' across the newline (Singleline shows)
		sj := strings.ToValidUTF8(subject(), "")
		if parts := strings.Split(sj, "\n"); len(parts) >= 2 {
			k := r.Intn(len(parts))
			switch r.Intn(3) {
			case 0:
				return "^" + c14QuoteMeta(parts[k]) + "$"
			case 1:
				return c14QuoteMeta(parts[0]) + "." + c14QuoteMeta(parts[1])
			default:
				return "^" + c14QuoteMeta(parts[0]) + ".+$"
			}
		}
		return "^" + raw() + "$"
	case 18:
		return c14Pick(r, []string{`^\w+$`, `\d$`, `^\S+\s\S+$`, `\bhk\b`, `[[:alpha:]]+`, `^.{0,3}$`})
	case 0:
		return "^" + tok()
	case 1:
		return tok() + "$"
	case 2:
		return tok() + "|" + tok()
	case 3:
		return ".*"
	case 4:
		return "^$"
	case 5:
		return `\d+`
	case 6:
		return "(?i)" + tok()
	case 7:
		return "^(?!.*" + tok() + ").*$" // negative look-ahead: regexp2 only
	case 8:
		return `^[a-zA-Z]+[-_ ]?\d*$`
	case 9:
		return tok() + ".*" + tok()
	case 10:
		return "^" + c14QuoteMeta(strings.ToValidUTF8(subject(), "")) + "$"
	case 11:
		return "HK|TW|SG"
	case 12:
		return "^my_"
	default:
		return tok()
	}
}

// one param; inv selects an invalid form (0 = valid)
func c14GenParam(r *VRand, fname string, subject func() string, inv int, stats *VStats) c14Param {
	switch inv {
	case 1: // unknown key
		stats.Inc("invalid.key")
		return c14Param{Key: c14Pick(r, []string{"badkey", "Regex", "keywords", "exact", "link"}), Val: subject()}
	case 2: // key valid for the other input only
		stats.Inc("invalid.key_keyword_on_subtag")
		return c14Param{Key: "keyword", Val: c14Sub(r, subject())}
	case 3:
		stats.Inc("invalid.regex")
		return c14Param{Key: "regex", Val: c14Pick(r, c14BadRegex)}
	}
	k := r.Intn(10)
	if fname != "name" && k >= 3 && k < 6 {
		k = 0 // no keyword: on subtag: exact instead
	}
	switch {
	case k < 3:
		stats.Inc("param.exact")
		switch r.Intn(6) {
		case 0:
			return c14Param{Val: c14Sub(r, subject())}
		case 1:
			return c14Param{Val: subject() + c14Pick(r, c14Tokens)}
		case 2:
			return c14Param{Val: c14Pick(r, c14Tokens)}
		default:
			return c14Param{Val: subject()}
		}
	case k < 6 && fname == "name":
		stats.Inc("param.keyword")
		switch r.Intn(8) {
		case 0:
			return c14Param{Key: "keyword", Val: ""}
		case 1:
			return c14Param{Key: "keyword", Val: c14Pick(r, c14Tokens)}
		case 2:
			return c14Param{Key: "keyword", Val: subject() + "x"}
		default:
			return c14Param{Key: "keyword", Val: c14Sub(r, subject())}
		}
	default:
		stats.Inc("param.regex")
		return c14Param{Key: "regex", Val: c14GenRegex(r, subject, stats)}
	}
}

var c14GoodDur = []string{"5ms", "0s", "0", "-3ms", "1h2m", "1.5s", "100us", "+7ms", "0ms", "2562047h", "1ns", ".5s", "1µs"}
var c14BadDur = []string{"5", "ms", "5 ms", "abc", "", "1d", "9223372036854775808ns", "1.s.", "--1s", "1e3ms"}

func c14GenAnno(r *VRand, inv int, stats *VStats) []c14Param {
	if inv == 0 && r.Chance(0.45) {
		stats.Inc("anno.absent")
		return nil
	}
	n := 1
	if r.Chance(0.35) {
		n = 2 + r.Intn(2)
		stats.Inc("anno.multi")
	}
	a := make([]c14Param, 0, n)
	for i := 0; i < n; i++ {
		a = append(a, c14Param{Key: "add_latency", Val: c14Pick(r, c14GoodDur)})
	}
	switch inv {
	case 1:
		stats.Inc("invalid.anno_key")
		a[r.Intn(n)].Key = c14Pick(r, []string{"nonsense", "add_latenc", "latency", "Add_latency"})
	case 2:
		stats.Inc("invalid.anno_latency")
		a[r.Intn(n)].Val = c14Pick(r, c14BadDur)
	default:
		stats.Inc("anno.valid")
	}
	return a
}

func c14GenPolicy(r *VRand, nMembersHint int, stats *VStats) any {
	fx := func(v string) []c14Func { return []c14Func{{Name: "fixed", Params: []c14Param{{Val: v}}}} }
	switch k := r.Intn(20); {
	case k < 6:
		stats.Inc("policy.simple")
		return c14Pick(r, []string{"random", "min", "min_avg10", "min_moving_avg"})
	case k < 12:
		stats.Inc("policy.fixed_near_range")
		return fx(fmt.Sprint(c14Pick(r, []string{"-1", "0", "1", "2"})))
	case k < 14:
		stats.Inc("policy.fixed_at_len")
		return fx(fmt.Sprint(nMembersHint - 1 + r.Intn(3)))
	case k == 14:
		stats.Inc("policy.fixed_odd_number")
		return fx(c14Pick(r, []string{"+1", "-0", "01", "1_0", " 1", "", "9223372036854775807", "9223372036854775808",
			"-9223372036854775808", "-9223372036854775809", "99999999999999999999", "0x1", "1.0", "a", "١"}))
	case k == 15:
		stats.Inc("policy.fixed_bad_shape")
		switch r.Intn(5) {
		case 0:
			return []c14Func{{Name: "fixed", Not: true, Params: []c14Param{{Val: "0"}}}}
		case 1:
			return []c14Func{{Name: "fixed", Params: []c14Param{{Key: "k", Val: "0"}}}}
		case 2:
			return []c14Func{{Name: "fixed", Params: []c14Param{{Val: "0"}, {Val: "1"}}}}
		case 3:
			return []c14Func{{Name: "fixed"}}
		default:
			return "fixed"
		}
	case k == 16:
		stats.Inc("policy.simple_with_extras")
		return []c14Func{{Name: c14Pick(r, []string{"random", "min", "min_avg10", "min_moving_avg"}), Not: r.Bool(),
			Params: []c14Param{{Key: c14Pick(r, []string{"", "k"}), Val: "7"}}}}
	case k == 17:
		stats.Inc("policy.unknown_name")
		return c14Pick(r, []string{"foo", "Min", "min_avg", "minimum", "fix", "randomm", "min_last"})
	case k == 18:
		stats.Inc("policy.wrong_count")
		if r.Bool() {
			return []c14Func{{Name: "min"}, {Name: "random"}}
		}
		return []c14Func{}
	default:
		stats.Inc("policy.odd_type")
		switch r.Intn(3) {
		case 0:
			return c14Func{Name: c14Pick(r, []string{"min", "fixed", "zzz"}), Params: []c14Param{{Val: "0"}}}
		case 1:
			return 7
		default:
			return []string{"min"}
		}
	}
}

func c14GenDef(r *VRand, pool []c14Node, stats *VStats) *c14Def {
	d := &c14Def{}
	var nl int
	switch k := r.Intn(12); {
	case k == 0:
		nl = 0
		stats.Inc("def.no_filter")
	case k < 6:
		nl = 1
	case k < 10:
		nl = 2 + r.Intn(2)
	default:
		nl = 4 + r.Intn(3)
		if r.Chance(0.15) {
			nl = 7 + r.Intn(6)
			if r.Chance(0.3) {
				nl = 13 + r.Intn(18) // beyond any plausible fast-path threshold
				stats.Inc("def.lines_13_to_30")
			}
		}
	}
	// one invalid item per definition, at a random place (so that evaluation often does
	// not reach it): 0 none, 1 input, 2 key, 3 regex, 4 anno key, 5 anno latency
	inv := 0
	if nl > 0 && r.Chance(0.30) {
		inv = 1 + r.Intn(5)
	}
	invLine := r.Intn(nl + 1)
	if nl > 0 {
		invLine = r.Intn(nl)
	}
	anyName := func() string {
		if len(pool) == 0 || r.Chance(0.1) {
			return c14Pick(r, c14Tokens)
		}
		return pool[r.Intn(len(pool))].Name
	}
	anyTag := func() string {
		if len(pool) == 0 || r.Chance(0.1) {
			return c14Pick(r, c14Tags)
		}
		return pool[r.Intn(len(pool))].Tag
	}
	for j := 0; j < nl; j++ {
		nf := 1
		if r.Chance(0.45) {
			nf = 2 + r.Intn(2)
			if r.Chance(0.08) {
				nf = 4 + r.Intn(2)
				if r.Chance(0.25) {
					nf = 6 + r.Intn(5)
					stats.Inc("line.conditions_6_to_10")
				}
			}
		}
		if r.Chance(0.012) && !(inv != 0 && inv < 4 && j == invLine) {
			nf = 0 // a line without conditions (struct path only): holds for every node
			stats.Inc("line.no_conditions")
		}
		invFunc := r.Intn(nf + 1)
		if nf > 0 {
			invFunc = r.Intn(nf)
		}
		line := make([]c14Func, 0, nf)
		for k := 0; k < nf; k++ {
			f := c14Func{Name: "name", Not: r.Chance(0.25)}
			subject := anyName
			if r.Chance(0.3) {
				f.Name = "subtag"
				subject = anyTag
			}
			if f.Not {
				stats.Inc("func.negated")
			}
			here := inv != 0 && j == invLine && k == invFunc
			if here && inv == 1 {
				stats.Inc("invalid.input")
				f.Name = c14Pick(r, []string{"bogus", "link", "Name", "names", "tag", "sub_tag"})
			}
			np := 1
			if r.Chance(0.4) {
				np = 2 + r.Intn(2)
				if r.Chance(0.08) {
					np = 4 + r.Intn(3)
				}
				if r.Chance(0.03) { // long value lists (set-lookup style fast paths live here)
					np = 9 + r.Intn(32)
					stats.Inc("func.values_9_to_40")
				}
			}
			if r.Chance(0.02) {
				np = 0
				stats.Inc("func.no_params")
			}
			invParam := r.Intn(np + 1)
			if np > 0 {
				invParam = r.Intn(np)
			}
			for q := 0; q < np; q++ {
				pi := 0
				if here && q == invParam {
					switch inv {
					case 2:
						pi = 1
						if f.Name == "subtag" && r.Bool() {
							pi = 2
						}
					case 3:
						pi = 3
					}
				}
				f.Params = append(f.Params, c14GenParam(r, f.Name, subject, pi, stats))
			}
			stats.Inc("func." + map[bool]string{true: "name", false: "other"}[f.Name == "name"])
			line = append(line, f)
		}
		if nf > 1 {
			stats.Inc("line.conjunction")
		}
		d.Lines = append(d.Lines, line)
		ai := 0
		if j == invLine && inv >= 4 {
			ai = inv - 3
		}
		d.Annos = append(d.Annos, c14GenAnno(r, ai, stats))
	}
	if inv != 0 {
		stats.Inc("def.with_invalid_item")
		if r.Chance(0.25) { // a second, independent invalid item somewhere else
			c14Invalidate(r, d, stats)
			stats.Inc("def.with_two_invalid_items")
		}
	} else {
		stats.Inc("def.valid")
	}
	stats.Add("def.lines", nl)
	d.Policy = c14GenPolicy(r, len(pool), stats)
	if r.Chance(0.2) {
		d.Over = 1 + r.Intn(31)
	}
	return d
}

// c14Invalidate makes one more item of the definition invalid, at a random place.
// c14Twin: a copy of a definition that differs in ONE place — the annotation of a line, a negation,
// a value, the order of two lines, the policy — or in nothing.  Two groups of one configuration that
// share their filter text (or almost) are what a per-pool memo keyed too coarsely confuses.
func c14Twin(r *VRand, d *c14Def, stats *VStats) *c14Def {
	t := &c14Def{Policy: d.Policy, Over: d.Over}
	for _, l := range d.Lines {
		nl := make([]c14Func, len(l))
		for i, f := range l {
			nl[i] = c14Func{Name: f.Name, Not: f.Not, Params: append([]c14Param{}, f.Params...)}
		}
		t.Lines = append(t.Lines, nl)
	}
	for _, a := range d.Annos {
		t.Annos = append(t.Annos, append([]c14Param{}, a...))
	}
	if len(t.Lines) == 0 || len(t.Annos) != len(t.Lines) {
		t.Policy = c14Pick(r, []string{"min", "random", "min_avg10", "min_moving_avg"})
		stats.Inc("twin.policy")
		return t
	}
	j := r.Intn(len(t.Lines))
	switch x := r.Intn(10); {
	case x < 4: // same filter lines, another annotation
		switch {
		case len(t.Annos[j]) == 0 || r.Bool():
			t.Annos[j] = []c14Param{{Key: "add_latency", Val: c14Pick(r, []string{"7ms", "-2ms", "1s", "250us"})}}
		default:
			t.Annos[j] = nil
		}
		stats.Inc("twin.annotation")
	case x < 5 && len(t.Lines[j]) > 0:
		k := r.Intn(len(t.Lines[j]))
		t.Lines[j][k].Not = !t.Lines[j][k].Not
		stats.Inc("twin.negation")
	case x < 7 && len(t.Lines[j]) > 0:
		k := r.Intn(len(t.Lines[j]))
		if n := len(t.Lines[j][k].Params); n > 0 {
			q := r.Intn(n)
			t.Lines[j][k].Params[q].Val += c14Pick(r, []string{"1", "-", "k", "x"})
			if t.Lines[j][k].Params[q].Key == "regex" {
				t.Lines[j][k].Params[q].Val = c14QuoteMeta(strings.ToValidUTF8(t.Lines[j][k].Params[q].Val, ""))
			}
		}
		stats.Inc("twin.value")
	case x < 8 && len(t.Lines) >= 2:
		i := r.Intn(len(t.Lines))
		t.Lines[i], t.Lines[j] = t.Lines[j], t.Lines[i]
		t.Annos[i], t.Annos[j] = t.Annos[j], t.Annos[i]
		stats.Inc("twin.line_order")
	case x < 9:
		t.Policy = c14Pick(r, []string{"min", "random", "min_avg10", "min_moving_avg"})
		stats.Inc("twin.policy")
	default:
		stats.Inc("twin.identical")
	}
	return t
}

func c14Invalidate(r *VRand, d *c14Def, stats *VStats) {
	if len(d.Lines) == 0 {
		return
	}
	j := r.Intn(len(d.Lines))
	switch k := r.Intn(5); {
	case k <= 2 && len(d.Lines[j]) > 0:
		f := &d.Lines[j][r.Intn(len(d.Lines[j]))]
		switch {
		case k == 0:
			f.Name = c14Pick(r, []string{"bogus", "link", "Name", "tag"})
		case k == 1:
			f.Params = append(f.Params, c14Param{Key: c14Pick(r, []string{"badkey", "exact"}), Val: "v"})
		default:
			f.Params = append([]c14Param{{Key: "regex", Val: c14Pick(r, c14BadRegex)}}, f.Params...)
		}
	case k == 3:
		d.Annos[j] = append(d.Annos[j], c14Param{Key: c14Pick(r, []string{"nonsense", "latency"}), Val: "1ms"})
	default:
		d.Annos[j] = append([]c14Param{{Key: "add_latency", Val: c14Pick(r, c14BadDur)}}, d.Annos[j]...)
	}
}

// the reproduced instances of the lazy-validation defect (DESIGN §7 item 8) and neighbours
func c14Directed() ([]c14Node, []*c14Def) {
	pool := []c14Node{{"hk-1", "my_sub"}, {"sg-2", "my_sub"}, {"us-3", "sub2"}}
	kw := func(v string) c14Func { return c14Func{Name: "name", Params: []c14Param{{Key: "keyword", Val: v}}} }
	defs := []*c14Def{
		{Lines: [][]c14Func{{kw("zzz"), {Name: "bogus", Params: []c14Param{{Val: "x"}}}}}, Annos: [][]c14Param{nil}, Policy: "min"},
		{Lines: [][]c14Func{{kw("zzz")}}, Annos: [][]c14Param{{{Key: "nonsense", Val: "1"}}}, Policy: "min"},
		{Lines: [][]c14Func{{kw("zzz"), {Name: "name", Params: []c14Param{{Key: "regex", Val: "("}}}}}, Annos: [][]c14Param{nil}, Policy: "min"},
		{Lines: [][]c14Func{{kw("zzz")}}, Annos: [][]c14Param{{{Key: "add_latency", Val: "5"}}}, Policy: "min"},
		{Lines: [][]c14Func{{kw("hk"), kw("sg")}, {{Name: "subtag", Params: []c14Param{{Key: "keyword", Val: "my"}}}}}, Annos: [][]c14Param{nil, nil}, Policy: "min"},
		{Lines: [][]c14Func{{kw("")}, {{Name: "bogus"}}}, Annos: [][]c14Param{nil, nil}, Policy: "min"},                                                         // catch-all line first
		{Lines: [][]c14Func{{kw("hk"), {Name: "name", Params: []c14Param{{Val: "hk-1"}, {Key: "badkey", Val: "q"}}}}}, Annos: [][]c14Param{nil}, Policy: "min"}, // OR leaves before the bad key
		{Lines: [][]c14Func{{{Name: "bogus", Params: []c14Param{{Val: "x"}}}}}, Annos: [][]c14Param{nil}, Policy: "min"},
		{Lines: [][]c14Func{{{Name: "name", Params: []c14Param{{Key: "keyword", Val: "hk"}, {Key: "badkey", Val: "q"}}}}}, Annos: [][]c14Param{nil}, Policy: "min"},
		{Lines: [][]c14Func{{kw("hk")}}, Annos: [][]c14Param{{{Key: "add_latency", Val: "5ms"}}}, Policy: "min"},
		{Lines: [][]c14Func{{kw("hk")}}, Annos: [][]c14Param{{{Key: "add_latency", Val: "0s"}, {Key: "add_latency", Val: "7ms"}, {Key: "add_latency", Val: "9ms"}}}, Policy: "min"},
		{Lines: [][]c14Func{{{Name: "name", Not: true, Params: []c14Param{{Key: "regex", Val: "HK|TW|SG"}, {Key: "keyword", Val: "sg"}}}, kw("-")}}, Annos: [][]c14Param{nil}, Policy: []c14Func{{Name: "fixed", Params: []c14Param{{Val: "1"}}}}},
		{Lines: [][]c14Func{{{Name: "subtag", Params: []c14Param{{Val: "my_sub"}, {Key: "regex", Val: "^sub"}}}}}, Annos: [][]c14Param{nil}, Policy: []c14Func{{Name: "fixed", Params: []c14Param{{Val: "3"}}}}},
		{Lines: nil, Annos: nil, Policy: []c14Func{{Name: "fixed", Params: []c14Param{{Val: "2"}}}}},
	}
	return pool, defs
}

// c14LenientPolicy: forms the code accepts although the documentation does not describe them: one of
// the four parameterless policies written with `!` or with arguments.
func c14LenientPolicy(p any) bool {
	fs, ok := p.([]*config_parser.Function)
	if !ok {
		if f, ok := p.(*config_parser.Function); ok && f != nil {
			fs = []*config_parser.Function{f}
		} else {
			return false
		}
	}
	if len(fs) != 1 {
		return false
	}
	switch fs[0].Name {
	case "random", "min", "min_avg10", "min_moving_avg":
		return fs[0].Not || len(fs[0].Params) > 0
	}
	return false
}

// c14Offsets: the EFFECTIVE latency offsets of a built group — what each of its AliveDialerSets
// (one per standard network type, two slots aliased) copied from the annotations NewDialerGroup was
// given — member by member, in member order.  `none` = no alive set at all (policy fixed keeps no
// alive state); every set must answer the same offsets.  Read as the selection code reads the map
// (a missing entry is 0), so a set that does not store zero offsets is indistinguishable.
func c14Offsets(sets [8]*dialer.AliveDialerSet, members []*dialer.Dialer, idxOf func(*dialer.Dialer) (int, bool)) string {
	nSets := 0
	for _, a := range sets {
		if a != nil {
			nSets++
		}
	}
	if nSets == 0 {
		return "none"
	}
	if nSets != len(sets) {
		return fmt.Sprintf("sets:%d/%d", nSets, len(sets))
	}
	first := ""
	for k, a := range sets {
		one := "-"
		if len(members) > 0 {
			parts := make([]string, 0, len(members))
			for _, d := range members {
				idx := "?"
				if i, ok := idxOf(d); ok {
					idx = fmt.Sprint(i)
				}
				// read as the selection code reads it: `dialerToLatencyOffset[d]`, a missing entry is 0
				v, _ := a.VerifC14LatencyOffset(d)
				parts = append(parts, fmt.Sprintf("%s:%d", idx, int64(v)))
			}
			one = strings.Join(parts, ",")
		}
		if k == 0 {
			first = one
		} else if one != first {
			return "DISAGREE(" + first + "|" + one + ")"
		}
	}
	return first
}

func c14GroupStats(stats *VStats, gr string) {
	f := strings.Fields(gr)
	if len(f) == 0 {
		return
	}
	switch f[0] {
	case "perr":
		stats.Inc("group.policy_error." + f[1])
	case "ferr":
		stats.Inc("group.filter_error")
	case "ok":
		if strings.HasPrefix(f[1], "ids=") {
			return
		}
		stats.Inc("group.built")
		for _, x := range f {
			if strings.HasPrefix(x, "off=") && x != "off=none" && x != "off=-" {
				stats.Inc("group.built_with_offset_table")
				for _, e := range strings.Split(x[4:], ",") {
					if !strings.HasSuffix(e, ":0") {
						stats.Inc("discrim.group_with_nonzero_effective_offset")
						break
					}
				}
			}
		}
		if len(f) >= 4 && strings.HasPrefix(f[1], "pol=fixed") {
			switch s := strings.TrimPrefix(f[3], "sel="); s {
			case "range", "empty":
				stats.Inc("group.fixed_" + s)
			default:
				stats.Inc("group.fixed_selected")
			}
		}
	}
}

// duration strings for the mirrored time.ParseDuration: well-formed multi-term values, every unit,
// fractions (long, leading/trailing dot), int64 edges, and near misses.
func c14GenDur(r *VRand, stats *VStats) string {
	units := []string{"ns", "us", "µs", "μs", "ms", "s", "m", "h"}
	num := func() string {
		switch r.Intn(10) {
		case 0:
			return "0"
		case 1:
			return fmt.Sprint(r.U64() % 1000000007)
		case 2:
			return fmt.Sprint(r.U64()) // up to 2^64: overflow of leadingInt
		case 3:
			return c14Pick(r, []string{"9223372036854775807", "9223372036854775808", "9223372036854775809", "922337203685477580", "922337203685477581", "2562047", "2562048", "153722867", "153722868"})
		case 4:
			return "00" + fmt.Sprint(r.Intn(100))
		default:
			return fmt.Sprint(r.Intn(3000))
		}
	}
	frac := func() string {
		switch r.Intn(8) {
		case 0:
			return "."
		case 1:
			return "." + strings.Repeat(fmt.Sprint(r.Intn(10)), 18+r.Intn(12)) // precision overflow
		case 2:
			return "." + c14Pick(r, []string{"854775807", "854775808", "999999999", "000000001", "5", "25", "3333333333333333333", "9223372036854775808"})
		case 3, 4:
			return "." + fmt.Sprint(r.Intn(1000000))
		default:
			return ""
		}
	}
	term := func() string {
		switch r.Intn(12) {
		case 0:
			return frac() + c14Pick(r, units) // maybe no digits at all
		default:
			return num() + frac() + c14Pick(r, units)
		}
	}
	switch k := r.Intn(20); {
	case k == 0:
		stats.Inc("dur.literal_edge")
		return c14Pick(r, append(append([]string{}, c14GoodDur...), append(c14BadDur, "2562047h47m16.854775807s", "2562047h47m16.854775808s",
			"-2562047h47m16.854775808s", "-2562047h47m16.854775809s", "+", "-", "+0", "-0", "00", "0.0", ".", ".s", "1.h", "1h.", "1 h", "1H", "1hh", "1sm", "1m s",
			"1µs1μs1us", "1\xc2s", "1\xb5s", "١s", "1e3ms", "0x1s", "1_0s", "3.3333333333333333333h", "0.1h", "1.000000000000000000000000001s")...))
	case k < 3:
		stats.Inc("dur.near_miss")
		t := term()
		switch r.Intn(6) {
		case 0:
			return num() // missing unit
		case 1:
			return t + num() // trailing number without unit
		case 2:
			return t + c14Pick(r, []string{"d", "S", "sec", "min", "hs", "n", "u", "µ", " "}) // unknown unit
		case 3:
			return " " + t
		case 4:
			return c14Pick(r, []string{"--", "++", "+-"}) + t
		default:
			return t + "." // "1s." : a term ".": no digits
		}
	default:
		stats.Inc("dur.well_formed")
		n := 1 + r.Intn(3)
		if r.Chance(0.1) {
			n = 4 + r.Intn(4)
		}
		sgn := c14Pick(r, []string{"", "", "", "-", "+"})
		o := sgn
		for i := 0; i < n; i++ {
			o += term()
		}
		return o
	}
}

// c14StructOnly: the definition uses a form that only the struct path can express (the config parser
// cannot produce it): a condition without values, a line without conditions, an annotation list
// whose length differs from the filter list, a policy held as *Function.  Code that rejects such
// forms defensively is stricter than the model without touching any real configuration.
func c14StructOnly(g *config.Group) bool {
	if len(g.Filter) != len(g.FilterAnnotation) {
		return true
	}
	for _, l := range g.Filter {
		if len(l) == 0 {
			return true
		}
		for _, f := range l {
			if len(f.Params) == 0 {
				return true
			}
		}
	}
	switch p := g.Policy.(type) {
	case *config_parser.Function:
		return true
	case []*config_parser.Function:
		for _, f := range p {
			if len(f.Params) == 0 && f.Name == "fixed" {
				return true
			}
		}
	}
	return false
}

// c14LazyReaches: would a per-node, short-circuit evaluation (the code before 367c759) have run into
// the invalid item of this definition?  Written over the Go-side oracles only (no call into filter.go).
func c14LazyReaches(o *c14Oracle, pool []c14Node, g *config.Group) bool {
	badParam := func(f *config_parser.Function, p *config_parser.Param) bool {
		switch {
		case p.Key == "":
			return false
		case p.Key == "regex":
			return o.re[p.Val] == nil
		case p.Key == "keyword" && f.Name == "name":
			return false
		}
		return true
	}
	annoBad := func(a []*config_parser.Param) bool {
		for _, p := range a {
			if p.Key != "add_latency" || o.dur[p.Val] == nil {
				return true
			}
		}
		return false
	}
	for _, n := range pool {
		for j, line := range g.Filter {
			hit := true
			for _, f := range line {
				if f.Name != "name" && f.Name != "subtag" {
					return true
				}
				sub := false
				for _, p := range f.Params {
					if badParam(f, p) {
						return true
					}
					one := &config_parser.Function{Name: f.Name, Params: []*config_parser.Param{p}}
					if c14LineHolds(o, n, []*config_parser.Function{one}) {
						sub = true
						break
					}
				}
				if sub == f.Not {
					hit = false
					break
				}
			}
			if hit {
				if j < len(g.FilterAnnotation) && annoBad(g.FilterAnnotation[j]) {
					return true
				}
				break
			}
		}
	}
	return false
}

// A user pattern whose match is found only after exponential backtracking (≈ 0.1–0.3 s for this name):
// the true answer is MATCH.  Code that bounds the match time and swallows the time-out error (filterHit
// discards MatchString's error) silently drops / admits the node.  The oracle and the model have no
// time-out.  Deterministic on the unchanged tree (regexp2 has no time-out there), only slow.
func c14DirectedSlowRegex() ([]c14Node, []*c14Def) {
	pool := []c14Node{{strings.Repeat("a", 22) + "!", "s1"}, {"aaaa", "s1"}, {"hk", "s2"}}
	pat := `^(?:(a+)+!x|a+!)$`
	return pool, []*c14Def{
		{Lines: [][]c14Func{{{Name: "name", Params: []c14Param{{Key: "regex", Val: pat}}}}}, Annos: [][]c14Param{nil}, Policy: "min"},
		{Lines: [][]c14Func{{{Name: "name", Not: true, Params: []c14Param{{Key: "regex", Val: pat}}}}}, Annos: [][]c14Param{{{Key: "add_latency", Val: "5ms"}}},
			Policy: []c14Func{{Name: "fixed", Params: []c14Param{{Val: "0"}}}}},
	}
}
