"""C20 — reload requests are serialised, answered, and never leave dae wedged."""
import glob, json, os, re
from verifkit import read_lines, REPO, VERIF

REQUIRED = [
    "DaeVerif.C20.Props.at_most_one_in_progress",
    "DaeVerif.C20.Props.accept_only_when_idle",
    "DaeVerif.C20.Props.refusal_is_pure",
    "DaeVerif.C20.Props.refusal_reports_busy",
    "DaeVerif.C20.Props.ready_wait_is_in_progress",
    "DaeVerif.C20.Props.signal_in_ready_wait_reports_busy",
    "DaeVerif.C20.Props.signal_while_in_progress_is_refused_busy",
    "DaeVerif.C20.Props.answer_lands_after_ready_wait",
    "DaeVerif.C20.Props.queue_full_branch_unreachable",
    "DaeVerif.C20.Props.coalesce_drops_nothing",
    "DaeVerif.C20.Props.suppression_balanced",
    "DaeVerif.C20.Props.end_suppression_never_clamped",
    "DaeVerif.C20.Props.settled_is_clean",
    "DaeVerif.C20.Props.no_stale_busy_when_idle",
    "DaeVerif.C20.Props.internal_steps_terminate",
    "DaeVerif.C20.Props.pending_implies_progress_possible",
    "DaeVerif.C20.Props.eventually_accepts_again",
    "DaeVerif.C20.Props.retirement_done_within_budget",
    "DaeVerif.C20.Props.drain_wait_bounded",
    "DaeVerif.C20.Props.retirement_step_starts_clock",
    "DaeVerif.C20.Props.retirement_clock_bounded",
    "DaeVerif.C20.Props.clock_urgency_by_construction",
    "DaeVerif.C20.Props.blocked_release_bounded_by_construction",
    "DaeVerif.C20.Props.release_after_retirement",
    "DaeVerif.C20.Props.worker_tail_is_inert",
    "DaeVerif.C20.Props.abort_marker_goes_with_its_request",
    "DaeVerif.C20.Props.muting_always_lifted",
    "DaeVerif.C20.Props.mute_window_starts_at_last_end",
    "DaeVerif.C20.Props.no_foreign_answer_in_progress",
    "DaeVerif.C20.Props.ready_wait_bounded",
    "DaeVerif.C20.Props.answered_full",
    "DaeVerif.C20.Props.answer_written_before_release",
]

KNOWN_STALE_BUSY = "c20-stale-busy-after-release"


def ret_admits(im, mo):
    """retirement stream: `res=` / `aborted=` on the model side are sets (Go's select may pick any
    ready case when events coincide); everything else must be equal."""
    a, b = im.split(), mo.split()
    if len(a) != len(b):
        return False
    for x, y in zip(a, b):
        if x == y:
            continue
        if "=" in x and "=" in y:
            kx, vx = x.split("=", 1)
            ky, vy = y.split("=", 1)
            if kx == ky and kx in ("res", "aborted") and vx in vy.split("|"):
                continue
        return False
    return True


UNITS = {"time.Nanosecond": 1, "time.Microsecond": 10**3, "time.Millisecond": 10**6, "time.Second": 10**9,
         "time.Minute": 60 * 10**9, "time.Hour": 3600 * 10**9}


def go_consts(paths):
    """name -> expression text of the (simple) constant declarations in the given Go files."""
    table = {}
    for path in paths:
        if not os.path.exists(path):
            continue
        src = open(path, encoding="utf-8", errors="replace").read()
        src = re.sub(r"//[^\n]*", "", src)
        for m in re.finditer(r"^const\s+(\w+)(?:\s+[\w.]+)?\s*=\s*([^\n]+)$", src, re.M):
            table[m.group(1)] = m.group(2).strip()
        for blk in re.finditer(r"^const\s*\((.*?)^\)", src, re.M | re.S):
            for m in re.finditer(r"^\s*(\w+)(?:\s+[\w.]+)?\s*=\s*([^\n]+)$", blk.group(1), re.M):
                table[m.group(1)] = m.group(2).strip()
    return table


def eval_duration(name, table, depth=0):
    """value in ns of a duration constant built from integers, time.* units, + - * and other constants."""
    if depth > 8 or name not in table:
        raise ValueError("cannot resolve constant " + name)
    expr = table[name]
    for u, v in UNITS.items():
        expr = expr.replace(u, str(v))
    def sub(m):
        w = m.group(0)
        return w if w.isdigit() else str(eval_duration(w, table, depth + 1))
    expr = re.sub(r"[A-Za-z_][A-Za-z_0-9]*", sub, expr)
    if not re.fullmatch(r"[0-9+\-*/() ]+", expr):
        raise ValueError("unsupported constant expression for %s: %s" % (name, table[name]))
    return int(eval(expr.replace("/", "//"), {"__builtins__": {}}))


def regenerate_consts(ctx):
    """lean/DaeVerif/C20/Gen.lean: the time constants of the tree under test.  The theorems do not
    depend on their values, so a retune is followed (the proofs are simply rebuilt), not alarmed."""
    cmd = go_consts([os.path.join(REPO, "cmd", "run.go")])
    dia = go_consts(sorted(glob.glob(os.path.join(REPO, "component", "outbound", "dialer", "*.go"))))
    try:
        vals = [("totalSwitchBudgetNs", "reloadTotalSwitchBudget", eval_duration("reloadTotalSwitchBudget", cmd)),
                ("quiesceNs", "reloadFailureQuiesce", eval_duration("reloadFailureQuiesce", dia)),
                ("readyTimeoutNs", "reloadReadyTimeout", eval_duration("reloadReadyTimeout", cmd)),
                ("prepareTimeoutNs", "reloadPrepareTimeout", eval_duration("reloadPrepareTimeout", cmd))]
    except Exception as e:  # noqa
        ctx.say("TRANSLATOR-FAILED c20 constants:", e)
        ctx.proof_failures.append("cannot regenerate lean/DaeVerif/C20/Gen.lean from the source: %s" % e)
        return
    if any(v < 0 for _, _, v in vals):
        ctx.proof_failures.append("negative duration constant in the source: %r" % (vals,))
        return
    txt = ("/-! GENERATED by checks/c20.py from cmd/run.go and component/outbound/dialer/*.go of the tree under test; do not edit. -/\n"
           "namespace DaeVerif.C20.Gen\n")
    for lean, go, v in vals:
        txt += "/-- %s (ns) -/\ndef %s : Nat := %d\n" % (go, lean, v)
    txt += "end DaeVerif.C20.Gen\n"
    path = os.path.join(VERIF, "lean", "DaeVerif", "C20", "Gen.lean")
    if not os.path.exists(path) or open(path).read() != txt:
        open(path, "w").write(txt)
        ctx.say("note: time constants of the tree under test differ from the last run; lean/DaeVerif/C20/Gen.lean rewritten, proofs will be rebuilt")
    ctx.cov["generated_constants"] = {go: v for _, go, v in vals}
    for lean, go, v in vals:
        if go in ("reloadReadyTimeout", "reloadPrepareTimeout") and v <= 0:
            # ready_wait_bounded needs a positive time-out: without one a Serve goroutine that never
            # reports leaves the main loop in the wait for ever (every signal swallowed as busy)
            ctx.report(f"{go} = {v} ns in the source: the hand-off's wait has no time-out any more "
                       f"(theorem ready_wait_bounded needs 0 < timeout; with 0 the real waitReloadReadyOrSignal arms no timer)",
                       {"constant": go, "value_ns": v, "replay": "rwait timeout=0 report=none ok=1 term=none nsig=0 -> at=never"})


def write_shim(ctx):
    """The harness reaches `takeAbortMarker` and `reloadRequest.abortConnections` (introduced by 612b092)
    through this generated file, so that a tree without them still builds and is REPORTED (the marker
    then survives a refusal: `ab=1` against the model's `ab=0`) instead of failing the harness build."""
    src = open(os.path.join(REPO, "cmd", "run.go"), encoding="utf-8", errors="replace").read()
    has_fn = re.search(r"^func takeAbortMarker\(\) bool", src, re.M) is not None
    m = re.search(r"type reloadRequest struct \{(.*?)\n\}", src, re.S)
    has_field = bool(m and re.search(r"^\s*abortConnections\s+bool", m.group(1), re.M))
    body = ["package cmd", "", "// generated by checks/c20.py from cmd/run.go of the tree under test", "", 'import "time"', ""]
    body += ["func c20TakeAbort() bool { return %s }" % ("takeAbortMarker()" if has_fn else "false"), ""]
    if has_field:
        body += ["func c20MkRequest(suspend, abort bool) reloadRequest {",
                 "\treturn reloadRequest{isSuspend: suspend, requestedAt: time.Now(), abortConnections: abort}", "}", "",
                 "func c20RequestAbort(r reloadRequest) bool { return r.abortConnections }"]
    else:
        body += ["func c20MkRequest(suspend, abort bool) reloadRequest {",
                 "\t_ = abort", "\treturn reloadRequest{isSuspend: suspend, requestedAt: time.Now()}", "}", "",
                 "func c20RequestAbort(r reloadRequest) bool { return false }"]
    path = os.path.join(ctx.out, "c20_shim_test.go")
    open(path, "w").write("\n".join(body) + "\n")
    ctx.cov["shim"] = {"takeAbortMarker": has_fn, "reloadRequest.abortConnections": has_field}
    return path


def schedule_upto(ops, lineno):
    """the op lines of the sequence (from the last `reset`) that contains 1-based line `lineno`."""
    i = lineno - 1
    start = i
    while start > 0 and ops[start] != "reset":
        start -= 1
    return ops[start:i + 1]


def run(ctx):
    ctx.trusted += [
        "atomicity granularity: a model step is the real code between two calls of the hook variables of package cmd "
        "(set/getRunSignalProgress, begin/endReloadProxyFailureSuppression) or one statement of the worker / run-state-handler body; "
        "interleavings inside such a section (e.g. between the failed CAS and reloadActive.Load()) are not modelled",
        "the worker body and the run-state handler of (*Runner).Run are not executed (they need a live control plane): their flag effects are the "
        "go/ast-extracted statement paths, compared with the model's tables on every run and replayed statement by statement on the real reloadManager",
        "the go/ast extractor (harness/overlay/cmd/c20_paths_test.go): which calls it recognises as effects; any unrecognised call on reloadManager / "
        "reload helpers yields a `?` token that fails the path comparison",
        "liveness is relative to: fair scheduling of goroutines; the serve-ready wait returns (45 s timer, not executed under a clock); "
        "ControlPlane.Close inside the retirement goroutine returns (it has its own 5 s + janitor bounds, not modelled); Go runtime signal delivery. "
        "Retirement completion itself is no longer assumed: the real startControlPlaneRetirement/waitForControlPlaneDrain run under testing/synctest "
        "virtual time against the model's clock (retireDoneAt <= max(budget,0) <= reloadTotalSwitchBudget)",
        "the retiring old generation in the retirement stream is a ControlPlane carrying only the real drain tracker (overlay accessor "
        "harness/overlay/control/c20_access.go); its sessions end when the scenario says, not because AbortConnections closed them",
        "after the suppression counter returns to 0 the dialer keeps reports muted for a further fixed window (reloadFailureQuiesce); only the counter is modelled",
        "overlay accessor harness/overlay/component/outbound/dialer/c20_access.go reads the real counter",
    ]
    regenerate_consts(ctx)
    ctx.prove(["DaeVerif.C20.Props"], ["DaeVerif.C20.Props"], ["DaeVerif/C20/*.lean"], extra_targets=["c20drv"])
    ctx.required_theorems(REQUIRED)

    access = os.path.join(VERIF, "harness", "overlay", "component", "outbound", "dialer", "c20_access.go")
    access2 = os.path.join(VERIF, "harness", "overlay", "control", "c20_access.go")
    binp = ctx.go_test_build("cmd", ["cmd/c20_test.go", "cmd/c20_paths_test.go", "cmd/c20_retire_test.go", write_shim(ctx)], "c20",
                             extra_overlay={os.path.join(REPO, "component", "outbound", "dialer", "zz_verif_c20_access.go"): access,
                                            os.path.join(REPO, "control", "zz_verif_c20_access.go"): access2})
    if not binp:
        return 2
    rc, out = ctx.run_harness(binp, "TestVerifC20")
    if rc != 0:
        ctx.say("HARNESS-FAILED", out[-3000:])
        return 2

    n_eval = 0
    distinct = set()
    for label in ("c20paths", "c20ret", "c20"):
        ops, impl, model = (os.path.join(ctx.out, label + "." + e) for e in ("ops", "impl", "model"))
        if not os.path.exists(ops):
            ctx.say("HARNESS-FAILED no stream", label)
            return 2
        if not ctx.driver("c20drv", ops, model):
            ctx.proof_failures.append("model driver c20drv failed to run")
        mism = ctx.diff_streams(ops, impl, model, label)
        lo, li = read_lines(ops), read_lines(impl)
        n_eval += len(lo)
        if label == "c20ret":
            nrep = 0
            real = [(ln, op, im, mo) for ln, op, im, mo in mism if not (ln and ret_admits(im, mo))]
            # headline first: a whole retirement that never completes (the daemon is wedged)
            real.sort(key=lambda x: (0 if (x[1].startswith("retire") and "never" in x[2]) else 1, x[0]))
            for ln, op, im, mo in real:
                nrep += 1
                if nrep > 4:
                    break
                never = "never" in im
                ctx.report(
                    ("the old generation's retirement does not complete" if never else "the old generation's retirement differs from the model's clock")
                    + f": `{op}` -> real code `{im}`, model `{mo}`"
                    + (" — retirementDone is never closed: pending stays set, suppression is never lifted, every later reload/suspend is refused busy" if never and op.startswith("retire") else ""),
                    {"stream": label, "line": ln, "scenario": op, "impl": im, "model": mo,
                     "replay": "VERIF_SEED=%d ./check C20 %s" % (ctx.seed, ctx.tier)})
            ctx.cov["streams"][label]["mismatches"] = nrep
            for op in lo:
                distinct.add(op)
            continue
        if label == "c20paths":
            for ln, op, im, mo in mism[:4]:
                if " facts" in op.split("!")[0][:20]:
                    what = (f"a fact about the source that the model relies on no longer holds (channel capacity / signal set / time-out "
                            f"argument / `dae reload` pre-check / abort-marker position / start-up goroutine): `{op}` -> model says `{mo}`")
                else:
                    what = (f"cmd/run.go no longer follows the modelled reload paths: `{op}` -> model says `{mo}` "
                            f"(a path of the worker / run-state handler / retirement functions changed its effects, or a modelled path disappeared)")
                ctx.report(what, {"stream": label, "line": ln, "op": op, "impl": im, "model": mo})
            continue
        # property-level oracle on the implementation's own answers
        seq_start = 0
        reported_stuck = 0
        reported_swallow = 0
        for i, (op, im) in enumerate(zip(lo, li)):
            if op == "reset":
                seq_start = i
            distinct.add(op if not op.startswith(("wake ", "wstart ")) else op.split(" !")[0][:60])
            if op.startswith("swallow ") and " f=busy" not in im and not im.startswith("desync") and reported_swallow < 2:
                reported_swallow += 1
                ctx.report("a reload/suspend signal taken during the hand-off's serve-ready wait was not answered with a busy report "
                           "(progress file unchanged): " + im,
                           {"schedule": lo[seq_start:i + 1], "state_after": im,
                            "replay": "VERIF_SEED=%d ./check C20 %s" % (ctx.seed, ctx.tier)},
                           key="c20-signal-in-ready-wait-not-reported")
            if op == "quiet?" and "stuck=1" in im and reported_stuck < 3:
                reported_stuck += 1
                sched = lo[seq_start:i + 1]
                last = li[i - 1] if i > 0 else ""
                stale = "f=busy" in last and "p=0" in last
                what = ("after this schedule the real reload state is settled but not clean: " + last +
                        (" — the daemon is idle yet the progress file says busy, `dae reload` refuses at its pre-check" if stale else ""))
                ctx.report(what, {"schedule": sched, "final_state": last,
                                  "replay": "VERIF_SEED=%d ./check C20 %s" % (ctx.seed, ctx.tier)},
                           key=KNOWN_STALE_BUSY if stale else None)
        first = {}
        for ln, op, im, mo in mism:
            # one report per sequence
            s = ln
            while s > 1 and lo[s - 1] != "reset":
                s -= 1
            if s in first:
                continue
            first[s] = True
            if len(first) > 5:
                break
            ctx.report(f"real reload state machine differs from the proved model after `{op}`: impl `{im}` model `{mo}`",
                       {"stream": label, "line": ln, "schedule": schedule_upto(lo, ln), "impl": im, "model": mo,
                        "replay": "VERIF_SEED=%d ./check C20 %s" % (ctx.seed, ctx.tier)})
    stats = json.load(open(os.path.join(ctx.out, "c20.stats.json")))
    c = stats["counters"]
    ctx.samples = [l for l in read_lines(os.path.join(ctx.out, "c20.ops"))[:400] if l.startswith(("wstart", "wake"))][:4] + \
        read_lines(os.path.join(ctx.out, "c20paths.ops"))[:3]
    ctx.cov["input_distribution"] = {k: v for k, v in c.items() if not k.startswith(("worker_path:", "handler_path:"))}
    ctx.cov["worker_paths_replayed"] = {k[len("worker_path:"):]: v for k, v in c.items() if k.startswith("worker_path:")}
    ctx.cov["handler_paths_replayed"] = {k[len("handler_path:"):]: v for k, v in c.items() if k.startswith("handler_path:")}
    if not os.environ.get("VERIF_C20_OPS"):
        floors = {"signal_at:queued": 50, "signal_at:handoff": 20, "signal_at:retiring": 15, "signal_at:releasing": 8,
                  "signal_at:worker:startret": 3, "signal_at:worker:notify": 3, "op:swallow": 40, "op:gwrite": 5,
                  "op:mark": 50, "op:spur": 50, "op:cli": 20, "finishsucc_with_worker_busy": 20, "second_request_accepted": 100,
                  "settled_sequences": 400, "ret_op:retire": 400, "ret_op:drain": 300, "ret_op:rwait": 100,
                  "retire_with_successor": 150, "systematic_mfirst_sequences": 50}
        low = {k: (c.get(k, 0), v) for k, v in floors.items() if c.get(k, 0) < v}
        npaths_w = len([k for k in c if k.startswith("worker_path:")])
        npaths_h = len([k for k in c if k.startswith("handler_path:")])
        if npaths_w < c.get("extracted_paths:worker", 0):
            low["worker paths replayed"] = (npaths_w, c.get("extracted_paths:worker", 0))
        if npaths_h < c.get("extracted_paths:handler", 0) - 1:
            low["handler paths replayed"] = (npaths_h, c.get("extracted_paths:handler", 0) - 1)
        ctx.cov["generator_floors"] = {"floors": floors, "below": {k: list(v) for k, v in low.items()}}
        if low and not ctx.violations:
            ctx.say("GENERATOR-BELOW-FLOOR (count, floor):", low)
            say = ctx.say
            ctx.say = lambda *a: None if str(a[0]).startswith("OK ") else say(*a)  # evidence is written, but this run is not OK
            ctx.finish(rule="generator floors not reached", evaluations=n_eval, distinct=len(distinct))
            ctx.say = say
            ctx.say("CHECK-INCOMPLETE property=C20: the generators did not reach their floors")
            return 2
    if c.get("DESYNC"):
        ctx.say("note: %d sequence(s) lost step with the real goroutines (reported as mismatches above)" % c["DESYNC"])
    ctx.assumptions = [
        "schedules: regression schedule of 4876faa + systematic (every worker path x handler choice x injection point x refuser spread) + seeded random",
        "the `dae reload` client is represented by its pre-check (Done/Error) and the real writeReloadSendAndSignal",
    ]
    return ctx.finish(
        rule="one evaluation = one atomic section of the real code run under a forced schedule and compared (all flags, suppression counter, "
             "progress file class, queue/notification occupancy, retirement channel, park position of every goroutine) with the model; "
             "plus one line per extracted control-flow path; distinct_nontrivial = distinct op lines",
        evaluations=n_eval, distinct=len(distinct))
