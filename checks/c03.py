"""C03 — datapath verdicts: direct passes, block drops, proxied flows hand over the route."""
import json, os, re, collections
from verifkit import read_lines, sh, REPO, VERIF, CACHE

REQUIRED = ["DaeVerif.C03.Props." + n for n in (
    # both parsers
    "parse_path_independent", "verdict_parse_path_independent",
    # LAN ingress, one frame
    "lan_new_tcp_connection", "lan_new_tcp_map_full", "lan_new_udp_flow", "lan_dns_datagram",
    "lan_tracked_tcp_follows_cache", "lan_tracked_udp_follows_cache", "lan_untracked_tcp_passes",
    # WAN egress, one frame
    "wan_forwarded_passes", "wan_new_tcp_connection", "wan_new_tcp_map_full", "wan_new_udp_flow", "wan_dns_datagram",
    "wan_tracked_tcp_follows_cache", "wan_tracked_udp_follows_cache", "wan_untracked_tcp_passes",
    "dae_udp_never_captured", "dae_tcp_syn_passes_and_clears",
    # whole runs
    "sticky_decision", "undecided_tcp_flow_passes", "dae_connection_never_recaptured",
    "wan_ingress_syn_marks_reverse_tuple", "wan_originated_tcp_replies_pass",
    "wan_ingress_udp_marks_reverse_tuple", "wan_originated_udp_replies_pass",
    # the rest
    "unparsed_frames_not_routed", "ipv4_noninitial_fragment_passes", "idle_timeouts",
    "conn_state_layout", "handoff_layout", "lookup_key_layout", "retrieve_reads_the_stored_bytes",
    "dae_recognition", "group_health_bit",
    # audit follow-up
    "reverse_syn_restarts_tracking_as_wan_originated", "lan_routing_error_fails_closed",
    "wan_tcp_routing_error_fails_closed", "wan_udp_routing_error_fails_closed",
    "lan_new_tcp_becomes_tracked", "lan_new_udp_becomes_tracked", "wan_new_tcp_becomes_tracked",
    "wan_new_udp_becomes_tracked", "dns_tuples_never_hold_a_decision", "handover_without_redirect_room_drops",
    "handoff_full_behaviour", "janitor_respects_idle_timeouts", "aggressive_janitor_halves_timeouts",
    "sticky_decision_janitor",
    # phase 2: the consumers of the hand-over (dae0peer / dae0 programs, the relay's record lookup), the observing hooks
    "dae0peer_accepts_exactly_the_handed_over_frames", "dae0peer_assigns_listener_of_protocol_and_family",
    "dae_reply_returns_where_the_flow_came_from", "dae0_ingress_parse_path_independent", "reverse_hooks_only_observe",
    "udp_relay_record_is_at_most_cache_ttl_old", "tcp_relay_record_is_the_kernel_record",
    "lan_new_tcp_connection_reaches_relay_with_its_decision",
    "noninitial_fragments_pass_on_every_hook", "truncated_frames", "janitor_pressure_mode",
    # phase 3
    "endpoint_teardown_ends_tracking", "port53_udp_is_not_marked_wan_originated", "wan_opened_udp53_service_reply_is_routed",
    "dns_relay_record_is_the_kernel_record",
    # composition with C02 (route() over the installed bytes) and C01 (first matching rule): Compose.lean
    "lan_new_tcp_connection_follows_userspace", "lan_new_tcp_connection_follows_first_match",
    "lan_new_udp_flow_follows_first_match",
    "wan_new_tcp_connection_follows_userspace", "wan_new_tcp_connection_follows_first_match",
    "wan_new_udp_flow_follows_first_match",
    "sticky_decision_installed_programs", "first_match_decision_is_sticky", "first_match_decision_is_sticky_lan_udp",
    "first_match_decision_is_sticky_wan_tcp", "first_match_decision_is_sticky_wan_udp",
    # phase 4: who owns a socket (cgroup programs), PARAM, janitor rounds interleaved with traffic, reload retirement,
    # lookup faults, the LAN-egress side of WAN-opened UDP flows
    "process_name_is_basename_of_command", "cgroup_hook_registers_the_process", "cgroup_hook_keeps_first_owner",
    "cgroup_hook_failure_still_records_pid", "sock_release_forgets_the_socket", "tc_hooks_never_change_socket_ownership",
    "registered_dae_socket_is_always_recognised", "registered_foreign_socket_is_never_recognised",
    "record_names_the_process_that_owns_the_socket", "param_layout",
    "janitor_walk_collects_expired_or_retired_entries", "janitor_delete_phase_is_by_key",
    "janitor_round_without_traffic_is_atomic", "tracked_flow_survives_interleaved_janitor",
    "reload_retirement_spares_flows_active_since_the_horizon", "reload_retirement_removes_what_was_idle_before_the_horizon",
    "janitor_spares_handoff_published_after_its_clock_sample", "forgotten_socket_is_recognised_by_mark_only",
    "retrieve_without_fault", "lookup_fault_never_yields_a_wrong_record", "consumers_fail_closed_on_lookup_error",
    "observing_hooks_mark_reverse_udp_tuple", "wan_opened_udp_service_replies_pass",
)]

GO_ANSWERED = ("connkey", "hoexp", "press", "origdst")


def streams_for(ctx):
    return ["c03f", "c03p", "c03a", "c03b", "c03c0", "c03c1", "c03c2", "c03c3"]


def bpf2go_padding(ctx, fake):
    """The synthetic bpf2go file is derived from bpf_stub.go, whose struct types lack the trailing padding the real bpf2go
    output has; cilium/ebpf refuses to unmarshal map values into such types ("doesn't consume all data").  Add what bpf2go
    emits: explicit trailing padding, and the nested `struct routing_result` of the hand-off entry as an inline struct with its
    own padding.  Field offsets are untouched (and compared with the C layout by `const` ops on every run)."""
    if not fake:
        return fake
    (dst, src), = fake.items()
    txt = open(src).read()

    def patch(name, fn):
        nonlocal txt
        m = re.search(r"type %s struct \{.*?\n\}\n" % name, txt, re.S)
        if not m:
            ctx.say(f"TRANSLATOR-FAILED bpf2go padding: type {name} not found")
            return False
        txt = txt[:m.start()] + fn(m.group(0)) + txt[m.end():]
        return True
    ok = patch("bpfConnState", lambda b: b[:-2] + "\t_ [4]byte\n}\n")
    inline = ("Result struct {\n\t\t_ structs.HostLayout\n\t\tMark uint32\n\t\tMust uint8\n\t\tMac [6]uint8\n\t\tOutbound uint8\n"
              "\t\tPname [16]uint8\n\t\tPid uint32\n\t\tDscp uint8\n\t\t_ [3]byte\n\t}\n")
    ok = ok and patch("bpfRoutingHandoffEntry",
                      lambda b: re.sub(r"Result\s+bpfRoutingResult\n", lambda _: inline, b)[:-2] + "\t_ [4]byte\n}\n")
    # struct pid_pname (8 + 4 + 16, padded to 32) and struct redirect_entry (hole before last_seen_ns): the values the
    # cookie_pid / redirect_track janitors read with BatchLookup
    ok = ok and patch("bpfPidPname", lambda b: b[:-2] + "\t_ [4]byte\n}\n")
    ok = ok and patch("bpfRedirectEntry", lambda b: re.sub(r"(\tLastSeenNs\s+uint64\n)", lambda m: "\t_ [4]byte\n" + m.group(1), b, count=1))
    if not ok:
        return None
    outp = os.path.join(ctx.out, "bpf_fake_c03_padded.go")
    open(outp, "w").write(txt)
    return {dst: outp}


def _block(lines, start):
    """[start, end) of the gofmt'd brace block opened on lines[start] (ends with '{'): up to the line that closes it at the
    same indentation"""
    ind = len(lines[start]) - len(lines[start].lstrip("\t"))
    for j in range(start + 1, len(lines)):
        l = lines[j]
        if l.strip() and len(l) - len(l.lstrip("\t")) == ind and l.lstrip("\t").startswith("}") and not l.rstrip().endswith("{"):
            return start, j + 1
    raise ValueError("unterminated block at line %d" % (start + 1))


def _dedent(ls, n):
    return [l[n:] if l.startswith("\t" * n) else l.lstrip("\t") for l in ls]


def consumer_glue(ctx):
    """The userspace CONSUMERS of the hand-over record, regenerated from /repo's current source as callable functions of
    package control (the statements are copied verbatim; only the surrounding closure is new):
      * verifC03TcpRecord  = the head of ControlPlane.handleConn (tcp.go): address convergence, the retried
        RetrieveRoutingResult and the ErrKeyNotExist fallback, up to the point where `routingResult` is final;
      * verifC03UdpRecord  = from the UDP ingress task of control_plane.go: flow classification, the per-endpoint routing
        cache probe, RetrieveRoutingResult with its error switch, [handlePkt is replaced by recording the record it would
        receive], the cache update.
    Returns an overlay dict or None (TRANSLATOR-FAILED)."""
    try:
        tcp = open(os.path.join(REPO, "control", "tcp.go")).read().split("\n")
        i = next(k for k, l in enumerate(tcp) if l.startswith("func (c *ControlPlane) handleConn("))
        sig = tcp[i]
        if "(ctx context.Context, lConn net.Conn) (err error)" not in sig:
            raise ValueError("handleConn signature changed: " + sig)
        a = next(k for k in range(i, i + 40) if tcp[k].startswith("\tsrc := "))
        b = next(k for k in range(a, a + 40) if tcp[k].startswith("\tif err != nil {"))
        _, e = _block(tcp, b)
        tcp_body = tcp[a:e]
        if not any("RetrieveRoutingResult(" in l for l in tcp_body):
            raise ValueError("handleConn head no longer calls RetrieveRoutingResult")

        cp = open(os.path.join(REPO, "control", "control_plane.go")).read().split("\n")
        t = next(k for k, l in enumerate(cp) if l.strip() == "var freshRoutingResult *bpfRoutingResult")
        # prefix: convergeSrc / flowDecision, the statements before `task := func() {`
        tk = next(k for k in range(t, t - 40, -1) if cp[k].strip() == "task := func() {")
        cs = next(k for k in range(tk, tk - 40, -1) if cp[k].strip().startswith("convergeSrc := "))
        ind0 = len(cp[cs]) - len(cp[cs].lstrip("\t"))
        prefix = [l for l in _dedent(cp[cs:tk], ind0) if not l.strip().startswith("//")]
        A = next(k for k in range(t, len(cp)) if cp[k].strip() == "if !c.udpRouteScopeSensitive {")
        ind = len(cp[A]) - len(cp[A].lstrip("\t"))
        _, Ae = _block(cp, A)
        B = next(k for k in range(Ae, Ae + 5) if cp[k].strip() == "if routingResult == nil {")
        _, Be = _block(cp, B)
        H = next(k for k in range(Be, Be + 6) if "c.handlePkt(" in cp[k] and "routingResult" in cp[k])
        _, He = _block(cp, H)
        C = next(k for k in range(He, He + 6) if cp[k].strip() == "if !c.udpRouteScopeSensitive && freshRoutingResult != nil {")
        _, Ce = _block(cp, C)
        between = [l for l in cp[Ae:B] + cp[Be:H] + cp[He:C] if l.strip() and not l.strip().startswith("//")]
        if between:
            raise ValueError("unexpected statements between the extracted UDP blocks: %r" % between[:3])
        handle_args = re.search(r"c\.handlePkt\(([^)]*)\)", cp[H]).group(1)
        if [x.strip() for x in handle_args.split(",")][2:5] != ["convergeSrc", "realDst", "routingResult"]:
            raise ValueError("handlePkt call changed: " + cp[H].strip())
        blkA, blkB, blkC = (_dedent(cp[x:y], ind - 2) for x, y in ((A, Ae), (B, Be), (C, Ce)))
        # DNS ingress fast path (port 53): the record the DNS controller receives
        D = next(k for k in range(t, A) if cp[k].strip() == "dnsRoutingResult := &bpfRoutingResult{")
        _, De = _block(cp, D)
        D2 = next(k for k in range(De, De + 3) if cp[k].strip().startswith("if rr, retrieveErr := c.core.RetrieveRoutingResult("))
        # if / else-if chain: up to the closing brace at the same indentation that is not followed by `else`
        indD = len(cp[D2]) - len(cp[D2].lstrip("\t"))
        D2e = next(k for k in range(D2 + 1, D2 + 40) if cp[k].startswith("\t" * indD + "}") and cp[k].strip() == "}") + 1
        blkD = _dedent(cp[D:De] + cp[D2:D2e], indD - 1)
    except (StopIteration, ValueError, AttributeError, OSError) as ex:
        ctx.say(f"TRANSLATOR-FAILED consumer glue (handleConn head / UDP ingress task not extractable): {ex!r}")
        return None
    out = ["// Code generated by checks/c03.py from control/tcp.go and control/control_plane.go. DO NOT EDIT.", "",
           "package control", "", "import (", '\t"context"', '\tstderrors "errors"', '\t"fmt"', '\t"net"', '\t"net/netip"', "",
           '\t"github.com/cilium/ebpf"', '\t"github.com/daeuniverse/dae/common"', '\t"github.com/daeuniverse/dae/common/consts"',
           '\t"github.com/sirupsen/logrus"', '\t"golang.org/x/sys/unix"', ")", "",
           "var _ = fmt.Sprint", "var _ = stderrors.Is", "var _ = ebpf.ErrKeyNotExist", "var _ = common.ConvergeAddrPort",
           "var _ = consts.IPPROTO_TCP", "var _ = logrus.DebugLevel", "var _ = unix.IPPROTO_UDP", "var _ net.Conn", "",
           "// head of handleConn: which record the TCP relay works with",
           "func (c *ControlPlane) verifC03TcpRecord(ctx context.Context, lConn net.Conn) (out *bpfRoutingResult, outErr error) {",
           "\toutErr = func() (err error) {"]
    out += ["\t" + l for l in tcp_body]
    out += ["\t\tout = routingResult", "\t\treturn nil", "\t}()", "\treturn", "}", "",
            "// UDP ingress task: which record handlePkt receives (nil, false: the datagram is dropped before handlePkt)",
            "func (c *ControlPlane) verifC03UdpRecord(src, realDst netip.AddrPort, pktBuf []byte) (used *bpfRoutingResult, fresh bool, delivered bool) {"]
    out += ["\t" + l for l in prefix]
    out += ["\tfunc() {", "\t\tvar routingResult *bpfRoutingResult", "\t\tvar freshRoutingResult *bpfRoutingResult"]
    out += blkA + blkB
    out += ["\t\tused, fresh, delivered = routingResult, freshRoutingResult != nil, true"]
    out += blkC
    out += ["\t}()", "\treturn", "}", "",
            "// DNS ingress fast path (datagrams to port 53 with a DNS payload): the record handed to the DNS controller",
            "func (c *ControlPlane) verifC03DnsRecord(src, realDst netip.AddrPort) *bpfRoutingResult {",
            "\tconvergeSrc := common.ConvergeAddrPort(src)"]
    out += blkD
    out += ["\treturn dnsRoutingResult", "}", ""]
    outp = os.path.join(ctx.out, "c03_consumer_glue.go")
    open(outp, "w").write("\n".join(out))
    rc, o, _ = sh(["gofmt", "-l", outp], timeout=60)
    ctx.log.write(f"consumer glue: tcp.go:{a+1}-{e}, control_plane.go:{cs+1}-{tk}, {D+1}-{D2e} (DNS), {A+1}-{Ae}, {B+1}-{Be}, {C+1}-{Ce} -> {outp}\n")
    return {os.path.join(REPO, "control", "zz_verif_c03_consumer_glue.go"): outp}


def param_literal(ctx):
    """The value fullLoadBpfObjects stores into the ELF variable PARAM, regenerated from /repo's current bpf_utils.go as
    verifC03ParamImage (translators/c03param, go/ast: the struct literal is copied verbatim).  None = TRANSLATOR-FAILED."""
    from verifkit import go_env
    outp = os.path.join(ctx.out, "c03_param_literal.go")
    if os.path.exists(outp):
        os.unlink(outp)
    rc, out, dt = sh(["go", "run", "main.go", os.path.join(REPO, "control"), outp],
                     cwd=os.path.join(VERIF, "translators", "c03param"), env=go_env(), timeout=600)
    ctx.log.write(f"$ c03param [{dt:.1f}s rc={rc}] {out}\n")
    if rc != 0 or not os.path.exists(outp):
        ctx.say("TRANSLATOR-FAILED c03param (the PARAM literal of fullLoadBpfObjects is not extractable):", out[-1500:])
        return None
    return {os.path.join(REPO, "control", "zz_verif_c03_param.go"): outp}


DIAG = re.compile(r" (ck=\[[^\]]*\]|ev=\[[^\]]*\]|ovf=\S+)")


def strip_diagnostics(line):
    return DIAG.sub("", line) if line.startswith("v=") else line


def diag_only(line):
    return " ".join(DIAG.findall(line))


def jan_field(line, name):
    m = re.search(r"(?:^| )%s=\[([^\]]*)\]" % name, line)
    return [k for k in m.group(1).split(";") if k] if m else []


JAN_FIELDS = {"jan": ("del", "hdel"), "jdel": ("del", "hdel"), "jan4": ("del", "hdel", "rdel", "cdel")}


def jan_canon(line, unc, names=("del", "hdel")):
    return " ".join("%s=[%s]" % (n, ";".join(k for k in jan_field(line, n) if k not in unc)) for n in names)


def scenario_replay(ops, lineno, limit=400):
    """the ops of the scenario containing line `lineno` (1-based), from its `note scen`/`note witness`
    marker (plus the stream's caps line) up to and including the failing op"""
    i = lineno - 1
    start = i
    while start > 0 and not ops[start].startswith("note "):
        start -= 1
    seq = [ops[0]] if ops and ops[0].startswith("caps") and start > 0 else []
    seq += ops[start:i + 1]
    if len(seq) > limit:
        seq = seq[:3] + ["# ... %d ops elided ..." % (len(seq) - limit)] + seq[-(limit - 3):]
    return [s[:6000] for s in seq]


def fields(line):
    return dict(kv.split("=", 1) for kv in line.split(" ") if "=" in kv)


def run(ctx):
    ctx.trusted += [
        "BPF helper and map semantics as implemented by harness/c/bpf_shim.c (hash/array maps, BPF_ANY, -E2BIG when full) and "
        "harness/c/c03_driver.c (bpf_skb_load_bytes fails iff offset+len > skb->len; bpf_skb_pull_data and the socket "
        "cookie are oracles given per frame; bpf_sk_lookup_{tcp,udp} search a one-entry socket table by protocol, the tuple BYTES the "
        "program built, netns and flags — so the lookup arguments are compared, the kernel's socket hash is not; bpf_redirect* recorded): "
        "the kernel's real sk_lookup, redirect_peer, verifier, per-CPU "
        "scratch races and map behaviour under concurrency are not modelled",
        "route() is a parameter `rt` of the per-frame/run theorems; Compose.lean instantiates it with rtOf = C02's routeK on the installed "
        "routing_map / domain_routing_map byte images — the same definition c03drv executes, so this tie compares the real route() (called "
        "from the real TC entry points) with the composed model directly; the userspace-matcher and first-match sides of the composition "
        "(C02.Props.routeK_eq_userspace, kernel_eq_first_match_spec, C01.Props.match_is_first_match, imported and proved in the same lake "
        "build) are tied to the Go code by C02's and C01's own checks, and H2 (installed domain bitmap = MatchDomainBitmap) by C10/C11",
        "the control plane's consumers of the record run from a verbatim copy of their statements (head of handleConn in tcp.go; cache "
        "probe / RetrieveRoutingResult / error switch / cache update of the UDP ingress task in control_plane.go) "
        "and the record lookup of the DNS ingress fast path, regenerated from /repo "
        "on every run by consumer_glue (checks/c03.py): the surrounding code (ChooseNatTimeout / DNS controller, handleTCPDnsFastPath, "
        "handlePkt, goroutine dispatch) is not executed; time.Now/Since/timers are virtual (testing/synctest), CLOCK_MONOTONIC is real",
        "endpoint teardown is executed as UdpEndpoint.TrackUdpConnStateTuplePair + Close on a fresh endpoint owned by the test's "
        "controlPlaneCore (last owner); the pool janitor / NAT timeouts that decide WHEN an endpoint is closed are not executed",
        "bpf(2) map creation is required (real kernel hash maps for the second pass); without it the check exits 2, never OK",
        "bpf_sk_assign / bpf_skb_change_type are recorded by the native driver (return values ignored by the programs), listen_socket_map "
        "is a 3-slot table: the kernel's socket assignment and policy routing behind dae0peer are not modelled",
        "shim headers harness/c/headers (UAPI struct layouts, little-endian host = bpfel target)",
        "translators/fakebpf (synthetic bpf2go declarations so that the production bpf_utils.go compiles)",
        "bpf(2) map create/update/lookup of the sandbox kernel (only used to let the REAL RetrieveRoutingResult read the bytes the TC programs wrote)",
    ]
    pending = []  # (priority, what, replay, key): property-level findings on the real code first, model diffs after

    seen_kinds = {}

    def queue(prio, what, replay, key=None):
        kind = what.split("(")[0].split(" at ")[0][:60]
        seen_kinds[kind] = seen_kinds.get(kind, 0) + 1
        if seen_kinds[kind] <= 4:  # a handful of replays per kind of disagreement is enough
            pending.append((prio, len(pending), what, replay, key))

    ctx.prove(["DaeVerif.C03.Props", "DaeVerif.C03.Compose", "DaeVerif.C03.Consumer", "DaeVerif.C03.Dae0Props", "DaeVerif.C03.EdgeProps", "DaeVerif.C03.Pressure", "DaeVerif.C03.Teardown", "DaeVerif.C03.CgroupProps", "DaeVerif.C03.Janitor2Props", "DaeVerif.C03.ParamProps", "DaeVerif.C03.Fault", "DaeVerif.C03.MoreProps"], ["DaeVerif.C03.Props"], ["DaeVerif/C03/*.lean"], extra_targets=["c03drv"])
    ctx.required_theorems(REQUIRED)

    # ---- native build of /repo's CURRENT tproxy.c (unmodified; #included by the driver)
    cdir = os.path.join(VERIF, "harness", "c")
    cdrv = os.path.join(ctx.bindir, "c03_tc_native")
    os.makedirs(os.path.dirname(cdrv), exist_ok=True)
    if os.path.exists(cdrv):
        os.unlink(cdrv)
    cmd = ["clang", "-O1", "-g", "-fsanitize=address,undefined", "-fno-sanitize-recover=undefined", "-Wno-unused-function",
           "-I" + cdir, "-I" + os.path.join(REPO, "control", "kern"),
           os.path.join(cdir, "c03_driver.c"), os.path.join(cdir, "bpf_shim.c"), "-o", cdrv]
    rc, out, dt = sh(cmd, timeout=900)
    ctx.log.write(f"$ {' '.join(cmd)} [{dt:.1f}s rc={rc}]\n{out}\n")
    if rc != 0 or not os.path.exists(cdrv):
        ctx.say("HARNESS-BUILD-FAILED native tproxy.c:\n" + out[-3000:])
        return 2

    fake = bpf2go_padding(ctx, ctx.fake_bpf_overlay())
    glue = consumer_glue(ctx)
    pgen = param_literal(ctx)
    if fake and glue and pgen:
        fake = dict(fake, **glue)
        fake.update(pgen)
    binp = fake and glue and pgen and ctx.go_test_build("control", ["control/c03_test.go"], "c03", tags="", extra_overlay=fake)
    if not binp:
        return 2
    rc, out = ctx.run_harness(binp, "TestVerifC03Gen")
    names = streams_for(ctx)
    if rc != 0 or not all(os.path.exists(os.path.join(ctx.out, n + ".ops")) for n in names):
        ctx.say("HARNESS-FAILED", out[-3000:])
        return 2
    replay_cmd = "VERIF_SEED=%d ./check C03 %s" % (ctx.seed, ctx.tier)

    # ---- the real TC programs on every stream
    env = dict(os.environ, ASAN_OPTIONS="detect_leaks=0:abort_on_error=0", UBSAN_OPTIONS="print_stacktrace=1:halt_on_error=1")
    ok_streams = []
    for n in names:
        ops_p, c_p = os.path.join(ctx.out, n + ".ops"), os.path.join(ctx.out, n + ".c")
        rc, out, dt = sh(f"{cdrv} < {ops_p} > {c_p}", timeout=3000, env=env)
        ctx.log.write(f"$ c03 native driver on {n} [{dt:.1f}s rc={rc}] {out[-3000:]}\n")
        ops, cl = read_lines(ops_p), read_lines(c_p) if os.path.exists(c_p) else []
        if "bpf_shim:" in out and "unregistered map" in out:
            # a hook uses a BPF map the strict shim was not told about: a harness limitation, not a property violation
            try:
                defined = set(re.findall(r"\}\s*(\w+)\s+SEC\(\"\.maps\"\)", open(os.path.join(REPO, "control", "kern", "tproxy.c")).read()))
                drv = open(os.path.join(cdir, "c03_driver.c")).read()
                known_maps = set(re.findall(r"SHIM_REG_\w+\((\w+)\)", drv)) | set(re.findall(r"shim_map_register\(&(\w+)", drv))
                cand = ", ".join(sorted(defined - known_maps))
            except OSError:
                cand = "?"
            ctx.say(f"HARNESS-FAILED the TC programs touch a BPF map the native driver does not register (stream {n}): "
                    f"{([l for l in out.splitlines() if 'bpf_shim:' in l] or ['?'])[-1].strip()[:200]}; maps defined in tproxy.c that harness/c/c03_driver.c does not know: {cand}")
            return 2
        if rc == 4 and cl and cl[-1] == "map-type-changed":
            ctx.say("HARNESS-FAILED conn_state_map / routing_handoff_map / redirect_track is no longer BPF_MAP_TYPE_HASH: the native "
                    "driver's map emulation (insert-unless-full) does not describe the new type; harness/c/c03_driver.c must be adapted")
            return 2
        if rc != 0 or len(cl) != len(ops):
            bad = len(cl) + 1
            queue(1, f"native TC driver failed on stream {n} (rc={rc}, {len(cl)}/{len(ops)} answers): sanitizer report or crash inside tproxy.c: {out[-1200:]}",
                       {"stream": n, "rc": rc, "output": out[-3000:], "ops": scenario_replay(ops, min(bad, len(ops))), "replay": replay_cmd})
            continue
        ok_streams.append(n)

    # ---- second Go pass: the real RetrieveRoutingResult on the dumped bytes
    rc, out = ctx.run_harness(binp, "TestVerifC03Retr", env_extra={"VERIF_C03_STREAMS": ",".join(ok_streams)})
    if rc != 0:
        ctx.say("HARNESS-FAILED (retrieve pass)", out[-3000:])
        return 2
    try:
        if json.load(open(os.path.join(ctx.out, "c03retr.stats.json")))["counters"].get("retr.mode.fallback"):
            ctx.say("HARNESS-FAILED bpf(2) map creation is not permitted here: the second pass (real RetrieveRoutingResult, janitors, "
                    "endpoint teardown and the relay's record lookup on the bytes the TC programs stored) needs real kernel hash maps "
                    "(CAP_BPF / unprivileged_bpf_disabled=0); without them this check cannot say OK")
            return 2
    except (OSError, ValueError, KeyError):
        pass

    n_frames = n_parse = n_retr = n_retr_skipped = n_const = n_twin_frames = n_diag_diffs = n_jan = n_jan_deleted = 0
    n_param = 0
    n_rel = n_rel_deleted = n_use = n_use_skipped = n_use_cached = n_peer = n_peer_ok = n_d0 = n_d0_redirect = 0
    distinct = set()
    verdicts = collections.Counter()
    branch = collections.Counter()
    for n in ok_streams:
        ops_p = os.path.join(ctx.out, n + ".ops")
        ops = read_lines(ops_p)
        go = read_lines(os.path.join(ctx.out, n + ".impl"))
        cl = read_lines(os.path.join(ctx.out, n + ".c"))
        rt = read_lines(os.path.join(ctx.out, n + ".retr"))
        model_p, merged_p = os.path.join(ctx.out, n + ".model"), os.path.join(ctx.out, n + ".merged")
        if not ctx.driver("c03drv", ops_p, model_p):
            ctx.proof_failures.append("model driver c03drv failed to run on " + n)
            continue
        model = read_lines(model_p)
        if not (len(go) == len(cl) == len(rt) == len(ops) == len(model)):
            queue(2, f"stream {n}: answer streams have different lengths ops={len(ops)} go={len(go)} c={len(cl)} retr={len(rt)} model={len(model)}",
                       {"stream": n})
            continue
        merged = []
        skip = set()
        use_desync = False
        for i, op in enumerate(ops):
            kind = op.split(" ", 1)[0]
            if kind == "reset":
                use_desync = False
            if kind == "use":
                # the consumers' answer (regenerated handleConn head / UDP ingress task on the stored bytes).  A lookup whose
                # outcome the host's scheduling decided (hand-off age at the 10 s boundary) may have filled the routing
                # cache differently from the model: the rest of that scenario's `use` ops is not compared
                merged.append(rt[i])
                if rt[i] == "use=skip-boundary":
                    use_desync = True
                if use_desync or rt[i] == "use=unavailable":
                    skip.add(i)
                    n_use_skipped += 1
                else:
                    n_use += 1
                    if " fresh=0 " in rt[i] and not rt[i].startswith("use=253:"):
                        n_use_cached += 1
                continue
            if kind == "rel":
                merged.append(rt[i])
                if rt[i] == "rel=unavailable":
                    skip.add(i)
                else:
                    n_rel += 1
                    n_rel_deleted += rt[i].count(";") + (1 if rt[i] != "rel=[]" else 0)
                continue
            if kind in GO_ANSWERED:
                merged.append(go[i])
            elif kind == "const":
                merged.append(f"{go[i]}|{cl[i]}")
                skip.add(i)
            elif kind == "paramimg":
                # what the control plane meant (Go) | what the programs read (C); the model decodes the same image
                merged.append(f"{go[i]}|{cl[i]}")
                model[i] = f"{model[i]}|{model[i]}"
                n_param += 1
            elif kind in JAN_FIELDS:
                # keys the real janitors deleted vs the model's; keys whose age is within the host's scheduling noise
                # of a timeout (`unc`) are left out on both sides
                if not rt[i].startswith("del="):
                    merged.append(rt[i])
                    skip.add(i)
                else:
                    unc = set(jan_field(rt[i], "unc"))
                    merged.append(jan_canon(rt[i], unc, JAN_FIELDS[kind]))
                    model[i] = jan_canon(model[i], unc, JAN_FIELDS[kind])
                    if kind == "jan":
                        n_jan += 1
                        n_jan_deleted += len(jan_field(rt[i], "del")) + len(jan_field(rt[i], "hdel"))
                    else:
                        branch[kind + ".rounds"] += 1
                        for f in JAN_FIELDS[kind]:
                            branch[kind + ".deleted." + f] += len(jan_field(rt[i], f))
            elif kind == "jsnap":
                merged.append(rt[i])
            elif kind == "retr":
                merged.append(rt[i])
                if rt[i] == "rr=skip-boundary":
                    skip.add(i)
                    n_retr_skipped += 1
            else:
                merged.append(cl[i])
        # lines that are not compared (constants: three-way below; lookups decided by host scheduling) are blanked
        # in BOTH files; diagnostics the property does not speak about (cookie last-seen refresh, ring-buffer
        # events, overflow counters) are cut out of the compared text and diffed separately as NOTEs
        merged_cmp = ["skipped" if i in skip else m for i, m in enumerate(merged)]
        model_cmp = ["skipped" if i in skip else m for i, m in enumerate(model)]
        open(merged_p, "w").write("\n".join(merged_cmp) + "\n")
        model_cmp_p = os.path.join(ctx.out, n + ".model_cmp")
        open(model_cmp_p, "w").write("\n".join(model_cmp) + "\n")
        mism = ctx.diff_streams(ops_p, merged_p, model_cmp_p, n, canon=strip_diagnostics)
        for i, (a, b) in enumerate(zip(merged_cmp, model_cmp)):
            if a != b and strip_diagnostics(a) == strip_diagnostics(b):
                n_diag_diffs += 1
                if n_diag_diffs <= 3:
                    ctx.say(f"NOTE property=C03 diagnostics outside the property differ at {n}:{i+1} (cookie last-seen / events / "
                            f"overflow counters): impl `{diag_only(a)}` model `{diag_only(b)}`")
        for ln, op, im, mo in mism[:6]:
            kind = op.split(" ", 1)[0]
            what = {"frame": "TC program result (verdict / skb / touched map bytes) differs from the proved model",
                    "parse": "parse_transport_fast / parse_transport_slow result differs from the proved model",
                    "retr": "RetrieveRoutingResult (real Go code on the bytes the kernel program wrote) differs from the model's retrieve",
                    "dump": "map contents differ from the model",
                    "connkey": "outboundConnectivityMapKey differs from the slot wan_outbound_is_alive reads in the model",
                    "jan": "the userspace janitors (real cleanupConnStateMapBeforeLocked / cleanupRoutingHandoffMapBeforeLocked on the stored bytes) delete other entries than the model's janitor",
                    "jan4": "the four userspace janitors / the reload-retirement pass (real cleanupConnStateMap, cleanupRoutingHandoffMap, cleanupRedirectTrackMap, cleanupCookiePidMap or RunReloadRetirementCleanup on the stored bytes) delete other entries than the model's round",
                    "jdel": "a janitor round whose BatchLookup walk and deletes are separated by traffic (real cleanupConnStateMapBeforeLocked / cleanupRoutingHandoffMapBeforeLocked; the map changes between the two phases) deletes other entries than the model's snapshot-then-delete",
                    "paramimg": "PARAM as the control plane's struct literal serialises it (fullLoadBpfObjects, regenerated) is not what the programs read from struct dae_param / not what the control plane meant (control_plane_pid must be the pid of the loading process)",
                    "cg": "cgroup program (tproxy_wan_cg_sock_create / connect / sendmsg / sock_release: who owns the socket cookie) differs from the proved model",
                    "use": "the record the control plane works with (head of handleConn / UDP ingress task with its per-endpoint routing cache, regenerated from source, on the bytes the kernel program stored) differs from the model's consumer",
                    "peer": "tproxy_dae0peer_ingress (the consumer of cb[] on dae's veth peer) differs from the proved model",
                    "d0": "tproxy_dae0_ingress (the consumer of redirect_track: replies of dae to a captured client) differs from the proved model",
                    "rel": "endpoint teardown (real UdpEndpoint.TrackUdpConnStateTuplePair + Close -> ReleaseUdpConnStateTuples on the stored bytes) deletes other conn_state entries than the model's release",
                    "press": "updateConnStateJanitorPressure (when the conn-state janitor halves its timeouts) differs from the model",
                    "origdst": "RetrieveOriginalDest (the original destination = second half of the record's lookup key, read from the datagram's control messages) differs from the model",
                    "hoexp": "routingHandoffExpired differs from the model"}.get(kind, "implementation differs from the proved model")
            queue(2, f"{what} at {n}:{ln}: impl `{im[:300]}` model `{mo[:300]}`",
                       {"stream": n, "line": ln, "op": op[:6000], "impl": im[:6000], "model": mo[:6000],
                        "ops": scenario_replay(ops, ln) if ln > 0 else [], "replay": replay_cmd})
        for i, mo in enumerate(model):
            if mo == "bad-op":
                queue(2, "model driver: bad op (harness-model protocol bug)", {"stream": n, "line": i + 1, "op": ops[i][:2000]})
                break

        # ---- constants three-way (Go | C | Lean)
        for i, op in enumerate(ops):
            if not op.startswith("const "):
                continue
            n_const += 1
            vals = [v[1:] for v in (go[i], cl[i], model[i]) if v[1:] not in ("-", "?")]
            if len(set(vals)) != 1 or len(vals) < 2:
                queue(1, f"constant/layout {op[6:]} disagrees: go={go[i][1:]} c={cl[i][1:]} model={model[i][1:]}",
                           {"const": op[6:], "go": go[i][1:], "c": cl[i][1:], "model": model[i][1:]})

        # ---- property-level oracles on the implementation alone
        # (1) both parsers: whenever the fast parser does not give up it answers what the slow parser answers,
        #     and parse_transport answers what the slow parser answers
        for i, op in enumerate(ops):
            kind = op.split(" ", 1)[0]
            if kind == "parse":
                n_parse += 1
                distinct.add(op)
                f = fields(cl[i])
                if "f" in f and "s" in f and "t" in f:
                    if (f["f"] != "-1" and f["f"] != f["s"]) or f["t"] != f["s"]:
                        queue(1, f"the two header parsers disagree on the same frame ({n}:{i+1}): fast `{f['f']}` slow `{f['s']}` parse_transport `{f['t']}`",
                                   {"stream": n, "line": i + 1, "op": op, "impl": cl[i], "replay": replay_cmd})
                    branch["parse.fast=" + f["f"].split(":")[0]] += 1
                    branch["parse.slow=" + f["s"].split(":")[0]] += 1
            elif kind == "frame":
                n_frames += 1
                distinct.add(op)
                f = fields(cl[i])
                hook = op.split(" ")[1]
                verdicts[f"{hook}:v={f.get('v')}"] += 1
                if f.get("conn", "[]") != "[]":
                    branch["frame.conn-touched"] += 1
                if f.get("ho", "[]") != "[]":
                    branch["frame.handoff-written"] += 1
                if f.get("ev", "[]") != "[]":
                    branch["frame.event"] += 1
                if f.get("pkt") != "=":
                    branch["frame.rewritten"] += 1
                if "SOCKET-REF-LEAK" in cl[i]:
                    queue(1, f"socket reference not released ({n}:{i+1}): {cl[i][:200]}", {"stream": n, "line": i + 1, "op": op})
            elif kind == "peer":
                n_peer += 1
                n_peer_ok += cl[i].startswith("v=0 ")
                distinct.add(op + "|" + cl[i])
            elif kind == "d0":
                n_d0 += 1
                n_d0_redirect += cl[i].startswith("v=7 ")
                distinct.add(op)
            elif kind == "retr":
                n_retr += 1
                branch["retr." + ("found" if rt[i].startswith("rr=") and rt[i][3].isdigit() else rt[i][3:15])] += 1
        # (2) twin scenarios: same frames, different parse paths => identical answers of the real program
        blocks = {}
        cur = None
        for i, op in enumerate(ops):
            if op.startswith("note scen "):
                _, _, sid, tag = op.split(" ")[:4]
                cur = (sid, tag)
                blocks[cur] = []
            elif cur is not None and op.split(" ", 1)[0] in ("frame", "retr", "dump", "jan", "peer", "d0", "rel"):
                blocks[cur].append(i)
        for (sid, tag), idxs in blocks.items():
            if tag != "A" or (sid, "B") not in blocks:
                continue
            other = blocks[(sid, "B")]
            if len(other) != len(idxs):
                queue(2, f"twin scenario {sid} of {n}: different op counts (generator bug)", {"stream": n, "scenario": sid})
                continue
            for ia, ib in zip(idxs, other):
                a, b = merged[ia], merged[ib]
                if ops[ia].startswith("frame"):
                    n_twin_frames += 1
                if "rr=skip-boundary" in (a, b):
                    continue
                if strip_diagnostics(a) != strip_diagnostics(b):
                    queue(1, f"verdict depends on the header-parsing path ({n} scenario {sid}): fully linear skb `{a[:200]}` vs `{b[:200]}` for op `{ops[ib][:120]}`",
                               {"stream": n, "scenario": sid, "op_linear": ops[ia][:4000], "op_other": ops[ib][:4000], "impl_linear": a[:4000],
                                "impl_other": b[:4000], "ops": scenario_replay(ops, ib + 1), "replay": replay_cmd})
                    break

    # ---- witnesses (stream c03f): the property's expectations stated directly on the real program's answers
    if "c03f" in ok_streams:
        ops = read_lines(os.path.join(ctx.out, "c03f.ops"))
        cl = read_lines(os.path.join(ctx.out, "c03f.c"))
        cur, per = None, collections.defaultdict(list)
        for i, op in enumerate(ops):
            if op.startswith("note witness "):
                cur = op.split(" ")[2]
            elif cur and op.split(" ", 1)[0] in ("frame", "parse"):
                per[cur].append((op, cl[i]))
        wit = {}

        def v(line):
            return fields(line).get("v")
        w = per.get("udp-wan-direct-sticky", [])
        if len(w) == 2:
            wit["udp-wan-direct-sticky"] = [v(w[0][1]), v(w[1][1])]
            if v(w[0][1]) == "0" and v(w[1][1]) != "0":
                queue(0, "WAN-egress UDP flow whose first decision was plain direct is re-routed after a rule change: "
                           f"first datagram v={v(w[0][1])}, same flow after the swap v={v(w[1][1])} (expected 0 = follow the first decision)",
                           {"ops": [o for o, _ in w], "impl": [c for _, c in w], "replay": replay_cmd},
                           key="c03-wan-udp-direct-not-sticky")
        w = per.get("udp-lan-direct-sticky", [])
        if len(w) == 2:
            wit["udp-lan-direct-sticky"] = [v(w[0][1]), v(w[1][1])]
            if v(w[0][1]) != v(w[1][1]):
                queue(0, f"LAN-ingress UDP flow does not follow its first decision after a rule change: {v(w[0][1])} then {v(w[1][1])}",
                           {"ops": [o for o, _ in w], "impl": [c for _, c in w], "replay": replay_cmd})
        w = per.get("dae-tcp-tuple-reuse", [])
        if len(w) == 4:
            wit["dae-tcp-tuple-reuse"] = [v(x[1]) for x in w]
            if v(w[2][1]) != "0" or v(w[3][1]) != "0":
                queue(0, "packets sent by dae itself are captured again: dae reuses the 5-tuple of a proxied flow whose conn state is live; "
                           f"dae SYN v={v(w[2][1])}, dae ACK v={v(w[3][1])} (expected 0/0)",
                           {"ops": [o for o, _ in w], "impl": [c for _, c in w], "replay": replay_cmd},
                           key="c03-dae-tcp-established-recapture")
        w = per.get("reverse-syn-restarts", [])
        if len(w) == 4:
            # informational (design note, observation "reverse SYN"; theorem reverse_syn_restarts_tracking_as_wan_originated)
            wit["reverse-syn-restarts (observation)"] = [v(x[1]) for x in w]
        w = per.get("mac-packers", [])
        if w:
            vs = [v(x[1]) for x in w]
            wit["mac-packers"] = "".join(x or "?" for x in vs)
            callers = ["do_tproxy_lan_ingress", "do_tproxy_wan_egress_tcp", "do_tproxy_wan_egress_udp"]
            if len(vs) != 21:
                queue(2, f"witness mac-packers: expected 21 frames, got {len(vs)} (generator bug)", {})
            else:
                for ci, caller in enumerate(callers):
                    got = vs[7 * ci:7 * ci + 7]
                    if got != ["2"] + ["0"] * 6:
                        queue(0, f"source-MAC rule not applied to exactly the MAC it names at the route() call of {caller}: rule "
                                 f"`mac(02:a1:b2:c3:d4:e5) -> block; fallback: direct`, new flows from that MAC and from the six MACs "
                                 f"differing in one byte got verdicts {got} (expected ['2','0','0','0','0','0','0']): the mac_be packing "
                                 "at this caller does not produce the value the LPM key of a MAC rule holds",
                              {"ops": [o for o, _ in w[7 * ci:7 * ci + 7]], "impl": [c for _, c in w[7 * ci:7 * ci + 7]], "replay": replay_cmd})
        w = per.get("wan-opened-dns-service-reply", [])
        if len(w) == 8:
            vs = [v(x[1]) for x in w]
            wit["wan-opened-dns-service-reply"] = "".join(x or "?" for x in vs)
            # frames: [wi q53, we r53, le q53, li r53, wi q5353, we r5353, le q5353, li r5353]
            if vs[5] != "0" or vs[7] != "0":
                queue(0, "the reply of a UDP service (port 5353) opened from the WAN side is not passed untouched: "
                         f"WAN-hook reply v={vs[5]}, LAN-hook reply v={vs[7]} (expected 0/0)",
                      {"ops": [o for o, _ in w[4:]], "impl": [c for _, c in w[4:]], "replay": replay_cmd})
            if vs[1] != "0" or vs[3] != "0":
                queue(0, "the reply of a UDP port-53 service opened from the WAN side is routed and captured instead of passing "
                         f"untouched: wi 1.2.3.4:40000->192.168.1.10:53 then we reply v={vs[1]}; le ->192.168.1.20:53 then li reply "
                         f"v={vs[3]} (expected 0/0; the same pairs on port 5353 give {vs[5]}/{vs[7]})",
                      {"ops": [o for o, _ in w[:4]], "impl": [c for _, c in w[:4]], "replay": replay_cmd},
                      key="c03-wan-opened-udp53-reply-captured")
        w = per.get("janitor-walk-delete-race", [])
        if len(w) == 4:
            vs = [v(x[1]) for x in w]
            rtl = read_lines(os.path.join(ctx.out, "c03f.retr"))
            jd = [rtl[i] for i, op in enumerate(ops) if op == "jdel" and i < len(rtl)]
            # the witness's jdel is the one right after its jsnap
            jidx = [i for i, op in enumerate(ops) if op.startswith("note witness janitor-walk-delete-race")]
            jans = next((rtl[i] for i in range(jidx[0], len(ops)) if ops[i] == "jdel"), "") if jidx else ""
            kidx = next((ops[i].split(" ")[1] for i in range(jidx[0], len(ops)) if ops[i].startswith("conndel ")), "") if jidx else ""
            deleted = kidx != "" and kidx in jan_field(jans, "del")
            wit["janitor-walk-delete-race"] = {"verdicts": "".join(x or "?" for x in vs), "fresh_entry_deleted_by_real_janitor": deleted}
            race_key = "c03-janitor-delete-races-new-connection"
            race_listed = any(k.get("key") == race_key for k in ctx.known)
            if deleted and vs[2] == "7" and vs[3] != "7" and not race_listed:
                # reproduced on the real code on every run, but NOT reported as a violation until the coordinator lists the
                # key in known_findings.jsonl (then it becomes a KNOWN-FINDING line): see design_notes/C03.md, "Proposed finding"
                ctx.say(f"NOTE property=C03 proposed finding {race_key} reproduced (not listed, not counted as a violation): the "
                        f"conn-state janitor's deletes removed the entry of a connection opened after its BatchLookup walk; "
                        f"SYN v={vs[2]}, next segment v={vs[3]}")
            if deleted and vs[2] == "7" and vs[3] != "7" and race_listed:
                queue(0, "a janitor round racing with a new connection ends the new connection's tracking: li SYN+FIN/ACK of "
                         "192.168.1.10:40000->1.2.3.4:443 (entry CLOSING), 12 s later the conn-state janitor's BatchLookup walk "
                         "collects the key; before its deletes run a NEW SYN on the same 5-tuple is handed to dae "
                         f"(v={vs[2]}, decision cached); the real cleanupConnStateMapBeforeLocked then deletes the fresh entry by key "
                         f"and the connection's next segment gets v={vs[3]} (expected 7 = follow the decision of its SYN)",
                      {"ops": [ops[i] for i in range(jidx[0], min(len(ops), jidx[0] + 60)) if not ops[i].startswith(("alive", "cookie"))][:20],
                       "impl": [c for _, c in w], "janitor": jans, "replay": replay_cmd},
                      key=race_key)
        w = per.get("synack-parse-paths", [])
        if len(w) == 5:
            wit["synack-parse-paths"] = [w[0][1][:40], v(w[3][1]), v(w[4][1])]
            if v(w[3][1]) != "0" or v(w[4][1]) != "0":
                queue(0, "the SYN-ACK of a connection opened from the WAN side is not passed untouched: "
                           f"fast path v={v(w[3][1])}, byte-load path v={v(w[4][1])}",
                           {"ops": [o for o, _ in w], "impl": [c for _, c in w], "replay": replay_cmd})
        ctx.cov["witnesses"] = wit

    for _, _, what, replay, key in sorted(pending, key=lambda t: (t[0], t[1])):
        ctx.report(what, replay, key=key)

    stats = json.load(open(os.path.join(ctx.out, "c03.stats.json")))
    rstats = json.load(open(os.path.join(ctx.out, "c03retr.stats.json")))
    ctx.samples = [o[:300] for o in read_lines(os.path.join(ctx.out, "c03f.ops")) if o.startswith(("frame", "parse"))][:4]
    ctx.cov["input_distribution"] = stats["counters"]
    ctx.cov["retrieve_pass"] = rstats["counters"]
    ctx.cov["verdict_histogram"] = dict(sorted(verdicts.items()))
    ctx.cov["branch_histogram"] = dict(sorted(branch.items()))
    ctx.cov["twin_frames_compared"] = n_twin_frames
    ctx.cov["const_lines_three_way"] = n_const
    ctx.cov["retr_skipped_boundary"] = n_retr_skipped
    ctx.cov["diagnostic_only_differences"] = n_diag_diffs
    ctx.cov["janitor_rounds"] = {"rounds": n_jan, "entries_deleted": n_jan_deleted}
    ctx.cov["handover_consumers"] = {"dae0peer_ingress": n_peer, "dae0peer_accepted": n_peer_ok, "dae0_ingress": n_d0,
                                     "dae0_ingress_returned_to_origin": n_d0_redirect, "relay_record_lookups": n_use,
                                     "relay_record_from_cache": n_use_cached, "relay_record_not_compared": n_use_skipped,
                                     "endpoint_teardowns": n_rel, "endpoint_teardown_entries_deleted": n_rel_deleted}
    # ---- generator floors: an input class the check relies on must really have been exercised (below a floor the run is
    # not an OK but a harness failure, exit 2).  Quick-tier numbers; thorough is ~12x larger.
    open_keys = {k.get("key") for k in ctx.known if k.get("kind") == "open"}
    if "VERIF_C03_SCEN" not in os.environ and not [x for x in pending if x[4] not in open_keys] and not ctx.proof_failures:
        d, rp, hc = stats["counters"], rstats["counters"], ctx.cov["handover_consumers"]
        floors = [
            ("frames through li", verdicts["li:v=0"] + verdicts["li:v=2"] + verdicts["li:v=7"], 3000),
            ("frames through we", verdicts["we:v=0"] + verdicts["we:v=2"] + verdicts["we:v=7"], 5000),
            ("li redirected", verdicts["li:v=7"], 500), ("li dropped", verdicts["li:v=2"], 300),
            ("we redirected", verdicts["we:v=7"], 500), ("we dropped", verdicts["we:v=2"], 300),
            ("wi frames", verdicts["wi:v=3"], 3000), ("le frames", verdicts["le:v=3"], 800),
            ("le locally generated (NDP branch)", d.get("le.iif0", 0), 100),
            ("programs without fallback", d.get("prog.no-fallback", 0), 50),
            ("conditions on a missing LPM slot", d.get("rule.lpm-slot-missing", 0), 50),
            ("socket-table exact hits offered", d.get("socket.exact", 0), 200),
            ("socket-table near misses", sum(d.get("socket." + k, 0) for k in ("addr-swapped", "port-swapped", "other-family", "other-netns", "other-proto")), 200),
            ("rule swaps", d.get("op.rule-swap", 0), 800), ("connectivity flips", d.get("op.alive-flip", 0), 800),
            ("pull failures", d.get("path.pullfail", 0), 1500), ("short linear areas", d.get("path.lin.short", 0), 1500),
            ("twin frames", n_twin_frames, 2000), ("parse ops", n_parse, 3000),
            ("retrieve found", rp.get("retr.found", 0), 1000), ("retrieve notfound", rp.get("retr.notfound", 0), 1000),
            ("janitor rounds", n_jan, 800), ("janitor deletions", n_jan_deleted, 800),
            ("aggressive janitor rounds", rp.get("jan.aggressive", 0), 200),
            ("dae0peer accepted", hc["dae0peer_accepted"], 400), ("dae0peer shot", hc["dae0peer_ingress"] - hc["dae0peer_accepted"], 400),
            ("dae0 replies returned", hc["dae0_ingress_returned_to_origin"], 300),
            ("relay record lookups", hc["relay_record_lookups"], 2500), ("relay records from the cache", hc["relay_record_from_cache"], 100),
            ("lookups for another destination", d.get("use.other-dst", 0), 200),
            ("endpoint teardowns", n_rel, 150), ("entries deleted by endpoint teardown", n_rel_deleted, 60),
            ("scope-sensitive scenarios", d.get("scenario.scope-sensitive", 0), 30),
            ("MAC-packer witness frames", len(ctx.cov.get("witnesses", {}).get("mac-packers", "")), 21),
            # phase 4
            ("cgroup program runs", sum(v for k, v in d.items() if k.startswith("cg.prog.")), 1500),
            ("cgroup sock_release runs", d.get("cg.prog.release", 0), 60),
            ("command lines with a path", d.get("cg.args.path", 0) + d.get("cg.args.path-args", 0), 400),
            ("unreadable / over-long / odd command lines", d.get("cg.args.unreadable", 0) + d.get("cg.args.long-path", 0) +
             d.get("cg.args.name-ge-16", 0) + d.get("cg.args.trailing-slash", 0) + d.get("cg.args.non-ascii", 0), 200),
            ("kernels without bpf_get_current_task", d.get("cg.no-current-task-helper", 0), 150),
            ("scenarios with PARAM from the control plane's literal", d.get("scenario.param-from-control-plane-literal", 0), 100),
            ("PARAM images compared three-way", n_param, 100),
            ("four-map janitor rounds", rp.get("jan4.rounds", 0), 150),
            ("reload-retirement passes", rp.get("jan4.reload-retirement", 0), 80),
            ("redirect_track / cookie_pid entries deleted", rp.get("jan4.deleted.rt", 0) + rp.get("jan4.deleted.ck", 0), 100),
            ("two-phase janitor rounds", rp.get("jdel.rounds", 0), 150),
            ("delete phases that met a changed map", rp.get("jdel.interleaved-delete-phase.conn", 0) + rp.get("jdel.interleaved-delete-phase.ho", 0), 100),
            ("entries deleted although changed since the walk", rp.get("jdel.deleted-entry-changed-since-walk.conn", 0) + rp.get("jdel.deleted-entry-changed-since-walk.ho", 0), 20),
            ("lookup faults injected", rp.get("use.fault-injected.conn", 0) + rp.get("use.fault-injected.ho", 0), 250),
            ("TCP relay closed on a lookup error", rp.get("use.tcp.closed-on-lookup-error", 0), 60),
            ("datagrams dropped on a lookup error", rp.get("use.udp.dropped-on-lookup-error", 0), 60),
            ("RetrieveOriginalDest ops", d.get("origdst.ops", 0), 600),
            ("frames with IP-version / doff / skb->protocol mutants", d.get("mut.ip-version-nibble", 0) + d.get("mut.tcp-doff", 0) + d.get("mut.skb-protocol", 0), 150),
        ]
        low = [f"{name}: {got} < {need}" for name, got, need in floors if got < need]
        ctx.cov["generator_floors"] = {name: [got, need] for name, got, need in floors}
        if low:
            ctx.say("HARNESS-FAILED generator floors not reached (the run did not exercise what the check relies on): " + "; ".join(low))
            return 2
    ctx.assumptions = [
        "frames, rule programs, connectivity states, clocks and interleavings are generated (seeded): what was not generated was not compared",
        "the parse-path choice (linear length, bpf_skb_pull_data result), socket cookie and the one-entry socket table are inputs of a frame (oracles)",
        "little-endian host/target (amd64)",
    ]
    return ctx.finish(
        rule="one evaluation = one frame through a real TC entry point (tproxy_{lan,wan}_{ingress,egress}_l{2,3}) inside a scenario "
             "(flows x rule swaps x connectivity flips x clock jumps x map capacities), compared field by field (verdict, skb mark, cb[], "
             "redirect target, rewritten frame, byte images of every touched conn_state/handoff/redirect_track/cookie entry, events, "
             "overflow counters) with the Lean step function; plus parse ops (fast / slow / combined parser on one frame and linear "
             "length), retr ops (real RetrieveRoutingResult on the stored bytes through kernel maps) and twin scenarios replayed with "
             "different parse paths; peer / d0 ops (tproxy_dae0peer_ingress on the skb the previous frame left, tproxy_dae0_ingress on a "
             "reply of dae, against the redirect_track the hooks filled); use ops (the regenerated head of handleConn / UDP ingress task "
             "with the production endpoint pool and routing cache, under virtual time, on the stored bytes); "
             "distinct_nontrivial = distinct frame/parse/d0 op lines + distinct (peer op, answer) pairs",
        evaluations=n_frames + n_parse + n_retr + n_peer + n_d0 + n_use, distinct=len(distinct))
