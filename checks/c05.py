"""C05 — TCP relay delivers both byte streams intact and honours half-close."""
import json, os, shutil
from verifkit import read_lines, LEAN, VERIF

REQUIRED = [
    "DaeVerif.C05.Props.relay_identity",
    "DaeVerif.C05.Props.copy_loop_identity",
    "DaeVerif.C05.Props.take_then_remainder",
    "DaeVerif.C05.Props.read_conserves",
    "DaeVerif.C05.Props.poisoned_copy_delivers_buffer_only",
    "DaeVerif.C05.Props.detection_fuel_sufficient",
    "DaeVerif.C05.Props.detection_fuel_monotone",
    "DaeVerif.C05.Props.interleaving_conserves",
    "DaeVerif.C05.Props.detection_hands_over_every_byte",
    "DaeVerif.C05.Props.detection_total",
    "DaeVerif.C05.Props.oversize_length_is_not_dns",
    "DaeVerif.C05.Props.relay_starts_within_window",
    "DaeVerif.C05.Props.no_deadline_left_armed",
    "DaeVerif.C05.Props.poison_only_after_client_reset",
    "DaeVerif.C05.Props.armed_deadline_cuts_idle_client",
    "DaeVerif.C05.Props.upstream_receives_client_stream",
    "DaeVerif.C05.Props.client_receives_upstream_stream",
    "DaeVerif.C05.Props.received_is_prefix_of_sent",
    "DaeVerif.C05.Props.halfclose_client_first",
    "DaeVerif.C05.Props.halfclose_upstream_first",
    "DaeVerif.C05.Props.healthy_connection_not_cut",
    "DaeVerif.C05.Props.no_drop_before_end",
    "DaeVerif.C05.Props.timed_agrees_with_engine",
    "DaeVerif.C05.Props.deadline_cleared_on_every_path",
    "DaeVerif.C05.Props.deadline_table_covers_probes",
    "DaeVerif.C05.Props.gather_write_no_loss_no_dup",
    "DaeVerif.C05.Props.gather_segment_helpers_exact",
    "DaeVerif.C05.Props.splice_loop_conserves",
    "DaeVerif.C05.Props.splice_pipe_pooled_only_when_empty",
    "DaeVerif.C05.Props.copy_to_failing_destination",
    "DaeVerif.C05.Props.failing_destination_gets_exact_prefix",
    "DaeVerif.C05.Props.fault_free_is_conn",
    "DaeVerif.C05.Props.received_is_prefix_under_faults",
    "DaeVerif.C05.Props.external_cancel_cuts_only_at_cancel",
    "DaeVerif.C05.Props.dial_failure_forwards_nothing",
    "DaeVerif.C05.Props.halfclose_without_closewrite",
]

SPLICE_STUB = '''// STUB: translators/c05splice could not regenerate relaySpliceCopyExact from the source under check
// (%s) — the c05sp stream is unavailable.
package control

import (
	"context"
	"net"
)

const c05SpliceGenAvailable = false

func c05GenSpliceCopyExact(ctx context.Context, dst, src *net.TCPConn, record func(int64)) (int64, error) {
	panic("c05: generated splice loop unavailable")
}
'''


def splice_overlay(ctx, stub_reason=None):
    """relaySpliceCopyExact regenerated from /repo's current control/ sources with the two splice helpers
    replaced by harness hooks (translators/c05splice); a stub when the translator fails closed."""
    from verifkit import sh, go_env, REPO
    gen = os.path.join(ctx.out, "gen")
    os.makedirs(gen, exist_ok=True)
    outp = os.path.join(gen, "c05gen_splice.go")
    if os.path.exists(outp):
        os.unlink(outp)
    mode = "regenerated from the source under check"
    if stub_reason is None:
        # the translator binary is cached by the hash of its source (go run would relink it on every run)
        import hashlib
        from verifkit import CACHE
        tdir = os.path.join(VERIF, "translators", "c05splice")
        h = hashlib.sha256(open(os.path.join(tdir, "main.go"), "rb").read()).hexdigest()[:16]
        tbin = os.path.join(CACHE, "bin", "c05splice-" + h)
        if not os.path.exists(tbin):
            os.makedirs(os.path.dirname(tbin), exist_ok=True)
            tmpb = tbin + ".tmp%d" % os.getpid()
            rc, out, dt = sh(["go", "build", "-o", tmpb, "main.go"], cwd=tdir, env=go_env(), timeout=600)
            ctx.log.write(f"$ go build c05splice [{dt:.1f}s rc={rc}] {out}\n")
            if rc == 0 and os.path.exists(tmpb):
                os.replace(tmpb, tbin)
        if os.path.exists(tbin):
            rc, out, dt = sh([tbin, os.path.join(REPO, "control"), outp], cwd=tdir, env=go_env(), timeout=600)
        else:
            rc, out, dt = sh(["go", "run", "main.go", os.path.join(REPO, "control"), outp], cwd=tdir, env=go_env(), timeout=600)
        ctx.log.write(f"$ c05splice [{dt:.1f}s rc={rc}] {out}\n")
        if rc != 0 or not os.path.exists(outp):
            stub_reason = out.strip().replace("\n", " ")[-300:] or "translator failed"
    if stub_reason is not None:
        open(outp, "w").write(SPLICE_STUB % stub_reason.replace("%", "%%"))
        mode = "UNAVAILABLE: " + stub_reason
    return {os.path.join(REPO, "control", "zz_verif_c05gen_splice.go"): outp}, mode


GEN = os.path.join(LEAN, "DaeVerif", "C05", "Gen", "DeadlinePaths.lean")


def fields(line):
    return dict(t.split("=", 1) for t in line.split() if "=" in t)


def run(ctx):
    ctx.trusted += [
        "in-memory duplex conn of the harness (c05Conn): segment-preserving reads, internal/poll deadline semantics, CloseWrite/Close/RST — "
        "stands in for the kernel socket in the whole-connection tie; real sockets (writev, TIOCINQ, splice) are exercised by the loopback tie",
        "testing/synctest virtual clock = time.Now()/timers seen by handleConn, the sniffer and relayCore",
        "oracles passed to the model per connection, computed with the real functions: dns.Msg.Unpack of the first frame, "
        "isLikelyHttpOrTLSPrefix of the prefetched bytes, the real SniffTcp's need-more verdict at the buffer lengths the real sniffer held "
        "(deadline-free probe conn), and the sizes of the conn reads the real sniffer issued (Buffer.ReadFromOnce offers cap-len)",
        "go/ast deadline-path extractor (harness/overlay/control/c05_paths_test.go): structured path enumeration, loops unrolled once, "
        "receiver identity = printed expression; the table it writes is what `decide` closes",
        "sniffer reads are bounded by the observed read sizes (Cfg.offer); need-more above 4096 buffered bytes relies on the verdict being monotone in the buffer length",
        "in the timed model the destination accepts every write; write failures are exercised on real sockets only (c05tcp destination reset, "
        "asserting only 'received is a prefix of sent'); latency added by the kernel copy paths is not observed by any stream "
        "(real-socket streams compare bytes, the timed streams run over in-memory conns)",
    ]
    # 1. harness binary first: the deadline-path table is regenerated from the repository under check
    harness_files = ["control/c05_test.go", "control/c05_paths_test.go", "control/c05_tcp_test.go", "control/c05_wrap_test.go",
                     "control/c05_e2e_test.go", "control/c05_fault_test.go"]
    sp_overlay, sp_mode = splice_overlay(ctx)
    binp = ctx.go_test_build("control", harness_files, "c05", extra_overlay=sp_overlay)
    if not binp and not sp_mode.startswith("UNAVAILABLE"):
        # the regenerated loop does not compile against the harness hooks: the anchor moved in a way the translator
        # did not notice — every other stream still runs; the missing one turns the verdict into NO-EVIDENCE (exit 2)
        sp_overlay, sp_mode = splice_overlay(ctx, stub_reason="the regenerated function did not compile in the harness")
        binp = ctx.go_test_build("control", harness_files, "c05", extra_overlay=sp_overlay)
    if not binp:
        return 2
    ctx.cov["splice_loop_source"] = sp_mode
    rc, out = ctx.run_harness(binp, "TestVerifC05Paths")
    gen_new = os.path.join(ctx.out, "c05_paths.lean")
    if rc != 0 or not os.path.exists(gen_new):
        ctx.say("HARNESS-FAILED (deadline path extractor)", out[-3000:])
        return 2
    new = open(gen_new, encoding="utf-8").read()
    path_rows = read_lines(os.path.join(ctx.out, "c05_paths.txt"))
    ctx.cov["deadline_paths"] = {"rows": len(path_rows),
                                 "uncleared": [r for r in path_rows if "cleared=false" in r and "armFailed=false" in r]}

    # 2. prove.  Gen/DeadlinePaths.lean is one file in the shared lake workspace: concurrent runs (other seeds, other
    #    VERIF_REPO) are serialised from "write my table" to "my proofs are audited", so a run is always proved against
    #    its own table; a table that does not prove is not left behind.
    import fcntl
    os.makedirs(os.path.join(VERIF, ".cache"), exist_ok=True)
    with open(os.path.join(VERIF, ".cache", "c05-gen.lock"), "w") as lockf:
        fcntl.flock(lockf, fcntl.LOCK_EX)
        old = open(GEN, encoding="utf-8").read() if os.path.exists(GEN) else ""
        if new != old:
            os.makedirs(os.path.dirname(GEN), exist_ok=True)
            tmp = GEN + ".tmp%d" % os.getpid()
            open(tmp, "w", encoding="utf-8").write(new)
            os.replace(tmp, GEN)
        ctx.prove(["DaeVerif.C05.Props"], ["DaeVerif.C05.Props"], ["DaeVerif/C05/*.lean", "DaeVerif/C05/Gen/*.lean"],
                  extra_targets=["c05drv"])
        if ctx.proof_failures and old and new != old:
            open(GEN, "w", encoding="utf-8").write(old)
        fcntl.flock(lockf, fcntl.LOCK_UN)
    ctx.required_theorems(REQUIRED)
    table_broken = any("deadline_cleared_on_every_path" in f or "deadline_table_covers_probes" in f or
                       ("lake build failed" in f and "Props.lean" in f and "decide" in f.lower())
                       for f in ctx.proof_failures)

    # 3. tie
    evaluations = 0
    distinct = set()
    samples = []
    dist = {}
    for test, stream in (("TestVerifC05Conn", "c05conn"), ("TestVerifC05Concurrent", "c05par"), ("TestVerifC05E2E", "c05e2e"), ("TestVerifC05Tcp", "c05tcp"),
                         ("TestVerifC05Wrap", "c05wrap"), ("TestVerifC05Wv", "c05wv"), ("TestVerifC05Splice", "c05sp")):
        hang_path = os.path.join(ctx.out, stream + ".hang")
        if os.path.exists(hang_path):
            os.unlink(hang_path)
        rc, out = ctx.run_harness(binp, test, timeout=1500)
        if os.path.exists(hang_path):
            # the watchdog outside the synctest bubble ended the process (wall clock / heap): one slow run is never a
            # verdict — the same scenario is run ALONE in a fresh process
            idx, why, desc = (open(hang_path, encoding="utf-8", errors="replace").read().rstrip("\n").split("\t") + ["", ""])[:3]
            ctx.say(f"{stream}: scenario #{idx} did not finish ({why}); re-running it alone")
            os.unlink(hang_path)
            rc2, out2 = ctx.run_harness(binp, test, env_extra={"VERIF_C05_ONLY": idx}, timeout=600)
            if os.path.exists(hang_path):
                why2 = (open(hang_path, encoding="utf-8", errors="replace").read().split("\t") + ["", ""])[1]
                ctx.report("the real connection handler does not return: the detection deadline no longer bounds the connection "
                           f"(scenario #{idx} of {stream}, alone in a fresh process: {why2}; first run: {why}) — {desc[:1500]}",
                           {"stream": stream, "scenario_index": idx, "scenario": desc,
                            "replay": "VERIF_C05_ONLY=%s VERIF_SEED=%d %s -test.run ^%s$" % (idx, ctx.seed, "c05.test", test)})
                ctx.cov.setdefault("hangs", []).append({"stream": stream, "scenario": idx, "confirmed": True})
                continue
            ctx.say(f"NO-EVIDENCE: scenario #{idx} of {stream} hit the watchdog ({why}) but completed when run alone — "
                    "the machine is too slow or the harness leaks; no verdict")
            ctx.cov.setdefault("hangs", []).append({"stream": stream, "scenario": idx, "confirmed": False})
            ctx.finish(rule="watchdog: unconfirmed hang", evaluations=evaluations, distinct=len(distinct))
            return 2
        ops, impl, model = (os.path.join(ctx.out, stream + "." + e) for e in ("ops", "impl", "model"))
        if rc != 0 or not os.path.exists(ops):
            ctx.say("HARNESS-FAILED", test, out[-3000:])
            return 2
        if not ctx.driver("c05drv", ops, model):
            ctx.proof_failures.append("model driver c05drv failed to run")
        mism = ctx.diff_streams(ops, impl, model, stream)
        op_lines = read_lines(ops)
        impl_lines = read_lines(impl)
        evaluations += len(op_lines)
        notes = 0
        kept = []
        for m in mism:
            ln, op, im, mo = m
            if stream in ("c05conn", "c05par") and ln > 0 and not im.startswith("crash:"):
                fi, fm = fields(im), fields(mo)
                try:
                    earlier = fi["dial"] != "-" and fm["dial"] != "-" and int(fi["dial"]) < int(fm["dial"])
                except (KeyError, ValueError):
                    earlier = False
                same_bytes = all(fi.get(k, "").split("#")[-1] == fm.get(k, "").split("#")[-1] for k in ("up", "cl"))
                if earlier and same_bytes and fi.get("armed") == "0":
                    # the property bounds the relay start only from above: starting EARLIER than the model with both
                    # byte streams intact is not a violation (times shift with the dial and are not compared then)
                    notes += 1
                    continue
            kept.append(m)
        if notes:
            ctx.say(f"NOTE {stream}: {notes} connection(s) dialled earlier than the model's detection end with both byte streams "
                    "intact — allowed by the property (upper bound only); not counted as violations")
            ctx.cov.setdefault("notes", {})[stream + ".dialled-earlier-than-model"] = notes
        mism = kept
        for ln, op, im, mo in mism[:8]:
            what = f"implementation differs from proved model ({stream} line {ln}): impl `{im[:300]}` model `{mo[:300]}`"
            if stream in ("c05conn", "c05par") and ln > 0:
                fi, fm = fields(im), fields(mo)
                diff = [k for k in fm if fi.get(k) != fm.get(k)]
                hints = []
                if "armed" in diff:
                    hints.append("a read deadline armed by a probe is still set on the client socket when the relay starts")
                if "up" in diff:
                    hints.append("the upstream did not receive exactly the client's bytes at the expected times")
                if "cl" in diff:
                    hints.append("the client did not receive exactly the upstream's bytes at the expected times")
                if "upeof" in diff or "cleof" in diff:
                    hints.append("end of stream was not passed on when expected")
                if "dial" in diff:
                    hints.append("the relay did not start when detection should have ended")
                what = "; ".join(hints) + " — " + what if hints else what
            ctx.report(what, {"stream": stream, "line": ln, "op": op, "impl": im, "model": mo,
                              "replay": "VERIF_SEED=%d ./check C05 %s" % (ctx.seed, ctx.tier)})
        # property-level oracle directly on the implementation's answers (independent of the model)
        n_crash = 0
        for op, im in zip(op_lines, impl_lines):
            if im.startswith("crash:") and ("nil pointer dereference" in im or "interface conversion" in im):
                # the harness drives handleConn with a minimal ControlPlane and an in-memory conn: a nil field or a
                # failed type assertion on the harness's own objects says nothing about the property
                ctx.say("HARNESS-FAILED: the connection handler panicked on an object the harness built "
                        "(a ControlPlane field it leaves zero, or the concrete type of its conn): " + im[:300] +
                        " — cannot judge C05; extend c05ControlPlane/c05Conn")
                return 2
            if im.startswith("crash:"):
                n_crash += 1
                if n_crash <= 2:   # a few witnesses are enough; keep room for the other reports
                    ctx.report("the real connection handler panicked on these client bytes (production has no recover "
                               "there: the daemon would die): " + im[:300], {"stream": stream, "op": op, "impl": im})
            if "LOSS-OR-DUP(" in im:
                ctx.report("bytes were lost, duplicated or reordered at a kernel hand-over (scripted syscall results): " +
                           im[im.index("LOSS-OR-DUP("):][:300], {"stream": stream, "op": op[:2000], "impl": im[:600]})
            elif "LOSS-OR-DUP" in im or "NOT-A-PREFIX" in im:
                ctx.report("a wrapper lost, duplicated or reordered bytes: the concatenation of everything it handed out "
                           "(Read / TakeRelaySegments / CopyRelayRemainder / WriteTo, in this order: " + op.split()[-1] +
                           ") is not the bytes fed in — " + im[-200:],
                           {"stream": stream, "op": op, "impl": im, "read_sequence": op.split()[-1].split(",")})
            if stream in ("c05conn", "c05par"):
                f = fields(im)
                if f.get("armed") == "1":
                    ctx.report("a detection read deadline is still armed on the client socket at the dial "
                               "(a healthy client idle for longer than the window would be cut)", {"op": op, "impl": im})
                distinct.add(op)
            else:
                distinct.add(op)
        stats_path = os.path.join(ctx.out, stream + ".stats.json")
        if os.path.exists(stats_path):
            st = json.load(open(stats_path))
            samples += st["samples"][:5]
            dist[stream] = st["counters"]
        samples += op_lines[:2]
    if table_broken and not ctx.violations:
        # a broken path table: say which path
        bad = ctx.cov["deadline_paths"]["uncleared"]
        bad = [b for b in bad if not (b.startswith("relayCore.") and "halfCloseTimeout" in b)]
        if bad:
            ctx.proof_failures.append("deadline path(s) without a clearing call: " + " | ".join(bad)[:1500])
    ctx.samples = samples
    ctx.cov["input_distribution"] = dist
    ctx.assumptions = [
        "segment times of a peer never go backwards; two events of different goroutines never share a virtual instant "
        "(scripts whose event coincides with an armed deadline are discarded and counted)",
        "a connection whose upstream ended before the OBSERVED dial is discarded after the run (the two directions would race in "
        "one virtual instant; about 8 % of the generated connections, counted as discard.upstream-ended-before-dial)",
    ]
    # generator floors (quick-tier sizes): an input class the check relies on must really have been produced
    floors = {
        "c05conn": {"fault.write-to-upstream-fails": 70, "fault.write-to-client-fails": 40, "fault.context-cancelled": 80,
                    "fault.dial-fails": 20, "fault.client-conn-without-closewrite": 90, "directed": 21},
        "c05par": {"fault.write-to-upstream-fails": 10, "fault.write-to-client-fails": 10, "fault.context-cancelled": 12},
        "c05tcp": {"copy.dst-fails.opaque": 6, "copy.dst-fails.tcp-writev": 15},
        "c05wv": {"wv.step.partial": 800, "wv.step.i": 250, "wv.step.a": 250, "wv.step.A": 80, "wv.step.x": 120,
                  "wv.end.ok": 700, "wv.end.short": 150, "wv.end.wait": 80, "wv.end.err": 120,
                  "wv.more-segments-than-inline-scratch": 200, "adv.case": 400},
        "c05sp": {"sp.out.partial": 250, "sp.end.ok": 400, "sp.end.err": 200, "sp.end.short": 60,
                  "sp.ended-with-bytes-in-the-pipe": 160, "sp.step.cancelled-during-call": 60, "sp.in.e": 400},
    }
    if "c05conn" in dist:
        dist["c05conn"]["kind.*.tls-partial"] = sum(v for k, v in dist["c05conn"].items() if k.endswith(".tls-partial"))
    floors["c05conn"].update({"kind.*.tls-partial": 60, "sniff.partial-hello-and-nothing-after-it": 40,
                              "sniff.several-need-more-rounds": 120})
    low = {f"{st}:{k}": (dist.get(st, {}).get(k, 0), v) for st, fl in floors.items() for k, v in fl.items()
           if dist.get(st, {}).get(k, 0) < v}
    ctx.cov["generator_floors"] = floors
    unavailable = sp_mode.startswith("UNAVAILABLE")
    if unavailable:
        low = {k: v for k, v in low.items() if not k.startswith("c05sp:")}
    rc = ctx.finish(
        rule="eight streams — c05conn: one op = one whole proxied connection through the real handleConn (client script, upstream script, port, "
             "sniffing window, peer CloseWrite support); c05tcp: one op = one directional copy of defaultRelayCopyEngine over real "
             "loopback TCP sockets or white-box wrapper states (optionally towards a destination failing after cap bytes); "
             "c05wv / c05sp: one op = one run of relayWritevAll / the regenerated relaySpliceCopyExact under a scripted schedule of "
             "syscall results; distinct_nontrivial = distinct op lines",
        evaluations=evaluations, distinct=len(distinct))
    if rc == 0 and unavailable:
        ctx.say("NO-EVIDENCE for the splice loop: " + sp_mode + " — relaySpliceCopyExact changed shape; adapt translators/c05splice "
                "(the other streams passed)")
        return 2
    if rc == 0 and low:
        ctx.say("GENERATOR-FLOOR not reached (have, floor):", low)
        return 2
    return rc
