"""C12 — address sets match by CIDR containment, in userspace and in kernel key form."""
import json, os
from verifkit import read_lines

REQUIRED = [
    "DaeVerif.C12.Props.bin_prefix_iff_contains",
    "DaeVerif.C12.Props.trie_matches_iff_contained",
    "DaeVerif.C12.Props.lpm_matches_iff_contained",
    "DaeVerif.C12.Props.kernel_userspace_same_set",
    "DaeVerif.C12.Props.zero_length_matches_all",
    "DaeVerif.C12.Props.host_route_exact",
    "DaeVerif.C12.Props.ipv4_as_mapped",
    "DaeVerif.C12.Props.ipv4_prefix_excludes_non_mapped",
    "DaeVerif.C12.Props.canonicalize_same_set",
    "DaeVerif.C12.Props.share_only_if_equal",
    "DaeVerif.C12.Props.shared_slots_equal_sets",
    "DaeVerif.C12.Props.canonicalize_same_members",
    "DaeVerif.C12.Props.canonicalize_canonical",
    "DaeVerif.C12.Props.v4_default_route",
    "DaeVerif.C12.Props.slots_hold_own_set",
    "DaeVerif.C12.Props.slot_same_set_ip",
    "DaeVerif.C12.Props.mac_slot_exact",
    "DaeVerif.C12.Props.dns_ip_rules_by_containment",
    "DaeVerif.C12.Props.contains_iff_in_range",
    "DaeVerif.C12.Props.first_last_inside_neighbours_outside",
    "DaeVerif.C12.Props.host_bits_ignored",
    "DaeVerif.C12.Props.set_union",
    "DaeVerif.C12.Props.same_members_same_set",
    "DaeVerif.C12.Props.mapped_twin_same_addresses",
    "DaeVerif.C12.Props.parsed_prefix_wf",
    "DaeVerif.C12.Props.bare_text_is_host_route",
    "DaeVerif.C12.Props.explicit_length_kept",
    "DaeVerif.C12.Props.text_set_by_containment",
    "DaeVerif.C12.Props.route_with_sharing_by_containment",
    "DaeVerif.C12.Props.parallel_build_order_independent",
]


def _mask(v, width, bits):
    return v & ~((1 << (width - bits)) - 1) if 0 <= bits <= width else v


def canon_line(l):
    """Host bits of a prefix / kernel key carry no meaning (Props.host_bits_ignored): `pfx=` and `key=`
    answers are compared modulo them, so that a parser or key writer that masks (or does not) is not
    reported as long as family, network and length agree."""
    try:
        if l.startswith("pfx="):
            fam, rest = l[4:].split(":", 1)
            hx, bits = rest.split("/")
            w = 32 if fam == "4" else 128
            return "pfx=%s:%0*x/%s" % (fam, w // 4, _mask(int(hx, 16), w, int(bits)), bits)
        if l.startswith("key="):
            n, hx = l[4:].split(":", 1)
            return "key=%s:%032x" % (n, _mask(int(hx, 16), 128, int(n)))
    except ValueError:
        pass
    return l


def run(ctx):
    ctx.trusted += [
        "pkg/trie's succinct trie is tied at API level here (HasPrefix = some stored key is a prefix of the word); its internals are C11's subject",
        "translators/fakebpf (synthetic bpf2go declarations so that the production cidrToBpfLpmKey compiles)",
    ]
    ctx.prove(["DaeVerif.C12.Props"], ["DaeVerif.C12.Props"], ["DaeVerif/C12/*.lean"], extra_targets=["c12drv"])
    ctx.required_theorems(REQUIRED)

    fake = ctx.fake_bpf_overlay()
    binp = fake and ctx.go_test_build("control", ["control/c12_test.go"], "c12", tags="", extra_overlay=fake)
    if not binp:
        return 2
    rc, out = ctx.run_harness(binp, "TestVerifC12")
    ops, impl, model = (os.path.join(ctx.out, "c12." + e) for e in ("ops", "impl", "model"))
    if rc != 0 or not os.path.exists(ops):
        ctx.say("HARNESS-FAILED", out[-3000:])
        return 2
    if not ctx.driver("c12drv", ops, model):
        ctx.proof_failures.append("model driver c12drv failed to run")
    mism = ctx.diff_streams(ops, impl, model, "c12", canon=canon_line)
    # property-level oracle on the implementation side as well: trie = lpm = spec on every match line
    n_eval = n_hit = 0
    distinct = set()
    for op, im in zip(read_lines(ops), read_lines(impl)):
        if op.startswith("match ") or op.startswith("matchk "):
            n_eval += 1
            distinct.add(op)
            f = dict(kv.split("=", 1) for kv in im.split() if kv.startswith(("trie=", "lpm=", "spec=", "kern=")))
            if len(set(f.values())) != 1 or not set(f.values()) <= {"0", "1"}:
                ctx.report(f"userspace trie / kernel keys (contract and REAL kernel LPM trie) / CIDR containment disagree on the implementation: {im}",
                           {"op": op, "impl": im}, key=None)
            n_hit += f.get("trie") == "1"
    for ln, op, im, mo in mism[:10]:
        ctx.report(f"implementation differs from proved model at line {ln}: impl `{im}` model `{mo}`",
                   {"stream": "c12", "line": ln, "op": op, "impl": im, "model": mo,
                    "replay": "VERIF_SEED=%d ./check C12 %s" % (ctx.seed, ctx.tier)})
    # --- DNS response routing `ip()` sets (component/dns/response_routing.go): real parser + production
    # optimizers + response matcher builder + Match against the proved first-match / containment model
    n_dns = 0
    binp2 = ctx.go_test_build("component/dns", ["component/dns/c12_test.go"], "c12dns", tags="")
    if not binp2:
        return 2
    rc, out = ctx.run_harness(binp2, "TestVerifC12Dns")
    dops, dimpl, dmodel = (os.path.join(ctx.out, "c12dns." + e) for e in ("ops", "impl", "model"))
    if rc != 0 or not os.path.exists(dops):
        ctx.say("HARNESS-FAILED", out[-3000:])
        return 2
    if not ctx.driver("c12drv", dops, dmodel):
        ctx.proof_failures.append("model driver c12drv failed to run (dns stream)")
    dmism = ctx.diff_streams(dops, dimpl, dmodel, "c12dns")
    for ln, op, im, mo in dmism[:10]:
        ctx.report(f"DNS response ip() rule decided differently from CIDR containment at line {ln}: impl `{im}` model `{mo}`",
                   {"stream": "c12dns", "line": ln, "op": op[:4000], "impl": im, "model": mo,
                    "replay": "VERIF_SEED=%d ./check C12 %s" % (ctx.seed, ctx.tier)})
    for op, mo in zip(read_lines(dops), read_lines(dmodel)):
        if mo in ("bad-op", "SPEC-DIFFERS"):
            ctx.report("model driver: bad op / spec differs on the dns stream (harness-model protocol bug)", {"op": op[:2000], "model": mo})
            break
    dns_lines = [o for o in read_lines(dops) if o.startswith("dnsip ") and not o.startswith("dnsip - ")]
    n_dns = len(dns_lines)
    distinct |= set(dns_lines)
    dstats = json.load(open(os.path.join(ctx.out, "c12dns.stats.json")))
    ctx.cov["dns_input_distribution"] = dstats["counters"]
    stats = json.load(open(os.path.join(ctx.out, "c12.stats.json")))
    route_lines = [o for o in read_lines(ops) if o.startswith(("route ", "ptxt "))]
    distinct |= set(route_lines)
    for op, mo in zip(read_lines(ops), read_lines(model)):
        if mo in ("bad-op", "SPEC-DIFFERS", "bad-lpm-index"):
            ctx.report("model driver: bad op / spec differs on the main stream (harness-model protocol bug)", {"op": op[:2000], "model": mo})
            break
    ctx.samples = stats["samples"] + read_lines(ops)[:3]
    ctx.cov["input_distribution"] = stats["counters"]
    ctx.cov["match_hits"] = n_hit
    # generator floors: a silent loss of a whole input class is a broken check, not a green one
    c = stats["counters"]
    floors = []
    if c.get("share.constructed_collision", 0) < 1:
        floors.append("no constructed FNV collision reached the sharing stream (hashLpmSet changed? the collision construction must be redone)")
    if c.get("walk.parallel_build", 0) < 5 or c.get("walk.serial_build", 0) < 5:
        floors.append("snapshot -> BuildUserspace walk: fewer than 5 parallel or 5 serial builds")
    if c.get("share.mac_set", 0) < 5:
        floors.append("fewer than 5 MAC sets in the sharing stream")
    if c.get("prefix.v4_with_mapped_twin", 0) < 10:
        floors.append("fewer than 10 IPv4 prefixes accompanied by their IPv4-mapped twins")
    for fam, top in (("v6", 128), ("v4", 32)):
        for L in range(top + 1):
            hit = c.get("sweep.%s.len%03d.1" % (fam, L), 0)
            miss = c.get("sweep.%s.len%03d.0" % (fam, L), 0)
            if hit < 1 or (miss < 1 and not (fam == "v6" and L == 0)):
                floors.append(f"length sweep: {fam} /{L} has hits={hit} misses={miss}")
    # --- the REAL kernel LPM trie (production newLpmMap / BpfMapBatchUpdate): available only with bpf(2)
    if c.get("kern.unavailable", 0):
        why = [x for x in stats["samples"] if x.startswith("kernel LPM stream unavailable")]
        ctx.cov["kernel_lpm_stream"] = "UNAVAILABLE in this sandbox (no verdict drawn from it): " + (why[0] if why else "?")
        ctx.say("NOTE property=C12: bpf(2) is not available, the kernel LPM-trie contract stays a trusted assumption in this run")
        ctx.trusted.append("kernel LPM-trie lookup contract (a stored key matches when its first prefixlen bits equal the probe's) — "
                           "modelled as lpmLookup; NOT checked in this run (bpf(2) unavailable)")
    else:
        ctx.cov["kernel_lpm_stream"] = {k: v for k, v in c.items() if k.startswith("kern.")}
        ctx.trusted.append("kernel LPM-trie: no longer assumed — every set's production keys are loaded by production newLpmMap into a real "
                           "BPF_MAP_TYPE_LPM_TRIE of the running kernel and probed there (the probe key is built by the harness the way "
                           "tproxy.c builds it: prefixlen 128 + the 16 address bytes; the C side is C02's subject)")
        for key, least in [("kern.hit", 500), ("kern.miss", 500), ("kern.map.simulated_batch", 50), ("kern.fault_injected", 2)]:
            if c.get(key, 0) < least:
                floors.append(f"{key}={c.get(key, 0)} < {least}")
        if c.get("kern.detected_genuine_batch", 0) and c.get("kern.map.genuine_batch", 0) < 50:
            floors.append("fewer than 50 sets loaded with the genuine batch update")
    for key, least in ([("ptxt.valid_spelling", 300), ("ptxt.directed.accepted", 20), ("ptxt.directed.refused", 40),
                       ("ptxt.limit.accepted", 20), ("ptxt.limit.refused", 10), ("ptxt.mutated.accepted", 15),
                       ("ptxt.mutated.refused", 100), ("spell.v6_dotted_quad", 10),
                       ("route.prog", 40), ("route.prog.parallel_build", 8), ("route.prog.serial_build", 8),
                       ("route.prog.production_optimizers", 15), ("route.rule.negated", 20), ("route.rule.mac", 15),
                       ("route.set.same_again", 5), ("route.set.near_twin", 3), ("route.kcheck.probe", 1000),
                       ("route.kcheck.rule_index", 100), ("route.prog.edited_reload", 10), ("route.concurrent_replay", 40), ("route.old_generation_revisited", 30)]
                      + [("route.decision.out=%d" % o, 20) for o in range(5)]):
        if c.get(key, 0) < least:
            floors.append(f"{key}={c.get(key, 0)} < {least}")
    ctx.cov["generator_floors_failed"] = floors
    if floors and not ctx.violations and not ctx.proof_failures:
        # (with violations present the floors are moot: e.g. a broken /0 turns every probe into a hit)
        ctx.say("GENERATOR-FLOOR-FAILED " + "; ".join(floors[:5]))
        return 2
    dc = dstats["counters"]
    dfl = []
    for key, least in [("dns.prog", 50), ("dns.rule.negated", 20), ("dns.answer.reject", 200), ("dns.answer.accept", 200),
                       ("dns.same_set_again", 5), ("dns.prog.edited_reload", 15), ("dns.near_twin_set", 5), ("dns.wrap_probe", 1)]:
        if dc.get(key, 0) < least:
            dfl.append(f"{key}={dc.get(key, 0)} < {least}")
    if dfl and not ctx.violations and not ctx.proof_failures:
        ctx.say("GENERATOR-FLOOR-FAILED (dns stream) " + "; ".join(dfl))
        return 2
    ctx.cov["dns_ip_rule_evaluations"] = n_dns
    ctx.assumptions = ["probe addresses and prefix sets are generated (seeded); sizes 1..~220 prefixes per set",
                       "route stream: single-condition rules [!]ip|dip|sip|mac(..) -> outbound through the real text parser, optimizers, builder, "
                       "snapshot, BuildUserspace and ControlPlane.Route; '&&' combinations and the other condition kinds are C01's subject; "
                       "the kernel's scan of the rule image is C02's",
                       "dns stream: single-condition response rules [!]ip(..) -> accept|reject, 1..3 answer addresses, fallback accept; "
                       "combinations with qname/qtype/upstream conditions are C07's subject"]
    return ctx.finish(rule="ops = bin/key/match(k)/canon/share/ptext/ptxt/route/kcheck/conc/regen/kfault lines and dnsip lines (one (response ip() rule list, answer addresses) pair each); a `match` op is one (prefix set, probe address) pair, "
                           "probes are the first/last address inside and the neighbours outside every prefix plus random ones; "
                           "distinct_nontrivial counts distinct match, route, ptxt and dnsip ops",
                      evaluations=len(read_lines(ops)) + n_dns, distinct=len(distinct))
