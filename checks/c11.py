"""C11 — domain patterns match exactly the names their kind describes.

prove : DaeVerif.C11.Props (spec-level theorems about AddSet normalisation / suffix-trie query,
        set independence, bit list, rank/select, LOUDS navigation)
tie   : four streams from three overlay harness files call the real code (common/bitlist, pkg/trie,
        domain_matcher.AhocorasickSlimtrie incl. the Aho-Corasick library directly, and a -race replay)
        and the Lean driver c11drv evaluates the same lines.  Only answers are compared; layout dumps,
        error classes, API-misuse ops and inputs outside the property's domain are diagnostics.
"""
import json, os, resource, subprocess, threading, time
from concurrent.futures import ThreadPoolExecutor
from verifkit import read_lines, LEAN, REPO, CACHE, go_env, sh

REQUIRED = [
    "DaeVerif.C11.Props.full_matches_identical_only",
    "DaeVerif.C11.Props.suffix_matches_name_and_subnames",
    "DaeVerif.C11.Props.dot_suffix_matches_proper_subnames_only",
    "DaeVerif.C11.Props.keyword_matches_containing_names",
    "DaeVerif.C11.Props.regex_matches_per_oracle",
    "DaeVerif.C11.Props.set_matches_iff_some_pattern",
    "DaeVerif.C11.Props.sets_independent",
    "DaeVerif.C11.Props.skip_invalid_harmless",
    "DaeVerif.C11.Props.build_fails_only_as_documented",
    "DaeVerif.C11.Props.trie_hasPrefix_eq_spec",
    "DaeVerif.C11.Props.bitlist_get_append",
    "DaeVerif.C11.Props.bitlist_get_set",
    "DaeVerif.C11.Props.countZeros_is_rank0",
    "DaeVerif.C11.Props.selectIthOne_is_select1",
    "DaeVerif.C11.Props.domain_matcher_correct",
    "DaeVerif.C11.Props.matcher_trie_path_eq_contract",
    "DaeVerif.C11.Props.normName_case_insensitive",
    "DaeVerif.C11.Props.normName_trailing_dot",
    "DaeVerif.C11.Props.domain_matcher_bitmap_correct",
    "DaeVerif.C11.Props.negative_index_is_out_of_range",
    "DaeVerif.C11.Props.ac_contains_iff_infix",
    "DaeVerif.C11.Props.alphabets_nodup",
    "DaeVerif.C11.Props.keyword_with_marks_is_skipped",
    "DaeVerif.C11.Props.empty_keyword_never_matches",
    "DaeVerif.C11.Props.replay_is_fold_of_addSetGo",
    "DaeVerif.C11.Props.domain_matcher_correct_any_case",
    "DaeVerif.C11.Props.domain_matcher_bitmap_correct_any_case",
    "DaeVerif.C11.Props.full_pattern_any_case",
    "DaeVerif.C11.Props.bitlist_words_ok",
    "DaeVerif.C11.Props.match_loops_eq_per_set_definition",
    "DaeVerif.C11.Props.index_order_irrelevant",
    "DaeVerif.C11.Props.reported_index_order_is_valid",
    "DaeVerif.C11.Props.domain_matcher_loops_correct",
    "DaeVerif.C11.Props.build_under_every_worker_order",
    "DaeVerif.C11.Props.domain_matcher_correct_under_every_worker_order",
    "DaeVerif.C11.Props.doc_hits_eq_docMatches",
    "DaeVerif.C11.Props.bitlist_set_loops_eq_flat_writes",
    "DaeVerif.C11.Props.bitlist_get_set_loops",
    "DaeVerif.C11.Props.anybuffer_refines_zero_extended_array",
    "DaeVerif.C11.Props.anybuffer_from_refines",
]

# generator scale the evidence may claim (the check refuses to finish below these)
# (>= 65536 trie nodes: from there on the rank cache uses units wider than 16 bits — the multi-word
#  CompactBitList.Get path is then reached through the matcher, which is what catches seed C11-e in quick)
# every floor is met by a DETERMINISTIC case of the generator (forced sizes), never by luck of the seed
MIN_SCALE = {"quick": {"trie.keys.max": 20000, "trie.nodes.max": 65536, "dm.trie.nodes.max": 65536,
                       "dm.set.size.max": 10000, "dm.name.len.max": 4000, "ac.keywords.max": 1500, "cc.sessions": 20,
                       "dm.sets.max": 1024, "cc.sets.max": 1024, "cc.sessions.first_queries_concurrent": 10,
                       "dm.ix.reported": 50, "dm.err_at_step.sessions": 64, "dm.boundary_index.sessions": 12,
                       "dm.boundary_index.one_past": 12, "dm.mixed_kind.queries": 150, "cc.generation_overlap": 8,
                       "cc.gomaxprocs.1": 4, "cc.gomaxprocs.16": 4,
                       "ab.scripts": 400, "ab.script.with_truncate": 50},
             "thorough": {"trie.keys.max": 200000, "trie.nodes.max": 65536, "dm.trie.nodes.max": 65536,
                          "dm.set.size.max": 100000, "dm.name.len.max": 4000, "ac.keywords.max": 10000, "cc.sessions": 100,
                          "dm.sets.max": 1024, "cc.sets.max": 1024, "cc.sessions.first_queries_concurrent": 50,
                          "dm.ix.reported": 150, "dm.err_at_step.sessions": 64, "dm.boundary_index.sessions": 12,
                          "dm.boundary_index.one_past": 12, "dm.mixed_kind.queries": 150, "cc.generation_overlap": 40,
                          "cc.gomaxprocs.1": 20, "cc.gomaxprocs.16": 20,
                          "ab.scripts": 4000, "ab.script.with_truncate": 500}}
PLAIN = set(b"abcdefghijklmnopqrstuvwxyzABCDEFGHIJKLMNOPQRSTUVWXYZ0123456789-_.")


def canon(line):
    """What the property speaks about: answers, not layouts, not error wording.
    ` | …` = diagnostics (white-box layout dumps); `err:<class>` = some build error; a constructor that
    panics and one that returns an error both REFUSE the input (NewTrie on an empty key list)."""
    line = line.split(" | ")[0]
    if line.startswith("err:") or line.startswith("builderr:") or line in ("err", "panic"):
        return "err"
    return line


STRICT_BYTES = {"d": set(b"abcdefghijklmnopqrstuvwxyzABCDEFGHIJKLMNOPQRSTUVWXYZ0123456789-_.^"),
                "ac": set(b"abcdefghijklmnopqrstuvwxyzABCDEFGHIJKLMNOPQRSTUVWXYZ0123456789-_.^$"),
                "c": set(b"01")}


def alpha_same(op, im, mo):
    """valid-byte tables: strict on the bytes a pattern / name of the property can contain (plus the
    marker bytes), other bytes (e.g. adding '*' to the trie alphabet: stored-but-dead) are a note"""
    try:
        which = op.split()[1]
        vi = set(bytes.fromhex(im.split(" | ")[0].split("=")[1]))
        vm = set(bytes.fromhex(mo.split(" | ")[0].split("=")[1]))
        st = STRICT_BYTES.get(which, set(range(256)))
        return (vi & st) == (vm & st)
    except Exception:
        return False


def misuse_lines(opl):
    """API misuse dae never performs (a query before Build, a second Build, AddSet after Build, anything
    after a failed Build is retried): the property is silent; differences there are diagnostics."""
    res = set()
    builds, mis = 0, False
    for i, o in enumerate(opl):
        w = o.split(" ", 1)[0]
        if w == "new":
            builds, mis = 0, False
        elif w == "build":
            if builds >= 1:
                mis = True
            builds += 1
        elif w == "add" and builds >= 1:
            mis = True
        elif w == "q" and builds == 0:
            res.add(i)
        if mis:
            res.add(i)
    return res


def plain_query(op):
    w = op.split()
    if len(w) < 2 or w[0] != "q":
        return True
    if w[1] == "-":
        return True
    try:
        return all(b in PLAIN for b in bytes.fromhex(w[1]))
    except ValueError:
        return False


STREAMS = [
    # (package dir, harness file, binary name, test name, stream label)
    ("common/bitlist", "common/bitlist/c11_test.go", "c11bl", "TestVerifC11BitList", "c11bl"),
    ("pkg/trie", "pkg/trie/c11_test.go", "c11trie", "TestVerifC11Trie", "c11trie"),
    ("component/routing/domain_matcher", "component/routing/domain_matcher/c11_test.go", "c11dm",
     "TestVerifC11Matcher", "c11dm"),
]


def _big_stack():
    """c11drv gets a large stack (the model recurses over 10^5-element key lists)."""
    try:
        resource.setrlimit(resource.RLIMIT_STACK, (resource.RLIM_INFINITY, resource.RLIM_INFINITY))
    except (ValueError, OSError):
        soft, hard = resource.getrlimit(resource.RLIMIT_STACK)
        resource.setrlimit(resource.RLIMIT_STACK, (hard, hard))


UNIT_STARTS = ("new", "ac", "alpha", "bl", "blx", "ab", "trie", "trieall", "cc")
SHARDS = 4


def shard_units(lines):
    """Split an op stream into independent units: a matcher session (`new` … up to the next unit start) or a
    single stateless line.  The driver's state is reset by `new`, so units can be evaluated by separate
    driver processes; the outputs are put back in stream order."""
    units, cur = [], None
    for i, l in enumerate(lines):
        w = l.split(" ", 1)[0]
        if cur is None or w in UNIT_STARTS:
            cur = [i, i + 1, 0]
            units.append(cur)
        cur[1] = i + 1
        cur[2] += len(l) + 50
    return units


def run_driver(ctx, ops, out):
    """Evaluate the op file with up to SHARDS concurrent c11drv processes; write the model answers to `out`
    in stream order.  False = a driver did not finish (infrastructure)."""
    binp = os.path.join(LEAN, ".lake", "build", "bin", "c11drv")
    raw = open(ops, "rb").read().split(b"\n")
    if raw and raw[-1] == b"":
        raw.pop()
    lines = [l.decode("utf-8", "replace") for l in raw]
    units = shard_units(lines)
    k = max(1, min(SHARDS, len(units)))
    loads = [0] * k
    assign = [[] for _ in range(k)]
    for u in sorted(units, key=lambda u: -u[2]):          # heaviest first, to the least loaded shard
        j = loads.index(min(loads))
        loads[j] += u[2]
        assign[j].append(u)
    results = [None] * len(lines)
    ok = [True] * k
    t0 = time.time()

    def one(j):
        us = sorted(assign[j])
        idx = [i for u in us for i in range(u[0], u[1])]
        data = b"".join(raw[i] + b"\n" for i in idx)
        try:
            p = subprocess.run([binp], input=data, stdout=subprocess.PIPE, stderr=subprocess.PIPE, timeout=3000,
                               preexec_fn=_big_stack)
        except subprocess.TimeoutExpired:
            ok[j] = False
            return
        outl = p.stdout.split(b"\n")
        if outl and outl[-1] == b"":
            outl.pop()
        if p.returncode != 0 or len(outl) != len(idx):
            ok[j] = False
            ctx.log.write(f"c11drv shard {j} of {ops}: rc={p.returncode} lines={len(outl)}/{len(idx)} {p.stderr.decode()[-500:]}\n")
            return
        for i, o in zip(idx, outl):
            results[i] = o
    ths = [threading.Thread(target=one, args=(j,)) for j in range(k)]
    for t in ths:
        t.start()
    for t in ths:
        t.join()
    ctx.log.write(f"$ c11drv < {ops} [{time.time()-t0:.1f}s shards={k} units={len(units)} ok={all(ok)}]\n")
    if not all(ok):
        return False
    with open(out, "wb") as f:
        for o in results:
            f.write((o or b"") + b"\n")
    return True


def run(ctx):
    ctx.trusted += [
        "Go regexp is an oracle: the harness reports which regex patterns match lower(trimDot(name)); the model only combines the answers (the string the regex is applied to and the regex flavour are tied by the harness: Perl-only syntax, sentinel- and trailing-dot-sensitive regexes in the pool)",
        "ahocorasick-domain library: its automaton (trie, fail / suffix links, fails[] closure, the Contains loop) is modelled with nodes identified by their path (node.b) and PROVED equal to substring search for the non-empty dictionary words (ac_contains_iff_infix); trusted: that the pointer/array representation implements that model (tied on every keyword query and by a direct stream on NewMatcher/Contains with up to 10^4 overlapping keywords) and that bytes outside its table read as 'a'",
        "strings.ToLower / TrimSuffix on ASCII names (modelled bytewise); non-ASCII names are outside the property's quantifier",
        "sort.Strings + common.Deduplicate = the sorted list of distinct keys (modelled as mergeSort + adjacent dedup; proved sorted/duplicate-free in Lean; tied up to 2*10^5 keys with every key probed)",
        "anybuffer.Buffer is modelled as a growable zero-initialised uint16 array (its Extend path is exercised by the bitlist tie)",
        "goroutine fan-out inside Build and concurrent MatchDomainBitmap calls are not modelled (the model is a pure function); a -race stream compares 8-goroutine replays with the sequential answers and checks that no set is lost by Build",
    ]
    # the Go side does not depend on the Lean side: build the four test binaries and run the harnesses in
    # background threads while the proofs are checked; the drivers start once c11drv is built
    proved = threading.Event()
    dm_built = threading.Event()
    dm_bin = {}
    streams = list(STREAMS) + [("component/routing/domain_matcher", "component/routing/domain_matcher/c11_test.go",
                                "c11cc", "TestVerifC11Concurrent", "c11cc")]

    def produce(pkg, hf, binname, test, label):
        res = {"label": label, "raced": False, "rc": 2, "out": "", "model_ok": None, "built": False}
        try:
            if label == "c11cc":
                # same overlay as c11dm, built with the race detector (falls back to the plain binary if -race
                # cannot link here)
                ov = os.path.join(ctx.out, "overlay_c11dm.json")
                for _ in range(3000):
                    if os.path.exists(ov) or dm_built.is_set():
                        break
                    time.sleep(0.1)
                time.sleep(0.3)
                rbin = os.path.join(ctx.bindir, binname + ".race.test")
                if os.path.exists(rbin):
                    os.unlink(rbin)
                cmd = ["go", "test", "-c", "-race", "-vet=off", "-overlay", ov, "-o", rbin, "./" + pkg]
                rc0, out0, dt0 = sh(cmd, cwd=REPO, env=go_env(), timeout=3000)
                ctx.log.write(f"$ {' '.join(cmd)} [{dt0:.1f}s rc={rc0}]\n{out0[-2000:]}\n")
                if rc0 == 0 and os.path.exists(rbin):
                    binp, res["raced"] = rbin, True
                else:
                    dm_built.wait(3000)
                    binp = dm_bin.get("bin")
                    res["note"] = "NOTE: -race build unavailable here, concurrency stream runs without the race detector"
            else:
                binp = ctx.go_test_build(pkg, [hf], binname, tags="")
                if label == "c11dm":
                    dm_bin["bin"] = binp
                    dm_built.set()
            if not binp:
                return res
            res["built"] = True
            res["rc"], res["out"] = ctx.run_harness(binp, test)
            ops, model = (os.path.join(ctx.out, label + "." + e) for e in ("ops", "model"))
            if os.path.exists(ops):
                proved.wait(6000)
                if os.path.exists(os.path.join(LEAN, ".lake", "build", "bin", "c11drv")):
                    res["model_ok"] = run_driver(ctx, ops, model)
        except Exception as e:      # reported by the main thread as an infrastructure error
            res["exc"] = repr(e)
        finally:
            if label == "c11dm":
                dm_built.set()
        return res

    pool = ThreadPoolExecutor(max_workers=4)
    futs = [pool.submit(produce, *st) for st in streams]
    try:
        ctx.prove(["DaeVerif.C11.Props"], ["DaeVerif.C11.Props"], ["DaeVerif/C11/*.lean"], extra_targets=["c11drv"])
        ctx.required_theorems(REQUIRED)
    finally:
        proved.set()

    total = 0
    distinct = set()
    dist = {}
    samples = []
    diagnostics = {"layout_differs": 0, "error_class_differs": 0, "outside_alphabet_differs": 0}
    for (pkg, hf, binname, test, label), fut in zip(streams, futs):
        res = fut.result()
        if res.get("exc"):
            ctx.say("HARNESS-FAILED", label, res["exc"])
            return 2
        if not res["built"]:
            return 2
        if res.get("note"):
            ctx.say(res["note"])
        raced, rc, out = res["raced"], res["rc"], res["out"]
        ops, impl, model = (os.path.join(ctx.out, label + "." + e) for e in ("ops", "impl", "model"))
        if "DATA RACE" in out:
            blk = out[out.index("DATA RACE") - 20:][:3500]
            where = [l.strip() for l in blk.split("\n") if "/dae/" in l or "wt-" in l or "seedwt" in l][:8]
            ctx.report(f"{label}: data race in the matcher under concurrent use (race detector): {'; '.join(where[:2])[:240]}",
                       {"stream": label, "race_report": blk, "frames": where,
                        "replay": "VERIF_SEED=%d ./check C11 %s" % (ctx.seed, ctx.tier)})
            rc = 0 if os.path.exists(ops) else rc
        # infrastructure, never a violation: memory exhaustion, a killed process, Go's own -test.timeout
        oom = any(x in out for x in ("out of memory", "cannot allocate memory", "signal: killed", "test timed out"))
        if rc != 0 and not oom and ("panic:" in out or "fatal error:" in out) and os.path.exists(ops):
            # the real code panicked where the harness cannot recover (a goroutine started by Build):
            # that is a failure of the property, not of the infrastructure.  The session that was being
            # built is the tail of the ops file (flushed before every Build).
            opl = read_lines(ops)
            start = max([i for i, l in enumerate(opl) if l.startswith("new ")] or [0])
            sess = [l if len(l) < 4000 else l[:4000] + "…" for l in opl[start:]][-60:]
            first = next((l for l in out.split("\n") if l.startswith(("panic:", "fatal error:"))), "panic")
            where = [l.strip() for l in out.split("\n") if "/dae/" in l or "wt-" in l][:6]
            ctx.report(f"{label}: the real code crashed the process while building the session below: {first[:200]}",
                       {"stream": label, "panic": first, "stack": where, "session": sess,
                        "replay": "VERIF_SEED=%d ./check C11 %s" % (ctx.seed, ctx.tier)})
            total += len(opl)
            continue
        if rc != 0 or not os.path.exists(ops):
            ctx.say("HARNESS-FAILED", label, out[-3000:])
            return 2
        if not res["model_ok"] and ctx.proof_failures:
            # no (fresh) driver because the Lean build is broken: the verdict is the broken proof
            total += len(read_lines(ops))
            continue
        if not res["model_ok"]:
            # a killed / crashed driver (OOM, stack limit) is an infrastructure error, not a broken proof
            ctx.say(f"HARNESS-FAILED model driver c11drv did not finish on stream {label} (killed / out of memory / stack limit?)")
            return 2
        mism_all = ctx.diff_streams(ops, impl, model, label, canon=canon)
        opl, iml, mol = read_lines(ops), read_lines(impl), read_lines(model)
        total += len(opl)
        mism = []
        misuse = misuse_lines(opl) if label == "c11dm" else set()
        for m in mism_all:
            # names outside the property's alphabet: the property is silent, a difference is a note
            if label == "c11dm" and m[0] > 0 and not plain_query(m[1]) and " idx=" not in m[3] and " spec=" not in m[3]:
                diagnostics["outside_alphabet_differs"] += 1
                continue
            if m[0] > 0 and (m[0] - 1) in misuse and " idx=" not in m[3] and " spec=" not in m[3]:
                diagnostics["api_misuse_differs"] = diagnostics.get("api_misuse_differs", 0) + 1
                continue
            if m[0] > 0 and m[1].startswith("ix "):
                # white-box: the index lists Build left behind, as the harness read them by reflection.  Only
                # answers are compared: a matcher that keeps its bookkeeping differently is not wrong
                diagnostics["index_lists_differ"] = diagnostics.get("index_lists_differ", 0) + 1
                continue
            if m[0] > 0 and m[1].startswith("blx "):
                diagnostics["bitlist_outside_domain_differs"] = diagnostics.get("bitlist_outside_domain_differs", 0) + 1
                continue
            if m[0] > 0 and m[1].startswith("alpha ") and alpha_same(m[1], m[2], m[3]):
                diagnostics["alphabet_dead_byte_differs"] = diagnostics.get("alphabet_dead_byte_differs", 0) + 1
                continue
            mism.append(m)
        for i, (o, im, mo) in enumerate(zip(opl, iml, mol)):
            if canon(im) == canon(mo) and im != mo:
                if im.startswith("err") or im == "panic" or mo == "panic":
                    diagnostics["error_class_differs"] += 1
                elif o.startswith("alpha "):
                    # Size() != number of valid bytes: the real table was built from a byte list with a
                    # repeated byte, for which the model's first-occurrence code is not Go's last-write code
                    ni = im.split(" | ")[1].split()[0]
                    nm = mo.split(" | ")[1].split()[0]
                    if ni != nm:
                        diagnostics["alphabet_size_differs"] = diagnostics.get("alphabet_size_differs", 0) + 1
                elif "unavailable" not in im:
                    diagnostics["layout_differs"] += 1
            # model-internal disagreement (packed trie vs trie contract vs documented meaning vs word
            # encoding) is a violation even when the implementation agrees with the packed path
            if "!spec" in mo or " spec=" in mo or " doc=" in mo or " idx=" in mo:
                if not any(m[0] == i + 1 for m in mism):
                    mism.append((i + 1, o, im, mo))
            if o.startswith(("q ", "trie ", "bl ", "ab ", "ac ", "cc ", "trieall", "qall")):
                distinct.add(o if len(o) < 300 else hash(o))
        ctx.cov["streams"][label]["mismatches"] = len(mism)
        for ln, op, im, mo in mism[:6]:
            sess = ""
            if label == "c11dm" and ln > 0 and any(l.startswith("new ") for l in opl[:ln]):
                # replay context: the session lines since the last `new`
                start = max(i for i in range(ln) if opl[i].startswith("new "))
                ctxl = [l for l in opl[start:ln - 1] if not l.startswith("q ")]
                sess = [l if len(l) < 2000 else l[:2000] + "…" for l in ctxl][-40:]
            ctx.report(f"{label}: implementation differs from proved model at line {ln}: impl `{im[:200]}` model `{mo[:200]}`",
                       {"stream": label, "line": ln, "op": op[:4000], "impl": im[:2000], "model": mo[:2000],
                        "session": sess, "replay": "VERIF_SEED=%d ./check C11 %s" % (ctx.seed, ctx.tier)})
        sp = os.path.join(ctx.out, label + ".stats.json")
        if os.path.exists(sp):
            st = json.load(open(sp))
            dist.update(st["counters"])
            samples += [s if len(s) < 300 else s[:300] + "…" for s in (st.get("samples") or [])[:3]]
        if label == "c11cc":
            dist["cc.race_detector"] = 1 if raced else 0
    for k, v in diagnostics.items():
        if v:
            ctx.say(f"NOTE (diagnostic, not a violation): {k} on {v} line(s)")
    ctx.cov["diagnostics"] = diagnostics
    ctx.samples = samples
    ctx.cov["input_distribution"] = dist
    # the scale the notes claim must really have been generated
    for k, need in MIN_SCALE[ctx.tier if ctx.tier in MIN_SCALE else "quick"].items():
        if dist.get(k, 0) < need and not ctx.violations:
            ctx.say(f"HARNESS-FAILED generator scale: {k}={dist.get(k, 0)} < {need}")
            return 2
    ctx.assumptions = [
        "queried names are ASCII; names inside the property's alphabet (letters, digits, '-', '_', '.') are compared with the packed-trie model AND the documented meaning (docMatches); for other names a difference is only a diagnostic note",
        "largest generated sizes (measured, see input_distribution): trie.keys.max keys in one trie, dm.set.size.max patterns in one AddSet call, dm.name.len.max bytes / dm.name.labels.max labels in a queried name, ac.keywords.max keywords in one automaton; bit indices spread over -3..1026 with tables of 0..1024 bits",
        "white-box layout dumps (bit-list buffers, trie arrays) and error classes are diagnostics: only answers are compared",
    ]
    return ctx.finish(
        rule="one evaluation = one op line: a bit-list script with full read-back (`bl`), a NewTrie+HasPrefix batch (`trie`, `trieall` probes every key), "
             "one AhocorasickSlimtrie session line (new/add/build/q/qall; q compares the raw []uint32 words), one Aho-Corasick library case (`ac`), "
             "or one concurrent replay of a session under -race (`cc`); distinct_nontrivial counts distinct bl/trie/q/ac/cc lines",
        evaluations=total, distinct=len(distinct))
