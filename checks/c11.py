"""C11 — domain patterns match exactly the names their kind describes.

prove : DaeVerif.C11.Props (spec-level theorems about AddSet normalisation / suffix-trie query,
        set independence, bit list, rank/select, LOUDS navigation)
tie   : four streams from three overlay harness files call the real code (common/bitlist, pkg/trie,
        domain_matcher.AhocorasickSlimtrie incl. the Aho-Corasick library directly, and a -race replay)
        and the Lean driver c11drv evaluates the same lines.  Only answers are compared; layout dumps,
        error classes, API-misuse ops and inputs outside the property's domain are diagnostics.
"""
import json, os, resource, subprocess, time
from verifkit import read_lines, LEAN, REPO, CACHE, go_env, sh

REQUIRED = [
    "DaeVerif.C11.Props.full_matches_identical_only",
    "DaeVerif.C11.Props.suffix_matches_name_and_subnames",
    "DaeVerif.C11.Props.dot_suffix_matches_proper_subnames_only",
    "DaeVerif.C11.Props.keyword_matches_containing_names",
    "DaeVerif.C11.Props.regex_matches_per_oracle",
    "DaeVerif.C11.Props.set_matches_iff_some_pattern",
    "DaeVerif.C11.Props.sets_independent",
    "DaeVerif.C11.Props.skip_invalid_harmless",
    "DaeVerif.C11.Props.build_fails_only_as_documented",
    "DaeVerif.C11.Props.trie_hasPrefix_eq_spec",
    "DaeVerif.C11.Props.bitlist_get_append",
    "DaeVerif.C11.Props.bitlist_get_set",
    "DaeVerif.C11.Props.countZeros_is_rank0",
    "DaeVerif.C11.Props.selectIthOne_is_select1",
    "DaeVerif.C11.Props.domain_matcher_correct",
    "DaeVerif.C11.Props.matcher_trie_path_eq_contract",
    "DaeVerif.C11.Props.normName_case_insensitive",
    "DaeVerif.C11.Props.normName_trailing_dot",
    "DaeVerif.C11.Props.domain_matcher_bitmap_correct",
    "DaeVerif.C11.Props.negative_index_is_out_of_range",
    "DaeVerif.C11.Props.ac_contains_iff_infix",
    "DaeVerif.C11.Props.alphabets_nodup",
    "DaeVerif.C11.Props.keyword_with_marks_is_skipped",
    "DaeVerif.C11.Props.empty_keyword_never_matches",
    "DaeVerif.C11.Props.replay_is_fold_of_addSetGo",
    "DaeVerif.C11.Props.domain_matcher_correct_any_case",
    "DaeVerif.C11.Props.domain_matcher_bitmap_correct_any_case",
    "DaeVerif.C11.Props.full_pattern_any_case",
    "DaeVerif.C11.Props.bitlist_words_ok",
]

# generator scale the evidence may claim (the check refuses to finish below these)
# (>= 65536 trie nodes: from there on the rank cache uses units wider than 16 bits — the multi-word
#  CompactBitList.Get path is then reached through the matcher, which is what catches seed C11-e in quick)
# every floor is met by a DETERMINISTIC case of the generator (forced sizes), never by luck of the seed
MIN_SCALE = {"quick": {"trie.keys.max": 20000, "trie.nodes.max": 65536, "dm.trie.nodes.max": 65536,
                       "dm.set.size.max": 10000, "dm.name.len.max": 4000, "ac.keywords.max": 1500, "cc.sessions": 20,
                       "dm.sets.max": 1024, "cc.sets.max": 1024, "cc.sessions.first_queries_concurrent": 10},
             "thorough": {"trie.keys.max": 200000, "trie.nodes.max": 65536, "dm.trie.nodes.max": 65536,
                          "dm.set.size.max": 100000, "dm.name.len.max": 4000, "ac.keywords.max": 10000, "cc.sessions": 100,
                          "dm.sets.max": 1024, "cc.sets.max": 1024, "cc.sessions.first_queries_concurrent": 50}}
PLAIN = set(b"abcdefghijklmnopqrstuvwxyzABCDEFGHIJKLMNOPQRSTUVWXYZ0123456789-_.")


def canon(line):
    """What the property speaks about: answers, not layouts, not error wording.
    ` | …` = diagnostics (white-box layout dumps); `err:<class>` = some build error; a constructor that
    panics and one that returns an error both REFUSE the input (NewTrie on an empty key list)."""
    line = line.split(" | ")[0]
    if line.startswith("err:") or line.startswith("builderr:") or line in ("err", "panic"):
        return "err"
    return line


STRICT_BYTES = {"d": set(b"abcdefghijklmnopqrstuvwxyzABCDEFGHIJKLMNOPQRSTUVWXYZ0123456789-_.^"),
                "ac": set(b"abcdefghijklmnopqrstuvwxyzABCDEFGHIJKLMNOPQRSTUVWXYZ0123456789-_.^$"),
                "c": set(b"01")}


def alpha_same(op, im, mo):
    """valid-byte tables: strict on the bytes a pattern / name of the property can contain (plus the
    marker bytes), other bytes (e.g. adding '*' to the trie alphabet: stored-but-dead) are a note"""
    try:
        which = op.split()[1]
        vi = set(bytes.fromhex(im.split(" | ")[0].split("=")[1]))
        vm = set(bytes.fromhex(mo.split(" | ")[0].split("=")[1]))
        st = STRICT_BYTES.get(which, set(range(256)))
        return (vi & st) == (vm & st)
    except Exception:
        return False


def misuse_lines(opl):
    """API misuse dae never performs (a query before Build, a second Build, AddSet after Build, anything
    after a failed Build is retried): the property is silent; differences there are diagnostics."""
    res = set()
    builds, mis = 0, False
    for i, o in enumerate(opl):
        w = o.split(" ", 1)[0]
        if w == "new":
            builds, mis = 0, False
        elif w == "build":
            if builds >= 1:
                mis = True
            builds += 1
        elif w == "add" and builds >= 1:
            mis = True
        elif w == "q" and builds == 0:
            res.add(i)
        if mis:
            res.add(i)
    return res


def plain_query(op):
    w = op.split()
    if len(w) < 2 or w[0] != "q":
        return True
    if w[1] == "-":
        return True
    try:
        return all(b in PLAIN for b in bytes.fromhex(w[1]))
    except ValueError:
        return False


STREAMS = [
    # (package dir, harness file, binary name, test name, stream label)
    ("common/bitlist", "common/bitlist/c11_test.go", "c11bl", "TestVerifC11BitList", "c11bl"),
    ("pkg/trie", "pkg/trie/c11_test.go", "c11trie", "TestVerifC11Trie", "c11trie"),
    ("component/routing/domain_matcher", "component/routing/domain_matcher/c11_test.go", "c11dm",
     "TestVerifC11Matcher", "c11dm"),
]


def run_driver(ctx, ops, out):
    """c11drv with a large stack (the model recurses over 10^5-element key lists)."""
    binp = os.path.join(LEAN, ".lake", "build", "bin", "c11drv")

    def big_stack():
        try:
            resource.setrlimit(resource.RLIMIT_STACK, (resource.RLIM_INFINITY, resource.RLIM_INFINITY))
        except (ValueError, OSError):
            soft, hard = resource.getrlimit(resource.RLIMIT_STACK)
            resource.setrlimit(resource.RLIMIT_STACK, (hard, hard))
    t0 = time.time()
    with open(ops, "rb") as fin, open(out, "wb") as fout:
        p = subprocess.run([binp], stdin=fin, stdout=fout, stderr=subprocess.PIPE, timeout=3000,
                           preexec_fn=big_stack)
    ctx.log.write(f"$ c11drv < {ops} [{time.time()-t0:.1f}s rc={p.returncode}] {p.stderr.decode()[-500:]}\n")
    return p.returncode == 0


def run(ctx):
    ctx.trusted += [
        "Go regexp is an oracle: the harness reports which regex patterns match lower(trimDot(name)); the model only combines the answers (the string the regex is applied to and the regex flavour are tied by the harness: Perl-only syntax, sentinel- and trailing-dot-sensitive regexes in the pool)",
        "ahocorasick-domain library: its automaton (trie, fail / suffix links, fails[] closure, the Contains loop) is modelled with nodes identified by their path (node.b) and PROVED equal to substring search for the non-empty dictionary words (ac_contains_iff_infix); trusted: that the pointer/array representation implements that model (tied on every keyword query and by a direct stream on NewMatcher/Contains with up to 10^4 overlapping keywords) and that bytes outside its table read as 'a'",
        "strings.ToLower / TrimSuffix on ASCII names (modelled bytewise); non-ASCII names are outside the property's quantifier",
        "sort.Strings + common.Deduplicate = the sorted list of distinct keys (modelled as mergeSort + adjacent dedup; proved sorted/duplicate-free in Lean; tied up to 2*10^5 keys with every key probed)",
        "anybuffer.Buffer is modelled as a growable zero-initialised uint16 array (its Extend path is exercised by the bitlist tie)",
        "goroutine fan-out inside Build and concurrent MatchDomainBitmap calls are not modelled (the model is a pure function); a -race stream compares 8-goroutine replays with the sequential answers and checks that no set is lost by Build",
    ]
    ctx.prove(["DaeVerif.C11.Props"], ["DaeVerif.C11.Props"], ["DaeVerif/C11/*.lean"], extra_targets=["c11drv"])
    ctx.required_theorems(REQUIRED)

    total = 0
    distinct = set()
    dist = {}
    samples = []
    diagnostics = {"layout_differs": 0, "error_class_differs": 0, "outside_alphabet_differs": 0}
    streams = list(STREAMS) + [("component/routing/domain_matcher", "component/routing/domain_matcher/c11_test.go",
                                "c11cc", "TestVerifC11Concurrent", "c11cc")]
    for pkg, hf, binname, test, label in streams:
        raced = False
        if label == "c11cc":
            binp = os.path.join(ctx.bindir, "c11dm.test")   # same harness file: the plain binary has this test too
        else:
            binp = ctx.go_test_build(pkg, [hf], binname, tags="")
        if not binp:
            return 2
        if label == "c11cc":
            # same overlay, built with the race detector (falls back to the plain binary if -race cannot link here)
            ov = os.path.join(ctx.out, "overlay_c11dm.json")
            rbin = os.path.join(ctx.bindir, binname + ".race.test")
            if os.path.exists(rbin):
                os.unlink(rbin)
            cmd = ["go", "test", "-c", "-race", "-vet=off", "-overlay", ov, "-o", rbin, "./" + pkg]
            rc0, out0, dt0 = sh(cmd, cwd=REPO, env=go_env(), timeout=3000)
            ctx.log.write(f"$ {' '.join(cmd)} [{dt0:.1f}s rc={rc0}]\n{out0[-2000:]}\n")
            if rc0 == 0 and os.path.exists(rbin):
                binp, raced = rbin, True
            else:
                ctx.say("NOTE: -race build unavailable here, concurrency stream runs without the race detector")
        rc, out = ctx.run_harness(binp, test)
        ops, impl, model = (os.path.join(ctx.out, label + "." + e) for e in ("ops", "impl", "model"))
        if "DATA RACE" in out:
            blk = out[out.index("DATA RACE") - 20:][:3500]
            where = [l.strip() for l in blk.split("\n") if "/dae/" in l or "wt-" in l or "seedwt" in l][:8]
            ctx.report(f"{label}: data race in the matcher under concurrent use (race detector): {'; '.join(where[:2])[:240]}",
                       {"stream": label, "race_report": blk, "frames": where,
                        "replay": "VERIF_SEED=%d ./check C11 %s" % (ctx.seed, ctx.tier)})
            rc = 0 if os.path.exists(ops) else rc
        # infrastructure, never a violation: memory exhaustion, a killed process, Go's own -test.timeout
        oom = any(x in out for x in ("out of memory", "cannot allocate memory", "signal: killed", "test timed out"))
        if rc != 0 and not oom and ("panic:" in out or "fatal error:" in out) and os.path.exists(ops):
            # the real code panicked where the harness cannot recover (a goroutine started by Build):
            # that is a failure of the property, not of the infrastructure.  The session that was being
            # built is the tail of the ops file (flushed before every Build).
            opl = read_lines(ops)
            start = max([i for i, l in enumerate(opl) if l.startswith("new ")] or [0])
            sess = [l if len(l) < 4000 else l[:4000] + "…" for l in opl[start:]][-60:]
            first = next((l for l in out.split("\n") if l.startswith(("panic:", "fatal error:"))), "panic")
            where = [l.strip() for l in out.split("\n") if "/dae/" in l or "wt-" in l][:6]
            ctx.report(f"{label}: the real code crashed the process while building the session below: {first[:200]}",
                       {"stream": label, "panic": first, "stack": where, "session": sess,
                        "replay": "VERIF_SEED=%d ./check C11 %s" % (ctx.seed, ctx.tier)})
            total += len(opl)
            continue
        if rc != 0 or not os.path.exists(ops):
            ctx.say("HARNESS-FAILED", label, out[-3000:])
            return 2
        if not run_driver(ctx, ops, model):
            # a killed / crashed driver (OOM, stack limit) is an infrastructure error, not a broken proof
            ctx.say(f"HARNESS-FAILED model driver c11drv did not finish on stream {label} (killed / out of memory / stack limit?)")
            return 2
        mism_all = ctx.diff_streams(ops, impl, model, label, canon=canon)
        opl, iml, mol = read_lines(ops), read_lines(impl), read_lines(model)
        total += len(opl)
        mism = []
        misuse = misuse_lines(opl) if label == "c11dm" else set()
        for m in mism_all:
            # names outside the property's alphabet: the property is silent, a difference is a note
            if label == "c11dm" and m[0] > 0 and not plain_query(m[1]) and " idx=" not in m[3] and " spec=" not in m[3]:
                diagnostics["outside_alphabet_differs"] += 1
                continue
            if m[0] > 0 and (m[0] - 1) in misuse and " idx=" not in m[3] and " spec=" not in m[3]:
                diagnostics["api_misuse_differs"] = diagnostics.get("api_misuse_differs", 0) + 1
                continue
            if m[0] > 0 and m[1].startswith("blx "):
                diagnostics["bitlist_outside_domain_differs"] = diagnostics.get("bitlist_outside_domain_differs", 0) + 1
                continue
            if m[0] > 0 and m[1].startswith("alpha ") and alpha_same(m[1], m[2], m[3]):
                diagnostics["alphabet_dead_byte_differs"] = diagnostics.get("alphabet_dead_byte_differs", 0) + 1
                continue
            mism.append(m)
        for i, (o, im, mo) in enumerate(zip(opl, iml, mol)):
            if canon(im) == canon(mo) and im != mo:
                if im.startswith("err") or im == "panic" or mo == "panic":
                    diagnostics["error_class_differs"] += 1
                elif o.startswith("alpha "):
                    # Size() != number of valid bytes: the real table was built from a byte list with a
                    # repeated byte, for which the model's first-occurrence code is not Go's last-write code
                    ni = im.split(" | ")[1].split()[0]
                    nm = mo.split(" | ")[1].split()[0]
                    if ni != nm:
                        diagnostics["alphabet_size_differs"] = diagnostics.get("alphabet_size_differs", 0) + 1
                elif "unavailable" not in im:
                    diagnostics["layout_differs"] += 1
            # model-internal disagreement (packed trie vs trie contract vs documented meaning vs word
            # encoding) is a violation even when the implementation agrees with the packed path
            if "!spec" in mo or " spec=" in mo or " doc=" in mo or " idx=" in mo:
                if not any(m[0] == i + 1 for m in mism):
                    mism.append((i + 1, o, im, mo))
            if o.startswith(("q ", "trie ", "bl ", "ac ", "cc ", "trieall", "qall")):
                distinct.add(o if len(o) < 300 else hash(o))
        ctx.cov["streams"][label]["mismatches"] = len(mism)
        for ln, op, im, mo in mism[:6]:
            sess = ""
            if label == "c11dm" and ln > 0 and any(l.startswith("new ") for l in opl[:ln]):
                # replay context: the session lines since the last `new`
                start = max(i for i in range(ln) if opl[i].startswith("new "))
                ctxl = [l for l in opl[start:ln - 1] if not l.startswith("q ")]
                sess = [l if len(l) < 2000 else l[:2000] + "…" for l in ctxl][-40:]
            ctx.report(f"{label}: implementation differs from proved model at line {ln}: impl `{im[:200]}` model `{mo[:200]}`",
                       {"stream": label, "line": ln, "op": op[:4000], "impl": im[:2000], "model": mo[:2000],
                        "session": sess, "replay": "VERIF_SEED=%d ./check C11 %s" % (ctx.seed, ctx.tier)})
        sp = os.path.join(ctx.out, label + ".stats.json")
        if os.path.exists(sp):
            st = json.load(open(sp))
            dist.update(st["counters"])
            samples += [s if len(s) < 300 else s[:300] + "…" for s in (st.get("samples") or [])[:3]]
        if label == "c11cc":
            dist["cc.race_detector"] = 1 if raced else 0
    for k, v in diagnostics.items():
        if v:
            ctx.say(f"NOTE (diagnostic, not a violation): {k} on {v} line(s)")
    ctx.cov["diagnostics"] = diagnostics
    ctx.samples = samples
    ctx.cov["input_distribution"] = dist
    # the scale the notes claim must really have been generated
    for k, need in MIN_SCALE[ctx.tier if ctx.tier in MIN_SCALE else "quick"].items():
        if dist.get(k, 0) < need and not ctx.violations:
            ctx.say(f"HARNESS-FAILED generator scale: {k}={dist.get(k, 0)} < {need}")
            return 2
    ctx.assumptions = [
        "queried names are ASCII; names inside the property's alphabet (letters, digits, '-', '_', '.') are compared with the packed-trie model AND the documented meaning (docMatches); for other names a difference is only a diagnostic note",
        "largest generated sizes (measured, see input_distribution): trie.keys.max keys in one trie, dm.set.size.max patterns in one AddSet call, dm.name.len.max bytes / dm.name.labels.max labels in a queried name, ac.keywords.max keywords in one automaton; bit indices spread over -3..1026 with tables of 0..1024 bits",
        "white-box layout dumps (bit-list buffers, trie arrays) and error classes are diagnostics: only answers are compared",
    ]
    return ctx.finish(
        rule="one evaluation = one op line: a bit-list script with full read-back (`bl`), a NewTrie+HasPrefix batch (`trie`, `trieall` probes every key), "
             "one AhocorasickSlimtrie session line (new/add/build/q/qall; q compares the raw []uint32 words), one Aho-Corasick library case (`ac`), "
             "or one concurrent replay of a session under -race (`cc`); distinct_nontrivial counts distinct bl/trie/q/ac/cc lines",
        evaluations=total, distinct=len(distinct))
