"""C11 — domain patterns match exactly the names their kind describes.

prove : DaeVerif.C11.Props (spec-level theorems about AddSet normalisation / suffix-trie query,
        set independence, bit list, rank/select, LOUDS navigation)
tie   : three overlay harnesses call the real code (common/bitlist, pkg/trie white-box,
        domain_matcher.AhocorasickSlimtrie) and the Lean driver c11drv evaluates the same lines.
"""
import json, os, resource, subprocess, time
from verifkit import read_lines, LEAN

REQUIRED = [
    "DaeVerif.C11.Props.full_matches_identical_only",
    "DaeVerif.C11.Props.suffix_matches_name_and_subnames",
    "DaeVerif.C11.Props.dot_suffix_matches_proper_subnames_only",
    "DaeVerif.C11.Props.keyword_matches_containing_names",
    "DaeVerif.C11.Props.regex_matches_per_oracle",
    "DaeVerif.C11.Props.set_matches_iff_some_pattern",
    "DaeVerif.C11.Props.sets_independent",
    "DaeVerif.C11.Props.skip_invalid_harmless",
    "DaeVerif.C11.Props.build_fails_only_as_documented",
    "DaeVerif.C11.Props.trie_hasPrefix_eq_spec",
    "DaeVerif.C11.Props.bitlist_get_append",
    "DaeVerif.C11.Props.bitlist_get_set",
    "DaeVerif.C11.Props.countZeros_is_rank0",
    "DaeVerif.C11.Props.selectIthOne_is_select1",
    "DaeVerif.C11.Props.domain_matcher_correct",
    "DaeVerif.C11.Props.matcher_trie_path_eq_contract",
    "DaeVerif.C11.Props.normName_case_insensitive",
    "DaeVerif.C11.Props.normName_trailing_dot",
]

STREAMS = [
    # (package dir, harness file, binary name, test name, stream label)
    ("common/bitlist", "common/bitlist/c11_test.go", "c11bl", "TestVerifC11BitList", "c11bl"),
    ("pkg/trie", "pkg/trie/c11_test.go", "c11trie", "TestVerifC11Trie", "c11trie"),
    ("component/routing/domain_matcher", "component/routing/domain_matcher/c11_test.go", "c11dm",
     "TestVerifC11Matcher", "c11dm"),
]


def run_driver(ctx, ops, out):
    """c11drv with a large stack (the model recurses over 10^5-element key lists)."""
    binp = os.path.join(LEAN, ".lake", "build", "bin", "c11drv")

    def big_stack():
        try:
            resource.setrlimit(resource.RLIMIT_STACK, (resource.RLIM_INFINITY, resource.RLIM_INFINITY))
        except (ValueError, OSError):
            soft, hard = resource.getrlimit(resource.RLIMIT_STACK)
            resource.setrlimit(resource.RLIMIT_STACK, (hard, hard))
    t0 = time.time()
    with open(ops, "rb") as fin, open(out, "wb") as fout:
        p = subprocess.run([binp], stdin=fin, stdout=fout, stderr=subprocess.PIPE, timeout=3000,
                           preexec_fn=big_stack)
    ctx.log.write(f"$ c11drv < {ops} [{time.time()-t0:.1f}s rc={p.returncode}] {p.stderr.decode()[-500:]}\n")
    return p.returncode == 0


def run(ctx):
    ctx.trusted += [
        "Go regexp is an oracle: the harness reports which regex patterns match lower(trimDot(name)); the model only combines the answers",
        "ahocorasick-domain library: Contains(in) = some non-empty dictionary word occurs in `in` after bytes outside its alphabet are read as 'a' (modelled as acContains, tied on every keyword query, not proved)",
        "strings.ToLower / TrimSuffix on ASCII names (modelled bytewise); non-ASCII names are outside the property's quantifier",
        "sort.Strings + common.Deduplicate = the sorted list of distinct keys (modelled as mergeSort + adjacent dedup; proved sorted/duplicate-free in Lean)",
        "anybuffer.Buffer is modelled as a growable zero-initialised uint16 array (its Extend path is exercised by the bitlist tie)",
        "sync/goroutine fan-out inside Build is not modelled (each set is built independently; only the collected result is compared)",
    ]
    ctx.prove(["DaeVerif.C11.Props"], ["DaeVerif.C11.Props"], ["DaeVerif/C11/*.lean"], extra_targets=["c11drv"])
    ctx.required_theorems(REQUIRED)

    total = 0
    distinct = set()
    dist = {}
    samples = []
    for pkg, hf, binname, test, label in STREAMS:
        binp = ctx.go_test_build(pkg, [hf], binname, tags="")
        if not binp:
            return 2
        rc, out = ctx.run_harness(binp, test)
        ops, impl, model = (os.path.join(ctx.out, label + "." + e) for e in ("ops", "impl", "model"))
        if rc != 0 and ("panic:" in out or "fatal error:" in out) and os.path.exists(ops):
            # the real code panicked where the harness cannot recover (a goroutine started by Build):
            # that is a failure of the property, not of the infrastructure.  The session that was being
            # built is the tail of the ops file (flushed before every Build).
            opl = read_lines(ops)
            start = max([i for i, l in enumerate(opl) if l.startswith("new ")] or [0])
            sess = [l if len(l) < 4000 else l[:4000] + "…" for l in opl[start:]][-60:]
            first = next((l for l in out.split("\n") if l.startswith(("panic:", "fatal error:"))), "panic")
            where = [l.strip() for l in out.split("\n") if "/dae/" in l or "wt-" in l][:6]
            ctx.report(f"{label}: the real code crashed the process while building the session below: {first[:200]}",
                       {"stream": label, "panic": first, "stack": where, "session": sess,
                        "replay": "VERIF_SEED=%d ./check C11 %s" % (ctx.seed, ctx.tier)})
            total += len(opl)
            continue
        if rc != 0 or not os.path.exists(ops):
            ctx.say("HARNESS-FAILED", label, out[-3000:])
            return 2
        if not run_driver(ctx, ops, model):
            ctx.proof_failures.append(f"model driver c11drv failed on stream {label}")
        mism = ctx.diff_streams(ops, impl, model, label)
        opl, iml, mol = read_lines(ops), read_lines(impl), read_lines(model)
        total += len(opl)
        # model-internal disagreement (bit-exact trie vs hasPrefixSpec vs documented meaning) is a
        # violation even when the implementation agrees with the bit-exact path
        for i, (o, mo) in enumerate(zip(opl, mol)):
            if "!spec" in mo or " spec=" in mo or " doc=" in mo:
                if not any(m[0] == i + 1 for m in mism):
                    mism.append((i + 1, o, iml[i] if i < len(iml) else "", mo))
            if o.startswith(("q ", "trie ", "bl ")):
                distinct.add(o if len(o) < 300 else hash(o))
        for ln, op, im, mo in mism[:6]:
            sess = ""
            if label == "c11dm" and ln > 0:
                # replay context: the session lines since the last `new`
                start = max(i for i in range(ln) if opl[i].startswith("new "))
                ctxl = [l for l in opl[start:ln - 1] if not l.startswith("q ")]
                sess = [l if len(l) < 2000 else l[:2000] + "…" for l in ctxl][-40:]
            ctx.report(f"{label}: implementation differs from proved model at line {ln}: impl `{im[:200]}` model `{mo[:200]}`",
                       {"stream": label, "line": ln, "op": op[:4000], "impl": im[:2000], "model": mo[:2000],
                        "session": sess, "replay": "VERIF_SEED=%d ./check C11 %s" % (ctx.seed, ctx.tier)})
        sp = os.path.join(ctx.out, label + ".stats.json")
        if os.path.exists(sp):
            st = json.load(open(sp))
            dist.update(st["counters"])
            samples += [s if len(s) < 300 else s[:300] + "…" for s in st["samples"][:4]]
    ctx.samples = samples
    ctx.cov["input_distribution"] = dist
    ctx.assumptions = [
        "queried names are ASCII; names inside the property's alphabet (letters, digits, '-', '_', '.') are additionally compared with the documented meaning (docMatches), other names only with the model of the code",
        "pattern-set sizes: quick up to ~2 000 patterns per set, thorough up to ~50 000 (geosite scale); bit indices spread over 0..1023",
    ]
    return ctx.finish(
        rule="one evaluation = one op line: a bit-list script (`bl`), a NewTrie+HasPrefix batch with white-box dump (`trie`), or one "
             "AhocorasickSlimtrie session line (new/add/build/q); distinct_nontrivial counts distinct bl/trie/q lines",
        evaluations=total, distinct=len(distinct))
