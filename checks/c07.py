"""C07 — DNS questions and answers are routed by the first matching DNS rule."""
import json, os
from verifkit import read_lines, VERIF

REQUIRED = ["DaeVerif.C07.Props." + n for n in (
    "builder_accepts_wellformed",
    "request_match_is_first_match",
    "first_match_is_first",
    "name_case_and_trailing_dot",
    "request_select_is_first_match",
    "response_match_is_first_match",
    "response_match_empty_name",
    "response_select_is_first_match",
    "response_addresses",
    "reject_beats_cache",
    "cache_hit_asks_nobody",
    "question_goes_to_selected_upstream",
    "response_action",
    "final_answer_is_relayed_and_cached",
    "reask_bounded",
    "bouncing_ends_with_error",
    "response_bit_refused",
)]


def run(ctx):
    ctx.prove(["DaeVerif.C07.Props"], ["DaeVerif.C07.Props"], ["DaeVerif/C07/*.lean"], extra_targets=["c07drv"])
    ctx.required_theorems(REQUIRED)

    evaluations = 0
    distinct = set()
    samples = []
    dist = {}

    def gen_for(pkgname):
        # the shared generator template, instantiated for the package it is injected into
        src = open(os.path.join(VERIF, "harness", "overlay", "c07_gen.go")).read()
        dst = os.path.join(ctx.out, f"c07gen_{pkgname}_test.go")
        open(dst, "w").write(src.replace("package C07PKG", "package " + pkgname, 1))
        return dst

    def tie(pkg, files, outname, test, stream):
        nonlocal evaluations
        binp = ctx.go_test_build(pkg, files + [gen_for(os.path.basename(pkg))], outname)
        if not binp:
            return False
        rc, out = ctx.run_harness(binp, test)
        ops, impl, model = (os.path.join(ctx.out, stream + "." + e) for e in ("ops", "impl", "model"))
        if rc != 0 or not os.path.exists(ops):
            ctx.say("HARNESS-FAILED", out[-3000:])
            return False
        if not ctx.driver("c07drv", ops, model):
            ctx.proof_failures.append("model driver c07drv failed to run on " + stream)
        mism = ctx.diff_streams(ops, impl, model, stream)
        for ln, op, im, mo in mism[:8]:
            ctx.report(f"implementation differs from proved model at {stream} line {ln}: impl `{im[:200]}` model `{mo[:200]}`",
                       {"stream": stream, "line": ln, "op": op, "impl": im, "model": mo,
                        "context": context_of(ops, ln),
                        "replay": "VERIF_SEED=%d ./check C07 %s" % (ctx.seed, ctx.tier)})
        ol = read_lines(ops)
        evaluations += len(ol)
        for op, mo in zip(ol, read_lines(model)):
            k = op.split(" ", 1)[0]
            if k in ("rq", "rs", "ask"):
                distinct.add(op)
            if "MODEL-SPLIT" in mo:
                ctx.proof_failures.append("driver: scan and first-match specification disagree on " + op[:300])
        st = json.load(open(os.path.join(ctx.out, stream + ".stats.json")))
        dist[stream] = st["counters"]
        samples.extend(st["samples"][:4])
        return True

    def context_of(ops, ln):
        # the configuration line the failing question belongs to
        lines = read_lines(ops)
        ctxl = []
        for want in (("req", "cfg"), ("resp", "cfg")):
            for i in range(min(ln, len(lines)) - 1, -1, -1):
                if lines[i].split(" ", 1)[0] in want:
                    ctxl.append(lines[i]); break
        return ctxl

    ok = tie("component/dns", ["component/dns/c07_test.go"], "c07m", "TestVerifC07Matchers", "c07m")
    ok = ok and tie("control", ["control/c07_test.go"], "c07c", "TestVerifC07Controller", "c07c")
    if not ok:
        return 2
    ctx.samples = samples
    ctx.cov["input_distribution"] = dist
    return ctx.finish(rule="", evaluations=evaluations, distinct=len(distinct))
