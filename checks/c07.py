"""C07 — DNS questions and answers are routed by the first matching DNS rule."""
import collections, json, os, re, subprocess
from verifkit import read_lines, VERIF, LEAN, REPO, sh, go_env

REQUIRED = ["DaeVerif.C07.Props." + n for n in (
    "builder_accepts_wellformed",
    "compileRequest_accepts_wellformed",
    "request_match_case_and_trailing_dot",
    "daedns_select_is_first_match",
    "extra_sections_do_not_route",
    "reject_empties_answer_section_only",
    "class_does_not_route",
    "non_in_question_is_never_cached",
    "class_is_part_of_the_cache_key",
    "stale_hit_refreshes_from_routed_upstream",
    "reject_beats_stale_cache",
    "reask_bounded_optimistic",
    "controller_steps_as_modelled",
    "query_without_exactly_one_question_is_refused",
    "query_without_exactly_one_question_is_refused_optimistic",
    "single_question_query_is_handled",
    "request_match_is_first_match",
    "first_match_is_first",
    "name_case_and_trailing_dot",
    "request_select_is_first_match",
    "response_match_is_first_match",
    "response_match_empty_name",
    "response_select_is_first_match",
    "response_addresses",
    "question_follows_first_matching_request_rule",
    "answer_follows_first_matching_response_rule",
    "reject_beats_cache",
    "cache_hit_asks_nobody",
    "question_goes_to_selected_upstream",
    "response_action",
    "final_answer_is_relayed_and_cached",
    "reask_bounded",
    "bouncing_ends_with_error",
    "response_bit_refused",
    # composition with the proved domain matcher (C11) and CIDR trie (C12): lean/DaeVerif/C07/Compose.lean
    "request_match_real_is_first_match",
    "response_match_real_is_first_match",
    "response_match_real_empty_name",
    # upstream resolvers as a transition system (all interleavings): lean/DaeVerif/C07/ResolverProps.lean
    "obtained_upstream_is_registered",
    "published_upstream_is_registered",
    "obtained_upstream_stays_registered",
    "answers_of_obtained_upstream_are_routed_by_upstream_rules",
    "retry_after_failure_succeeds",
    "question_ends_as_routed_under_every_schedule",
)]


def run(ctx):
    ctx.trusted += [
        "domain matcher: Props.lean uses a definition of the documented meaning (full / suffix / keyword on ToLower(TrimSuffix(name,'.'))); Compose.lean replaces it by C11's bit-exact packed-trie model through the builder's AddSet calls (theorem request/response_match_real_is_first_match), leaving as trusted only what C11 trusts: the Aho-Corasick library contract and Go regexp (oracle)",
        "pkg/trie CIDR trie: numeric containment in Props.lean; Compose.lean goes through C12's trieMatch (HasPrefix contract over Prefix2bin128 strings)",
        "the rule optimizers of dns.New (MergeAndSort, Deduplicate): not modelled; their output is compared decision-by-decision with the unoptimized program on every generated question/answer (C04 proves them)",
        "the response cache is modelled as a key → records map threaded through a scenario: fresh entries, entries seeded stale (optimistic cache: served + refreshed), TTL-0 answers (never served); expiry timing, LRU and TTL rewriting are C08's subject; upstream transports are fake forwarders (identity bound at creation, incl. the address dialled)",
        "upstream resolvers: the transition system of Resolver.lean has one atomic step per statement of GetUpstream / dns.New's FinishInitCallback and arbitrary schedulers; Go's guarantees used: a freshly allocated *Upstream differs from every live one, atomic.Pointer / sync.Map operations are linearizable. The harness forces schedules at the two blocking operations only (newUpstreamFunc seam, UpstreamReadyCallback); finer interleavings are covered by the theorems, not by the tie",
        "miekg/dns Pack/Unpack/CanonicalName; names are ASCII in miekg presentation form (wire names with `@` arrive as `\\@`); the controller skeleton handle/dialSend/handleOpt is hand-written: its theorems about single steps are unfoldings, the behavioural tie and the source-structure guard (decisive order facts extracted by translators/c07skel) carry the correspondence",
    ]
    # source-structure guard: the decisive order facts of the controller's request path are recomputed from the Go
    # source under test (go/ast translator) and compared with the snapshot the model was written against
    # (lean/DaeVerif/C07/Gen/Skeleton.lean; Props.controller_steps_as_modelled equates snapshot and model).
    # Nothing is written into the source tree.
    def facts_of(txt):
        return re.findall(r'^\s+"((?:[^"\\]|\\.)*)"', txt, re.M)
    rc, out, _ = sh(["go", "run", "main.go", os.path.join(REPO, "control")],
                    cwd=os.path.join(VERIF, "translators", "c07skel"), env=go_env(), timeout=600)
    snap = facts_of(open(os.path.join(LEAN, "DaeVerif", "C07", "Gen", "Skeleton.lean")).read())
    if rc != 0 or "namespace DaeVerif.C07.Gen" not in out:
        ctx.say("MODEL-SKELETON-OUT-OF-DATE: c07skel cannot find the controller's request path in the source "
                "(a method was moved or renamed): re-read lean/DaeVerif/C07/Skeleton.lean against the code. " + out[-600:])
        return 2
    cur = facts_of(out[out.index("/-! SNAPSHOT"):])
    skeleton_diff = [f for f in cur if f not in snap] + [f"(missing) {f}" for f in snap if f not in cur]
    ctx.prove(["DaeVerif.C07.Props", "DaeVerif.C07.Compose", "DaeVerif.C07.ResolverProps"], ["DaeVerif.C07.Props"],
              ["DaeVerif/C07/*.lean"],
              extra_targets=["c07drv"])
    ctx.required_theorems(REQUIRED)
    if skeleton_diff:
        # a broken correspondence between the model's controller skeleton and the source: reported as a
        # violation without failing input (the behavioural tie below may still find one)
        ctx.proof_failures.append("the decisive step order of the DNS controller differs from the one the model skeleton "
                                  "was written against: " + " | ".join(skeleton_diff)[:1500])

    state = {"evaluations": 0}
    distinct = set()
    samples = []
    dist = {}
    classes = collections.Counter()
    diag = {}

    def gen_for(pkgname):
        # the shared generator template, instantiated for the package it is injected into
        src = open(os.path.join(VERIF, "harness", "overlay", "c07_gen.go")).read()
        dst = os.path.join(ctx.out, f"c07gen_{pkgname}_test.go")
        open(dst, "w").write(src.replace("package C07PKG", "package " + pkgname, 1))
        return dst

    def context_of(lines, ln):
        # the configuration line(s) the failing question belongs to
        ctxl = []
        for want in (("req", "cfg"), ("resp",)):
            for i in range(min(ln, len(lines)) - 1, -1, -1):
                if lines[i].split(" ", 1)[0] in want:
                    ctxl.append(lines[i])
                    break
        return ctxl

    def explain(ops):
        # coverage only: the driver classifies every op (which rule position decided, route taken,
        # cached family present, number of upstream queries)
        binp = os.path.join(LEAN, ".lake", "build", "bin", "c07drv")
        try:
            p = subprocess.run([binp], input=b"explain\n" + open(ops, "rb").read(), stdout=subprocess.PIPE,
                               stderr=subprocess.DEVNULL, timeout=1200)
            for l in p.stdout.decode("utf-8", "replace").split("\n"):
                if l.startswith(("rq ", "rs ", "ask ", "ga ", "gr ")):
                    classes[l] += 1
        except Exception as e:  # coverage is best effort
            ctx.log.write(f"explain failed: {e}\n")

    def judge_resolver(ol, il, ml, mism):
        """Stream c07u.  What decides is what a question ENDS with (the `done …` line of the real code) against
        the schedule-independent part the model printed when the question started (` ;; spec req=… resp=…`):
        the route; the upstream handed out is registered under the routed index (`from` = `req`); the decision is
        the one for an answer of THAT upstream; a re-ask upstream handed out is registered under the re-ask index.
        An initialisation error is acceptable only after the schedule injected a failure.  Where the callers
        park on the way (`park:build` / `park:cb`, i.e. how the code synchronises its initialisations) is compared
        with the transition system as well, but a difference there alone is a DIAGNOSTIC (the theorems are
        about every schedule of the modelled synchronisation; another correct synchronisation needs the model
        re-read, not an alarm)."""
        spec, failed, start = {}, False, 0
        bad = []
        for i, (op, im, mo) in enumerate(zip(ol, il, ml)):
            tok = op.split(" ")
            if tok[0] == "cfg":
                spec, failed, start = {}, False, i
                continue
            if tok[0] == "ga" and " ;; spec " in mo:
                spec[tok[1]] = dict(kv.split("=", 1) for kv in mo.split(" ;; spec ", 1)[1].split(" "))
            if tok[0] == "gr" and tok[2] == "fail":
                failed = True
            if not im.startswith("done ") or tok[1] not in spec:
                continue
            sp = spec[tok[1]]
            got = dict(kv.split("=", 1) for kv in im.split(" ")[1:])
            why = None
            if got["req"] != sp["req"] and not (got["req"] == "err:upstreaminit" and sp["req"].startswith("u") and failed):
                why = f"routed `{got['req']}`, the first matching request rule says `{sp['req']}`"
            elif got["req"].startswith("u") or got["req"] == "asis":
                if got["from"] != got["req"]:
                    why = (f"the upstream handed out for `{got['req']}` reads as `{got['from']}` in upstream2Index: "
                           "its answers are not routed by upstream(...) rules")
                elif got["resp"] != sp["resp"] and not (got["resp"] == "err:upstreaminit" and sp["resp"].startswith("next:") and failed):
                    why = f"answer of `{got['req']}` decided `{got['resp']}`, the first matching response rule says `{sp['resp']}`"
                elif got["resp"].startswith("next:") and got["from1"] != got["resp"][5:]:
                    why = f"the re-ask upstream handed out for `{got['resp']}` reads as `{got['from1']}` in upstream2Index"
            if why:
                bad.append((i + 1, op, im, mo, why, ol[start:i + 1]))
        for ln, op, im, mo, why, hist in bad[:8]:
            ctx.report(f"upstream resolver, c07u line {ln}: {why} (impl `{im}`)",
                       {"stream": "c07u", "line": ln, "op": op, "impl": im, "model": mo, "schedule": hist,
                        "replay": "VERIF_SEED=%d ./check C07 %s" % (ctx.seed, ctx.tier)})
        shape = [m for m in mism if m[0] not in {b[0] for b in bad}]
        for ln, op, im, mo in shape[:3]:
            ctx.say(f"DIAGNOSTIC (not a violation) c07u line {ln}: the callers synchronise differently from the modelled "
                    f"GetUpstream: impl `{im[:120]}` model `{mo[:120]}` — re-read lean/DaeVerif/C07/Resolver.lean")
        diag["c07u.schedule-shape"] = len(shape)
        ctx.cov.setdefault("streams", {}).setdefault("c07u", {})["decisive_mismatches"] = len(bad)
        return []

    bins = {}
    only = [x for x in os.environ.get("C07_ONLY", "").split(",") if x]   # development aid: run a subset of the streams

    def tie(pkg, files, outname, test, stream):
        if only and stream not in only:
            return True
        # one test binary per package, shared by the streams of that package
        if outname not in bins:
            bins[outname] = ctx.go_test_build(pkg, files + [gen_for(os.path.basename(pkg))], outname)
        binp = bins[outname]
        if not binp:
            return False
        rc, out = ctx.run_harness(binp, test)
        ops, impl, model = (os.path.join(ctx.out, stream + "." + e) for e in ("ops", "impl", "model"))
        if rc != 0 or not os.path.exists(ops):
            ctx.say("HARNESS-FAILED", out[-3000:])
            return False
        if not ctx.driver("c07drv", ops, model):
            ctx.proof_failures.append("model driver c07drv failed to run on " + stream)
        # Only what the property speaks about decides: the part of an `ask` answer after " | " (exact cache
        # contents, error class) and the white-box dump of a compiled program (`ms=…`) are DIAGNOSTICS —
        # a difference there is printed and recorded, but is not a violation by itself (a wrongly compiled
        # program or a wrongly stored answer shows up in a decision / a later reply of the scenario).
        def canon(l):
            if l.startswith("ms="):
                return "compiled"
            return l.split(" ;; ", 1)[0].split(" | ", 1)[0]
        mism = ctx.diff_streams(ops, impl, model, stream, canon=canon)
        ol = read_lines(ops)
        if stream == "c07u":
            mism = judge_resolver(ol, read_lines(impl), read_lines(model), mism)
        ndiag = 0
        for i, (im, mo) in enumerate(zip(read_lines(impl), read_lines(model))):
            if im != mo.split(" ;; ", 1)[0] and canon(im) == canon(mo):
                ndiag += 1
                if ndiag <= 3:
                    ctx.say(f"DIAGNOSTIC (not a violation) {stream} line {i+1}: impl `{im[-160:]}` model `{mo[-160:]}`")
        diag[stream] = ndiag
        for ln, op, im, mo in mism[:8]:
            ctx.report(f"implementation differs from proved model at {stream} line {ln}: impl `{im[:200]}` model `{mo[:200]}`",
                       {"stream": stream, "line": ln, "op": op, "impl": im, "model": mo,
                        "configuration": context_of(ol, ln),
                        "replay": "VERIF_SEED=%d ./check C07 %s" % (ctx.seed, ctx.tier)})
        state["evaluations"] += len(ol)
        for op, im, mo in zip(ol, read_lines(impl), read_lines(model)):
            k = op.split(" ", 1)[0]
            if k in ("rq", "rs", "ask", "dq", "pair", "pref", "ga", "gr"):
                distinct.add(op)
            if "MODEL-SPLIT" in mo:
                ctx.proof_failures.append("driver: scan and first-match specification disagree on " + op[:300])
            if "REAL-MATCHER-DIFFERS" in mo:
                # the driver also runs every rq/rs through the composed path (C11's packed-trie domain matcher
                # built from the program's AddSet calls, C12's CIDR trie) and through the documented-kind spec
                ctx.report("composed path (real domain matcher / CIDR trie model) differs from the oracle-based model: " + mo[:300],
                           {"stream": stream, "op": op, "impl": im, "model": mo})
            if "optimized-chain:" in im:
                ctx.report("the production optimizer chain of dns.New changes a routing decision: " + im,
                           {"stream": stream, "op": op, "impl": im, "configuration": context_of(ol, ol.index(op) + 1)})
            if im.startswith("crash:") or " wrong-id" in im:
                ctx.report("real code misbehaved: " + im[:300], {"stream": stream, "op": op, "impl": im})
        st = json.load(open(os.path.join(ctx.out, stream + ".stats.json")))
        dist[stream] = st["counters"]
        samples.extend(st["samples"][:5])
        explain(ops)
        return True

    dns_files = ["component/dns/c07_test.go", "component/dns/c07u_test.go"]
    ok = tie("component/dns", dns_files, "c07m", "TestVerifC07Matchers", "c07m")
    # upstream resolvers under forced schedules (transition system of Resolver.lean)
    ok = ok and tie("component/dns", dns_files, "c07m", "TestVerifC07Resolver", "c07u")
    ok = ok and tie("control", ["control/c07_test.go"], "c07c", "TestVerifC07Controller", "c07c")
    ok = ok and tie("component/daedns", ["component/daedns/c07_test.go"], "c07d", "TestVerifC07Daedns", "c07d")
    if not ok:
        return 2
    # generator floors: an input class the check relies on must actually have been generated (else exit 2)
    floors = {
        "c07m": {"op.rq": 3000, "op.rs": 3000, "name.special-byte": 300, "func.negated": 500, "pattern.invalid-char": 50},
        "c07c": {"op.ask": 2000, "name.special-byte": 50, "name.ip-literal-like": 15, "ask.class-other-than-IN": 100,
                 "ask.background-refresh": 20, "op.pair": 20, "ask.nil-writer-udp-path": 100,
                 "ask.tcp-fallback-used": 50, "answer.additional-section-filled": 500, "answer.ttl-0": 100,
                 "answer.a-record-without-address": 100, "upstream.does-not-resolve": 5, "cfg.many-upstreams": 1,
                 "ask.repeats-earlier-question": 300, "upstream.shares-address.differs-in-hostname": 30,
                 "ask.upstream-queries.3": 100, "ask.reply.answers": 300, "ask.two-questions": 40, "ask.no-question": 40,
                 "cfg.ip-version-prefer": 5, "ask.qtype-from-key-table": 100, "op.pref": 8},
        "c07d": {"op.dq": 500, "dq.decision.upstream": 200, "dq.decision.passthrough": 200},
        "c07u": {"op.ga": 600, "op.gr": 500, "gr.at-build.fail": 50, "gr.at-cb.fail": 40, "cfg.leading-upstream-condition": 100,
                 "scenario.directed.second-question-while-first-in-ready-callback": 20,
                 "scenario.directed.failing-first-init-then-retry": 20},
    }
    floors["c07c"].update({"op.recfg": 20, "gate.first-client-held-in-ready-callback": 10, "op.gate-ask": 20})
    # classes of forced schedules, as classified by the MODEL (driver's explain mode), i.e. independent of what the
    # code under test does with them
    class_floors = [
        ("a question starts while an earlier caller of the same resolver is inside the upstream-ready callback",
         lambda k: k.startswith("ga ") and "earlier-caller-in-ready-callback:1+" in k, 80),
        ("a question starts while an earlier caller of the same resolver is inside its bootstrap resolution",
         lambda k: k.startswith("ga ") and "earlier-caller-in-bootstrap:1+" in k, 60),
        ("a question starts after a failed initialisation (retry)",
         lambda k: k.startswith("ga ") and "published:failed" in k, 60),
        ("a question takes the fast path", lambda k: k.startswith("ga ") and "published:ok then:done" in k, 100),
        ("an initialisation fails while another caller of the resolver is inside the ready callback",
         lambda k: k.startswith("gr ") and "outcome:fail" in k and "other-callers-in-ready-callback:1+" in k, 20),
        ("an initialisation fails after another caller has published",
         lambda k: k.startswith("gr ") and "outcome:fail" in k and "published-meanwhile:ok" in k, 15),
        ("a re-ask upstream is initialised from inside ResponseSelect",
         lambda k: k.startswith("gr ") and "at:ready-callback outcome:ok" in k and "then:park:build" in k, 10),
    ]
    if not any(os.environ.get(v) for v in ("C07_NCFG", "C07_NCFG_CTL", "C07_ONLY", "C07_NSCEN")):
        short = [f"{st}:{k}={dist[st].get(k, 0)}<{v}" for st, fl in floors.items() for k, v in fl.items()
                 if dist[st].get(k, 0) < v]
        for what, pred, need in class_floors:
            have = sum(v for k, v in classes.items() if pred(k))
            if have < need:
                short.append(f"c07u:[{what}]={have}<{need}")
        if short:
            ctx.say("GENERATOR-FLOOR-NOT-REACHED " + " ".join(short))
            return 2
    ctx.cov["generator_floors"] = floors
    ctx.cov["schedule_class_floors"] = {what: {"floor": need, "seen": sum(v for k, v in classes.items() if pred(k))}
                                        for what, pred, need in class_floors}
    ctx.samples = samples
    ctx.cov["input_distribution"] = dist
    ctx.cov["diagnostic_only_differences"] = diag
    ctx.cov["decision_classes"] = dict(sorted(classes.items(), key=lambda kv: -kv[1])[:80])
    ctx.assumptions = [
        "rule lists, questions, answers and upstream behaviours are generated (seeded): 0..7 rules quick / 0..12 thorough per list (4 % long lists of up to 42 / 72), 1..3 conditions per rule, 1..6 parameters per condition, 0..8 upstreams in the matcher stream, 0..4 (3 %: 12/40/100, thorough also 251) in the controller stream",
        "question names: fixed label vocabulary plus derived names, any case, bytes | * $ ^ @ in 6 %, IP literals in 2 %; the controller harness only sends fully-qualified names in wire form; one question per query (two-question queries must be refused), classes IN/CH/ANY",
        "geosite/geoip parameters (dat files) are not generated",
    ]
    return ctx.finish(
        rule="ops = req/resp (one compiled rule list: the dump of the real matches array and domain-set table is compared "
             "with the model's), rq/rs (one question / one answer through the real Match, plain and with dns.New's "
             "optimizer chain), cfg, ask / pair / pref (client messages through the real DnsController with fake upstreams: upstream "
             "queries in order and reply DECIDE; cache contents, error class and the compiled-array dump are diagnostics), dq (dae's "
             "own look-ups through daedns), recfg (a reload through ReuseForReload: new rule lists, cache kept), ga / gr (stream c07u: a client "
             "question = RequestSelect + ResponseSelect through the real GetUpstream under a schedule forced at the bootstrap seam and the "
             "upstream-ready callback; what a question ENDS with decides — route, `from` index of the upstream handed out, decision —, the "
             "park positions are diagnostics). distinct_nontrivial = distinct rq/rs/ask/dq/pair/pref/ga/gr lines",
        evaluations=state["evaluations"], distinct=len(distinct))
