"""C17 — configuration text becomes exactly the configuration it spells, or a clean error."""
import json, os, threading
from verifkit import read_lines

REQUIRED = [
]

SHARDS = 4


def run_shards(ctx, binp, test, prefix, shards, env_extra=None, timeout=1500):
    """Run `test` of the harness binary `shards` times in parallel (VERIF_SHARD=i); returns the
    list of (rc, out)."""
    res = [None] * shards

    def one(i):
        env = {"VERIF_SHARD": i, "VERIF_SHARDS": shards}
        if env_extra:
            env.update(env_extra)
        res[i] = ctx.run_harness(binp, test, env_extra=env, timeout=timeout)

    th = [threading.Thread(target=one, args=(i,)) for i in range(shards)]
    for t in th: t.start()
    for t in th: t.join()
    return res


def drive_and_diff(ctx, names, what):
    """model the ops of every stream with c17drv (in parallel) and diff."""
    ok = [True] * len(names)

    def one(i):
        ops, model = (os.path.join(ctx.out, names[i] + e) for e in (".ops", ".model"))
        ok[i] = ctx.driver("c17drv", ops, model)

    th = [threading.Thread(target=one, args=(i,)) for i in range(len(names))]
    for t in th: t.start()
    for t in th: t.join()
    n_lines = 0
    for i, nm in enumerate(names):
        ops, impl, model = (os.path.join(ctx.out, nm + e) for e in (".ops", ".impl", ".model"))
        if not ok[i]:
            ctx.proof_failures.append(f"model driver c17drv failed on {nm}")
            continue
        mism = ctx.diff_streams(ops, impl, model, nm)
        n_lines += ctx.cov["streams"][nm]["lines"]
        for ln, op, im, mo in mism[:4]:
            kind = "PANIC in the real code" if im.startswith("crash:") else "implementation differs from proved model"
            ctx.report(f"{what}: {kind} at {nm} line {ln}: impl `{im[:300]}` model `{mo[:300]}`",
                       {"stream": nm, "line": ln, "op": op[:20000], "impl": im[:5000], "model": mo[:5000],
                        "replay": "VERIF_SEED=%d ./check C17 %s" % (ctx.seed, ctx.tier)})
    return n_lines


def merge_stats(ctx, names):
    counters, samples = {}, []
    for nm in names:
        p = os.path.join(ctx.out, nm + ".stats.json")
        if os.path.exists(p):
            s = json.load(open(p))
            for k, v in s["counters"].items():
                counters[k] = counters.get(k, 0) + v
            samples += (s.get("samples") or [])
    return counters, samples


def shared_file(ctx, pkgname, in_cp):
    """instantiate harness/overlay/c17_shared.go.tmpl for one package"""
    from verifkit import VERIF
    t = open(os.path.join(VERIF, "harness", "overlay", "c17_shared.go.tmpl")).read()
    t = t.replace("__PKG__", pkgname)
    if in_cp:
        t = t.replace("__CPIMPORT__", "").replace("__CP__", "")
    else:
        t = t.replace("__CPIMPORT__", '\t"github.com/daeuniverse/dae/pkg/config_parser"').replace("__CP__", "config_parser.")
    out = os.path.join(ctx.out, f"c17_shared_{pkgname}_test.go")
    open(out, "w").write(t)
    return out


def run(ctx):
    ctx.trusted += [
        "ANTLR runtime + generated dae_config lexer/parser: modelled from the serialized ATN (grammar rules, longest match, non-greedy string/comment rules); tied differentially on every run, not proved",
        "lexer character classes are PROBED from the real lexer at run time (table line `classes …`), non-ASCII code points probed to have no class",
        "Go's []rune(string) decoding of the input text (invalid UTF-8 → U+FFFD) happens before the model sees the text",
    ]
    ctx.prove(["DaeVerif.C17.Props"], ["DaeVerif.C17.Props"], ["DaeVerif/C17/*.lean"], extra_targets=["c17drv"])
    ctx.required_theorems(REQUIRED)

    # ---- part 1: Parse
    binp = ctx.go_test_build("pkg/config_parser", ["pkg/config_parser/c17_test.go", shared_file(ctx, "config_parser", True)], "c17parse", tags="")
    if not binp:
        return 2
    res = run_shards(ctx, binp, "TestVerifC17Parse", "c17p", SHARDS)
    names = [f"c17p{i}" for i in range(SHARDS)]
    for i, (rc, out) in enumerate(res):
        if rc != 0 or not os.path.exists(os.path.join(ctx.out, names[i] + ".ops")):
            ctx.say("HARNESS-FAILED", out[-3000:])
            return 2
    n_parse = drive_and_diff(ctx, names, "config_parser.Parse")

    # ---- part 2: config.New, Merger, paths
    binc = ctx.go_test_build("config", ["config/c17_test.go", shared_file(ctx, "config", False)], "c17config", tags="")
    if not binc:
        return 2
    res = run_shards(ctx, binc, "TestVerifC17Config", "c17c", 2)
    cnames = [f"c17c{i}" for i in range(2)]
    for i, (rc, out) in enumerate(res):
        if rc != 0 or not os.path.exists(os.path.join(ctx.out, cnames[i] + ".ops")):
            ctx.say("HARNESS-FAILED", out[-3000:])
            return 2
    n_conf = drive_and_diff(ctx, cnames, "config.New / Merger / paths")
    names += cnames

    # ---- part 3: rule compilation (size limit) and the whole pipeline under recover
    binz = ctx.go_test_build("control", ["control/c17_test.go", shared_file(ctx, "control", False)], "c17compile")
    if not binz:
        return 2
    res = run_shards(ctx, binz, "TestVerifC17Compile", "c17z", 2)
    znames = [f"c17z{i}" for i in range(2)]
    for i, (rc, out) in enumerate(res):
        if rc != 0 or not os.path.exists(os.path.join(ctx.out, znames[i] + ".ops")):
            ctx.say("HARNESS-FAILED", out[-3000:])
            return 2
    n_comp = drive_and_diff(ctx, znames, "rule compilation / pipeline")
    names += znames
    counters, samples = merge_stats(ctx, names)

    distinct = set()
    for nm in names:
        for op, im in zip(read_lines(os.path.join(ctx.out, nm + ".ops")), read_lines(os.path.join(ctx.out, nm + ".impl"))):
            if im.startswith("ok S"):
                distinct.add(op)
    ctx.samples = samples[:10]
    ctx.cov["input_distribution"] = counters
    ctx.assumptions = ["inputs are generated (seeded): grammar-directed texts, token-level near-misses of them, random bytes"]
    return ctx.finish(rule="one evaluation = one input text run through the real config_parser.Parse and the Lean parse; "
                           "distinct_nontrivial = distinct texts ACCEPTED with at least one section (AST compared field by field)",
                      evaluations=n_parse + n_conf + n_comp, distinct=len(distinct))
