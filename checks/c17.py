"""C17 — configuration text becomes exactly the configuration it spells, or a clean error."""
import json, os, threading, hashlib, shutil, subprocess, glob as _glob
from verifkit import read_lines, VERIF, REPO, CACHE

REQUIRED = ["DaeVerif.C17.Props." + n for n in [
    "tokens_iff_tree", "parse_spells", "lexer_accounts_for_every_character", "lexer_reads_back", "parse_render",
    "parse_render_canonical", "wfCheck_establishes_WF", "skips_whitespace", "skips_line_comment", "skips_block_comment", "skips_concat",
    "walk_keeps_every_item", "walkFn_faithful",
    "merge_order", "relative_includes_resolve_against_entry_dir", "merge_into_appends", "circular_include_rejected", "include_of_visited_rejected",
    "merge_no_path_twice", "merge_reads_confined", "confined_means_under", "merge_terminates", "merge_terminates_partial",
    "unknown_section_rejected", "missing_required_section_rejected", "unknown_and_missing_keys_rejected",
    "unknown_key_rejected_one_struct", "missing_required_key_rejected_one_struct", "written_list_replaces_default", "defaults_applied", "defaults_applied_scalar", "defaults_applied_any_depth",
    "default_routing_fallback_applied", "default_http_method_applied",
    "oversize_rejected", "oversize_domain_set_rejected", "compiled_within_limit",
    "merged_map_one_section_per_name", "readConfig_independent_of_map_order", "readConfig_decodes_every_file_in_order",
    "readConfig_checks_every_file", "optimizers_never_enlarge", "optimizers_never_cause_oversize", "production_oversize_rejected",
    "written_value_is_stored",
]]

PARSE_SHARDS, CONFIG_SHARDS, COMPILE_SHARDS = 4, 3, 2
MAX_PROCS = 6


def shared_file(ctx, pkgname, in_cp):
    """instantiate harness/overlay/c17_shared.go.tmpl for one package"""
    t = open(os.path.join(VERIF, "harness", "overlay", "c17_shared.go.tmpl")).read()
    t = t.replace("__PKG__", pkgname)
    if in_cp:
        t = t.replace("__CPIMPORT__", "").replace("__CP__", "")
    else:
        t = t.replace("__CPIMPORT__", '\t"github.com/daeuniverse/dae/pkg/config_parser"').replace("__CP__", "config_parser.")
    out = os.path.join(ctx.out, f"c17_shared_{pkgname}_test.go")
    open(out, "w").write(t)
    return out


def _unhex(w):
    return "" if w == "-" else bytes.fromhex(w).decode("utf-8", "replace")


def parse_schema_line(line):
    """decode the `schema …` op the harness probed by reflection into the shape of harness/golden/c17_schema.json"""
    w = line.split()
    it = iter(w[1:])
    nxt = lambda: next(it)
    assert nxt() == "K"
    zeros = [[_unhex(nxt()), nxt()] for _ in range(int(nxt()))]
    assert nxt() == "T"
    structs = []
    for _ in range(int(nxt())):
        hr = nxt() == "1"
        fields = []
        for _ in range(int(nxt())):
            key, kind, d = _unhex(nxt()), nxt(), nxt()
            fields.append({"key": key, "kind": kind, "default": None if d == "!" else _unhex(d),
                           "required": nxt() == "1", "repeatable": nxt() == "1"})
        structs.append({"hasRules": hr, "fields": fields})
    assert nxt() == "P"
    specs = [{"name": _unhex(nxt()), "required": nxt() == "1", "kind": nxt()} for _ in range(int(nxt()))]
    return {"scalar_kind_zero_values": zeros, "structs": structs, "sections": specs}


def normalise_schema(sc):
    """order-independent form: sections by name, struct fields by key, scalar kinds by their Go
    spec tag + zero value, struct kinds inlined — so that reordering struct fields or the spec table,
    or renumbering kinds, is not a difference"""
    zeros = sc["scalar_kind_zero_values"]
    def kind(k):
        if k[0] == "s":
            z = zeros[int(k[1:])]
            return {"scalar": z[1], "zero": z[0]}
        if k[0] in "tT":
            return {("struct" if k[0] == "t" else "structList"): struct(int(k[1:]))}
        return {"l": "stringList", "i": "functionOrString", "f": "functionLists"}.get(k, k)
    def struct(i):
        st = sc["structs"][i]
        return {"hasRules": st["hasRules"],
                "fields": {f["key"]: {"kind": kind(f["kind"]), "default": f["default"], "required": f["required"],
                                      "repeatable": f["repeatable"]} for f in st["fields"]}}
    out = {"sections": {sp["name"]: {"required": sp["required"], "kind": kind(sp["kind"])} for sp in sc["sections"]}}
    if "max_match_set_len" in sc:
        out["max_match_set_len"] = sc["max_match_set_len"]
    return out


def schema_drift(ctx, names):
    """The schema is PROBED from the code under test, so a dropped `default:` / `required:` tag would be
    followed by the model, not detected.  Compare the probe with the audited golden table."""
    golden = json.load(open(os.path.join(VERIF, "harness", "golden", "c17_schema.json")))
    probed = None
    for nm in names:
        for l in open(os.path.join(ctx.out, nm + ".ops"), encoding="utf-8", errors="replace"):
            if l.startswith("schema "):
                probed = parse_schema_line(l)
                break
        if probed:
            break
    if probed is None:
        ctx.proof_failures.append("no schema line in the config streams")
        return
    for nm in names:
        for l in open(os.path.join(ctx.out, nm + ".ops"), encoding="utf-8", errors="replace"):
            if l.startswith("z "):
                probed["max_match_set_len"] = int(l.split()[2])
                break
    probed = normalise_schema(probed)
    if os.environ.get("VERIF_C17_WRITE_GOLDEN") == "1":
        json.dump(probed, open(os.path.join(VERIF, "harness", "golden", "c17_schema.json"), "w"), indent=1, ensure_ascii=False, sort_keys=True)
        golden = probed
    diffs = []
    def walk(a, b, path):
        if isinstance(a, dict) and isinstance(b, dict):
            for k in sorted(set(a) | set(b)):
                walk(a.get(k), b.get(k), path + "." + k)
        elif a != b:
            diffs.append(f"{path}: golden {a!r} ≠ probed {b!r}")
    walk(golden, probed, "schema")
    ctx.cov["schema_drift"] = diffs[:20]
    if diffs:
        ctx.report("the configuration schema probed from the code (section specs / keys / kinds / default: / required: tags / "
                   "MaxMatchSetLen) differs from the audited table harness/golden/c17_schema.json — a documented default or a "
                   "required marker changed; confirm against the documentation and update the golden table if intended: "
                   + "; ".join(diffs[:6]),
                   {"differences": diffs[:50]}, key="c17-schema-drift")


_INC_SEC = None


def split_m(s):
    """`<head> opened=a,b` -> (head without the merged `include` section, set of opened paths)"""
    import re
    head, _, opened = s.partition(" opened=")
    if s.startswith("err"):
        head = "err"
    else:
        # the merged `include` section is an artefact nobody consumes (config.New skips it)
        head = re.sub(r"S\(include\)\{[^}]*\}", "", head)
    return head, set(x for x in opened.split(",") if x)


def m_lines_agree(impl, model):
    """Merge ops: same accept/reject, same merged sections (without `include`) and file list; what the
    real code OPENED must be a subset of what the model allows (reading less is harmless), and on
    success every merged file must have been opened."""
    hi, oi = split_m(impl)
    hm, om = split_m(model)
    if hi != hm or not oi <= om:
        return False
    return True


def canon_line(s):
    """Which error is reported is outside the property (only THAT it is an error, and what was opened):
    error classes are kept for diagnosis but not compared."""
    if s.startswith("err:") or s == "err" or s.startswith("err-with-"):
        i = s.find(" opened=")
        return "err" + (s[i:] if i >= 0 else "")
    return s


def merge_stats(ctx, names):
    counters, samples = {}, []
    for nm in names:
        p = os.path.join(ctx.out, nm + ".stats.json")
        if os.path.exists(p):
            s = json.load(open(p))
            for k, v in s["counters"].items():
                counters[k] = counters.get(k, 0) + v
            samples += (s.get("samples") or [])
    return counters, samples


def _sh(cmd):
    return subprocess.run(cmd, stdout=subprocess.PIPE, stderr=subprocess.DEVNULL).stdout


def cached_build(ctx, pkg, files, out_name, tags, extra_overlay=None):
    """Linking the cmd/control test binaries costs 40-90 s even with a warm Go build cache.  Reuse the
    binary of an earlier run when NOTHING that goes into it changed: the harness files, the shared
    helper template, the build tags and the complete state of the repo under test (HEAD, diff against
    HEAD, untracked Go files)."""
    h = hashlib.sha1()
    h.update((pkg + "|" + tags + "|" + REPO + "|").encode())
    for f in list(files) + [os.path.join(VERIF, "harness", "util", "vutil.go.tmpl")]:
        src = f if os.path.isabs(f) else os.path.join(VERIF, "harness", "overlay", f)
        h.update(open(src, "rb").read())
    h.update(_sh(["git", "-C", REPO, "rev-parse", "HEAD"]))
    h.update(_sh(["git", "-C", REPO, "diff", "HEAD"]))
    status = _sh(["git", "-C", REPO, "status", "--porcelain"])
    h.update(status)
    for line in status.decode("utf-8", "replace").split("\n"):
        if line.startswith("??") and line.strip().endswith(".go"):
            try:
                h.update(open(os.path.join(REPO, line[3:].strip()), "rb").read())
            except OSError:
                pass
    h.update(_sh(["go", "version"]))
    for dst, src in sorted((extra_overlay or {}).items()):
        h.update(dst.encode())
        h.update(open(src, "rb").read() if src else b"")
    cdir = os.path.join(CACHE, "bin", "c17cache")
    os.makedirs(cdir, exist_ok=True)
    cached = os.path.join(cdir, f"{out_name}-{h.hexdigest()[:16]}.test")
    # the binary that is EXECUTED always lives in this run's own directory (ctx.bindir): the control
    # harness re-executes itself as a child later, and the shared cache may be pruned by another run
    local = os.path.join(ctx.bindir, out_name + ".test")
    have_git = bool(_sh(["git", "-C", REPO, "rev-parse", "HEAD"]).strip())
    if have_git and os.path.exists(cached) and os.environ.get("VERIF_C17_NO_BINCACHE") != "1":
        try:
            tmp = local + f".tmp{os.getpid()}"
            shutil.copy2(cached, tmp)
            os.replace(tmp, local)
            os.utime(cached, None)     # keep what is in use away from the pruning below
            ctx.log.write(f"$ reuse cached harness binary {cached} -> {local}\n")
            return local
        except OSError:
            pass                       # pruned under our feet: build it
    binp = ctx.go_test_build(pkg, files, out_name, tags=tags, extra_overlay=extra_overlay)
    if binp and have_git:
        try:
            tmp = cached + f".tmp{os.getpid()}.{threading.get_ident()}"
            shutil.copy2(binp, tmp)
            os.replace(tmp, cached)
            old = sorted(_glob.glob(os.path.join(cdir, out_name + "-*.test")), key=os.path.getmtime)
            for o in old[:-6]:
                try:
                    os.unlink(o)
                except OSError:
                    pass
        except OSError:
            pass
    return binp


# Generator floors: a run whose inputs did not reach these classes is not evidence (exit 2, not OK).
# Calibrated at ≈ 40 % of the smallest count seen over seeds 1..3; skipped when a size is overridden.
FLOORS = {
    "quick": {
        "grammar.accepted": 2500, "nearmiss.accepted": 1200, "bytes.accepted": 60, "nearmiss.rejected": 3500,
        "cfg.result.ok": 450, "model.c.err:unknownSection": 25, "model.c.err:unexpectedKey": 100,
        "model.c.err:requiredParam": 30, "model.c.err:requiredSection": 70, "model.c.err:convert": 300,
        "cfg.mut.unknown-section-near-miss": 30, "cfg.mut.unknown-key-near-miss": 100, "dec.accepted": 300, "dec.rejected": 800,
        "inc.result.ok": 150, "model.m.err:circular": 15, "model.m.err:scope": 10, "model.m.err:suffix": 10,
        "model.m.err:isDir": 8, "model.m.err:perm": 50, "model.m.err:parse": 8, "model.m.err:glob": 5,
        "model.m.err:includeGrammar": 8, "model.m.err:open": 4, "model.m.err:statErr": 1, "inc.opened.files": 400,
        "inc.entry-spelling.relative-here": 10, "inc.entry-spelling.relative-dotdot": 10, "inc.entry-spelling.abs-dotdot": 8,
        "inc.entry-spelling.symlink-inside": 8, "inc.entry-spelling.symlink-outside": 4, "inc.entry-spelling.trailing-slash": 4,
        "inc.directed.nested-relative": 1, "inc.keyed-item": 20, "inc.function-item": 15,
        "z.boundary.total-1024": 3, "z.boundary.total-1025": 3, "z.boundary.domain-set-at-index-1023": 3,
        "z.boundary.domain-set-at-index-1024": 3, "z.r.result.ok": 10, "model.z.err:oversize": 5,
        "pipeline.routing.built": 120, "pipeline.dns.built": 100, "pipeline.group.policy-ok": 100, "stress.params": 1, "stress.nest": 1,
        "e2e.result.accepted": 15, "e2e.result.rejected": 100, "child.processes.all": 2,
        # reload histories on one tree, the permission bits one by one
        "inc.history.trees": 30, "inc.history.step2": 30, "inc.history.edit": 250, "inc.history.result.ok": 25,
        "inc.perm.too-open.0610": 25, "inc.perm.too-open.0010": 25, "inc.perm.too-open.0601": 25, "inc.perm.too-open.0602": 25,
        "inc.perm.too-open.0604": 25, "inc.perm.too-open.0620": 25, "inc.perm.accepted.0740": 30, "inc.perm.accepted.0440": 30,
        "inc.directory-symlinks": 30, "inc.opened.through-directory-link-leading-outside": 1,
        # Merge ; New on split configurations
        "read.result.ok": 50, "read.section-in-two-pieces": 100, "read.layout.chain": 20, "read.layout.glob": 20,
        "read.layout.list": 20, "read.layout.tree": 20, "model.r.err:merge:circular": 5,
        # FuzzyDecode / BootstrapResolvers against the standard library
        "dec.duration.accepted": 30, "dec.duration.rejected": 200, "dec.addrport.accepted": 10, "dec.addrport.rejected": 20,
        # production path through the optimizers
        "y.r.result.ok": 25, "model.y.err:oversize": 10, "y.s.result.ok": 5, "y.directed.ports-same-value": 4,
        "y.directed.ports-one-outbound": 4, "y.directed.must-spellings": 4, "y.directed.domain-keys-aliased": 4,
    },
}
FLOORS["thorough"] = {k: (v * 8 if v > 3 and not k.startswith(("z.boundary", "stress", "inc.directed", "child", "dec.", "y.directed")) else v)
                      for k, v in FLOORS["quick"].items()}


class Part:
    """one harness binary: build, run its shards in parallel, model every stream, diff."""

    def __init__(self, ctx, sem, drv_ready, pkg, files, out_name, test, prefix, shards, what, tags, overlay_fn=None):
        self.ctx, self.sem, self.drv_ready = ctx, sem, drv_ready
        self.overlay_fn = overlay_fn
        self.pkg, self.files, self.out_name, self.test = pkg, files, out_name, test
        self.prefix, self.shards, self.what, self.tags = prefix, shards, what, tags
        self.names = [f"{prefix}{i}" for i in range(shards)]
        self.failed = None
        self.driver_ok = {}
        self.class_diffs = 0
        self.model_classes = {}

    def shard(self, binp, i):
        ctx = self.ctx
        with self.sem:
            rc, out = ctx.run_harness(binp, self.test, env_extra={"VERIF_SHARD": i, "VERIF_SHARDS": self.shards}, timeout=2400)
        nm = self.names[i]
        ops, model = (os.path.join(ctx.out, nm + e) for e in (".ops", ".model"))
        if rc != 0 or not os.path.exists(ops):
            self.failed = out[-3000:]
            return
        self.drv_ready.wait()
        with self.sem:
            self.driver_ok[nm] = ctx.driver("c17drv", ops, model)

    def run(self):
        ctx = self.ctx
        with self.sem:
            extra = self.overlay_fn() if self.overlay_fn else None
            binp = cached_build(ctx, self.pkg, self.files, self.out_name, self.tags, extra)
            if not binp and self.overlay_fn:
                # the regenerated optimizer chain did not compile inside the harness: fall back to the copy
                extra = self.overlay_fn(fallback=True)
                binp = cached_build(ctx, self.pkg, self.files, self.out_name, self.tags, extra)
        if not binp:
            self.failed = "build failed"
            return
        th = [threading.Thread(target=self.shard, args=(binp, i)) for i in range(self.shards)]
        for t in th: t.start()
        for t in th: t.join()

    def collect(self):
        """diff + report; returns number of compared lines"""
        ctx, n_lines = self.ctx, 0
        for nm in self.names:
            ops, impl, model = (os.path.join(ctx.out, nm + e) for e in (".ops", ".impl", ".model"))
            if not self.driver_ok.get(nm):
                ctx.proof_failures.append(f"model driver c17drv failed on {nm}")
                continue
            mism = ctx.diff_streams(ops, impl, model, nm, canon=canon_line)
            # merge ops are compared structurally (subset of opened files), not by string equality
            mism = [m for m in mism if not (m[1].startswith("m ") and " opened=" in m[2] and " opened=" in m[3]
                                            and not m[2].startswith("crash") and m_lines_agree(m[2], m[3]))]
            ctx.cov["streams"][nm]["mismatches"] = len(mism)
            # error classes for the generator floors come from the MODEL's answers (the harness's classes
            # are derived from message texts, which a harmless rewording changes)
            for op, mo in zip(read_lines(ops), read_lines(model)):
                if mo.startswith("err:") and op[:2] in ("c ", "m ", "z ", "r ", "y "):
                    cls = mo.split(" ")[0].split("@")[0]
                    key = f"model.{op[0]}.{cls}"
                    self.model_classes[key] = self.model_classes.get(key, 0) + 1
            self.class_diffs += sum(1 for a, b in zip(read_lines(impl), read_lines(model))
                                    if a != b and canon_line(a) == canon_line(b))
            n_lines += ctx.cov["streams"][nm]["lines"]
            for ln, op, im, mo in mism[:4]:
                kind = "PANIC in the real code" if im.startswith("crash:") else "implementation differs from proved model"
                ctx.report(f"{self.what}: {kind} at {nm} line {ln}: impl `{im[:300]}` model `{mo[:300]}`",
                           {"stream": nm, "line": ln, "op": op[:20000], "impl": im[:5000], "model": mo[:5000],
                            "replay": "VERIF_SEED=%d ./check C17 %s" % (ctx.seed, ctx.tier)})
        return n_lines


def run(ctx):
    ctx.trusted += [
        "ANTLR runtime + generated dae_config lexer/parser: modelled from the serialized ATN (grammar rules, longest match, first rule on ties, the non-greedy string/comment rules); tied differentially on every run, not proved",
        "lexer character classes are PROBED from the real lexer at run time (table line `classes …`; the driver checks Classes.wfCheck on it), non-ASCII code points probed to have no class",
        "texts go through the tie as their ORIGINAL bytes; text that is not valid UTF-8 is rejected by the model (as by Parse since 9884639)",
        "time.ParseDuration and netip.ParseAddrPort on single values are oracles (answers computed by the real functions, passed to the model per op); strings, bools, integers and IsValidHttpMethod are specified in the model; the struct schema is probed by reflection from config.Config and compared with the golden table harness/golden/c17_schema.json",
        "filepath.Glob is an oracle (real answers for the patterns the model is expected to compute, entry directory quoted); the file system is described to the model (files, directories, final-component symbolic links, working directory); directory symlinks are not generated",
        "real opens are observed with inotify (IN_OPEN) on the temp tree, its parent and one unrelated directory: opens elsewhere are not observable; the opened set of the real code must be a subset of the model's",
        "value parsers of rule compilation (IP, port, MAC, regex, geodata …) are not modelled: the size stream uses well-formed values, the pipeline stream only checks absence of panics",
        "cmd.readConfig is compared with the composition of the two real stages Merger.Merge ; config.New; that composition is compared with the model's readConfig on split configurations (r ops)",
        "the answers given to the model for durations and for bootstrap_resolver come from the Go standard library (time.ParseDuration; TrimSpace + netip.ParseAddrPort), and the real FuzzyDecode / BootstrapResolvers are compared with them (do ops)",
        "production path of the traffic rules (y ops): the optimizer list is regenerated from control/control_plane.go by translators/optchain; the geodata reader stage is the identity on the generated programs (no geosite:/geoip:/ext: parameters; the driver refuses programs that have them); DNS request rules (SplitRequestRules) are not on this path",
    ]
    sem = threading.Semaphore(MAX_PROCS)
    drv_ready = threading.Event()

    # the driver first (fast when cached) so that modelling can start as soon as a shard is done
    ok, out = ctx.lake_build(["c17drv"])
    drv_ready.set()
    if not ok:
        ctx.proof_failures.append("lake build c17drv failed: " + out[-1500:])

    chain_mode = {}

    def optchain(fallback=False):
        """the optimizer list NewControlPlane hands to routing.NewNormalizedProgram, regenerated from the
        CURRENT control/control_plane.go (translators/optchain, shared with C01/C02/C04)"""
        ov, mode = ctx.optchain_overlay(fallback=fallback)
        chain_mode["mode"] = mode
        return ov

    parts = [
        Part(ctx, sem, drv_ready, "pkg/config_parser", ["pkg/config_parser/c17_test.go", shared_file(ctx, "config_parser", True)],
             "c17parse", "TestVerifC17Parse", "c17p", PARSE_SHARDS, "config_parser.Parse", ""),
        Part(ctx, sem, drv_ready, "config", ["config/c17_test.go", shared_file(ctx, "config", False)],
             "c17config", "TestVerifC17Config", "c17c", CONFIG_SHARDS, "config.New / Merger / paths", ""),
        Part(ctx, sem, drv_ready, "control", ["control/c17_test.go", shared_file(ctx, "control", False)],
             "c17compile", "TestVerifC17Compile", "c17z", COMPILE_SHARDS, "rule compilation / pipeline", "dae_stub_ebpf", overlay_fn=optchain),
        Part(ctx, sem, drv_ready, "cmd", ["cmd/c17_test.go"],
             "c17readconfig", "TestVerifC17ReadConfig", "c17e", 1, "cmd.readConfig vs Merger.Merge;config.New", "dae_stub_ebpf"),
    ]
    threads = [threading.Thread(target=p.run) for p in parts]
    prover = threading.Thread(target=lambda: ctx.prove(["DaeVerif.C17.Props"], ["DaeVerif.C17.Props"],
                                                       ["DaeVerif/C17/*.lean"], extra_targets=["c17drv"]))
    prover.start()
    for t in threads: t.start()
    for t in threads: t.join()
    prover.join()
    ctx.required_theorems(REQUIRED)

    for p in parts:
        if p.failed:
            ctx.say("HARNESS-FAILED", p.pkg, p.failed)
            return 2
    n_eval = sum(p.collect() for p in parts)
    names = [nm for p in parts for nm in p.names]
    schema_drift(ctx, names)
    ctx.cov["production_optimizer_chain"] = chain_mode.get("mode", "?")
    if "FALLBACK" in chain_mode.get("mode", ""):
        ctx.say("NOTE property=C17 the production optimizer chain could not be regenerated from control_plane.go: " + chain_mode["mode"])
        ctx.assumptions.append("production path stream (y ops) used a COPY of the optimizer chain: " + chain_mode["mode"])
    ncd = sum(p.class_diffs for p in parts)
    ctx.cov["error_class_differences_not_compared"] = ncd
    if ncd:
        ctx.say(f"NOTE property=C17 {ncd} inputs are rejected by both sides with a DIFFERENT error class (not part of the property; see the streams)")
    counters, samples = merge_stats(ctx, names)
    for p in parts:
        for k, v in p.model_classes.items():
            counters[k] = counters.get(k, 0) + v

    overridden = sorted(k for k in os.environ if k.startswith("VERIF_C17_") and k.endswith("_N"))
    if overridden:
        ctx.say("NOTE property=C17 generator floors NOT checked: sizes overridden by " + ", ".join(overridden)
                + " — this run is a reduced-size experiment, not the registered check")
        ctx.cov["generator_floors"] = {"checked": 0, "skipped_because_sizes_overridden": overridden}
        ctx.assumptions.append("REDUCED-SIZE RUN: generator floors skipped (" + ", ".join(overridden) + ")")
    else:
        low = [f"{k}={counters.get(k, 0)}<{v}" for k, v in sorted(FLOORS[ctx.tier].items()) if counters.get(k, 0) < v]
        ctx.cov["generator_floors"] = {"checked": len(FLOORS[ctx.tier]), "below": low}
        if low:
            ctx.say("GENERATOR-FLOOR property=C17 input classes below their floor (not evidence): " + ", ".join(low))
            return 2

    # accepted, non-trivial inputs (AST / typed config / merged tree compared field by field)
    distinct = set()
    for nm in names:
        for op, im in zip(read_lines(os.path.join(ctx.out, nm + ".ops")), read_lines(os.path.join(ctx.out, nm + ".impl"))):
            if im.startswith("ok S") or (im.startswith("ok") and op[:2] in ("c ", "m ", "z ", "r ", "y ")):
                distinct.add(op[:4000])
    crashes = sum(v for k, v in counters.items() if k.endswith("CRASH"))
    ctx.samples = samples[:10]
    ctx.cov["input_distribution"] = counters
    ctx.cov["panics_in_real_code"] = crashes
    ctx.assumptions += [
        "inputs are generated (seeded): grammar-directed texts, token-level near-misses of them, random bytes; schema-driven configurations with mutations; include trees in a temp dir; rule programs around the match-set limit",
    ]
    return ctx.finish(rule="one evaluation = one op line run through the real code and the Lean model (p: Parse of a text; c: config.New of a text; "
                           "m: Merger.Merge of a directory tree; path: Clean/Join/Dir/EnsureFileInSubDir of a path pair; z: rule compilation of a program; "
                           "n: whole pipeline under recover; r: Merge;New of a configuration split over a directory tree; y: production path text → config.New → optimizers → builder; "
                           "do: FuzzyDecode / BootstrapResolvers of a value against the standard library); distinct_nontrivial = distinct ACCEPTED inputs (p with ≥1 section, c, m, z, r, y) whose full result was compared",
                      evaluations=n_eval, distinct=len(distinct))
