"""C15 — a group picks only nodes it believes alive, by the set policy and tolerance."""
import json, os
from verifkit import read_lines, REPO, VERIF

REQUIRED = ["DaeVerif.C15.Props." + n for n in (
    # full strength (events name members; any sizes, offsets, latencies, tolerance, histories)
    "index_consistent",
    "best_is_alive_and_nil_iff_nobody_alive",
    "alive_iff_last_told_alive",
    "group_sets_agree_with_flags",
    "select_family_order",
    "admitting_domain_spec",
    "select_ok_of_selectable",
    "tolerance_invariant_all_sample_histories",
    "getMin_respects_exclusion",
    "getMin_excluding_best_is_minimum",
    "random_returns_alive",
    "fixed_returns_ith",
    "select_returns_alive_of_tried_type",
    "excluded_never_returned_unless_fixed_or_last_resort",
    "no_alive_error_iff_all_tried_empty",
    "select_prefers_earlier_domain",
    "data_udp_chain_order",
    "chooseSelect_is_a_select",
    "measurement_once_always_for_positive_samples",
    "select_mem_selectAll",
    "selectAll_lists_only_possible_answers",
    # tolerance clauses: need `mono` (a measured dialer keeps reporting a latency)
    "alive_set_invariant_partial",
    "switch_only_when_partial",
    "min_policy_returns_unbeaten_alive_partial",
    "group_invariant_all_histories_partial",
    "select_min_is_unbeaten_partial",
)]


import re
_CB = re.compile(r"^cb=\[[^\]]*\] ")


def strip_cb(line):
    """aliveChangeCallback sequences are C16's subject (kernel connectivity bit): compared as a
    diagnostic only, never gating for C15."""
    return _CB.sub("", line)


def compare(op, im, mo):
    """True when the implementation's answer is admitted by the model's answer."""
    if im == mo:
        return True
    if op.startswith("sel ") or op.startswith("choose "):
        # model prints every admissible answer (random policy: all candidates); the
        # implementation prints the distinct answers of its draws.
        if im.startswith("ok ") and mo.startswith("ok "):
            a, b = set(im[3:].split(",")), set(mo[3:].split(","))
            if any(x.endswith(":*") for x in a):
                # answer of the Select / SelectWithExclusion wrappers: no admitting domain returned
                b = set(x.rsplit(":", 1)[0] + ":*" for x in b)
            return len(a) > 0 and a <= b
        return False
    if strip_cb(im) == strip_cb(mo):
        return "cb-only"
    if op.startswith("rand "):
        if im.startswith("cands=") and mo.startswith("cands="):
            a = set(x for x in im[6:].split(",") if x)
            b = set(x for x in mo[6:].split(",") if x)
            return a <= b and (len(a) > 0) == (len(b) > 0)
        return False
    return False


def run(ctx):
    ctx.trusted += [
        "time.Duration arithmetic modelled over unbounded Int (no int64 overflow)",
        "the harness drives dialers through markAvailable / markUnavailableInternal / ReportAvailableTraffic (the thresholds deciding WHEN a node is reported dead are C16's subject); recovery-confirmation timers are disabled (cancelled dialer context)",
        "locking / concurrent interleavings inside AliveDialerSet and DialerGroup are not modelled (each call is atomic in the model)",
        "fastrand: only the set of possible answers of the random policy is compared, not their distribution",
    ]
    shim = os.path.join(VERIF, "harness", "overlay", "component", "outbound", "dialer", "c15_shim.go")
    ov = {os.path.join(REPO, "component", "outbound", "dialer", "zz_verif_c15_shim.go"): shim}

    def prove():
        ctx.prove(["DaeVerif.C15.Props"], ["DaeVerif.C15.Props"], ["DaeVerif/C15/*.lean"], extra_targets=["c15drv"])
        ctx.required_theorems(REQUIRED)
        return 0

    def harness(pkg, src, name, test):
        binp = ctx.go_test_build(pkg, [src], name, extra_overlay=ov)
        if not binp:
            return 2
        rc, out = ctx.run_harness(binp, test)
        if rc != 0:
            ctx.say("HARNESS-FAILED", out[-3000:])
            return 2
        return 0

    # three independent jobs (proof + axiom audit, outbound harness, control harness) side by side
    from concurrent.futures import ThreadPoolExecutor
    with ThreadPoolExecutor(3) as ex:
        jobs = [ex.submit(prove),
                ex.submit(harness, "component/outbound", "component/outbound/c15_test.go", "c15", "TestVerifC15"),
                # control/dial.go: the real chooseProxyDialer over a real group (package control)
                ex.submit(harness, "control", "control/c15_test.go", "c15dial", "TestVerifC15Dial")]
        rcs = [j.result() for j in jobs]
    if any(rcs):
        return 2
    n_eval = 0
    distinct = set()
    for label in ("c15", "c15dial", "c15oob", "c15wit"):
        ops, impl, model = (os.path.join(ctx.out, label + "." + e) for e in ("ops", "impl", "model"))
        if not os.path.exists(ops):
            ctx.say("HARNESS-FAILED no stream", label)
            return 2
        if not ctx.driver("c15drv", ops, model):
            ctx.proof_failures.append("model driver c15drv failed to run")
        mism = ctx.diff_streams(ops, impl, model, label)
        lo, li, lm = read_lines(ops), read_lines(impl), read_lines(model)
        real = []
        cb_only = 0
        for ln, op, im, mo in mism:
            if ln:
                r = compare(op, im, mo)
                if r == "cb-only":
                    cb_only += 1
                    continue
                if r:
                    continue
            real.append((ln, op, im, mo))
        ctx.cov["streams"][label]["callback_only_differences"] = cb_only
        ctx.cov["streams"][label]["mismatches"] = len(real)
        for ln, op, im, mo in real[:6]:
            # replay context: the scenario up to the failing line
            start = ln - 1
            while start > 0 and not lo[start - 1].startswith("world "):
                start -= 1
            ctx.report(f"implementation differs from proved model at {label} line {ln} ({op}): impl `{im[:400]}` model `{mo[:400]}`",
                       {"stream": label, "line": ln, "op": op, "impl": im, "model": mo,
                        "scenario_ops": lo[max(0, start - 1):ln],
                        "replay": "VERIF_SEED=%d ./check C15 %s" % (ctx.seed, ctx.tier)})
        n_eval += len(lo)
        # property-level oracle on the implementation side: inside the theorems' hypotheses the
        # three invariant bits printed by the real code must all be 1
        if True:
            for i, (op, im) in enumerate(zip(lo, li)):
                if im.startswith("crash:"):
                    ctx.report(f"real code panicked on `{op}`: {im[:300]}", {"stream": label, "line": i + 1, "op": op, "impl": im})
                for part in im.split(" | "):
                    if " inv=" in part and " inv=111" not in part:
                        ctx.report(f"alive-set invariant broken on the implementation after `{op}`: {part[:300]}",
                                   {"stream": label, "line": i + 1, "op": op, "impl": im})
                if op.startswith(("sel ", "told ", "sample ", "choose ")):
                    distinct.add(im)
    # regression guard for fix addc261 (former finding c15-hour-sentinel): stream c15wit, first scenario =
    # group {n0 [add_latency: 1h], n1}, n1 dead for tcp4, n0 probed OK -> n0 must be selected.
    oo, oi = read_lines(os.path.join(ctx.out, "c15wit.ops")), read_lines(os.path.join(ctx.out, "c15wit.impl"))
    sels = [(o, i) for o, i in zip(oo, oi) if o.startswith("sel ")]
    ok_now = len(sels) >= 1 and sels[0][1].startswith("ok 0:")
    ctx.cov["hour_offset_witness"] = {"selected": ok_now, "witness": list(zip(oo[:6], oi[:6]))}
    if not ok_now:
        ctx.report("a node whose sorting latency reaches time.Hour is alive but not selectable (fix addc261 missing?): "
                   "group {n0 [add_latency: 1h], n1}, n1 dead for tcp4, n0 probed OK -> " + (sels[0][1] if sels else "?"),
                   {"stream": "c15wit", "ops": oo[:6], "impl": oi[:6]}, key="c15-hour-sentinel")
    # interpretation witness (not a check): never-measured node takes over on a 1 ns worsening
    ctx.cov["unmeasured_takeover_interpretation"] = [i for _, i in sels[1:3]]
    stats = json.load(open(os.path.join(ctx.out, "c15.stats.json")))
    ctx.samples = (stats["samples"] or []) + read_lines(os.path.join(ctx.out, "c15.ops"))[:8]
    ctx.cov["input_distribution"] = stats["counters"]
    ctx.cov["input_distribution_dial"] = json.load(open(os.path.join(ctx.out, "c15dial.stats.json")))["counters"]
    ctx.assumptions = ["histories are generated (seeded): 0..12 nodes, tolerance 0..1000 ns, latencies/offsets boundary-heavy small integers; "
                       "stream c15oob additionally places one node's offset at/around time.Hour (the former sentinel; inside the theorems since fix addc261)",
                       "theorems with suffix _partial (tolerance clauses) assume `mono`: a dialer that has reported a latency under the current policy keeps reporting one (true of LatenciesN / moving average with samples >= 1 ns: measurement_once_always_for_positive_samples; broken only by restoring an emptier health snapshot); no bound on latencies/offsets/tolerance is assumed"]
    return ctx.finish(rule="one evaluation = one op line (event, policy switch or selection) answered by the real code and by the model; "
                           "distinct_nontrivial = distinct implementation answers to event/selection ops",
                      evaluations=n_eval, distinct=len(distinct))
