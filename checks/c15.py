"""C15 — a group picks only nodes it believes alive, by the set policy and tolerance."""
import json, os
from verifkit import read_lines, REPO, VERIF

REQUIRED = ["DaeVerif.C15.Props." + n for n in (
    # full strength (events name members; any sizes, offsets, latencies, tolerance, histories)
    "index_consistent",
    "best_is_alive_and_nil_iff_nobody_alive",
    "alive_iff_last_told_alive",
    "group_sets_agree_with_flags",
    "select_family_order",
    "admitting_domain_spec",
    "select_ok_of_selectable",
    "tolerance_invariant_all_sample_histories",
    "switch_only_when_all_sample_histories",
    "selection_invariants_survive_reload",
    "captured_fallback_is_a_member",
    "restore_onto_unrecorded_dialer_is_ok",
    "getMin_respects_exclusion",
    "getMin_excluding_best_is_minimum",
    "random_returns_alive",
    "fixed_returns_ith",
    "select_returns_alive_of_tried_type",
    "excluded_never_returned_unless_fixed_or_last_resort",
    "no_alive_error_iff_all_tried_empty",
    "select_prefers_earlier_domain",
    "data_udp_chain_order",
    "chooseSelect_is_a_select",
    "measurement_once_always_for_positive_samples",
    "select_mem_selectAll",
    "selectAll_lists_only_possible_answers",
    # tolerance clauses: need `mono` (a measured dialer keeps reporting a latency)
    "alive_set_invariant_partial",
    "switch_only_when_partial",
    "min_policy_returns_unbeaten_alive_partial",
    "group_invariant_all_histories_partial",
    "select_min_is_unbeaten_partial",
    "tolerance_invariant_survives_reload_partial",
    # the concurrent parts: all interleavings (Conc.lean)
    "deliveries_agree_except_pending_partial",
    "deliveries_agree_with_atomic_policy_switches",
    "quiescent_sets_agree_with_flags",
    "interleavings_refine_sequential",
)]


import re
KEY_WINDOW = "c15-policy-switch-in-callback-window-nil-deref"
KEY_BUILD = "c15-report-lost-in-set-build-window"
# The two race witnesses of stream c15race (design_notes/C15.md, "Concurrent parts").  True: reported
# through ctx.report under their keys (a VIOLATION until the key is listed as an open finding in
# known_findings.jsonl, a KNOWN-FINDING line afterwards).  False: recorded in the evidence
# (coverage.race_witnesses) and printed as a NOTE, never gating.
GATE_RACE_FINDINGS = True


def race_report(ctx, what, obj, key):
    listed = any(k.get("kind") == "open" and k.get("key") == key for k in ctx.known)
    if GATE_RACE_FINDINGS or listed:
        ctx.report(what, obj, key=key)
        return
    ctx.cov.setdefault("race_witnesses", []).append({"key": key, "reproduced_on_the_real_code": True, "what": what[:600]})
    ctx.say(f"NOTE (not gating, key {key} not listed): {what[:300]}")
_CB = re.compile(r"^cb=\[[^\]]*\] ")


def strip_cb(line):
    """aliveChangeCallback sequences are C16's subject (kernel connectivity bit): compared as a
    diagnostic only, never gating for C15."""
    return _CB.sub("", line)


def compare(op, im, mo):
    """True when the implementation's answer is admitted by the model's answer."""
    if im == mo:
        return True
    if op.startswith("sel ") or op.startswith("choose "):
        # model prints every admissible answer (random policy: all candidates); the
        # implementation prints the distinct answers of its draws.
        if im.startswith("ok ") and mo.startswith("ok "):
            a, b = set(im[3:].split(",")), set(mo[3:].split(","))
            star = lambda x: x.rsplit(":", 1)[0] + ":*"
            # `*` in place of the admitting domain: the Select / SelectWithExclusion wrappers do not
            # return it (implementation side); under `fixed` and for the last resort it is outside the
            # statement (model side)
            a2 = set(star(x) if any(star(x) == y for y in b if y.endswith(":*")) else x for x in a)
            if any(x.endswith(":*") for x in a2):
                b = b | set(star(y) for y in b)
            return len(a2) > 0 and a2 <= b
        # choose / dial: an error wrapped so that errors.Is no longer sees ErrNoAliveDialer (%w -> %v) is an
        # API detail outside the statement
        if op.startswith("choose ") and im == "err=other" and mo == "err=noalive":
            return "note"
        return False
    if op.startswith("dial "):
        # routeDial: strictness, number of dials and the callbacks/sets exactly; the last answer as a member
        mi = re.match(r"^(strict=\S+ dials=\d+) last=(.*?) (cb=.*)$", im)
        mm = re.match(r"^(strict=\S+ dials=\d+) last=(.*?) (cb=.*)$", mo)
        if not mi or not mm or mi.group(1) != mm.group(1) or strip_cb(mi.group(3)) != strip_cb(mm.group(3)):
            return False
        a, b = mi.group(2), mm.group(2)
        if a == b:
            return True
        if a.startswith("ok ") and b.startswith("ok "):
            return set(a[3:].split(",")) <= set(b[3:].split(","))
        if a == "err=other" and b == "err=noalive":
            return "note"
        return False
    if op == "agree":
        # the implementation lists the (domain, node) pairs whose set membership differs from the flag;
        # the model lists the same and adds which of them no update in flight explains
        return im.startswith("dis=") and im == mo.split(" unexp=")[0]
    if op == "capture":
        # per type: the recorded fallback is one of the nodes a non-strict selection may return
        if im.startswith("fb=") and mo.startswith("fb="):
            a, b = im[3:].split(","), mo[3:].split(",")
            return len(a) == len(b) and all((x == "-" and y == "-") or (x != "-" and x in y.split("/")) for x, y in zip(a, b))
        return False
    if strip_cb(im) == strip_cb(mo):
        return "cb-only"
    if op.startswith("rand "):
        if im.startswith("cands=") and mo.startswith("cands="):
            a = set(x for x in im[6:].split(",") if x)
            b = set(x for x in mo[6:].split(",") if x)
            return a <= b and (len(a) > 0) == (len(b) > 0)
        return False
    return False


def run(ctx):
    ctx.trusted += [
        "time.Duration arithmetic modelled over unbounded Int (no int64 overflow)",
        "the harness drives dialers through markAvailable, the real Dialer.Check / check(cycle) with a stub CheckFunc, markUnavailableInternal, ReportAvailableTraffic, RestoreHealthSnapshot, EnsureReloadSelectionFloor and, in package control, routeDial (the thresholds deciding WHEN a node is reported dead are C16's subject: the alive value told is echoed from the real code); recovery-confirmation timers are disabled (cancelled dialer context); backoff levels are set through the shim",
        "the op streams are not a function of the seed (wall-clock probe latencies read back into the ops, 1 s CachedTimeNano ticker behind backoff penalties, fastrand feeding the generator): verdict unaffected, counters vary slightly, replays carry the scenario's op text",
        "ControlPlane for chooseProxyDialer/routeDial is a literal whose parts come from real constructors (the production constructor loads eBPF objects); all outbound slots hold the group under test",
        "concurrency is modelled as three transition systems (Conc.lean: updates taken and delivered separately; a policy switch that builds its sets step by step; the aliveChangeCallback window of a notification) and driven on the real code by explicit single-goroutine schedules (deliveries permuted, actions issued from inside the callback); genuinely parallel execution (data races, memory ordering, lock implementation) is not exercised; RestoreHealthSnapshot / MarkAliveForReloadFallback stay atomic",
        "fastrand: only the set of possible answers of the random policy is compared, not their distribution",
    ]
    shim = os.path.join(VERIF, "harness", "overlay", "component", "outbound", "dialer", "c15_shim.go")
    ov = {os.path.join(REPO, "component", "outbound", "dialer", "zz_verif_c15_shim.go"): shim}

    def prove():
        ctx.prove(["DaeVerif.C15.Props"], ["DaeVerif.C15.Props"], ["DaeVerif/C15/*.lean"], extra_targets=["c15drv"])
        ctx.required_theorems(REQUIRED)
        return 0

    def harness(pkg, src, name, test):
        binp = ctx.go_test_build(pkg, src if isinstance(src, list) else [src], name, extra_overlay=ov)
        if not binp:
            return 2
        rc, out = ctx.run_harness(binp, test)
        if rc != 0:
            ctx.say("HARNESS-FAILED", out[-3000:])
            return 2
        return 0

    # three independent jobs (proof + axiom audit, outbound harness, control harness) side by side
    from concurrent.futures import ThreadPoolExecutor
    with ThreadPoolExecutor(3) as ex:
        jobs = [ex.submit(prove),
                ex.submit(harness, "component/outbound", ["component/outbound/c15_test.go", "component/outbound/c15conc_test.go"], "c15", "TestVerifC15"),
                # control/dial.go: the real chooseProxyDialer over a real group (package control)
                ex.submit(harness, "control", "control/c15_test.go", "c15dial", "TestVerifC15Dial")]
        rcs = [j.result() for j in jobs]
    if any(rcs):
        return 2
    n_eval = 0
    distinct = set()
    n_unexp = {}
    for label in ("c15", "c15g2", "c15dial", "c15oob", "c15wit", "c15conc", "c15concg2", "c15race"):
        ops, impl, model = (os.path.join(ctx.out, label + "." + e) for e in ("ops", "impl", "model"))
        if not os.path.exists(ops):
            ctx.say("HARNESS-FAILED no stream", label)
            return 2
        if not ctx.driver("c15drv", ops, model):
            ctx.proof_failures.append("model driver c15drv failed to run")
        mism = ctx.diff_streams(ops, impl, model, label)
        lo, li, lm = read_lines(ops), read_lines(impl), read_lines(model)
        real = []
        cb_only = 0
        # stream c15race, first scenario: a policy switch inside the callback window of a "revived
        # without a latency" notification (Info logging) — the real code dereferences the nil
        # minLatency.dialer after the window.  Everything from the crash to the end of that scenario is
        # the finding, reported once under its key.
        race_skip = set()
        if label == "c15race":
            for i, (op, im) in enumerate(zip(lo, li)):
                if im.startswith("crash:"):
                    j = i
                    while j < len(lo) and not (j > i and lo[j].startswith("world ")):
                        race_skip.add(j + 1)
                        j += 1
                    start = i
                    while start > 0 and not lo[start].startswith("world "):
                        start -= 1
                    race_report(ctx, "(fix 0a25f68 missing?) SetSelectionPolicy(random) inside the aliveChangeCallback window of a notification that revived a node "
                               "without a latency (min policy, Info logging) makes notifyLatencyChange dereference the nil "
                               "minLatency.dialer after the window: " + im[:200],
                               {"stream": label, "line": i + 1, "op": op, "impl": im, "scenario_ops": lo[start:i + 4]},
                               KEY_WINDOW)
                    break
        for ln, op, im, mo in mism:
            if ln in race_skip:
                continue
            if ln:
                r = compare(op, im, mo)
                if r == "cb-only":
                    cb_only += 1
                    continue
                if r:
                    continue
            real.append((ln, op, im, mo))
        ctx.cov["streams"][label]["callback_only_differences"] = cb_only
        ctx.cov["streams"][label]["mismatches"] = len(real)
        for ln, op, im, mo in real[:6]:
            # replay context: the scenario up to the failing line
            start = ln - 1
            while start > 0 and not lo[start - 1].startswith("world "):
                start -= 1
            ctx.report(f"implementation differs from proved model at {label} line {ln} ({op}): impl `{im[:400]}` model `{mo[:400]}`",
                       {"stream": label, "line": ln, "op": op, "impl": im, "model": mo,
                        "scenario_ops": lo[max(0, start - 1):ln],
                        "replay": "feed scenario_ops to lean/.lake/build/bin/c15drv for the model's answers; "
                                  "VERIF_SEED=%d ./check C15 %s regenerates a similar (not identical) stream" % (ctx.seed, ctx.tier)})
        n_eval += len(lo)
        # property-level oracle on the implementation side: inside the theorems' hypotheses the
        # three invariant bits printed by the real code must all be 1
        if True:
            for i, (op, im) in enumerate(zip(lo, li)):
                if (i + 1) in race_skip:
                    continue
                if im.startswith("crash:"):
                    ctx.report(f"real code panicked on `{op}`: {im[:300]}", {"stream": label, "line": i + 1, "op": op, "impl": im})
                for part in im.split(" | "):
                    if " inv=" in part and " inv=111" not in part:
                        ctx.report(f"alive-set invariant broken on the implementation after `{op}`: {part[:300]}",
                                   {"stream": label, "line": i + 1, "op": op, "impl": im})
                if op.startswith(("sel ", "told ", "sample ", "choose ", "dial ", "restore ", "floor", "deliver ", "mark ", "obs ")):
                    distinct.add(im)
            # property-level oracle (theorem deliveries_agree_except_pending), evaluated by the model on
            # states the tie has just shown equal to the real ones: a (domain, node) pair whose set
            # membership differs from the dialer's flag although no update about it is in flight
            for i, (op, im, mo) in enumerate(zip(lo, li, lm)):
                if op == "agree" and " unexp=" in mo and mo.split(" unexp=")[1] != "" and compare(op, im, mo):
                    n_unexp[label] = n_unexp.get(label, 0) + 1
                    start = i
                    while start > 0 and not lo[start].startswith("world "):
                        start -= 1
                    what = ("a set disagrees with the dialer's alive flag although no report about that (domain, node) is in flight: "
                            f"{mo} (stream {label} line {i + 1})")
                    obj = {"stream": label, "line": i + 1, "impl": im, "model": mo, "scenario_ops": lo[start:i + 1]}
                    if label == "c15race":
                        race_report(ctx, what, obj, KEY_BUILD)
                    else:
                        ctx.report(what, obj)
    # regression guard for fix addc261 (former finding c15-hour-sentinel): stream c15wit, first scenario =
    # group {n0 [add_latency: 1h], n1}, n1 dead for tcp4, n0 probed OK -> n0 must be selected.
    oo, oi = read_lines(os.path.join(ctx.out, "c15wit.ops")), read_lines(os.path.join(ctx.out, "c15wit.impl"))
    sels = [(o, i) for o, i in zip(oo, oi) if o.startswith("sel ")]
    ok_now = len(sels) >= 1 and sels[0][1].startswith("ok 0:")
    ctx.cov["hour_offset_witness"] = {"selected": ok_now, "witness": list(zip(oo[:6], oi[:6]))}
    if not ok_now:
        ctx.report("a node whose sorting latency reaches time.Hour is alive but not selectable (fix addc261 missing?): "
                   "group {n0 [add_latency: 1h], n1}, n1 dead for tcp4, n0 probed OK -> " + (sels[0][1] if sels else "?"),
                   {"stream": "c15wit", "ops": oo[:6], "impl": oi[:6]}, key="c15-hour-sentinel")
    # interpretation witness (not a check): never-measured node takes over on a 1 ns worsening
    ctx.cov["unmeasured_takeover_interpretation"] = [i for _, i in sels[1:3]]
    stats = json.load(open(os.path.join(ctx.out, "c15.stats.json")))
    ctx.samples = (stats["samples"] or []) + read_lines(os.path.join(ctx.out, "c15.ops"))[:8]
    ctx.cov["input_distribution"] = stats["counters"]
    # generator floors (quick-tier values; thorough is far above): below a floor the run proves too little
    dial_c = json.load(open(os.path.join(ctx.out, "c15dial.stats.json")))["counters"]
    c = stats["counters"]
    floors = [
        ("samples through the real Dialer.Check", c.get("ev.probe_via_check.sample", 0), 100),
        ("bursts wrapping the latency ring", c.get("ev.burst_over_ring", 0), 40),
        ("selections through Select/SelectWithExclusion", c.get("sel.via_Select", 0) + c.get("sel.via_SelectWithExclusion", 0), 300),
        ("RestoreHealthSnapshot events", sum(v for k, v in c.items() if k.startswith("reload.restore.")), 100),
        ("EnsureReloadSelectionFloor events", c.get("reload.floor", 0), 30),
        ("full hand-overs (capture, restores, floor)", c.get("reload.handover", 0), 15),
        ("policy switches", c.get("op.policy_switch", 0), 200),
        ("selections answered 'no alive'", c.get("sel.noalive", 0), 100),
        ("last-resort answers", c.get("sel.last_resort", 0), 30),
        ("cached choice switched to another node", c.get("best.switched", 0), 200),
        ("scenarios with a second group sharing dialers", c.get("scenario.second_group_sharing_dialers", 0), 30),
        ("probes on the periodic-cycle path (check with a cycleResult)", c.get("ev.probe_periodic_cycle", 0), 150),
        ("callback windows entered with in-window actions", c.get("conc.window.entered", 0), 100),
        ("selections issued inside a callback window", c.get("conc.window.action.select", 0), 80),
        ("policy switches issued inside a callback window", c.get("conc.window.action.policy_switch", 0), 30),
        ("updates taken without delivery (mark/obs)", c.get("conc.async.mark", 0) + c.get("conc.async.obs", 0), 400),
        ("deliveries overtaking an older update", c.get("conc.async.deliver_overtaking_an_older_update", 0), 200),
        ("deliveries made before an older update about the same (domain, node)", c.get("conc.async.deliver_before_older_update_about_same_pair", 0), 100),
        ("reload floor / restore while a revival is in flight", c.get("conc.async.reload_op_while_revival_in_flight", 0), 40),
        ("agree ops with pairs unsettled by updates in flight", c.get("conc.agree.with_unsettled_pairs", 0), 15),
        ("scenarios ended at quiescence (all delivered, sets = flags)", c.get("conc.quiescent_end_of_scenario", 0), 80),
        ("reports naming TCP by its TCP-DNS alias type", c.get("ev.report_named_tcp_dns_alias", 0), 300),
        ("race witness: report landed in the set-build window", c.get("race.report_landed_in_build_window", 0), 1),
        ("routeDial ops", dial_c.get("op.dial", 0), 200),
        ("routeDial retries after network-unreachable", dial_c.get("dial.retry_after_unreachable", 0), 50),
        ("re-routed dials (domain++ or control-plane routing)", sum(v for k, v in dial_c.items() if k.startswith("dial.mode_c.out_u.dom_") and not k.endswith("dom_n")) + sum(v for k, v in dial_c.items() if ".out_x." in k), 80),
    ]
    ctx.cov["generator_floors"] = [{"what": w, "count": n, "floor": f} for w, n, f in floors]
    low = [(w, n, f) for w, n, f in floors if n < f]
    if low:
        ctx.say("GENERATOR-BELOW-FLOOR " + "; ".join(f"{w}: {n} < {f}" for w, n, f in low))
        if not ctx.violations and not ctx.proof_failures:
            return 2   # nothing wrong was seen, but too little was looked at
    ctx.cov["input_distribution_dial"] = json.load(open(os.path.join(ctx.out, "c15dial.stats.json")))["counters"]
    ctx.assumptions = ["histories are generated: 0..12 nodes, 1-2 groups sharing dialers, tolerance 0..1000 ns plus negative / 2^40 / seconds-scale values, latencies/offsets boundary-heavy (ties frequent), backoff levels 0..6; "
                       "stream c15oob additionally places one node's offset at/around time.Hour (the former sentinel; inside the theorems since fix addc261)",
                       "theorems with suffix _partial (tolerance clauses) assume `mono`: a dialer that has reported a latency under the current policy keeps reporting one (true of LatenciesN / moving average with samples >= 1 ns: measurement_once_always_for_positive_samples; broken only by restoring an emptier health snapshot); no bound on latencies/offsets/tolerance is assumed"]
    return ctx.finish(rule="one evaluation = one op line (event, policy switch or selection) answered by the real code and by the model; "
                           "distinct_nontrivial = distinct implementation answers to event/selection ops",
                      evaluations=n_eval, distinct=len(distinct))
