"""C13 — UDP flows: ordered exactly-once task handling over one stable, leak-free endpoint."""
import json, os
from verifkit import read_lines

REQUIRED = []

STREAMS = ["c13_tq"]


def run(ctx):
    ctx.prove(["DaeVerif.C13.Props"], ["DaeVerif.C13.Props"], ["DaeVerif/C13/*.lean"], extra_targets=["c13drv"])
    ctx.required_theorems(REQUIRED)
    binp = ctx.go_test_build("control", ["control/c13_test.go"], "c13", tags="verif,dae_stub_ebpf")
    if not binp:
        return 2
    rc, out = ctx.run_harness(binp, "TestVerifC13")
    if rc != 0:
        ctx.say("HARNESS-FAILED", out[-3000:])
        return 2
    total = 0
    for name in STREAMS:
        ops, impl, model = (os.path.join(ctx.out, name + "." + e) for e in ("ops", "impl", "model"))
        if not os.path.exists(ops):
            ctx.say("HARNESS-FAILED missing stream", name)
            return 2
        if not ctx.driver("c13drv", ops, model):
            ctx.proof_failures.append("model driver c13drv failed to run")
        mism = ctx.diff_streams(ops, impl, model, name)
        total += len(read_lines(ops))
        for ln, op, im, mo in mism[:5]:
            ctx.report(f"implementation differs from proved model at {name} line {ln}: op `{op}` impl `{im}` model `{mo}`",
                       {"stream": name, "line": ln, "op": op, "impl": im, "model": mo})
    stats = json.load(open(os.path.join(ctx.out, "c13.stats.json")))
    ctx.cov["input_distribution"] = stats["counters"]
    return ctx.finish(rule="", evaluations=total, distinct=0)
