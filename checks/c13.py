"""C13 — UDP flows: ordered exactly-once task handling over one stable, leak-free endpoint.

prove  : lake build DaeVerif.C13.Props (+ axiom audit, forbidden-construct scan)
tie    : translators/c13disp regenerates production's UDP ingress statements (Serve: batch loop, processPacket) and the
         harness runs them on the real batch reader in front of the real task pool (stream c13_ing);
         harness/overlay/control/c13_*.go run the REAL udp_task_pool.go (schedule replay through the
         `verif` yield points), udp_conn_state_tracker.go, control_plane_drain.go, udp_flow.go and
         udp_endpoint_pool.go; lean/DaeVerif/C13/Main.lean evaluates the same op lines on the models
         the theorems are about; outputs are diffed line by line
report : first disagreeing schedule / sequence as replay; property-level oracles on the
         implementation's own outputs (nothing lost or reordered, one dial, closed exactly once)
"""
import hashlib, json, os, re
from verifkit import read_lines

REQUIRED = [
    # (a) task queues
    "DaeVerif.C13.Props.tq_exactly_once_in_order",
    "DaeVerif.C13.Props.tq_no_duplicate_no_cross_flow",
    "DaeVerif.C13.Props.tq_one_at_a_time",
    "DaeVerif.C13.Props.tq_recycled_channel_empty",
    "DaeVerif.C13.Props.tq_never_stranded",
    "DaeVerif.C13.Props.tq_convoy_can_step",
    "DaeVerif.C13.Props.legacy_gc_loses_task",
    "DaeVerif.C13.Props.legacy_pop_reorders",
    # (b) tuple tracker
    "DaeVerif.C13.Props.trk_refs_equal_owners",
    "DaeVerif.C13.Props.trk_delete_exactly_when_last_owner_leaves",
    "DaeVerif.C13.Props.trk_kernel_entry_removed_iff_last_owner",
    "DaeVerif.C13.Props.trk_only_release_deletes",
    "DaeVerif.C13.Props.trk_no_retain_during_delete",
    "DaeVerif.C13.Props.trk_finalize_wakes_waiters",
    "DaeVerif.C13.Props.trk_handover_never_deletes",
    # (c) drain tickets
    "DaeVerif.C13.Props.drain_count_is_live_tickets",
    "DaeVerif.C13.Props.drain_release_once",
    # (d) endpoint keys and pool
    "DaeVerif.C13.Props.key_same_source_same_key",
    "DaeVerif.C13.Props.key_lookup_finds_dial_key",
    "DaeVerif.C13.Props.key_scope_fields",
    "DaeVerif.C13.Props.ep_handout_iff_usable",
    "DaeVerif.C13.Props.ep_recent_failure_blocks_dial",
    "DaeVerif.C13.Props.ep_created_is_fresh",
    "DaeVerif.C13.Props.ep_dead_and_closed_are_final",
    "DaeVerif.C13.Props.ep_never_handed_out_again",
    "DaeVerif.C13.Props.ep_stale_generation_not_handed_out",
    "DaeVerif.C13.Props.ep_handed_out_is_open",
    "DaeVerif.C13.Props.ep_index_holds_only_open_endpoints",
    "DaeVerif.C13.Props.late_registration_leaks",
    "DaeVerif.C13.Props.ep_transport_end_retires_riders",
    "DaeVerif.C13.Props.ep_register_on_ended_transport_retires",
    "DaeVerif.C13.Props.ep_retire_spec",
    "DaeVerif.C13.Props.ep_transport_closed_once_with_endpoint",
    "DaeVerif.C13.Props.ep_close_releases_once",
    "DaeVerif.C13.Props.ep_single_dial",
    "DaeVerif.C13.Props.same_flow_same_endpoint",
    "DaeVerif.C13.Props.first_packet_establishes_endpoint",
    "DaeVerif.C13.Props.ingress_taken_buffer_never_rewritten",
    # (a') bounded progress and the ingress composition
    "DaeVerif.C13.Props.tq_head_runs_within_five_convoy_steps",
    "DaeVerif.C13.Props.tq_running_task_finishes_next_step",
    "DaeVerif.C13.Props.ingress_runs_in_arrival_order",
    "DaeVerif.C13.Props.ingress_flow_dispatched_one_way",
    "DaeVerif.C13.Props.ingress_mapped_peer_same_flow",
    "DaeVerif.C13.Props.ingress_spec_flow_order",
    "DaeVerif.C13.Props.route_scripted_dials_refine_handle",
    "DaeVerif.C13.Props.route_recent_dial_failure_drops_without_dial",
]

STREAMS = ["c13_tq", "c13_trk", "c13_krn", "c13_drn", "c13_key", "c13_ep", "c13_epc", "c13_lock", "c13_hp", "c13_ib", "c13_ing"]
HARNESS = ["control/c13_test.go", "control/c13_seq_test.go", "control/c13_ep_test.go", "control/c13_hp_test.go", "control/c13_ing_test.go"]
RESET = {"c13_ing": "ing reset", "c13_tq": "tq reset", "c13_trk": "trk reset", "c13_krn": "krn reset", "c13_drn": "drn reset", "c13_ep": "ep reset", "c13_epc": "ep reset", "c13_lock": "epc reset", "c13_hp": "hp reset", "c13_ib": "ib reset"}


# generator floors (applied in every tier; the values are sized for quick, thorough is far above): a run that
# does not reach these input classes is not evidence -> exit 2
FLOORS = {
    "tq.digest.overflow>256": 100, "tq.overflow.sliceShrunk": 2, "tq.schedules.compacting.armed": 2, "tq.digest.claimed": 500,
    "tq.stop.convoy.afterClaimCAS": 200, "tq.stop.acquire.beforeCompareAndDelete": 2, "tq.stop.acquire.slowBeforeLoadRefs": 50,
    "tq.auto.recv": 20, "tq.schedules.overflowSized": 5, "tq.schedules.volume": 2,
    "trk.retain.blocked": 20, "trk.finalize.withWaiters": 15, "trk.transfer": 80,
    "krn.release.lastOwner": 100, "krn.release.sharedTupleSurvives": 15, "krn.transfer.shared": 15, "krn.transfer.distinct": 15,
    "ep.goc.hit": 300, "ep.goc.err-failed": 40, "ep.split.inval": 100, "ep.split.inval.opAfterBump": 100,
    "ep.split.create": 80, "ep.split.create.invalInside": 80, "ep.split.janitor": 30, "ep.split.janitor.opBeforeClose": 30,
    "ep.write.err.fail": 40, "ep.goc.notPacketConn.dialled": 20, "ep.reply": 200, "ep.track": 100,
    "hp.outcome.reused": 200, "hp.outcome.dialled": 200, "hp.pkt.withWriteFailures": 100, "hp.kill": 30, "hp.inval": 20, "hp.seq.healthAwareGroup": 20,
    "hp.pkt.dialFailed": 40, "hp.pkt.blockedByNegativeCache": 10, "hp.adv": 60,
    "ep.goc.secondDialInCall.new": 30, "ep.goc.secondDialInCall.err-dial": 50, "ep.goc.transientLocalError.err-dial": 40,
    "krn.window": 60, "krn.coreClose": 5, "krn.opThroughClosedCore": 20,
    "ep.tdone": 100, "ep.split.create.tdoneInside": 15, "ep.split.create.anyOpAfterPublish": 60, "ep.resetpool": 40,
    "ib.take": 80, "ib.read": 200, "key.scope.controlPlaneRouting": 300,
    # ingress (production's batch loop + processPacket in front of the real task pool)
    "ing.dgram.ordered": 1000, "ing.dgram.direct": 300, "ing.dgram.peerMapped": 200, "ing.dgram.dstMapped": 200,
    "ing.dgram.slowTask": 300, "ing.dgram.noPeerAddress": 5, "ing.seq.overflowReached": 3, "ing.flow.128orMoreTasks": 3,
    "ing.flow.queueRecreatedAfterIdleGC": 8, "ing.between.released": 50, "ing.between.idlePeriod": 20,
}


def ingress_overlay(ctx):
    """Production's UDP ingress statements of (*ControlPlane).Serve (the processPacket closure around the packet
    task, and the batch-read loop), regenerated from /repo's current control_plane.go by translators/c13disp.
    Fails closed: when an anchor moved there is no copy to fall back on -> None (the check exits 2)."""
    from verifkit import sh, go_env, VERIF, REPO
    gen = os.path.join(ctx.out, "gen")
    os.makedirs(gen, exist_ok=True)
    outp = os.path.join(gen, "c13ingress.go")
    if os.path.exists(outp):
        os.unlink(outp)
    rc, out, dt = sh(["go", "run", "main.go", os.path.join(REPO, "control"), outp],
                     cwd=os.path.join(VERIF, "translators", "c13disp"), env=go_env(), timeout=600)
    ctx.log.write(f"$ c13disp [{dt:.1f}s rc={rc}] {out}\n")
    if rc != 0 or not os.path.exists(outp):
        ctx.say("TRANSLATOR-FAILED c13disp (the ingress statements of Serve could not be located; no fallback copy is used):",
                out.strip()[-400:])
        return None
    return {os.path.join(REPO, "control", "zz_verif_c13ingress.go"): outp}


def segment(ops, impl, lineno, reset_prefix):
    """the op lines (with the implementation's answers) of the schedule/sequence containing `lineno` (1-based)"""
    i = lineno - 1
    start = i
    while start > 0 and not ops[start].startswith(reset_prefix):
        start -= 1
    return [f"{o}  =>  {a}" for o, a in zip(ops[start:i + 1], impl[start:i + 1])]


def kernel_entries_left(name, op, im, mo):
    """the class of the BpfMapBatchDelete finding: trackers agree, but the real kernel map still holds tuples
    the model has deleted (their last owner released them)"""
    if name == "c13_ep" and op == "ep kleft":
        return im.isdigit() and int(im) > 0
    if name != "c13_krn":
        return False
    def parts(line):
        m = re.match(r"t0\[(.*?)\] k0=(\S+) t1\[(.*?)\] k1=(\S+)$", line)
        if not m:
            return None
        ks = lambda x: set() if x == "-" else set(x.split(","))
        return (m.group(1), m.group(3)), (ks(m.group(2)), ks(m.group(4)))
    a, b = parts(im), parts(mo)
    return bool(a and b and a[0] == b[0] and a[1][0] >= b[1][0] and a[1][1] >= b[1][1])


def tq_oracle(ctx, ops, impl):
    """implementation-side property check: at the end of every schedule (after the drain) each flow's
    execution log equals its acceptance log, and no task ran twice or under a flow it was not emitted for."""
    n_sched = n_tasks = 0
    sigs = set()
    start = 0
    bounds = [i for i, o in enumerate(ops) if o.startswith("tq reset")] + [len(ops)]
    for a, b in zip(bounds, bounds[1:]):
        n_sched += 1
        sched = [o for o in ops[a:b] if o.startswith(("tq run", "tq auto", "tq spawn"))]
        sigs.add(hashlib.sha1("\n".join(sched).encode()).hexdigest())
        last = {}
        for o, im in zip(ops[a:b], impl[a:b]):
            if o.startswith("tq log "):
                last[o] = im
        for o, im in last.items():
            m = re.match(r"done=(\S+) accepted=(\S+)", im)
            if not m:
                continue
            done, acc = m.group(1), m.group(2)
            n_tasks += 0 if acc == "-" else len(acc.split(","))
            if done != acc:
                ctx.report(f"task queue (real code): flow {o.split()[2]} finished `{done}` but accepted `{acc}` at the end of the schedule "
                           f"(a task was lost, duplicated, reordered or ran under another flow)",
                           {"stream": "c13_tq", "schedule": [f"{x}  =>  {y}" for x, y in zip(ops[a:b], impl[a:b])][:4000]})
                return n_sched, n_tasks, sigs
    return n_sched, n_tasks, sigs


def ing_oracle(ctx, ops, impl):
    """implementation-side (independent of the model): every datagram's task ran exactly once, and the tasks a
    queue ran are in the order their datagrams were read from the socket (ids increase)."""
    n = 0
    bounds = [i for i, o in enumerate(ops) if o.startswith("ing reset")] + [len(ops)]
    for a, b in zip(bounds, bounds[1:]):
        for o, im in zip(ops[a:b], impl[a:b]):
            bad = None
            if o.startswith("ing dgram "):
                n += 1
                m = re.search(r"runs=(\d+)", im)
                if not m or m.group(1) != "1":
                    bad = f"the task of datagram {o.split()[2]} ran `{im}` (expected exactly once)"
            elif o.startswith("ing log ") and im != "-":
                ids = [int(x) for x in im.split(",")]
                if any(x >= y for x, y in zip(ids, ids[1:])):
                    bad = f"flow {o[8:]}: tasks ran in the order {im[:200]}, not in the order the datagrams were read"
            if bad:
                ctx.report("ingress (real code): " + bad,
                           {"stream": "c13_ing", "sequence": [f"{x}  =>  {y}" for x, y in zip(ops[a:b], impl[a:b])][:600]})
                return n
    return n


def ep_oracle(ctx, ops, impl):
    """implementation-side: no transport is ever closed twice; after the final quiet period every dialled
    endpoint is closed exactly once, the pool is empty, no drain ticket and no tracked tuple is left."""
    n_seq = 0
    leak_reported = [False]
    bounds = [i for i, o in enumerate(ops) if o.startswith("ep reset")] + [len(ops)]
    for a, b in zip(bounds, bounds[1:]):
        n_seq += 1
        last_st = None
        for o, im in zip(ops[a:b], impl[a:b]):
            if o == "ep st":
                last_st = im
                if re.search(r":f\dd\dc([2-9]|\d\d)", im):
                    ctx.report("endpoint pool (real code): a transport was closed more than once: " + im[:300],
                               {"stream": "c13_ep", "sequence": [f"{x}  =>  {y}" for x, y in zip(ops[a:b], impl[a:b])][:2000]})
                    return n_seq
        if not leak_reported[0]:
            for o, im in zip(ops[a:b], impl[a:b]):
                m = o == "ep st" and re.search(r" reg=(\S+) eps=(.*)$", im)
                if not m or m.group(1) == "-":
                    continue
                regs = set(m.group(1).split(","))
                closed = {x.split(":")[0] for x in m.group(2).split(" ") if re.match(r"\d+:f\dd\dc[1-9]", x)}
                if regs & closed:
                    leak_reported[0] = True
                    ctx.cov["ep_closed_endpoint_left_registered"] = True
                    ctx.report("endpoint pool (real code): a closed endpoint is (still) in its dialer's bucket — it was registered "
                               f"after somebody closed it and is never unregistered: endpoint(s) {sorted(regs & closed)} in {im[:300]}",
                               {"stream": "c13_ep", "sequence": [f"{x}  =>  {y}" for x, y in zip(ops[a:b], impl[a:b])][:400]},
                               key="c13-closed-endpoint-registered-after-close")
                    break
        if last_st and ops[b - 2].startswith("ep adv 130000"):
            bad = None
            if not last_st.startswith("pool=- "):
                bad = "pool not empty after the quiet period"
            elif " drn=0,0 " not in last_st:
                bad = "drain tickets left after every endpoint expired"
            elif "trk0[e=- blocked=0] trk1[e=- blocked=0]" not in last_st:
                bad = "tracked conn-state tuples left after every endpoint expired"
            elif re.search(r"\d+:f0d\dc0", last_st):
                bad = "a dialled endpoint was never closed"
            if bad:
                ctx.report(f"endpoint pool (real code): {bad}: {last_st[:300]}",
                           {"stream": "c13_ep", "sequence": [f"{x}  =>  {y}" for x, y in zip(ops[a:b], impl[a:b])][:2000]})
                return n_seq
    return n_seq


def run(ctx):
    ctx.trusted += [
        "Go runtime: goroutine scheduling fairness, channel / sync.Map / sync.Mutex / atomic semantics as assumed by the model's atomic steps; sync.Pool modelled as a bag (Get = any element or a fresh channel)",
        "testing/synctest (virtual time and quiescence detection for the schedule replays and the pool's timers)",
        "translators/c13disp (go/ast): copies the statements of Serve's processPacket closure around the packet task, and the batch-read loop, verbatim from the current control_plane.go into two functions (fails closed when an anchor moves); what the packet task does (routing lookup + handlePkt) is replaced by the harness' recording body and is tied separately (c13_hp)",
        "the `verif` yield points (control/verif_hooks_on.go) park goroutines only between the shared-memory accesses the model treats as separate steps; segments between two yield points with more than one access are listed in design_notes/C13.md",
        "fake dialers / transport conns / reply handlers of the harness stand for real proxies and sockets; the kernel conn-state map is a real eBPF hash map created with ebpf.NewMap (needs CAP_BPF; without it the check exits 2 with HARNESS-ENV) driven through the production ReleaseUdpConnStateTuples / BpfMapBatchDelete; the ingress-batch reader is the production one on a fake batch socket",
    ]
    ctx.assumptions = [
        "task pool Close/Reset and panicking tasks are outside the property's quantifier and not modelled",
        "endpoint pool: operations are modelled as atomic (sequential specification) plus the split steps of invalidation, retire, creation (before / after publish) and the janitor's remove->close window, in which the harness parks ONE goroutine at a time and issues other operations; the release window of ReleaseUdpConnStateTuples is stepped the same way; two further windows (concurrent first packets, retire vs re-creation) and the lock structure of GetOrCreate for one key are replayed on the real clock and compared in linearisation order; two half-way calls at once are not generated; direct (non-proxy) dialers only",
        "handlePkt is executed with sniffing switched off for the packet, an empty sniffed domain, user-defined outbounds and one healthy dialer; MaxRetry and the sniff-eligible / direct-dispatch port sets are read off the code and handed to the model (tuning constants, not part of the property)",
        "same_flow_same_endpoint is stated for packets of a flow whose endpoint was dialled for that destination (Carries); a source-only endpoint dialled for another destination does not bind a flow that later becomes destination-bound (design note, reading R1), and with scope-sensitive routing the source-only key carries outbound/mark as well (R2)",
        "ingress: ONE reader goroutine per listener socket dispatches the datagrams (the single for-loop of Serve); the single-datagram read loop (dual-stack listener) is not executed, only the batch loop; direct-dispatch flows (DNS, SIP/RTP, STUN ports) are unordered by design",
        "tuple tracker theorems assume the client discipline (release/forget only what was retained), which the endpoint model follows",
    ]
    ctx.prove(["DaeVerif.C13.Props"], ["DaeVerif.C13.Props"], ["DaeVerif/C13/*.lean"], extra_targets=["c13drv"])
    ctx.required_theorems(REQUIRED)

    # real-bpf build variant (synthetic bpf2go file, no dae_stub_ebpf): BpfMapBatchDelete is the production one
    fake = ctx.fake_bpf_overlay()
    ing = ingress_overlay(ctx)
    if not fake or not ing:
        return 2
    binp = ctx.go_test_build("control", HARNESS, "c13", tags="verif", extra_overlay={**fake, **ing})
    if not binp:
        return 2
    rc, out = ctx.run_harness(binp, "TestVerifC13", timeout=1500)
    if rc != 0:
        # The harness itself failed (its own consistency checks `c13: ...`, a yield point that moved, a
        # synctest deadlock, a build-level mismatch with private fields): that is a broken harness or an
        # un-replayable tree, not evidence about the property -> exit 2, never a VIOLATION.
        m = re.search(r"(panic: .*|fatal error: .*|c13: .*)", out)
        ctx.say("HARNESS-FAILED", (m.group(1) if m else ""), out[-4000:])
        return 2

    # capabilities the harness genuinely needs: their absence is an environment problem, said so explicitly
    # (exit 2), never a silent truncation and never a VIOLATION
    stats_path = os.path.join(ctx.out, "c13.stats.json")
    counters = json.load(open(stats_path))["counters"] if os.path.exists(stats_path) else {}
    if counters.get("krn.unavailable") or counters.get("ep.connStateMap.unavailable"):
        ctx.say("HARNESS-ENV: creating a BPF hash map (ebpf.NewMap) is not permitted in this environment; C13 needs CAP_BPF "
                "(or CAP_SYS_ADMIN) and a sufficient RLIMIT_MEMLOCK for the kernel conn-state streams (c13_krn, `ep kleft`). "
                "Not a verdict about the property.")
        return 2
    if counters.get("ib.noSocket"):
        ctx.say("HARNESS-ENV: net.ListenUDP on 127.0.0.1:0 failed; the ingress-batch stream (c13_ib) needs one loopback UDP socket "
                "to construct the production reader. Not a verdict about the property.")
        return 2

    total = 0
    distinct = set()
    per_stream = {}
    for name in STREAMS:
        ops_p, impl_p, model_p = (os.path.join(ctx.out, name + "." + e) for e in ("ops", "impl", "model"))
        if not os.path.exists(ops_p):
            if os.environ.get("VERIF_C13_ONLY"):   # debugging aid: only part of the harness was run
                continue
            ctx.say("HARNESS-FAILED missing stream", name)
            return 2
        if not ctx.driver("c13drv", ops_p, model_p):
            ctx.proof_failures.append("model driver c13drv failed to run on " + name)
        mism = ctx.diff_streams(ops_p, impl_p, model_p, name)
        ops, impl = read_lines(ops_p), read_lines(impl_p)
        total += len(ops)
        per_stream[name] = len(ops)
        for ln, op, im, mo in mism[:1]:
            if ln == 0:
                ctx.report(f"{name}: {op}", {"stream": name})
                continue
            seg = segment(ops, impl, ln, RESET.get(name, "\x00"))
            if kernel_entries_left(name, op, im, mo):
                ctx.report(f"kernel conn-state entries outlive their last owner ({name} line {ln}): op `{op}` real `{im}` model `{mo}`",
                           {"stream": name, "line": ln, "sequence": seg[-400:]}, key="c13-batch-delete-stops-at-missing-key")
                continue
            ctx.report(f"real code differs from the proved model in {name} at line {ln}: op `{op}` real `{im}` model `{mo}`",
                       {"stream": name, "line": ln, "op": op, "impl": im, "model": mo,
                        "schedule_up_to_here": seg[-1500:],
                        "rerun": f"VERIF_SEED={ctx.seed} ./check C13 {ctx.tier}"})
        if name == "c13_tq":
            n_sched, n_tasks, sigs = tq_oracle(ctx, ops, impl)
            ctx.cov["tq_schedules"] = n_sched
            ctx.cov["tq_tasks_checked_exactly_once_in_order"] = n_tasks
            distinct |= {("tq", s) for s in sigs}
        elif name == "c13_ing":
            ctx.cov["ing_datagrams_checked_exactly_once_in_arrival_order"] = ing_oracle(ctx, ops, impl)
            distinct |= {("ing", o, i) for o, i in zip(ops, impl)}
        elif name == "c13_ep":
            ctx.cov["ep_sequences"] = ep_oracle(ctx, ops, impl)
            distinct |= {("ep", o, i) for o, i in zip(ops, impl) if not o.startswith("ep st")}
        elif name == "c13_epc":
            for o, im in zip(ops, impl):
                if o == "ep stx" and im.startswith("pool=0:0 ") and "dials=1 " not in im:
                    ctx.report("endpoint pool (real code): concurrent first packets of one source caused more than one dial: " + im,
                               {"stream": name})
                    break
            distinct |= {("epc", o, i) for o, i in zip(ops, impl)}
        elif name == "c13_lock":
            for o, im in zip(ops, impl):
                m = re.search(r"dials=(\d+)", im)
                if m and int(m.group(1)) > 1:
                    ctx.report("endpoint pool (real code): more than one dial for concurrent GetOrCreate calls on one key: " + im,
                               {"stream": name, "schedule": segment(ops, impl, ops.index(o) + 1, "epc reset")})
                    break
            bounds = [i for i, o in enumerate(ops) if o.startswith("epc reset")] + [len(ops)]
            distinct |= {("lock", hashlib.sha1("\n".join(ops[a:b]).encode()).hexdigest()) for a, b in zip(bounds, bounds[1:])}
        else:
            distinct |= {(name, o) for o in ops}

    stats = json.load(open(os.path.join(ctx.out, "c13.stats.json")))
    ctx.cov["input_distribution"] = stats["counters"]
    if not os.environ.get("VERIF_C13_ONLY"):
        low = {k: (stats["counters"].get(k, 0), v) for k, v in FLOORS.items() if stats["counters"].get(k, 0) < v}
        if low and not ctx.violations:
            ctx.say("GENERATOR-BELOW-FLOOR (reached, required):", low)
            return 2
        if low:
            # a concrete violation was already found: it is the verdict; the missed floor (often a consequence of the
            # same defect, e.g. a class the broken code no longer reaches) is reported as a note only
            ctx.say("note: generator floor missed in a run that also found violations:", low)
    ctx.cov["ops_per_stream"] = per_stream
    def some(name, pred, n):
        p = os.path.join(ctx.out, name + ".ops")
        return [o for o in read_lines(p) if pred(o)][:n] if os.path.exists(p) else []
    ctx.samples = some("c13_tq", lambda o: not o.startswith("tq reset"), 5) + some("c13_ep", lambda o: o.startswith("ep goc"), 3) + \
        some("c13_trk", lambda o: not o.startswith("trk reset"), 2) + some("c13_key", lambda o: True, 2)
    return ctx.finish(
        rule="evaluations = op lines compared (one op = one released goroutine segment / one pool, tracker, drain or key-function call, "
             "plus the state digests after it); distinct_nontrivial = distinct task-queue schedules (hash of the run/auto/spawn lines) "
             "+ distinct (op, real answer) pairs of the endpoint streams + distinct op lines of the tracker / drain / key streams",
        evaluations=total, distinct=len(distinct))
