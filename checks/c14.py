"""C14 — a group contains exactly the nodes its filters select, each with its annotation."""
import json, os
from verifkit import read_lines

REQUIRED = [
    "DaeVerif.C14.Props.members_exact",
    "DaeVerif.C14.Props.accepted_result_is_meaning",
    "DaeVerif.C14.Props.filterHit_computes_line",
    "DaeVerif.C14.Props.value_semantics",
    "DaeVerif.C14.Props.atoi_range",
    "DaeVerif.C14.Props.member_iff",
    "DaeVerif.C14.Props.members_once_in_pool_order",
    "DaeVerif.C14.Props.member_annotation_of_first_line",
    "DaeVerif.C14.Props.no_filter_all",
    "DaeVerif.C14.Props.line_semantics",
    "DaeVerif.C14.Props.keyword_is_substring",
    "DaeVerif.C14.Props.annotation_first_nonzero",
    "DaeVerif.C14.Props.invalid_always_reported",
    "DaeVerif.C14.Props.error_iff_invalid",
    "DaeVerif.C14.Props.error_names_invalid_item",
    "DaeVerif.C14.Props.policy_ok_iff",
    "DaeVerif.C14.Props.group_error_iff",
    "DaeVerif.C14.Props.fixed_selects_ith_member",
]


def run(ctx):
    ctx.trusted += [
        "regexp2.Compile/MatchString and time.ParseDuration are oracles of the model (library code, evaluated by the harness independently of the filter code and passed to the driver as tables)",
        "the 40-line group loop of control.NewControlPlane (policy -> FilterAndAnnotate -> NewDialerGroup) is replicated in the harness (package outbound), not executed in place; ParseGroupOverrideOption cloning is not covered",
        "text -> []*Function is the real config parser's job (C17); C14's model starts at config.Group",
    ]
    ctx.prove(["DaeVerif.C14.Props"], ["DaeVerif.C14.Props"], ["DaeVerif/C14/*.lean"], extra_targets=["c14drv"])
    ctx.required_theorems(REQUIRED)

    binp = ctx.go_test_build("component/outbound", ["component/outbound/c14_test.go"], "c14")
    if not binp:
        return 2
    rc, out = ctx.run_harness(binp, "TestVerifC14")
    ops, impl, model, side = (os.path.join(ctx.out, "c14." + e) for e in ("ops", "impl", "model", "side"))
    if rc != 0 or not os.path.exists(ops):
        ctx.say("HARNESS-FAILED", out[-3000:])
        return 2
    if not ctx.driver("c14drv", ops, model):
        ctx.proof_failures.append("model driver c14drv failed to run")
    mism = ctx.diff_streams(ops, impl, model, "c14")

    # property-level oracles on the implementation side (independent of the Lean model):
    #  (1) a definition is rejected iff it is invalid (documented inputs/keys, compiling regexes,
    #      well-formed annotations), whatever the pool — the defect fixed by 367c759 was exactly a
    #      violation of "invalid => rejected";
    #  (2) when accepted, the members are those of the Go-side declarative oracle (spec=...).
    o, i, s = read_lines(ops), read_lines(impl), read_lines(side)
    distinct = set()
    n_fa = n_invalid = n_crash = 0
    budget = {}

    def report(kind, what, obj):   # at most 4 replay files per kind of disagreement
        budget[kind] = budget.get(kind, 0) + 1
        if budget[kind] <= 4:
            ctx.report(what, obj)
    for k, (op, im) in enumerate(zip(o, i)):
        sd = dict(kv.split("=") for kv in s[k].split()[1:]) if k < len(s) else {}
        if im.startswith("crash:"):
            n_crash += 1
            report("crash", f"real code panicked: {im[:200]}", {"op": op, "impl": im})
            continue
        if not op.startswith("fa "):
            continue
        n_fa += 1
        distinct.add(op)
        valid = sd.get("valid") == "true"
        lens_ok = len(set(sd.get("lens", "0/0").split("/"))) == 1
        if not valid:
            n_invalid += 1
        if lens_ok and valid and im.startswith("err "):
            report("valid-rejected", f"valid group definition rejected by the implementation: {im[:200]}", {"op": op, "impl": im})
        if lens_ok and not valid and im.startswith("ok "):
            report("invalid-accepted", "invalid filter/annotation accepted silently by the implementation (selection: %s)" % im[:200],
                   {"op": op, "impl": im, "replay": "VERIF_SEED=%d ./check C14 %s" % (ctx.seed, ctx.tier)})
        if im.startswith("ok "):
            f = im.split()
            if len(f) != 3 or "spec=" + f[1] != f[2]:
                report("spec", f"members differ from what the definition means (Go-side oracle): {im[:300]}", {"op": op, "impl": im})
    for ln, op, im, mo in mism[:6]:
        ctx.report(f"implementation differs from proved model at line {ln}: impl `{im[:200]}` model `{mo[:200]}`",
                   {"stream": "c14", "line": ln, "op": op, "impl": im, "model": mo,
                    "replay": "VERIF_SEED=%d ./check C14 %s" % (ctx.seed, ctx.tier)})
    # the group loop of control.NewControlPlane cannot be executed in isolation (it sits in the middle
    # of the BPF-loading constructor); the harness replicates it.  Record (never fail on) whether the
    # three calls still appear in the replicated order, so that a reader of the evidence knows.
    try:
        from verifkit import REPO
        src = open(os.path.join(REPO, "control", "control_plane.go"), encoding="utf-8").read()
        pins = ["outbound.NewDialerSelectionPolicyFromGroupParam(&group)",
                "dialerSet.FilterAndAnnotate(group.Filter, group.FilterAnnotation)",
                "outbound.NewDialerGroup(finalOption, group.Name, dialers, annos, *policy"]
        pos = [src.find(p) for p in pins]
        ctx.cov["control_plane_glue_as_replicated"] = all(p >= 0 for p in pos) and pos == sorted(pos)
        if not ctx.cov["control_plane_glue_as_replicated"]:
            ctx.say("NOTE C14: control_plane.go group loop no longer matches the sequence replicated by the harness "
                    "(policy -> FilterAndAnnotate -> NewDialerGroup); re-audit c14Group in the harness")
    except OSError:
        ctx.cov["control_plane_glue_as_replicated"] = None
    stats = json.load(open(os.path.join(ctx.out, "c14.stats.json")))
    ctx.samples = stats["samples"][:8] + [x[:400] for x in o[:2]]
    ctx.cov["input_distribution"] = stats["counters"]
    ctx.cov["fa_ops"] = n_fa
    ctx.cov["fa_ops_invalid_definition"] = n_invalid
    ctx.cov["disagreements_by_kind"] = budget
    ctx.assumptions = [
        "pools of 0..14 nodes, definitions of 0..6 lines x 1..3 conditions x 0..3 values, generated (seeded); "
        "about two thirds of the definitions reach the code through the real config parser, the rest are built as structs "
        "(values the config syntax cannot express, odd policy types, length-mismatch guard)",
    ]
    return ctx.finish(
        rule="ops = `fa` (pool, filter lines, annotations -> members with annotations | error) and `grp` (policy + the same -> "
             "group members, fixed(i) selection | error); one op is one (pool, group definition) pair; the regexp2 / "
             "ParseDuration results the op needs travel with it; distinct_nontrivial counts distinct `fa` ops",
        evaluations=len(o), distinct=len(distinct))
