"""C14 — a group contains exactly the nodes its filters select, each with its annotation."""
import json, os, re, threading
from verifkit import read_lines, REPO, VERIF

REQUIRED = [
    "DaeVerif.C14.Props.members_exact",
    "DaeVerif.C14.Props.accepted_result_is_meaning",
    "DaeVerif.C14.Props.filterHit_computes_line",
    "DaeVerif.C14.Props.value_semantics",
    "DaeVerif.C14.Props.atoi_range",
    "DaeVerif.C14.Props.member_iff",
    "DaeVerif.C14.Props.members_once_in_pool_order",
    "DaeVerif.C14.Props.member_annotation_of_first_line",
    "DaeVerif.C14.Props.no_filter_all",
    "DaeVerif.C14.Props.line_semantics",
    "DaeVerif.C14.Props.keyword_is_substring",
    "DaeVerif.C14.Props.annotation_first_nonzero",
    "DaeVerif.C14.Props.invalid_always_reported",
    "DaeVerif.C14.Props.error_iff_invalid",
    "DaeVerif.C14.Props.error_names_invalid_item",
    "DaeVerif.C14.Props.parsePolicy_characterised",
    "DaeVerif.C14.Props.documented_policy_accepted",
    "DaeVerif.C14.Props.accepted_policy_documented_or_lenient",
    "DaeVerif.C14.Props.lenient_policy_means_plain",
    "DaeVerif.C14.Props.group_built_iff",
    "DaeVerif.C14.Props.group_members_are_meaning",
    "DaeVerif.C14.Props.fixed_out_of_range_builds",
    "DaeVerif.C14.Props.fixed_selects_ith_member",
    "DaeVerif.C14.Props.selection_local",
    "DaeVerif.C14.Props.atoi_iff_decimal",
    "DaeVerif.C14.Props.groups_built_iff",
    "DaeVerif.C14.Props.group_in_sequence_is_meaning",
    "DaeVerif.C14.Props.groups_error_iff",
    "DaeVerif.C14.Props.dur_bare_number_rejected",
    "DaeVerif.C14.Props.unitless_latency_is_config_error",
    "DaeVerif.C14.Props.effective_offset_is_first_line_annotation",
    "DaeVerif.C14.Props.config_built_iff",
    "DaeVerif.C14.Props.group_name_resolves_to_own_members",
    "DaeVerif.C14.Props.duplicate_or_reserved_group_name_rejected",
    "DaeVerif.C14.Props.too_many_groups_rejected",
]

# discrimination counters that must be non-zero in every tier (a generator edit that makes one of
# them 0 silently blinds the check against a whole class of defects)
GUARD_OUTBOUND = [
    "discrim.member_with_nonzero_annotation", "discrim.first_hit_is_not_line0",
    "discrim.member_satisfies_2_or_more_lines", "discrim.first_line_wins_observable",
    "discrim.line_major_order_differs_from_pool_order",
    "discrim.zero_first_then_nonzero_annotation_on_hit_line",
    "discrim.two_distinct_nonzero_latencies_on_hit_line", "discrim.same_name_different_verdict",
    "discrim.negated_condition_values_disagree", "discrim.line_without_conditions",
    "discrim.large_pool_65_plus", "discrim.invalid_item_NOT_reached_by_per_node_evaluation",
    "discrim.regexopt.Multiline_would_change_members", "discrim.regexopt.Singleline_would_change_members",
    "discrim.regexopt.IgnorePatternWhitespace_would_change_members",
    "discrim.regexopt.IgnoreCase_would_change_members", "discrim.regexopt.RE2_would_change_members",
    "discrim.regexopt.ECMAScript_would_change_members",
    "def.with_two_invalid_items", "parser.definition_compared_with_what_was_written",
    "dur.result_ok_with_fraction", "dur.result_error", "dur.near_miss", "invalid.key_keyword_on_subtag",
    "func.values_9_to_40", "def.lines_13_to_30", "line.conditions_6_to_10",
    "discrim.slow_regex_match_found_after_backtracking",
    "hist.histories", "hist.step.rename", "hist.step.retag", "hist.step.remove", "hist.step.add",
    "hist.step.second_offer", "discrim.hist_pool_edit_changes_members",
    "def.near_twin_of_previous_definition_same_pool", "twin.annotation", "twin.value", "twin.negation",
]
# only counters that depend on the GENERATOR and the Go-side oracles, never on what the implementation answered
GUARD_CTL = [
    "gen.region_run_at_debug_level", "gen.region_run_at_panic_level", "gen.call_with_override_group",
    "gen.call_with_2_plus_groups", "gen.call_with_large_pool", "pool.subscriptions_2_plus",
    "policy.fixed_near_range", "policy.fixed_at_len", "pool.with_unparsable_link",
    "discrim.subtag_group_after_unfiltered_override_group_sees_tags",
    "discrim.subtag_group_after_unfiltered_override_group_sees_tags_at_debug_level",
    # outbound table, limits, reload histories, the same node offered by two subscriptions, effective offsets
    "names.gen_duplicate", "names.gen_reserved", "names.gen_odd_but_distinct",
    "limit.groups_exactly_at_outbound_limit", "limit.groups_exactly_at_outbound_limit_with_duplicate_name",
    "limit.groups_one_beyond_outbound_limit", "limit.groups_just_below_outbound_limit",
    "reload.histories", "reload.step.rename", "reload.step.retag", "reload.step.remove", "reload.step.add",
    "reload.step.second_offer", "reload.step.unchanged", "discrim.reload_pool_edit_changes_members",
    "pool.same_link_in_two_subscriptions", "seq.group_is_near_twin_of_previous_group", "twin.annotation",
]
MIRRORED_GO = "go1.26"   # the time.ParseDuration that lean/DaeVerif/C14/Model.lean mirrors


# --------------------------------------------------------------------------- region extraction

def _scan_block_end(src, open_idx):
    """index just after the brace that closes the one at open_idx (strings / comments skipped)."""
    depth, i, n = 0, open_idx, len(src)
    while i < n:
        c = src[i]
        if src.startswith("//", i):
            i = src.find("\n", i)
            if i < 0:
                return -1
            continue
        if src.startswith("/*", i):
            i = src.find("*/", i) + 2
            continue
        if c in "\"'`":
            q, i = c, i + 1
            while i < n and src[i] != q:
                if src[i] == "\\" and q != "`":
                    i += 1
                i += 1
            i += 1
            continue
        if c == "{":
            depth += 1
        elif c == "}":
            depth -= 1
            if depth == 0:
                return i + 1
        i += 1
    return -1


REGION_START = "_direct, directProperty := dialer.NewDirectDialer("
REGION_POOL = "dialerSet := outbound.NewDialerSetFromLinksContext("
REGION_FREE = ("option tagToNodeList groups global log core disableKernelAliveCallback deferFuncs outboundId2Name "
               "(declared by the wrapper: dialerSet outbounds outboundName2Id err)")


def extract_group_region(ctx):
    """Write zz_verif_c14_region.go: the verbatim outbound region of NewControlPlane from /repo's CURRENT
    control_plane.go — from the construction of `direct`/`block` through the node pool, the group loop,
    the alive-transition registration, the outbound-count limit and the name -> id table — wrapped into
    a function.  Returns (path, description) or (None, reason) when a marker is gone (fail closed)."""
    path = os.path.join(REPO, "control", "control_plane.go")
    src = open(path, encoding="utf-8").read()
    a0 = src.find(REGION_START)
    if a0 < 0 or src.find(REGION_START, a0 + 1) >= 0:
        return None, ("start marker `%s` not found exactly once (the wrapper provides exactly these free identifiers "
                      "to the region: %s)" % (REGION_START, REGION_FREE))
    a = src.find(REGION_POOL, a0)
    if a < 0 or src.find(REGION_POOL, a + 1) >= 0:
        return None, "pool construction `%s` not found exactly once after the direct/block outbounds" % REGION_POOL
    if a - a0 > 3000:
        return None, "the pool construction no longer follows the direct/block outbounds"
    if src.count("outbounds := []*outbound.DialerGroup{", a0, a) != 1:
        return None, "`outbounds := []*outbound.DialerGroup{` not found exactly once between the markers"
    m = re.compile(r"for\s+_,\s*group\s*:=\s*range\s+groups\s*\{").search(src, a)
    if not m:
        return None, "loop `for _, group := range groups {` not found after the pool construction"
    if m.start() - a > 1500:
        return None, "group loop no longer follows the pool construction"
    b0 = _scan_block_end(src, m.end() - 1)
    if b0 < 0:
        return None, "could not find the end of the group loop"
    m2 = re.compile(r"for\s+i,\s*o\s*:=\s*range\s+outbounds\s*\{").search(src, b0)
    if not m2:
        return None, "name table loop `for i, o := range outbounds {` not found after the group loop"
    if m2.start() - b0 > 1500:
        return None, "the name table loop no longer follows the group loop"
    if src.count("outboundName2Id := make(map[string]uint8)", b0, m2.start()) != 1:
        return None, "`outboundName2Id := make(map[string]uint8)` not found exactly once before the name table loop"
    b = _scan_block_end(src, m2.end() - 1)
    if b < 0:
        return None, "could not find the end of the name table loop"
    a0 = src.rfind("\n", 0, a0) + 1
    region = src[a0:b]
    # three declarations become assignments to the wrapper's variables of the same type, so that the
    # wrapper can hand the objects out (also on the error paths)
    for decl, asg in (("dialerSet := outbound.", "dialerSet = outbound."),
                      ("outbounds := []*outbound.DialerGroup{", "outbounds = []*outbound.DialerGroup{"),
                      ("outboundName2Id := make(map[string]uint8)", "outboundName2Id = make(map[string]uint8)")):
        if region.count(decl) != 1:
            return None, "`%s` not exactly once in the region" % decl
        region = region.replace(decl, asg, 1)
    # imports of control_plane.go that the region uses
    imp = re.search(r"import\s*\((.*?)\n\)", src, re.S)
    imports = {}
    for line in (imp.group(1).split("\n") if imp else []):
        mm = re.match(r'\s*(?:(\w+)\s+)?"([^"]+)"', line)
        if not mm:
            continue
        alias, p = mm.group(1), mm.group(2)
        ident = alias or re.sub(r"^v\d+$", "", p.split("/")[-1]) or p.split("/")[-2]
        if re.search(r"\b%s\." % re.escape(ident), region):
            imports[p] = alias
    for p in ("github.com/daeuniverse/dae/component/outbound", "github.com/daeuniverse/dae/component/outbound/dialer",
              "github.com/daeuniverse/dae/config", "github.com/sirupsen/logrus"):
        imports.setdefault(p, None)
    gen = os.path.join(ctx.out, "c14_region.go")
    with open(gen, "w") as f:
        f.write("// Code generated by /verif/checks/c14.py from %s (bytes %d..%d). DO NOT EDIT.\n" % (path, a0, b))
        f.write("package control\n\nimport (\n")
        for p, alias in sorted(imports.items()):
            f.write('\t%s"%s"\n' % ((alias + " ") if alias else "", p))
        f.write(""")

type c14Region struct {
	DialerSet   *outbound.DialerSet
	Outbounds   []*outbound.DialerGroup // [0], [1] = direct / block
	DeferFuncs  []func() error
	CallbackIDs []uint8 // the outbound ids the region asked alive-change callbacks for, in order
	Name2Id     map[string]uint8
	Id2Name     map[uint8]string
	Transition  int // alive-transition callbacks registered
}

// stands for *controlPlaneCore: what the kernel connectivity callback and the transition callback DO is
// C16's subject; here only which outbound id each group is wired to is recorded.
type c14StubCore struct {
	ids        []uint8
	transition int
}

func (c *c14StubCore) outboundAliveChangeCallback(id uint8, _ bool) func(bool, *dialer.NetworkType, bool) {
	c.ids = append(c.ids, id)
	return func(bool, *dialer.NetworkType, bool) {}
}

func (c *c14StubCore) dialerAliveTransitionCallback(_ *dialer.Dialer) func(*dialer.NetworkType, bool) {
	c.transition++
	return func(*dialer.NetworkType, bool) {}
}

func c14RealGroupRegion(option *dialer.GlobalOption, tagToNodeList map[string][]string, groups []config.Group, global *config.Global, log *logrus.Logger) (res *c14Region, err error) {
	var deferFuncs []func() error
	var dialerSet *outbound.DialerSet
	var outbounds []*outbound.DialerGroup
	var outboundName2Id map[string]uint8
	outboundId2Name := make(map[uint8]string)
	core := &c14StubCore{}
	disableKernelAliveCallback := true
	_, _, _, _ = core, disableKernelAliveCallback, global, log
	defer func() {
		if err != nil {
			res = &c14Region{DialerSet: dialerSet, Outbounds: outbounds, DeferFuncs: deferFuncs, CallbackIDs: core.ids}
		}
	}()
	// ---------------------------------------------------------------- verbatim from control_plane.go
""")
        f.write(region)
        f.write("""
	// ---------------------------------------------------------------- end of verbatim region
	return &c14Region{DialerSet: dialerSet, Outbounds: outbounds, DeferFuncs: deferFuncs, CallbackIDs: core.ids,
		Name2Id: outboundName2Id, Id2Name: outboundId2Name, Transition: core.transition}, nil
}
""")
    return gen, "bytes %d..%d of control_plane.go (%d lines: direct/block, pool, group loop, transition registration, outbound limit, name table)" % (a0, b, region.count("\n") + 1)


# --------------------------------------------------------------------------- comparison

def canon(line):
    """The property asks for "a configuration error", not for a particular wording, class or
    precedence (policy before filter, line j before annotation j): every error answer is `ERR`."""
    if line.startswith(("err ", "perr ", "ferr ", "gerr ")):
        return "ERR"
    return line


class DriverFailed(Exception):
    pass


def side_dict(s):
    return dict(kv.split("=", 1) for kv in s.split()[1:] if "=" in kv)


def compare_stream(ctx, name, report, stricter, permissive, structonly, toolchain):
    ops, impl, model, side = (os.path.join(ctx.out, f"{name}.{e}") for e in ("ops", "impl", "model", "side"))
    if not ctx.driver("c14drv", ops, model) or len(read_lines(model)) != len(read_lines(ops)):
        # a killed / failed driver is an infrastructure failure (exit 2), never a property violation
        raise DriverFailed(f"model driver c14drv failed or was killed on stream {name}")
    mism = ctx.diff_streams(ops, impl, model, name, canon=canon)
    o, i, mo, s = read_lines(ops), read_lines(impl), read_lines(model), read_lines(side)
    goversion = ""
    try:
        goversion = open(os.path.join(ctx.out, "c14.goversion")).read().strip()
    except OSError:
        pass
    cls_same = cls_diff = 0
    for a, b in zip(i, mo):
        if canon(a) == "ERR" and canon(b) == "ERR":
            if a == b:
                cls_same += 1
            else:
                cls_diff += 1
    ctx.cov.setdefault("error_class_agreement", {})[name] = {"same_text": cls_same, "other_class_or_wording": cls_diff}
    real = []
    for ln, op, im, mdl in mism:
        sd = side_dict(s[ln - 1]) if 0 < ln <= len(s) else {}
        # the implementation is STRICTER than the model in a zone where the model is knowingly
        # lenient (`!min(7)`; fixed(i) out of range accepted at configuration time): towards the
        # property, not a violation — counted and shown.
        if canon(im) == "ERR" and mdl.startswith("ok ") and "pol=" in mdl and (
                sd.get("lenient") == "true" or "sel=range" in mdl or "sel=empty" in mdl):
            stricter.append((name, ln))
            continue
        # defensive strictness / leniency on forms only the struct path can express (condition without
        # values, line without conditions, annotation-length guard, policy held as *Function): no real
        # configuration is affected
        if sd.get("structonly") == "true" and (canon(im) == "ERR") != (canon(mdl) == "ERR"):
            structonly.append((name, ln))
            continue
        # the Go toolchain's time.ParseDuration is not dae code: a toolchain other than the mirrored one
        # may differ from the Lean mirror without any change in dae
        if op.startswith("dur ") and goversion and not goversion.startswith(MIRRORED_GO):
            toolchain.append((name, ln))
            continue
        # the implementation is MORE PERMISSIVE in the one direction whose meaning is fixed by the
        # documentation's own vocabulary: `keyword:` on `subtag(...)` = substring of the tag.  Accepted
        # only if the members are exactly that meaning (the Go-side oracle computes it); anything
        # else that is accepted although invalid stays a violation.
        if canon(mdl) == "ERR" and im.startswith("ok ") and sd.get("kwsubtag") == "true":
            f = im.split()
            if (op.startswith("fa ") and len(f) == 3 and "spec=" + f[1] == f[2]) or op.startswith(("grp ", "grps ", "cfg ")):
                permissive.append((name, ln))
                continue
        real.append((ln, op, im, mdl))
    # a relaxation must be a property of the DEFINITION, not of the pool: if `keyword:` on subtag is
    # accepted somewhere, every definition that is invalid only for that reason must be accepted
    if any(n == name for n, _ in permissive):
        for k, (op, im) in enumerate(zip(o, i)):
            sd = side_dict(s[k]) if k < len(s) else {}
            if op.startswith("fa ") and sd.get("kwsubtag") == "true" and canon(im) == "ERR" and \
                    len(set(sd.get("lens", "0/0").split("/"))) == 1:
                report("relaxation-inconsistent",
                       "`keyword:` on subtag(...) is accepted for some pools and rejected for others "
                       "(validity must not depend on the nodes): " + im[:160], {"op": op, "impl": im})
    for ln, op, im, mdl in real[:6]:
        report("model", f"implementation differs from proved model ({name} line {ln}): impl `{im[:200]}` model `{mdl[:200]}`",
               {"stream": name, "line": ln, "op": op, "impl": im, "model": mdl,
                "replay": ("VERIF_SEED=%d ./check C14 %s" % (ctx.seed, ctx.tier)) if name == "c14" else
                          ("the `op` text above IS the replay (feed it to lean/.lake/build/bin/c14drv); the c14ctl "
                           "stream is not regenerated by the seed alone: the real NewDialerSetFromLinksContext "
                           "iterates a Go map, so the pool order differs from run to run")})
    return o, i, s


def run(ctx):
    ctx.trusted += [
        "regexp2.Compile/MatchString and time.ParseDuration are oracles of the model (library code, evaluated by the harness independently of the filter code and passed to the driver as tables); the option word passed to Compile is visible to the tie only (discrimination counters discrim.regexopt.*)",
        "the outbound region of control.NewControlPlane (direct/block outbounds, node pool, group loop, alive-transition registration, outbound limit, name -> id table) is executed VERBATIM (extracted by checks/c14.py from the current control_plane.go into a function of package control; three declarations become assignments to wrapper variables; *controlPlaneCore replaced by a stub whose callbacks only record the outbound id they are asked for); half of the calls with a Debug-level logger so that the region's IsLevelEnabled(Debug) arm runs; the rest of NewControlPlane (incl. everything after the name-table loop's closing brace) is not run",
        "the effective latency offsets are read from every AliveDialerSet of a built group through a read-only accessor injected by overlay, exactly as the selection code reads the map (missing entry = 0); what the latency policies do with them is C15/C16",
        "time.ParseDuration of the Go toolchain that builds the harness (mirrored in Lean from go1.26 and compared on the `dur` ops; with another toolchain a difference is a NOTE); filterHit discards the error of regexp2's MatchString, so a time-out would silently count as no match: no MatchTimeout is set anywhere in /repo today, pinned by two directed slow-regex ops",
        "link -> (name, dialer) is the outbound library's job; the harness only checks that names/tags written as links come back unchanged",
        "text -> []*Function is the real config parser's job (C17); C14 compares what it wrote with what the parser delivered (valid UTF-8 definitions) and models from config.Group on",
    ]
    budget = {}

    def report(kind, what, obj):   # at most 4 replay files per kind of disagreement
        budget[kind] = budget.get(kind, 0) + 1
        if budget[kind] <= 4:
            ctx.report(what, obj)

    stricter, permissive, structonly, toolchain = [], [], [], []
    hov = os.path.join(VERIF, "harness", "overlay")

    # ------------------------------------------------------------------ builds
    # read-only accessors (never in /repo): DialerSet / DialerGroup internals, AliveDialerSet offsets
    access = {
        os.path.join(REPO, "component", "outbound", "zz_verif_c14_access.go"): os.path.join(hov, "component/outbound/c14_access.go"),
        os.path.join(REPO, "component", "outbound", "dialer", "zz_verif_c14_access.go"): os.path.join(hov, "component/outbound/dialer/c14_access.go"),
    }
    gen, how = extract_group_region(ctx)
    ctx.cov["control_plane_region"] = how
    if not gen:
        ctx.say("TRANSLATOR-FAILED C14 outbound region:", how,
                "- the outbound region of NewControlPlane can no longer be located; adapt extract_group_region")
        return 2
    genfile = os.path.join(ctx.out, "c14_gen_test.go")
    open(genfile, "w").write(open(os.path.join(hov, "component/outbound/c14_gen_test.go")).read()
                             .replace("package outbound", "package control", 1))
    extra = dict(access)
    extra[os.path.join(REPO, "control", "zz_verif_c14_region.go")] = gen
    # the control-plane harness (the slower link) is built in the background while the package-outbound
    # harness is built and run
    ctl_build = {}

    def build_ctl():
        try:
            ctl_build["bin"] = ctx.go_test_build("control", ["control/c14_test.go", genfile], "c14ctl", extra_overlay=extra)
        except Exception as e:   # noqa: BLE001 - reported below as a build failure (exit 2)
            ctl_build["exc"] = e

    th = threading.Thread(target=build_ctl, daemon=True)
    th.start()
    out_build = {}

    def build_out():
        try:
            out_build["bin"] = ctx.go_test_build("component/outbound",
                                                 ["component/outbound/c14_test.go", "component/outbound/c14_gen_test.go"],
                                                 "c14", extra_overlay=dict(access))
        except Exception as e:   # noqa: BLE001
            out_build["exc"] = e

    th2 = threading.Thread(target=build_out, daemon=True)
    th2.start()

    # ------------------------------------------------------------------ proofs (while the harnesses compile)
    ctx.prove(["DaeVerif.C14.Props"], ["DaeVerif.C14.Props"], ["DaeVerif/C14/*.lean"], extra_targets=["c14drv"])
    ctx.required_theorems(REQUIRED)

    # ------------------------------------------------------------------ A. package outbound
    th2.join()
    if "exc" in out_build:
        th.join()
        ctx.say("HARNESS-BUILD-FAILED component/outbound:", out_build["exc"])
        return 2
    binp = out_build.get("bin")
    if not binp:
        th.join()
        return 2
    rc, out = ctx.run_harness(binp, "TestVerifC14")
    if rc != 0 or not os.path.exists(os.path.join(ctx.out, "c14.ops")):
        th.join()
        ctx.say("HARNESS-FAILED", out[-3000:])
        return 2
    try:
        o, i, s = compare_stream(ctx, "c14", report, stricter, permissive, structonly, toolchain)
    except DriverFailed as e:
        th.join()
        ctx.say("DRIVER-FAILED", e)
        return 2

    # property-level oracles on the implementation side (independent of the Lean model):
    #  (1) a definition is rejected iff it is invalid (documented inputs/keys, compiling regexes,
    #      well-formed annotations), whatever the pool — the defect fixed by 367c759 was exactly a
    #      violation of "invalid => rejected";
    #  (2) when accepted, the members are those of the Go-side declarative oracle (spec=...);
    #  (3) the definition the real parser delivered is the one that was written.
    distinct = set()
    n_fa = n_invalid = 0
    for k, (op, im) in enumerate(zip(o, i)):
        sd = side_dict(s[k]) if k < len(s) else {}
        if im.startswith("crash:"):
            report("crash", f"real code panicked: {im[:200]}", {"op": op, "impl": im})
            continue
        if not op.startswith("fa "):
            continue
        n_fa += 1
        distinct.add(op)
        valid = sd.get("valid") == "true"
        lens_ok = len(set(sd.get("lens", "0/0").split("/"))) == 1
        if not valid:
            n_invalid += 1
        if sd.get("parserchanged", "-") != "-":
            report("parser", "config parser delivered another definition than the one written: "
                   + bytes.fromhex(sd["parserchanged"][1:]).decode("utf-8", "replace"), {"op": op, "impl": im})
        if lens_ok and valid and canon(im) == "ERR" and sd.get("structonly") != "true":
            report("valid-rejected", f"valid group definition rejected by the implementation: {im[:200]}", {"op": op, "impl": im})
        if lens_ok and not valid and im.startswith("ok ") and sd.get("kwsubtag") == "true" and \
                len(im.split()) == 3 and "spec=" + im.split()[1] == im.split()[2]:
            pass   # counted as `more permissive, meaning preserved` by compare_stream
        elif lens_ok and not valid and im.startswith("ok "):
            report("invalid-accepted", "invalid filter/annotation accepted silently by the implementation (selection: %s)" % im[:200],
                   {"op": op, "impl": im, "replay": "VERIF_SEED=%d ./check C14 %s" % (ctx.seed, ctx.tier)})
        if im.startswith("ok "):
            f = im.split()
            if len(f) != 3 or "spec=" + f[1] != f[2]:
                report("spec", f"members differ from what the definition means (Go-side oracle): {im[:300]}", {"op": op, "impl": im})
    stats = json.load(open(os.path.join(ctx.out, "c14.stats.json")))

    # ------------------------------------------------------------------ B. package control: the real region
    th.join()
    if "exc" in ctl_build:
        ctx.say("HARNESS-BUILD-FAILED control:", ctl_build["exc"])
        return 2
    binc = ctl_build.get("bin")
    if not binc:
        return 2
    rc, out = ctx.run_harness(binc, "TestVerifC14Ctl")
    if rc != 0 or not os.path.exists(os.path.join(ctx.out, "c14ctl.ops")):
        ctx.say("HARNESS-FAILED", out[-3000:])
        return 2
    try:
        co, ci, cs = compare_stream(ctx, "c14ctl", report, stricter, permissive, structonly, toolchain)
    except DriverFailed as e:
        ctx.say("DRIVER-FAILED", e)
        return 2
    n_ctl = n_pool_checked = 0
    for k, (op, im) in enumerate(zip(co, ci)):
        sd = side_dict(cs[k]) if k < len(cs) else {}
        n_ctl += 1
        distinct.add(op)
        if im.startswith("crash:"):
            report("crash", f"real control-plane region panicked: {im[:200]}", {"op": op, "impl": im})
            continue
        if sd.get("pool", "ok") != "ok":
            report("pool", "pool built by NewDialerSetFromLinksContext differs from the subscriptions written (%s)" % sd.get("pool"),
                   {"op": op, "impl": im, "side": cs[k]})
        else:
            n_pool_checked += 1
        if sd.get("parserchanged", "-") != "-":
            report("parser", "config parser delivered another definition than the one written: "
                   + bytes.fromhex(sd["parserchanged"][1:]).decode("utf-8", "replace"), {"op": op, "impl": im})
        if sd.get("ids", "-") not in ("-", "ok"):
            report("ids", "groups are not wired to outbound ids 2,3,.. in configuration order (%s)" % sd.get("ids"),
                   {"op": op, "impl": im, "side": cs[k]})
        if sd.get("valid") == "false" and im.startswith("ok ") and sd.get("kwsubtag") != "true":
            report("invalid-accepted", "invalid filter/annotation accepted silently by the control-plane region (%s)" % im[:200],
                   {"op": op, "impl": im})
        # Go-side oracle for the outbound table (independent of Lean): a name used twice (or a group called
        # direct / block), or more outbounds than ids, must be a configuration error
        if sd.get("names") in ("dup", "toomany") and im.startswith("ok "):
            report("names", "outbound table built although %s (%s)" % (
                "a group name is used twice or is reserved" if sd.get("names") == "dup" else "there are more outbounds than the id space allows",
                im[-200:]), {"op": op, "impl": im})
    cstats = json.load(open(os.path.join(ctx.out, "c14ctl.stats.json")))
    n_perm = sum(1 for x in cs if "idsperm=true" in x)
    if n_perm:
        ctx.say(f"NOTE C14: in {n_perm} configuration(s) the groups are numbered in another order than the configuration's "
                "(name -> id -> stored group is still a bijection with direct = 0, block = 1): no selection depends on it; "
                "update Model.lean (buildConfig / nameIds) to the new order")
    ctx.cov["outbound_ids_in_other_than_configuration_order"] = n_perm

    if structonly:
        ctx.say(f"NOTE C14: {len(structonly)} op(s) on forms only the struct path can express (condition without values, line "
                "without conditions, annotation-length guard, *Function policy) are answered differently by model and code; "
                "no configuration the parser can produce is affected")
    if toolchain:
        ctx.say(f"NOTE C14: {len(toolchain)} duration string(s) are parsed differently by this Go toolchain's "
                f"time.ParseDuration and by the Lean mirror of {MIRRORED_GO}: update parseDuration in Model.lean")
    if permissive:
        ctx.say(f"NOTE C14: the implementation accepts `keyword:` on subtag(...) in {len(permissive)} op(s) the model rejects, "
                "with exactly the substring-of-the-tag meaning: a language extension the property allows; update "
                "Model.lean (validateParams / tagParam / ParamValid) to the new code")
    if stricter:
        ctx.say(f"NOTE C14: the implementation rejects {len(stricter)} definition(s) the model accepts only by "
                "leniency (negated/parameterised parameterless policy, or fixed(i) out of range): stricter than the "
                "model, in the direction of the property; update Model.lean (parsePolicy / buildGroup) to the new code")
    ctx.samples = stats["samples"][:6] + cstats["samples"][:3] + [x[:300] for x in o[:1]]
    ctx.cov["input_distribution"] = stats["counters"]
    ctx.cov["input_distribution_control_plane_region"] = cstats["counters"]
    ctx.cov["discrimination"] = {k: v for k, v in stats["counters"].items() if k.startswith("discrim.")}
    ctx.cov["discrimination_control_plane_region"] = {k: v for k, v in cstats["counters"].items() if k.startswith("discrim.")}
    ctx.cov["fa_ops"] = n_fa
    ctx.cov["fa_ops_invalid_definition"] = n_invalid
    ctx.cov["control_plane_region_ops"] = n_ctl
    ctx.cov["control_plane_region_ops_pool_as_written"] = n_pool_checked
    ctx.cov["stricter_than_model_in_lenient_zone"] = len(stricter)
    ctx.cov["more_permissive_keyword_on_subtag"] = len(permissive)
    ctx.cov["struct_only_forms_answered_differently"] = len(structonly)
    ctx.cov["duration_differs_with_other_go_toolchain"] = len(toolchain)
    try:
        ctx.cov["go_toolchain_of_the_harness"] = open(os.path.join(ctx.out, "c14.goversion")).read().strip()
    except OSError:
        pass
    ctx.cov["disagreements_by_kind"] = budget
    ctx.assumptions = [
        "pools of 0..14 nodes (1.5 % of them 64..600 nodes), definitions of 0..30 lines x 0..10 conditions x 0..40 values, "
        "generated (seeded); about half of the definitions reach the code through the real config parser, the "
        "rest are built as structs (values the config syntax cannot express, odd policy types, length-mismatch guard)",
        "the c14ctl stream is not reproducible by seed alone (the real pool constructor iterates a Go map): its op texts, "
        "counters and distinct_nontrivial vary by a few units between runs; replay files carry the op text",
        "error answers are compared as `configuration error` only (class/wording/precedence agreement is recorded in "
        "coverage.error_class_agreement, not enforced)",
    ]
    rc = ctx.finish(
        rule="ops = `fa` (pool, filter lines, annotations -> members with annotations | error) and `grp` (policy + the same -> "
             "group members, effective latency offsets of every alive set, fixed(i) selection under every network type | error), `cfg` (several NAMED groups over one pool through "
             "the verbatim NewControlPlane outbound region incl. the outbound limit and the name -> id table, stream c14ctl, pools written as subscription links, reload histories) and `dur` (a duration "
             "string -> ns | error); stream c14 = hand-made pools in package outbound; one op is one (pool, group definition) pair; the regexp2 / ParseDuration results the op needs travel "
             "with it; distinct_nontrivial counts distinct `fa` + control-plane `cfg` ops",
        evaluations=len(o) + len(co), distinct=len(distinct))
    if rc != 0:
        return rc          # recorded violations win over everything else
    # generator guards: a tier in which one of these counters is 0 is blind against a whole class of
    # defects: not OK (exit 2), after the verdict above has been printed and the evidence written
    dead = [k for k in GUARD_OUTBOUND if not stats["counters"].get(k)] + \
           ["ctl:" + k for k in GUARD_CTL if not cstats["counters"].get(k)]
    if dead:
        ctx.say("GENERATOR-DEGENERATE C14: discrimination counter(s) at 0:", ", ".join(dead))
        return 2
    return 0
