"""C19 — kernel and control plane agree on every shared structure, constant and map key.

regenerate (translators/c19_c, translators/c19_go -> lean/DaeVerif/C19/Gen) -> prove -> tie -> report
"""
import glob, json, os, re, shutil, subprocess, sys, time
from verifkit import read_lines, sh, go_env, VERIF, REPO, LEAN

GEN = os.path.join(LEAN, "DaeVerif", "C19", "Gen")

REQUIRED = [
    "DaeVerif.C19.Props.layouts_agree",
    "DaeVerif.C19.Props.paired_fields_decode_equal",
    "DaeVerif.C19.Props.pairOk_sound",
    "DaeVerif.C19.Props.every_go_type_classified",
    "DaeVerif.C19.Props.shared_maps_are_paired",
    "DaeVerif.C19.Props.go_handles_exist_in_c",
    "DaeVerif.C19.Props.scalar_map_io_widths",
    "DaeVerif.C19.Props.go_map_calls_match_c",
    "DaeVerif.C19.Props.generator_values_agree",
    "DaeVerif.C19.Props.generator_match_type_index",
    "DaeVerif.C19.Props.generated_files_match_spec",
    "DaeVerif.C19.Props.consts_agree",
    "DaeVerif.C19.Props.limits_agree",
    "DaeVerif.C19.Props.tuples_key_bytes",
    "DaeVerif.C19.Props.tuples_key_size_and_padding",
    "DaeVerif.C19.Props.tuples_key_v4_forms_converge",
    "DaeVerif.C19.Props.reversed_key_bytes",
    "DaeVerif.C19.Props.connectivity_key_agree",
    "DaeVerif.C19.Props.connectivity_key_in_range",
    "DaeVerif.C19.Props.connectivity_key_injective",
    "DaeVerif.C19.Props.listen_key_agree",
    "DaeVerif.C19.Props.listen_keys_distinct",
    "DaeVerif.C19.Props.ipv6_words_preserve_bytes",
    "DaeVerif.C19.Props.lpm_key_bytes",
    "DaeVerif.C19.Props.lpm_host_key_bytes",
    "DaeVerif.C19.Props.domain_routing_key_bytes",
    "DaeVerif.C19.Props.value_encoding_little_endian_partial",
    "DaeVerif.C19.Props.value_encoding_big_endian_differs",
]


def regenerate(ctx):
    """Delete and rewrite lean/DaeVerif/C19/Gen/*.lean from /repo's current sources."""
    os.makedirs(GEN, exist_ok=True)
    for f in glob.glob(os.path.join(GEN, "*.lean")):
        os.unlink(f)
    gi = os.path.join(GEN, ".gitignore")
    if not os.path.exists(gi):
        open(gi, "w").write("*.lean\n")
    gen_out = os.path.join(ctx.out, "gen")
    os.makedirs(gen_out, exist_ok=True)
    # write into a staging dir first, then move (so that a lake build never sees half a table)
    stage = os.path.join(gen_out, "lean")
    os.makedirs(stage, exist_ok=True)
    rc, out, dt = sh([sys.executable, os.path.join(VERIF, "translators", "c19_c", "gen_c.py"), REPO, VERIF, gen_out, stage],
                     timeout=600)
    ctx.log.write(f"$ gen_c.py [{dt:.1f}s rc={rc}]\n{out}\n")
    if rc != 0:
        ctx.say("TRANSLATOR-FAILED c19_c (does control/kern/tproxy.c still compile with the shim headers?):\n" + out[-3000:])
        return None
    rc, out, dt = sh(["go", "run", "main.go", REPO, gen_out, stage], cwd=os.path.join(VERIF, "translators", "c19_go"),
                     env=go_env(), timeout=900)
    ctx.log.write(f"$ c19_go [{dt:.1f}s rc={rc}]\n{out}\n")
    if rc != 0:
        ctx.say("TRANSLATOR-FAILED c19_go:\n" + out[-3000:])
        return None
    for f in glob.glob(os.path.join(stage, "*.lean")):
        shutil.move(f, os.path.join(GEN, os.path.basename(f)))
    return gen_out


def drv(ctx, ops, name):
    """run the driver on a list of op lines, return the answers"""
    p_ops = os.path.join(ctx.out, name + ".ops")
    p_out = os.path.join(ctx.out, name + ".model")
    open(p_ops, "w").write("\n".join(ops) + "\n")
    if not ctx.driver("c19drv", p_ops, p_out):
        return None
    return read_lines(p_out)


def diagnostics(ctx):
    """Concrete disagreements straight from the regenerated tables (so that a failing table theorem
    comes with the declaration that broke it). Returns number of items examined."""
    counts = drv(ctx, ["counts"], "c19counts")
    if not counts:
        ctx.proof_failures.append("model driver c19drv failed to run")
        return 0
    c = dict(kv.split("=") for kv in counts[0].split())
    ops = []
    for k in ("obl", "const", "limit", "map", "scalario", "mapcall"):
        ops += [f"{k} {i}" for i in range(int(c.get(k, 0)))]
    ops += ["classify", "handles", "genfiles", "archreport", "wirereport"]
    ans = drv(ctx, ops, "c19diag") or []
    n = 0
    for op, a in zip(ops, ans):
        if op in ("archreport", "wirereport"):
            ctx.cov[op] = a
            continue
        n += 1
        if a.startswith("BAD"):
            ctx.report("kernel and control plane disagree: " + a[4:],
                       {"kind": "declaration", "op": op, "detail": a,
                        "replay": "cd /verif && ./check C19 quick   # regenerates the tables from control/kern/tproxy.c and control/*.go; then: echo '%s' | lean/.lake/build/bin/c19drv" % op})
        elif not a.startswith("ok"):
            ctx.report("diagnostic op gave no verdict: %s -> %s" % (op, a), {"op": op, "answer": a})
    ctx.cov["table_items_checked"] = n
    return n


def go_variant(ctx, variant):
    if variant == "real":
        fake = ctx.fake_bpf_overlay()
        binp = fake and ctx.go_test_build("control", ["control/c19_test.go"], "c19real", tags="", extra_overlay=fake)
    else:
        binp = ctx.go_test_build("control", ["control/c19_test.go"], "c19stub")
    if not binp:
        return None
    rc, out = ctx.run_harness(binp, "TestVerifC19")
    ops = os.path.join(ctx.out, f"c19go_{variant}.ops")
    if rc != 0 or not os.path.exists(ops):
        ctx.say("HARNESS-FAILED", out[-3000:])
        return None
    return ops


def diff(ctx, label, ops, impl, model):
    if not ctx.driver("c19drv", ops, model):
        ctx.proof_failures.append("model driver c19drv failed on " + label)
        return 0
    mism = ctx.diff_streams(ops, impl, model, label)
    for ln, op, im, mo in mism[:6]:
        ctx.report(f"implementation differs from the model at {label}:{ln}: op `{op[:160]}` impl `{im[:200]}` model `{mo[:200]}`",
                   {"stream": label, "line": ln, "op": op, "impl": im, "model": mo,
                    "replay": "VERIF_SEED=%d ./check C19 %s" % (ctx.seed, ctx.tier)})
    return len(read_lines(ops))


def run(ctx):
    ctx.trusted += [
        "clang 14 (-target bpf) as the authority on the BPF ABI: sizeof/offsetof/enum/macro values are read back from the constant-folded LLVM IR of a probe translation unit that #includes the unmodified tproxy.c; /verif/harness/c/headers stand in for vmlinux.h/libbpf (UAPI types only)",
        "go/types + types.SizesFor(\"gc\", GOARCH) as the authority on Go layouts for the 13 release GOARCHes (validated on the host arch against unsafe/reflect in-process); encoding/binary layout = what cilium/ebpf sysenc.Marshal writes",
        "bpf2go output (bpf_bpfel.go) cannot be generated offline: the stub-build types of bpf_stub.go stand in for it (translators/fakebpf for the real-build variant)",
        "hand-written pairing table in lean/DaeVerif/C19/Model.lean (which Go type/field mirrors which C record/member; which constants are the same quantity)",
        "kernel-side key computations are tied by running tproxy.c's own get_tuples / copy_reversed_tuples / wan_outbound_is_alive / route / assign_listener natively (x86-64, little-endian) with stub helpers; big-endian behaviour is covered by the model only",
    ]
    t0 = time.time()
    gen_out = regenerate(ctx)
    if gen_out is None:
        return 2
    ctx.cov["regenerate_s"] = round(time.time() - t0, 1)

    # driver first (does not depend on the theorems), so that a broken table theorem can be explained
    ok, out = ctx.lake_build(["c19drv"])
    if not ok:
        ctx.proof_failures.append("lake build c19drv failed: " + " | ".join(l for l in out.split("\n") if "error" in l.lower())[:3000])
        return ctx.finish(rule="model does not build against the regenerated tables")
    n_items = diagnostics(ctx)
    ctx.prove(["DaeVerif.C19.Props"], ["DaeVerif.C19.Props"], ["DaeVerif/C19/*.lean", "DaeVerif/C19/Gen/*.lean"],
              extra_targets=["c19drv"])
    ctx.required_theorems(REQUIRED)

    total = n_items
    variants = ["real", "stub"] if ctx.tier == "thorough" else ["real"]
    stats = {}
    for v in variants:
        ops = go_variant(ctx, v)
        if not ops:
            return 2
        total += diff(ctx, "go-" + v, ops, ops[:-4] + ".impl", ops[:-4] + ".model")
        stats[v] = json.load(open(os.path.join(ctx.out, f"c19go_{v}.stats.json")))
    ctx.samples = stats[variants[0]]["samples"]
    ctx.cov["input_distribution"] = {v: s["counters"] for v, s in stats.items()}
    return ctx.finish(rule="table items = one (pairing, GOARCH) layout obligation / constant pair / limit / map; "
                           "ops = one real-code evaluation compared with the model", evaluations=total, distinct=total)
