"""C19 — kernel and control plane agree on every shared structure, constant and map key.

regenerate (translators/c19_c, translators/c19_go -> lean/DaeVerif/C19/Gen) -> prove -> tie -> report
"""
import glob, json, os, re, shutil, subprocess, sys, time
from concurrent.futures import ThreadPoolExecutor
from verifkit import read_lines, sh, go_env, VERIF, REPO, LEAN

GEN = os.path.join(LEAN, "DaeVerif", "C19", "Gen")

REQUIRED = [
    "DaeVerif.C19.Props.layouts_agree_partial",
    "DaeVerif.C19.Props.paired_fields_decode_equal",
    "DaeVerif.C19.Props.pairOk_sound",
    "DaeVerif.C19.Props.every_go_type_classified",
    "DaeVerif.C19.Props.shared_maps_are_paired",
    "DaeVerif.C19.Props.go_handles_exist_in_c",
    "DaeVerif.C19.Props.go_map_io_uses_paired_types",
    "DaeVerif.C19.Props.exchanged_types_wire_exact_partial",
    "DaeVerif.C19.Props.exchanged_types_wire_exact_full_is_false",
    "DaeVerif.C19.Props.packed_obligations_derived",
    "DaeVerif.C19.Props.every_c_const_classified",
    "DaeVerif.C19.Props.field_literals_agree",
    "DaeVerif.C19.Props.const_keys_agree",
    "DaeVerif.C19.Props.param_contents_agree",
    "DaeVerif.C19.Props.go_native_endian_is_machine_endian",
    "DaeVerif.C19.Props.conn_consts_now",
    "DaeVerif.C19.Props.callback_id_is_rule_id",
    "DaeVerif.C19.Props.map_io_covers_every_map",
    "DaeVerif.C19.Props.dns_port_read_site",
    "DaeVerif.C19.Props.programs_and_map_kinds_agree",
    "DaeVerif.C19.Props.max_match_set_len_override_consistent",
    "DaeVerif.C19.Props.generated_values_fit_their_storage",
    "DaeVerif.C19.Props.checked_in_spec_fits",
    "DaeVerif.C19.Props.enum_mask_little_endian_partial",
    "DaeVerif.C19.Props.enum_mask_big_endian_differs",
    "DaeVerif.C19.Props.dscp_view_any_endian",
    "DaeVerif.C19.Props.pname_view_any_endian",
    "DaeVerif.C19.Props.ring_index_little_endian_partial",
    "DaeVerif.C19.Props.mac_key_bytes",
    "DaeVerif.C19.Props.generator_values_agree",
    "DaeVerif.C19.Props.generator_match_type_index",
    "DaeVerif.C19.Props.generated_files_match_spec",
    "DaeVerif.C19.Props.consts_agree",
    "DaeVerif.C19.Props.limits_agree",
    "DaeVerif.C19.Props.key_models_follow_layout",
    "DaeVerif.C19.Props.tuples_key_bytes",
    "DaeVerif.C19.Props.tuples_key_size_and_padding",
    "DaeVerif.C19.Props.tuples_key_v4_forms_converge",
    "DaeVerif.C19.Props.reversed_key_bytes",
    "DaeVerif.C19.Props.connectivity_key_agree",
    "DaeVerif.C19.Props.connectivity_key_in_range",
    "DaeVerif.C19.Props.connectivity_key_injective",
    "DaeVerif.C19.Props.listen_key_agree",
    "DaeVerif.C19.Props.listen_keys_distinct",
    "DaeVerif.C19.Props.ipv6_words_preserve_bytes",
    "DaeVerif.C19.Props.lpm_key_bytes",
    "DaeVerif.C19.Props.lpm_host_key_bytes",
    "DaeVerif.C19.Props.domain_routing_key_bytes",
    "DaeVerif.C19.Props.value_encoding_little_endian_partial",
    "DaeVerif.C19.Props.value_encoding_big_endian_differs",
    "DaeVerif.C19.Props.every_build_site_classified",
    "DaeVerif.C19.Props.classified_sites_exist",
    "DaeVerif.C19.Props.named_constructors_are_executed",
    "DaeVerif.C19.Props.reply_direction_key",
    "DaeVerif.C19.Props.ap_candidates_are_kernel_keys",
    "DaeVerif.C19.Props.reversed_key_involutive",
    "DaeVerif.C19.Props.track_keys_are_kernel_keys",
    "DaeVerif.C19.Props.kernel_loses_only_held_keys",
    "DaeVerif.C19.Props.conn_state_entries_never_outlive_their_endpoints",
    "DaeVerif.C19.Props.all_released_nothing_left",
    "DaeVerif.C19.Props.tracker_counts_are_exact",
    "DaeVerif.C19.Props.match_set_model_follows_layout",
    "DaeVerif.C19.Props.match_set_image_reads_back",
]


HOST_E = "le" if sys.byteorder == "little" else "be"


def c19_lock(ctx):
    """C19 is the only check whose Lean inputs (lean/DaeVerif/C19/Gen, the lake products built from them,
    the c19drv binary with the tables compiled in) depend on VERIF_REPO / the current tree.  verifkit's run
    lock is per (property, tier, seed, repo); concurrent C19 runs of different tiers / seeds / worktrees
    would overwrite each other's tables.  One exclusive lock for the whole run, regeneration to last driver call."""
    import fcntl
    d = os.path.join(VERIF, ".cache", "locks")
    os.makedirs(d, exist_ok=True)
    fh = open(os.path.join(d, "C19-gen-workspace.lock"), "w")
    t0 = time.time()
    fcntl.flock(fh, fcntl.LOCK_EX)   # released when the process exits
    ctx.log.write(f"C19 workspace lock acquired after {time.time() - t0:.1f}s\n")
    ctx._c19_lock = fh


def regenerate(ctx):
    """Delete and rewrite lean/DaeVerif/C19/Gen/*.lean from the repository's current sources
    (translators/c19_regen.py = translators/c19_c/gen_c.py + translators/c19_go/main.go)."""
    gen_out = os.path.join(ctx.out, "gen")
    os.makedirs(gen_out, exist_ok=True)
    rc, out, dt = sh([sys.executable, os.path.join(VERIF, "translators", "c19_regen.py"), REPO, gen_out], timeout=1500)
    ctx.log.write(f"$ c19_regen.py [{dt:.1f}s rc={rc}]\n{out}\n")
    if rc != 0:
        ctx.say("TRANSLATOR-FAILED c19:\n" + out[-3000:])
        return None
    return gen_out


def drv(ctx, ops, name):
    """run the driver on a list of op lines, return the answers"""
    p_ops = os.path.join(ctx.out, name + ".ops")
    p_out = os.path.join(ctx.out, name + ".model")
    open(p_ops, "w").write("\n".join(ops) + "\n")
    if not ctx.driver("c19drv", p_ops, p_out):
        return None
    return read_lines(p_out)


def diagnostics(ctx):
    """Concrete disagreements straight from the regenerated tables (so that a failing table theorem
    comes with the declaration that broke it). Returns number of items examined."""
    counts = drv(ctx, ["counts"], "c19counts")
    if not counts:
        ctx.proof_failures.append("model driver c19drv failed to run")
        return 0
    c = dict(kv.split("=") for kv in counts[0].split())
    ops = []
    for k in ("obl", "const", "limit", "map", "mapio", "buildsite", "cclass", "fieldlit", "param", "endian", "wiretype"):
        ops += [f"{k} {i}" for i in range(int(c.get(k, 0)))]
    ops += ["classify", "handles", "genfiles", "listencheck", "conncheck", "keymodelcheck", "statscheck", "progcheck", "overridecheck", "widthcheck", "cbidcheck", "mapiocover", "notes", "archreport", "wirereport"]
    ans = drv(ctx, ops, "c19diag") or []
    n = 0
    needs_class = []   # closure obligations: something NEW must be classified in Model.lean — not a finding about dae
    unclassified_sites = []   # construction sites of kernel-bound types nobody executes: fail closed AFTER the execution streams ran
    grouped = {}   # layout obligations that fail identically on several GOARCHes are one finding
    for op, a in zip(ops, ans):
        if op in ("archreport", "wirereport"):
            ctx.cov[op] = a
            continue
        n += 1
        m = re.match(r"BAD (\S+)@(\S+) :: (.*)$", a) if op.startswith("obl ") else None
        if m:
            grouped.setdefault((m.group(1), m.group(3)), []).append((m.group(2), op))
            continue
        if a.startswith("BAD") and (op.startswith("cclass ") or op == "classify"):
            needs_class.append(a[4:])
            continue
        if op.startswith("buildsite "):
            if a.startswith("UNCLASSIFIED"):
                unclassified_sites.append(a[13:])
            elif a.startswith("ok"):
                k = "build_sites." + ("classified" if "(classified)" in a else "auto-executed" if "(auto-executed" in a else "not-kernel-bound")
                ctx.cov[k] = ctx.cov.get(k, 0) + 1
            else:
                ctx.report("diagnostic op gave no verdict: %s -> %s" % (op, a), {"op": op, "answer": a})
            continue
        if op == "notes":
            if a != "none":
                for note in a.split(" ;; "):
                    ctx.say("NOTE: " + note)
                ctx.cov["notes"] = a.split(" ;; ")
            continue
        if a.startswith("BAD"):
            ctx.report("kernel and control plane disagree: " + a[4:],
                       {"kind": "declaration", "op": op, "detail": a,
                        "replay": "cd /verif && ./check C19 quick   # regenerates the tables from control/kern/tproxy.c and control/*.go; then: echo '%s' | lean/.lake/build/bin/c19drv" % op})
        elif not a.startswith("ok"):
            ctx.report("diagnostic op gave no verdict: %s -> %s" % (op, a), {"op": op, "answer": a})
    for (pair, probs), where in grouped.items():
        arches = ",".join(w[0] for w in where)
        ctx.report(f"kernel and control plane disagree on the layout of {pair} (Go layout for {arches}): {probs}",
                   {"kind": "layout", "pairing": pair, "go_layouts": arches, "detail": probs,
                    "replay": "cd /verif && ./check C19 quick   # then: echo '%s' | lean/.lake/build/bin/c19drv" % where[0][1]})
    ctx.cov["table_items_checked"] = n
    ctx.c19_needs_class = needs_class
    ctx.c19_unclassified_sites = unclassified_sites
    return n


def ctor_shape(c):
    """mirror of `autoShape?` (lean/DaeVerif/C19/Lifecycle.lean); the driver's own opinion is compared in ctor_verdicts"""
    base = c["type"].split(".", 1)[1]
    if c["nres"] != 1:
        return None
    if base == "bpfTuplesKey":
        if c["params"] == ["netip.AddrPort", "netip.AddrPort", "uint8"]:
            return "ap"
        if c["params"] in (["*bpfTuplesKey"], ["bpfTuplesKey"]):
            return "kk"
    if base == "_bpfLpmKey" and c["params"] == ["netip.Prefix"]:
        return "pfx"
    return None


def write_ctor_registry(ctx, gen_out, variant):
    """The helper constructors of shared key types that the translator found in the CURRENT sources
    (c19_go.json ctorSigs), as a registry the harness iterates over: a helper added tomorrow is executed
    without anybody telling the harness about it."""
    gj = json.load(open(os.path.join(gen_out, "c19_go.json")))
    ap, kk, pfx = [], [], []
    for c in gj.get("ctorSigs") or []:
        if variant not in (c.get("builds") or []):
            continue
        sh = ctor_shape(c)
        f = c["func"]
        deref = "*" if c["ptr"] else ""
        if sh == "ap":
            ap.append('\t{"%s", func(src, dst netip.AddrPort, proto uint8) []byte { k := %s(src, dst, proto); return c19KeyBytes(%sk) }},' % (f, f, deref))
        elif sh == "kk":
            arg = "&in" if c["params"][0].startswith("*") else "in"
            kk.append('\t{"%s", func(img []byte) []byte { in := c19KeyFromBytes(img); k := %s(%s); return c19KeyBytes(%sk) }},' % (f, f, arg, deref))
        elif sh == "pfx":
            pfx.append('\t{"%s", func(p netip.Prefix) []byte { k := %s(p); return c19LpmBytes(%sk) }},' % (f, f, deref))
    src = ("// GENERATED by checks/c19.py write_ctor_registry from translators/c19_go (ctorSigs) — do not edit\n"
           "package control\n\nimport \"net/netip\"\n\nvar _ netip.Addr\n\n"
           "var c19GenCtorsAP = []c19CtorAP{\n" + "\n".join(ap) + "\n}\n\n"
           "var c19GenCtorsKK = []c19CtorKK{\n" + "\n".join(kk) + "\n}\n\n"
           "var c19GenCtorsPfx = []c19CtorPfx{\n" + "\n".join(pfx) + "\n}\n")
    path = os.path.join(gen_out, f"c19_ctors_{variant}_test.go")
    open(path, "w").write(src)
    return {os.path.join(REPO, "control", "zz_verif_c19ctors_test.go"): path}


HARNESS_FILES = ["control/c19_test.go", "control/c19b_test.go"]


def go_variant(ctx, variant, gen_out):
    extra = write_ctor_registry(ctx, gen_out, variant)
    if variant == "real":
        fake = ctx.fake_bpf_overlay()
        if fake:
            extra.update(fake)
        binp = fake and ctx.go_test_build("control", HARNESS_FILES, "c19real", tags="", extra_overlay=extra)
    else:
        binp = ctx.go_test_build("control", HARNESS_FILES, "c19stub", extra_overlay=extra)
    if not binp:
        return None
    rc, out = ctx.run_harness(binp, "TestVerifC19")
    ops = os.path.join(ctx.out, f"c19go_{variant}.ops")
    if rc != 0 or not os.path.exists(ops):
        ctx.say("HARNESS-FAILED", out[-3000:])
        return None
    return ops


def ctor_verdicts(ctx, variant):
    """Helper constructors (generated registry): the model answers every op with the derivations the KERNEL
    has for that signature (get_tuples of the flow / of its reply direction; identity / copy_reversed_tuples;
    struct lpm_key of the prefix).  A helper is accepted iff ONE derivation fits all of its lines — the one
    `ctorMeaning` names for the helpers known by name."""
    base = os.path.join(ctx.out, f"c19ctor_{variant}")
    if not os.path.exists(base + ".ops"):
        ctx.report("the helper-constructor stream was not produced by the harness", {"variant": variant}, no_input=True)
        return 0, {}
    if not ctx.driver("c19drv", base + ".ops", base + ".model"):
        ctx.proof_failures.append("model driver c19drv failed on the ctor stream")
        return 0, {}
    sigs = drv(ctx, ["ctorsigs"], "c19ctorsigs") or [""]
    meaning, shapes = {}, {}
    for it in sigs[0].split(";"):
        w = it.split(":")
        if len(w) == 4:
            shapes.setdefault(w[0], set()).add(w[2])
            if w[3] != "-":
                meaning[w[0]] = w[3]
    ops, impl, model = read_lines(base + ".ops"), read_lines(base + ".impl"), read_lines(base + ".model")
    if not (len(ops) == len(impl) == len(model)):
        ctx.report(f"ctor stream lengths differ: ops={len(ops)} impl={len(impl)} model={len(model)}", {"stream": base}, no_input=True)
        return 0, {}
    per = {}
    for op, im, mo in zip(ops, impl, model):
        fn = op.split()[1]
        cands = dict(kv.split("=", 1) for kv in mo.split() if "=" in kv)
        d = per.setdefault(fn, {"alive": None, "lines": 0, "discriminating": 0, "first_bad": None, "kind": op.split()[0]})
        d["lines"] += 1
        if len(set(cands.values())) > 1 or len(cands) == 1:
            d["discriminating"] += 1
        fit = {n for n, h in cands.items() if h == im}
        if not fit and d["first_bad"] is None:
            d["first_bad"] = (op, im, mo)
        d["alive"] = fit if d["alive"] is None else (d["alive"] & fit)
    verdict = {}
    for fn, d in sorted(per.items()):
        want = meaning.get(fn)
        ok = bool(d["alive"]) and (want is None or want in d["alive"])
        verdict[fn] = {"lines": d["lines"], "fits": sorted(d["alive"] or []), "required": want or "any one kernel derivation"}
        if ok:
            if want is None:
                ctx.say(f"NOTE: helper constructor {fn} (not known to the check by name) was executed on {d['lines']} generated inputs and is the kernel's `{sorted(d['alive'])[0]}` derivation on all of them")
            continue
        if d["first_bad"]:
            op, im, mo = d["first_bad"]
            ctx.report(f"helper constructor {fn} builds a key that no kernel-side constructor produces for the same input: op `{op[:200]}` Go `{im}` kernel derivations `{mo[:260]}`",
                       {"stream": f"c19ctor_{variant}", "op": op, "impl": im, "model": mo, "function": fn,
                        "replay": "VERIF_SEED=%d ./check C19 %s" % (ctx.seed, ctx.tier)})
        else:
            ctx.report(f"helper constructor {fn} does not compute ONE kernel derivation on all inputs (fits {sorted(d['alive'] or [])}, required: {want or 'any single one'})",
                       {"stream": f"c19ctor_{variant}", "function": fn, "replay": "VERIF_SEED=%d ./check C19 %s" % (ctx.seed, ctx.tier)})
    ctx.c19_distinct.update(ops)
    ctx.cov.setdefault("helper_constructors", {})[variant] = verdict
    return len(ops), verdict


def gen_variant(ctx):
    binp = ctx.go_test_build("cmd/generators/gen_ebpf_sync", ["cmd/generators/gen_ebpf_sync/c19_test.go"], "c19gen",
                             tags="", pkgname="main")
    if not binp:
        return None
    rc, out = ctx.run_harness(binp, "TestVerifC19Gen")
    ops = os.path.join(ctx.out, "c19gen.ops")
    if rc != 0 or not os.path.exists(ops):
        ctx.say("HARNESS-FAILED", out[-3000:])
        return None
    return ops


class Rng:
    """splitmix64, seeded: the C-side generators must not depend on Python's hash seed"""

    def __init__(self, seed):
        self.s = (seed * 0x9E3779B97F4A7C15 + 0xC19) & (2 ** 64 - 1)

    def u64(self):
        self.s = (self.s + 0x9E3779B97F4A7C15) & (2 ** 64 - 1)
        z = self.s
        z = ((z ^ (z >> 30)) * 0xBF58476D1CE4E5B9) & (2 ** 64 - 1)
        z = ((z ^ (z >> 27)) * 0x94D049BB133111EB) & (2 ** 64 - 1)
        return z ^ (z >> 31)

    def intn(self, n):
        return self.u64() % n if n > 0 else 0


def build_native(ctx, gen_out):
    """tproxy.c, unmodified, as a native program with the generated decoders"""
    rc, out, dt = sh([sys.executable, os.path.join(VERIF, "translators", "c19_c", "gen_native.py"), gen_out], timeout=300)
    ctx.log.write(f"$ gen_native.py [{dt:.1f}s rc={rc}]\n{out}\n")
    if rc != 0:
        ctx.say("TRANSLATOR-FAILED gen_native:", out[-2000:])
        return None
    binp = os.path.join(ctx.out, "c19_native")
    src = os.path.join(REPO, "control", "kern", "tproxy.c")
    cmd = ["clang", "-O1", "-g", "-Wno-everything", "-I" + os.path.join(VERIF, "harness", "c"), "-I" + gen_out,
           "-DC19_TPROXY=\"%s\"" % src, os.path.join(VERIF, "harness", "c19", "c19_native.c"), "-o", binp]
    rc, out, dt = sh(cmd, timeout=600)
    ctx.log.write(f"$ {' '.join(cmd)} [{dt:.1f}s rc={rc}]\n{out}\n")
    if rc != 0:
        ctx.say("HARNESS-BUILD-FAILED native tproxy.c:\n" + out[-3000:])
        return None
    return binp


def c_images(rng, rec, n):
    """byte images for one C record: zero, all-ones, counting, one-hot, random; _Bool bytes kept 0/1"""
    size = rec["size"]
    imgs = []
    for i in range(n):
        mode = i if i < 3 else 3 + rng.intn(2)
        if mode == 0:
            b = bytearray(size)
        elif mode == 1:
            b = bytearray([0xff] * size)
        elif mode == 2:
            b = bytearray([(j + 1) & 0xff for j in range(size)])
        elif mode == 3:
            b = bytearray(size)
            if size:
                b[rng.intn(size)] = 1 + rng.intn(255)
        else:
            b = bytearray(rng.intn(256) for _ in range(size))
        for l in rec["leaves"]:
            if l["cls"] == "bool":
                for k in range(l["count"]):
                    b[l["off"] + k] &= 1
        imgs.append((mode, bytes(b)))
    return imgs


def record_layout_dump(ctx):
    """independent second opinion for the BPF target: clang -fdump-record-layouts (sizeof/align and
    the offsets of direct members)"""
    src = os.path.join(REPO, "control", "kern", "tproxy.c")
    cmd = ["clang", "-target", "bpf", "-I/usr/include/x86_64-linux-gnu", "-D__x86_64__", "-I" + os.path.join(VERIF, "harness", "c"),
           "-Wno-everything", "-fsyntax-only", "-Xclang", "-fdump-record-layouts", "-x", "c", src]
    rc, out, dt = sh(cmd, timeout=300)
    ctx.log.write(f"$ {' '.join(cmd)} [{dt:.1f}s rc={rc}] ({len(out)} bytes)\n")
    res = {}
    if rc != 0:
        return res
    for blk in out.split("*** Dumping AST Record Layout")[1:]:
        lines = [l for l in blk.split("\n") if "|" in l]
        if not lines:
            continue
        m = re.match(r"\s*0 \| (struct|union) (\w+)\s*$", lines[0])
        sz = re.search(r"\[sizeof=(\d+), align=(\d+)", blk)
        if not m or not sz:
            continue
        members = {}
        for l in lines[1:]:
            mm = re.match(r"\s*(\d+) \|   (\S.*?) (\w+)\s*$", l)  # depth-1 members only (3 spaces of indent)
            if mm and not l.split("|", 1)[1].startswith("    "):
                members[mm.group(3)] = int(mm.group(1))
        res[m.group(2)] = {"size": int(sz.group(1)), "align": int(sz.group(2)), "members": members}
    return res


def c_side(ctx, gen_out, flow_files):
    cj = json.load(open(os.path.join(gen_out, "c19_c.json")))
    binp = build_native(ctx, gen_out)
    if not binp:
        return None
    rng = Rng(ctx.seed)
    scale = 12 if ctx.tier == "thorough" else 1
    ops = []
    dist = {}

    def inc(k, n=1):
        dist[k] = dist.get(k, 0) + n

    # -- tables: every record, constant, map
    for r in cj["records"]:
        ops.append("clayout " + r["name"])
        inc("clayout")
        if not r["leaves"] or any(l["cls"] == "recd" for l in r["leaves"]):
            continue  # kernel-internal records with opaque members: layout only
        for mode, img in c_images(rng, r, 5 + 8 * scale):
            ops.append("cdec " + HOST_E + " %s %s" % (r["name"], img.hex()))
            inc("cdec.mode%d" % mode)
    for e in cj["enums"]:
        for c in e["consts"]:
            ops.append("cconst " + c["name"]); inc("cconst")
    for m in cj["macros"] + cj["static_consts"]:
        ops.append("cconst " + m["name"]); inc("cconst")
    for m in cj["maps"]:
        ops.append("cmap " + m["name"]); inc("cmap")
    # -- keys for the same logical entities the Go harness used
    cross = []   # (op index, kind, expected-from-Go)
    cenum = {c["name"]: c["val"] for e_ in cj["enums"] for c in e_["consts"]}
    for ff in flow_files:
        for line in read_lines(ff):
            w = line.split()
            if w[0] == "flow":
                _, fam, s, d, sp, dp, proto, gokey, gorev = w
                cross.append((len(ops), "tuples", (gokey, gorev)))
                ops.append(f"ctuples " + HOST_E + f" {fam} {s} {d} {sp} {dp} {proto}"); inc("ctuples." + fam)
            elif w[0] == "kflow":
                # keys the Go harness installed in real maps AS the kernel's keys (c19KernelKey): must be what
                # get_tuples / copy_reversed_tuples compute for that packet
                _, fam, s_, d_, sp, dp, proto, kfwd, krev = w
                cross.append((len(ops), "ktuples", (kfwd, krev)))
                ops.append(f"ctuples " + HOST_E + f" {fam} {s_} {d_} {sp} {dp} {proto}"); inc("ctuples.kflow." + fam)
            elif w[0] == "matchset2":
                _, view, val, mtname, not_, ob, must, mark, img = w
                cross.append((len(ops), "msimg", (view, val, mtname, not_, ob, must, mark)))
                ops.append("cdec " + HOST_E + " match_set " + img); inc("cdec.msimg")
            elif w[0] in ("dom", "lpmhost"):
                _, fam, d, gokey = w
                d16 = d if fam == "v6" else "00000000000000000000ffff" + d
                s16 = "%032x" % rng.intn(2 ** 128)
                mac = "00000000000000000000" + "%012x" % rng.intn(2 ** 48)
                cross.append((len(ops), w[0], gokey))
                ops.append(f"croute " + HOST_E + f" {s16} {d16} {mac}"); inc("croute." + w[0])
            elif w[0] == "matchset":
                _, view, val, mtype, img = w
                cross.append((len(ops), "msview", (view, val, mtype)))
                ops.append("cdec " + HOST_E + " match_set " + img); inc("cdec.matchset." + view)
            elif w[0] == "mackey":
                _, mac, gokey = w
                # the kernel callers of route() put the source MAC into bytes 10..15 of mac_be (modelled
                # by cMacPack, theorem mac_key_bytes); here route() itself is run on that array
                s16 = "%032x" % rng.intn(2 ** 128)
                d16 = "%032x" % rng.intn(2 ** 128)
                cross.append((len(ops), "mackey", gokey))
                ops.append(f"croute " + HOST_E + f" {s16} {d16} {'00' * 10 + mac}"); inc("croute.mackey")
                # … and through the three real callers of route() that pack the source MAC themselves
                for site in ("lan", "wan_tcp", "wan_udp"):
                    cross.append((len(ops), "macsite", gokey))
                    ops.append(f"cmacsite " + HOST_E + f" {site} {mac}"); inc("cmacsite." + site)
            elif w[0] == "portrange":
                _, a, b, enc = w
                cross.append((len(ops), "portrange", f"{a}-{b}"))
                ops.append("creadpr " + HOST_E + " " + enc); inc("creadpr")
    # connectivity: every outbound x {tcp, udp, other} x ports x family
    goconn = {}
    gowritten = {}
    for ff in flow_files:
        for line in read_lines(ff):
            w = line.split()
            if w[0] == "conn":
                goconn[(int(w[1]), w[2], w[3], w[4])] = w[5]
            elif w[0] == "connw":   # the slot the real write site (outboundAliveChangeCallback) wrote into a real map
                gowritten[(int(w[1]), w[2], w[3], w[4])] = w[5]
    for ob in range(256):
        for l4 in (6, 17, 1, 58, 0, 255):
            if l4 not in (6, 17) and ob % 16:
                continue
            for dport in (53, 80, 0, 65535, 5353, 13568):   # 13568 = 0x3500: 53 in the other byte order
                for v4 in (0, 1):
                    want = None
                    if dport != 53:
                        want = goconn.get((ob, "udp" if l4 == 17 else "tcp", "4" if v4 else "6", "data" if l4 == 17 else "unset"))
                    cross.append((len(ops), "conn", want))
                    if dport != 53 and gowritten:
                        cross.append((len(ops), "conn-written", gowritten.get((ob, "udp" if l4 == 17 else "tcp", "4" if v4 else "6", "data" if l4 == 17 else "unset"))))
                    ops.append(f"cconn {ob} {l4} {dport} {v4}"); inc("cconn")
    for l4 in (6, 17, 1, 58, 0):
        for v6 in (0, 1):
            ops.append(f"clisten {l4} {v6}"); inc("clisten")
    for i in range(60 * scale):
        idx = [0, 1, 255, 256, 1023, 1024, 65535, 65536, 2 ** 32 - 1][i] if i < 9 else rng.intn(2 ** 32)
        v = idx.to_bytes(4, "little").hex() + "00" * 12
        cross.append((len(ops), "setidx", str(idx)))
        ops.append("creadidx " + HOST_E + " " + v); inc("creadidx")

    p_ops, p_impl, p_model = (os.path.join(ctx.out, "c19c." + e) for e in ("ops", "impl", "model"))
    open(p_ops, "w").write("\n".join(ops) + "\n")
    with open(p_ops, "rb") as fin, open(p_impl, "wb") as fout:
        p = subprocess.run([binp], stdin=fin, stdout=fout, stderr=subprocess.PIPE, timeout=1200)
    ctx.log.write(f"$ c19_native < c19c.ops rc={p.returncode} {p.stderr.decode()[-1000:]}\n")
    if p.returncode != 0:
        ctx.report("native build of tproxy.c crashed while computing keys/layouts: rc=%d %s" % (p.returncode, p.stderr.decode()[-300:]),
                   {"ops": p_ops})
        return 0
    n = diff(ctx, "c-native", p_ops, p_impl, p_model)
    # implementation-level oracle: kernel bytes == control-plane bytes for the same logical entity
    impl = read_lines(p_impl)
    bad = 0
    for i, kind, want in cross:
        got = impl[i] if i < len(impl) else ""
        ok = True
        if kind == "tuples":
            ok = got == f"key={want[0]} rev={want[1]}"
        elif kind == "ktuples":
            ok = got.startswith(f"key={want[0]} ") and (want[1] == "-" or got.endswith(f" rev={want[1]}"))
        elif kind == "msimg":
            view, val, mtname, not_, ob, must, mark = want
            d = dict(kv.split("=", 1) for kv in got.split(";") if "=" in kv)
            if view == "port_range":
                a, b = val.split("-")
                ok = d.get("port_range.port_start") == a and d.get("port_range.port_end") == b
            elif view == "__value":
                ok = "".join("%02x" % int(x) for x in d.get("__value", "").split("|") if x != "") == val
            elif view != "-":
                ok = d.get(view, "").split("|")[0] == val
            ctype = cenum.get(mtname)
            ok = ok and ctype is not None and d.get("type") == str(ctype) and d.get("not") == not_ and d.get("outbound") == ob \
                and d.get("must") == must and d.get("mark") == mark
        elif kind == "dom":
            ok = ("dom=" + want) in got.split()
        elif kind == "lpmhost":
            ok = ("lpm_d=" + want) in got.split()
        elif kind == "mackey":
            ok = ("lpm_m=" + want) in got.split()
        elif kind == "macsite":
            ok = got == want
        elif kind == "msview":
            view, val, mtype = want
            d = dict(kv.split("=", 1) for kv in got.split(";") if "=" in kv)
            if view == "port_range":
                a, b = val.split("-")
                ok = d.get("port_range.port_start") == a and d.get("port_range.port_end") == b
            else:
                ok = d.get(view, "").split("|")[0] == val
            ok = ok and d.get("type") == mtype
        elif kind in ("portrange", "setidx"):
            ok = got == want
        elif kind == "conn":
            ok = (got == "none") if want is None else (got == want)
        elif kind == "conn-written":
            ok = got == want
        if not ok:
            bad += 1
            if bad <= 5:
                what = ("the slot wan_outbound_is_alive() reads differs from the slot outboundAliveChangeCallback wrote into the map"
                        if kind == "conn-written" else
                        "the harness's rendering of the kernel key (c19KernelKey) is not what get_tuples/copy_reversed_tuples compute — HARNESS out of date, not a verdict about dae"
                        if kind == "ktuples" else f"kernel and control plane compute different bytes for the same {kind}")
                ctx.report(f"{what}: C `{got[:200]}` Go `{str(want)[:200]}` ({ops[i][:160]})",
                           {"kind": kind, "c_op": ops[i], "c": got, "go": want})
    ctx.cov["cross_checked_entities"] = len(cross)
    ctx.samples += ["%s -> %s" % (ops[i][:120], impl[i][:200]) for i, _, _ in cross[:2] + cross[-2:] if i < len(impl)]
    inc("cross.total", len(cross))
    # second opinion on the BPF-target layouts
    dump = record_layout_dump(ctx)
    ndump = 0
    for r in cj["records"]:
        d = dump.get(r["name"])
        if not d:
            continue
        ndump += 1
        if d["size"] != r["size"] or d["align"] != r["align"]:
            ctx.report(f"translator disagrees with clang -fdump-record-layouts on {r['name']}: table size/align {r['size']}/{r['align']} dump {d['size']}/{d['align']}",
                       {"record": r["name"]})
        for l in r["leaves"]:
            if "." not in l["path"] and l["path"] in d["members"] and d["members"][l["path"]] != l["off"]:
                ctx.report(f"translator disagrees with clang -fdump-record-layouts on {r['name']}.{l['path']}: table {l['off']} dump {d['members'][l['path']]}",
                           {"record": r["name"], "member": l["path"]})
    ctx.cov["record_layout_dump_records"] = ndump
    ctx.cov.setdefault("input_distribution", {})["c-native"] = dist
    return n


RELEASE_ARCHES = ["amd64", "arm64", "riscv64", "loong64", "mips64", "mips64le", "ppc64", "ppc64le", "s390x", "386", "arm", "mipsle", "mips"]


def archcheck(ctx, gen_out):
    """The translator wrote gen/archcheck: the plain-data types as standalone Go source plus, per GOARCH,
    constant index expressions that compile iff the gc compiler's Sizeof/Alignof/Offsetof equal the
    go/types tables. Cross-compile it for every release GOARCH (no linking, nothing executed)."""
    d = os.path.join(gen_out, "archcheck")
    bad = []
    if not os.path.isdir(d):
        return ["archcheck package was not generated"]
    for a in RELEASE_ARCHES:
        env = go_env()
        env.update(GOARCH=a, GOOS="linux", CGO_ENABLED="0")
        rc, out, dt = sh(["go", "build", "./..."], cwd=d, env=env, timeout=900)
        ctx.log.write(f"$ GOARCH={a} go build archcheck [{dt:.1f}s rc={rc}] {out[-600:]}\n")
        if rc != 0:
            bad.append(f"GOARCH={a}: the gc compiler's layout differs from the go/types table (or the package does not compile): " + " | ".join(out.strip().split("\n")[:3]))
    return bad


# floors: a run that exercised less than this is not a pass (exit 2), whatever the tier
FLOORS = {
    "go-real": {"connwrite": 6912, "conn": 6912, "flow.v4.is4": 100, "flow.v4.mapped": 50, "flow.v4.mixedforms": 10, "flow.v6": 100,
                "flow.v6.literal-v4mapped": 10, "flow.port53": 10, "flow.port-boundary": 30, "lpm": 300, "lpm.host": 50,
                "lpm.boundary-length": 40, "domkey.production": 300, "domsync": 60, "matchset.byteval": 60, "matchset.setidx": 40,
                "matchset.ring": 30, "matchset.mackey": 40, "matchset.port": 30, "golayout": 14, "goconst": 40, "htons": 200,
                # part 2: helper constructors, conn_state key lifecycle, routing-result lookups, match_set images
                "ctor.functions": 2, "ctor.ap": 150, "ctor.pfx": 150,
                "udptrack.histories": 40, "udptrack.track": 120, "udptrack.track.v4": 20, "udptrack.track.v4mapped": 20, "udptrack.track.v6": 20,
                "udptrack.release": 100, "udptrack.adopt": 30, "udptrack.kernel-entry": 300, "udptrack.flow.kernel-has-no-entry": 5,
                "udptrack.flow.repeated": 5, "udptrack.shared-source": 2, "udptrack.reseen": 5, "udptrack.fault.delete-fails": 2,
                "udptrack.option.delete-each": 3, "udptrack.option.batch-delete": 3,
                "rlookup": 200, "rlookup.conn": 20, "rlookup.handoff": 15, "rlookup.conn-other-proto": 8, "rlookup.conn-reversed": 15,
                "rlookup.conn-no-routing": 15, "rlookup.none": 8,
                "msimg": 60, "msimg.addDomain": 5, "msimg.addIp": 5, "msimg.addSourceIp": 5, "msimg.addPort": 5, "msimg.addSourcePort": 5,
                "msimg.addL4Proto": 5, "msimg.addIpVersion": 5, "msimg.addSourceMac": 5, "msimg.addProcessName": 5, "msimg.addDscp": 5,
                "msimg.addFallback": 5, "msimg.builder-with-many-rules": 5},
    "generator": {"spec": 150, "outbound.custom": 100, "outbound.custom.odd-underscores": 30},
    "c-native": {"clayout": 20, "cconst": 60, "cmap": 15, "ctuples.v4": 200, "ctuples.v6": 100, "croute.dom": 300, "croute.lpmhost": 50,
                 "croute.mackey": 40, "cmacsite.lan": 40, "cmacsite.wan_tcp": 40, "cmacsite.wan_udp": 40, "cconn": 6000, "clisten": 10,
                 "cdec.matchset.l4proto_type": 20, "cdec.matchset.ip_version": 20, "cdec.matchset.dscp": 20, "cdec.matchset.index": 60,
                 "cdec.matchset.port_range": 30, "cross.total": 8000,
                 "ctuples.kflow.v4": 200, "ctuples.kflow.v6": 100, "cdec.msimg": 60},
}


def below_floor(dist):
    out = []
    for stream, floors in FLOORS.items():
        got = dist.get(stream, {})
        for k, v in floors.items():
            if got.get(k, 0) < v:
                out.append(f"{stream}.{k}={got.get(k, 0)} < {v}")
    return out


ENV_MARKERS = ("cannot-create-bpf-array-map", "cannot-create-bpf-hash-map", "dump-error:", "freeze-error:", "clock-error:")
NEEDS_UPDATE_MARKERS = ("route-not-reached", "missing-lookups")


class EnvironmentProblem(Exception):
    pass


def diff(ctx, label, ops, impl, model):
    for l in read_lines(impl):
        if any(m in l for m in ENV_MARKERS):
            raise EnvironmentProblem("this environment cannot create/read real BPF maps (needs CAP_BPF/CAP_SYS_ADMIN, "
                                     "kernel.unprivileged_bpf_disabled, RLIMIT_MEMLOCK): " + l[:200])
        if any(m in l for m in NEEDS_UPDATE_MARKERS):
            raise EnvironmentProblem("the native harness no longer reaches route() through the kernel program's callers "
                                     "(a new scratch map / early exit in tproxy.c?): harness/c19/c19_native.c needs to follow: " + l[:200])
    if not ctx.driver("c19drv", ops, model):
        ctx.proof_failures.append("model driver c19drv failed on " + label)
        return 0
    mism = ctx.diff_streams(ops, impl, model, label)
    for ln, op, im, mo in mism[:6]:
        ctx.report(f"implementation differs from the model at {label}:{ln}: op `{op[:160]}` impl `{im[:200]}` model `{mo[:200]}`",
                   {"stream": label, "line": ln, "op": op, "impl": im, "model": mo,
                    "replay": "VERIF_SEED=%d ./check C19 %s" % (ctx.seed, ctx.tier)})
    lines = read_lines(ops)
    ctx.c19_distinct.update(lines)
    return len(lines)


def _run(ctx):
    ctx.c19_distinct = set()
    ctx.trusted += [
        "clang 14 (-target bpf) as the authority on the BPF ABI: sizeof/offsetof/enum/macro values are read back from the constant-folded LLVM IR of a probe translation unit that #includes the unmodified tproxy.c; /verif/harness/c/headers stand in for vmlinux.h/libbpf (UAPI types only)",
        "go/types + types.SizesFor(\"gc\", GOARCH) as the authority on Go layouts for the 13 release GOARCHes (validated on the host arch against unsafe/reflect in-process, and for all 13 GOARCHes by cross-compiling a generated package whose constant index expressions compile only if gc's Sizeof/Alignof/Offsetof equal the tables); encoding/binary layout = what cilium/ebpf sysenc.Marshal writes",
        "bpf2go output (bpf_bpfel.go) cannot be generated offline: the stub-build types of bpf_stub.go stand in for it (translators/fakebpf for the real-build variant)",
        "hand-written pairing table in lean/DaeVerif/C19/Model.lean (which Go type/field mirrors which C record/member; which constants are the same quantity)",
        "kernel-side key computations are tied by running tproxy.c's own get_tuples / copy_reversed_tuples / wan_outbound_is_alive / route / assign_listener natively (x86-64, little-endian; incl. the three callers of route() that pack the source MAC) with stub helpers; big-endian behaviour is covered by the model only",
    ]
    ctx.assumptions = [
        "BPF ABI = what clang 14 -target bpf computes; Go layouts = go/types gc sizes (validated on the host GOARCH against reflect/unsafe)",
        "the bpf2go-generated types of the real build are represented by the stub-build types (bpf_stub.go)",
        "key bytes are executed on a little-endian host only; the big-endian cases are covered by the Lean theorems (parametric in byte order), not by execution",
    ]
    if sys.byteorder != "little":
        # the native C harness and the in-process Go harness execute on the host; on a big-endian host the
        # explicitly little-endian encodings of the control plane (finding #11) legitimately differ from
        # what the kernel code reads, and the comparison streams are not set up for that
        ctx.say("ENVIRONMENT-UNSUPPORTED: C19's execution streams need a little-endian host (big-endian behaviour is covered by the theorems only)")
        return 2
    c19_lock(ctx)
    t0 = time.time()
    gen_out = regenerate(ctx)
    if gen_out is None:
        return 2
    ctx.cov["regenerate_s"] = round(time.time() - t0, 1)

    variants = ["real", "stub"] if ctx.tier == "thorough" else ["real"]
    # The Go harness builds do not depend on the Lean build: run them beside it (<= 3 jobs).
    pool = ThreadPoolExecutor(max_workers=2)
    f_go = {v: pool.submit(go_variant, ctx, v, gen_out) for v in variants}
    f_gen = pool.submit(gen_variant, ctx)
    f_arch = pool.submit(archcheck, ctx, gen_out)

    # driver first (does not depend on the theorems), so that a broken table theorem can be explained
    ok, out = ctx.lake_build(["c19drv"])
    if not ok:
        pool.shutdown(wait=True)
        ctx.proof_failures.append("lake build c19drv failed: " + " | ".join(l for l in out.split("\n") if "error" in l.lower())[:3000])
        return ctx.finish(rule="model does not build against the regenerated tables")
    n_items = diagnostics(ctx)
    if getattr(ctx, "c19_needs_class", None) and not ctx.violations:
        pool.shutdown(wait=True)
        for m in ctx.c19_needs_class:
            ctx.say("NEEDS-CLASSIFICATION: " + m)
        ctx.say("NEEDS-CLASSIFICATION (exit 2, not a verdict about dae): a new C constant / Go data type exists that the closure "
                "theorems every_c_const_classified / every_go_type_classified do not know; extend the tables in "
                "lean/DaeVerif/C19/Model.lean as the messages say, then re-run")
        return 2
    unclassified = getattr(ctx, "c19_unclassified_sites", [])
    if unclassified:
        # `every_build_site_classified` is refuted by the regenerated table (the diagnostics above say where): the
        # execution streams still run, so that a construction site that builds WRONG bytes is reported with the bytes
        ctx.proof_failures.append("DaeVerif.C19.Props.every_build_site_classified is refuted by the regenerated table: " + " | ".join(unclassified)[:1500])
    else:
        ctx.prove(["DaeVerif.C19.Props"], ["DaeVerif.C19.Props"], ["DaeVerif/C19/*.lean", "DaeVerif/C19/Gen/*.lean"],
                  extra_targets=["c19drv"])
        ctx.required_theorems(REQUIRED)

    total = n_items
    stats = {}
    for v in variants:
        ops = f_go[v].result()
        if not ops:
            pool.shutdown(wait=True)
            return 2
        total += diff(ctx, "go-" + v, ops, ops[:-4] + ".impl", ops[:-4] + ".model")
        stats[v] = json.load(open(os.path.join(ctx.out, f"c19go_{v}.stats.json")))
        nctor, verdict = ctor_verdicts(ctx, v)
        total += nctor
    ctx.samples = stats[variants[0]]["samples"][:4]
    ctx.cov["input_distribution"] = {"go-" + v: s["counters"] for v, s in stats.items()}
    # every Go data type of the tables was looked at in-process (except the function-local PARAM literal)
    seen = set()
    for v in variants:
        for op in read_lines(os.path.join(ctx.out, f"c19go_{v}.ops")):
            if op.startswith("golayout "):
                seen.add(op.split()[2])
    gj = json.load(open(os.path.join(gen_out, "c19_go.json")))
    want = {r["name"] for r in gj["classes"][0]["recs"] if r["name"] != "real.PARAM"}
    if ctx.tier != "thorough":
        want = {w for w in want if not w.startswith("stub.") or w in seen or ("real." + w[5:]) not in want}
    missing = sorted(want - seen)
    if missing:
        ctx.report("Go data types in the regenerated tables that the harness never inspected in-process: " + ",".join(missing),
                   {"missing": missing}, no_input=True)

    ops = f_gen.result()
    pool.shutdown(wait=True)
    if not ops:
        return 2
    total += diff(ctx, "generator", ops, ops[:-4] + ".impl", ops[:-4] + ".model")
    ctx.cov["input_distribution"]["generator"] = json.load(open(os.path.join(ctx.out, "c19gen.stats.json")))["counters"]

    n = c_side(ctx, gen_out, [os.path.join(ctx.out, f"c19flows_{v}.txt") for v in variants])
    if n is None:
        return 2
    total += n
    arch_bad = f_arch.result()
    for b in arch_bad:
        ctx.report("Go layout table not confirmed by the compiler: " + b, {"kind": "archcheck", "detail": b})
    ctx.cov["archcheck_goarches"] = len(RELEASE_ARCHES) - len(arch_bad)
    total += len(RELEASE_ARCHES)
    # construction sites of kernel-bound types that no stream executes: fail closed (after the execution
    # streams had their chance to show a concrete disagreement)
    if unclassified and not [v for v in ctx.violations if not v[2]]:
        for m in ctx.c19_unclassified_sites:
            ctx.say("UNCLASSIFIED-CONSTRUCTION-SITE: " + m)
        ctx.say("UNCLASSIFIED-CONSTRUCTION-SITE (exit 2, fail closed — not a verdict about dae): package control builds a value of a type it "
                "hands to the kernel at a place no C19 stream executes against the kernel-side constructor")
        return 2
    low = below_floor(ctx.cov["input_distribution"])
    if low and not ctx.violations and not ctx.proof_failures:
        ctx.say("COVERAGE-BELOW-FLOOR (not a pass): " + "; ".join(low))
        return 2
    ctx.cov["floors"] = "all input-class floors met" if not low else low
    return ctx.finish(rule="table items = one (pairing, GOARCH) layout obligation / constant pair / limit / map; "
                           "ops = one real-code evaluation (Go in-process / native tproxy.c) compared with the model; "
                           "distinct_nontrivial = table items + distinct op lines",
                      evaluations=total, distinct=n_items + len(ctx.c19_distinct),
                      checker_cmd="python3 /verif/translators/c19_regen.py && cd /verif/lean && lake build DaeVerif.C19.Props && lake env lean <#audit_namespace DaeVerif.C19.Props>")


def run(ctx):
    try:
        return _run(ctx)
    except EnvironmentProblem as e:
        ctx.say("ENVIRONMENT-UNSUPPORTED / HARNESS-NEEDS-UPDATE (exit 2, not a verdict about dae): " + str(e))
        return 2
