"""C10 — the kernel's address-to-domain table always mirrors the live DNS cache."""
import json, os, re
from verifkit import read_lines, REPO, CACHE

REQUIRED = [
    "DaeVerif.C10.Props.kernel_mirrors_owners",
    "DaeVerif.C10.Props.kernel_no_orphan",
    "DaeVerif.C10.Props.tracker_indexes_agree",
    "DaeVerif.C10.Props.batches_minimal",
    "DaeVerif.C10.Props.resync_sends_nothing",
    "DaeVerif.C10.Props.kernel_mirrors_completed_syncs",
    "DaeVerif.C10.Props.failed_delete_batch_leaves_table_ahead",
    "DaeVerif.C10.Props.retry_after_failed_delete_repairs",
    "DaeVerif.C10.Props.listed_iff",
    "DaeVerif.C10.Props.unspecified_lists_nothing",
    "DaeVerif.C10.Props.table_mirrors_cache",
    "DaeVerif.C10.Props.table_no_orphan",
    "DaeVerif.C10.Props.table_eq_spec",
    "DaeVerif.C10.Props.driver_mirror_flag",
    "DaeVerif.C10.Props.table_mirrors_tracker",
    "DaeVerif.C10.Props.unguarded_worker_breaks_mirror",
    "DaeVerif.C10.Props.failed_put_sync_breaks_mirror",
    "DaeVerif.C10.Props.refresh_after_failed_put_repairs",
]

# generator reach: below a floor the run is not evidence (exit 2). Values = ~40 % of what quick / seed 1 yields.
FLOORS = {
    "t.histories_with_shared_address": 80, "t.histories_with_failure_injection": 50,
    "inject.update_batch_failed": 60, "inject.delete_batch_failed": 20, "t.op.retry_after_failure": 80,
    "t.op.no_bpf_objects": 60, "t.op.no_domain_routing_map": 5, "t.op.upd_bad_bitmap_len": 60, "t.op.empty_owner": 60,
    "c.ops_ending_with_a_shared_address": 800, "c.op.put_unkeyed": 120, "c.op.reload": 80, "c.op.rollback": 25,
    "c.histories_with_two_or_more_reloads": 20, "c.histories_with_10_to_40_keys": 5, "c.janitor_runs_over_lru_limit": 12,
    "c.refresh_task_for_replaced_or_removed_entry": 20, "c.refresh_task_for_current_entry": 5,
    "c.histories_with_real_goroutine_loops": 50, "c.op.jan_real_ticker": 100, "c.janitor_evictions_by_real_ticker": 25,
    "c.op.work_by_real_worker": 20, "c.histories_with_late_started_worker": 15, "c.op.put_with_failed_publish": 15, "c.op.fam_removed_several_scopes": 2,
    "gen.answers.large_6_64": 100, "gen.answers.huge_300": 5, "gen.answers.unspecified": 500, "gen.bitmap.zero": 800,
    "gen.host.mixed_case": 300,
}

HOOK_DECLS = '''

// ---- added by /verif/checks/c10.py (generated copy, never written to /repo) ----
var VerifC10BatchUpdateHook func(m *ebpf.Map, keys interface{}, values interface{}) (int, error)
var VerifC10BatchDeleteHook func(m *ebpf.Map, keys interface{}) (int, error)
var VerifC10BatchDeleteAllHook func(m *ebpf.Map) error
'''


def gen_stub_with_observer(ctx):
    """Copy /repo/control/bpf_stub.go, replacing the bodies of the three batch stubs by forwards to
    package-level observer variables (the stubs otherwise fail unconditionally, so what syncOwner sends to
    domain_routing_map could not be observed). Everything else in the file is byte-identical."""
    src_path = os.path.join(REPO, "control", "bpf_stub.go")
    src = open(src_path, encoding="utf-8").read()
    subs = [
        (r"func BpfMapBatchUpdate\(m \*ebpf\.Map, keys interface\{\}, values interface\{\}, opts \*ebpf\.BatchOptions\) \(n int, err error\) \{\n.*?\n\}\n",
         "func BpfMapBatchUpdate(m *ebpf.Map, keys interface{}, values interface{}, opts *ebpf.BatchOptions) (n int, err error) {\n"
         "\tif VerifC10BatchUpdateHook != nil {\n\t\treturn VerifC10BatchUpdateHook(m, keys, values)\n\t}\n"
         "\treturn 0, errBpfObjectsUnavailable\n}\n"),
        (r"func BpfMapBatchDelete\(m \*ebpf\.Map, keys interface\{\}\) \(n int, err error\) \{\n.*?\n\}\n",
         "func BpfMapBatchDelete(m *ebpf.Map, keys interface{}) (n int, err error) {\n"
         "\tif VerifC10BatchDeleteHook != nil {\n\t\treturn VerifC10BatchDeleteHook(m, keys)\n\t}\n"
         "\treturn 0, errBpfObjectsUnavailable\n}\n"),
        (r"func BpfMapBatchDeleteAll\[K any, V any\]\(m \*ebpf\.Map\) error \{\n.*?\n\}\n",
         "func BpfMapBatchDeleteAll[K any, V any](m *ebpf.Map) error {\n"
         "\tif VerifC10BatchDeleteAllHook != nil {\n\t\treturn VerifC10BatchDeleteAllHook(m)\n\t}\n"
         "\treturn errBpfObjectsUnavailable\n}\n"),
    ]
    out = src
    for pat, rep in subs:
        out, n = re.subn(pat, lambda _m, rep=rep: rep, out, count=1, flags=re.S)
        if n != 1:
            ctx.say("TRANSLATOR-FAILED c10 stub observer: pattern not found in control/bpf_stub.go:", pat[:60])
            return None
    out += HOOK_DECLS
    path = os.path.join(ctx.out, "bpf_stub_c10.go")  # per run directory (runs of other seeds / repos never share it)
    open(path, "w", encoding="utf-8").write(out)
    return {src_path: path}


def fields(line):
    return dict(kv.split("=", 1) for kv in line.split() if "=" in kv and not kv.startswith("calls="))


def split(line):
    """`strict ## drift` -> (strict, drift)."""
    if " ## " in line:
        a, b = line.split(" ## ", 1)
        return a, b
    if line.endswith(" ##"):
        return line[:-3], ""
    return line, ""


def run(ctx):
    ctx.trusted += [
        "kernel hash-map semantics of domain_routing_map (batch update = upsert of every pair, batch delete = removal of every key; a failing batch writes nothing) — modelled as applyEmit / TK.syncO; map capacity, partial application of a failing batch and the simulated per-key fallback of bpf_utils.go are not modelled",
        "checks/c10.py generates a copy of control/bpf_stub.go in which BpfMapBatchUpdate/Delete/DeleteAll forward to observer variables (overlay REPLACE; nothing else in the file changes)",
        "DnsCache.DomainBitmap comes from a stub routing.DomainMatcher whose answer the generator chooses (MatchDomainBitmap is C11's subject); the production NewCache closure and replayDnsReloadCache are the real ones",
        "atomic-step model: each cache operation (cache-map mutation + its tracker sync) is one step; goroutine schedules are outside the property's quantifier",
        "in two thirds of the cache histories the refresh worker goroutine and the janitor ticker are replaced by explicit `work` / `jan` ops that call the real processBpfUpdateTask / evictExpiredDnsCache on the facade those goroutines are bound to; in every third history the controller comes from NewDnsController and the real goroutines run; time is virtual (testing/synctest)",
        "a reload is composed as production does (CloneDnsCache, NewDnsController for the new plane, clearReloadDomainRoutingMap + replayDnsReloadCache = CommitPreparedDatapath's DNS steps, ControlPlane.ReuseDNSControllerFrom) but CommitPreparedDatapath / Serve themselves are not called (commitInterfaceBindings needs a network namespace); the transient state between the commit and the reuse hook is not observed",
        "expiry, refresh and LRU policies are observed, not predicted: the model is told which entry a lookup / janitor run evicted and whether a refresh was queued; the theorems hold for every such choice. Predictions are reported as drift notes only",
    ]
    ctx.prove(["DaeVerif.C10.Props"], ["DaeVerif.C10.Props"], ["DaeVerif/C10/*.lean"], extra_targets=["c10drv"])
    ctx.required_theorems(REQUIRED)

    ov = gen_stub_with_observer(ctx)
    binp = ov and ctx.go_test_build("control", ["control/c10_test.go"], "c10", extra_overlay=ov)
    if not binp:
        return 2
    rc, out = ctx.run_harness(binp, "TestVerifC10")
    streams = {}
    for name in ("c10t", "c10c"):
        ops, impl, model = (os.path.join(ctx.out, name + "." + e) for e in ("ops", "impl", "model"))
        if rc != 0 or not os.path.exists(ops):
            ctx.say("HARNESS-FAILED", out[-3000:])
            return 2
        if not ctx.driver("c10drv", ops, model):
            ctx.proof_failures.append("model driver c10drv failed to run on " + name)
        streams[name] = (ops, impl, model)

    n_eval = 0
    n_lag = 0
    n_mirror_broken = 0
    n_drift = 0
    drift_samples = []
    distinct = set()
    for name, (ops, impl, model) in streams.items():
        # strict comparison: only what the property speaks about
        mism = ctx.diff_streams(ops, impl, model, name, canon=lambda l: split(l)[0])
        for ln, op, im, mo in mism[:6]:
            ctx.report(f"implementation differs from proved model at {name} line {ln}: op `{op[:160]}` impl `{split(im)[0][:300]}` model `{split(mo)[0][:300]}`",
                       {"stream": name, "line": ln, "op": op, "impl": im, "model": mo,
                        "history": history_of(read_lines(ops), ln),
                        "replay": "VERIF_SEED=%d ./check C10 %s" % (ctx.seed, ctx.tier)})
        lops, limpl, lmodel = read_lines(ops), read_lines(impl), read_lines(model)
        n_eval += len(lops)
        for i, (op, im) in enumerate(zip(lops, limpl)):
            st, dr = split(im)
            if "call(" in dr or (name == "c10c" and " k=0 " not in st + " " and not op.startswith(("sleep", "cdump", "touch"))):
                distinct.add(op + "|" + st)
            if im.startswith("crash:") or im.startswith("err:"):
                ctx.report(f"real code misbehaved on `{op[:160]}`: {im[:300]}",
                           {"stream": name, "line": i + 1, "op": op, "impl": im, "history": history_of(lops, i + 1)})
            if i < len(lmodel) and split(lmodel[i])[1] != dr:
                n_drift += 1
                if len(drift_samples) < 3:
                    drift_samples.append({"stream": name, "line": i + 1, "op": op[:200], "impl": dr[:300], "model": split(lmodel[i])[1][:300]})
            if name == "c10c" and " m=" in st:
                f = fields(st)
                # property-level oracle on the implementation: the shadow of the kernel table equals the
                # specification evaluated on the real cache contents
                if f.get("m") == "0" and any(o.startswith("putf ") for o in history_of(lops, i + 1)):
                    # an injected publish failure earlier in this history: the table may lag (theorem
                    # failed_put_sync_breaks_mirror); model and implementation must still agree (strict diff)
                    n_lag += 1
                elif f.get("m") == "0":
                    n_mirror_broken += 1
                    if n_mirror_broken <= 3:
                        hist = history_of(lops, i + 1)
                        ctx.report(f"kernel table does not mirror the live cache after `{op[:160]}`: {st[:200]}; history: " + " ; ".join(hist[-10:])[:900],
                                   {"stream": name, "line": i + 1, "op": op, "impl": im, "history": hist,
                                    "replay": "VERIF_SEED=%d ./check C10 %s" % (ctx.seed, ctx.tier)})
    ctx.cov["mirror_broken_lines"] = n_mirror_broken
    ctx.cov["lines_lagging_after_injected_publish_failure"] = n_lag
    ctx.cov["bookkeeping_drift_lines"] = n_drift
    if n_drift:
        ctx.cov["bookkeeping_drift_samples"] = drift_samples
        ctx.say(f"note: {n_drift} lines differ from the model only in bookkeeping the property does not speak about "
                f"(batch shape, refresh queue, expiry/refresh/LRU policy, error wording, tracker layout); first: {json.dumps(drift_samples[0])[:500]}")
    handle_bigreload_probe(ctx)
    handle_race_probe(ctx)

    stats = json.load(open(os.path.join(ctx.out, "c10.stats.json")))
    cops = read_lines(streams["c10c"][0])
    ctx.samples = stats["samples"][:4] + [o for o in cops if o.startswith("put ")][:3] + [o for o in cops if o.startswith(("fam ", "jan ", "hot ", "look ", "reload "))][:5]
    ctx.cov["input_distribution"] = stats["counters"]
    low = {k: (stats["counters"].get(k, 0), v) for k, v in FLOORS.items() if stats["counters"].get(k, 0) < v}
    ctx.cov["generator_floors"] = {"floors": FLOORS, "below": low}
    ctx.assumptions = [
        "histories are generated (seeded): 1-6 owners / cache keys (10 % of the cache histories 10-40), address pool 1-8 (forces overlap), answers of 0-5 records (3.6 % 6-64, 0.4 % 300), 1-60 ops",
        "batch syscalls of cache operations succeed, except the update batch of 4 % of the puts outside real-loops mode (`putf` lines); failing delete batches are injected in the tracker stream only",
        "whether a put stores its answer, which entries lookups / janitor evict and whether a refresh is queued are observed and told to the model",
    ]
    rc_floor = 0
    if getattr(ctx, "harness_failed", False):
        rc_floor = 2
    skipped = stats["counters"].get("c.rollback_skipped_no_bpf_privilege", 0)
    if skipped:
        ctx.say(f"PRIVILEGE-MISSING: this process cannot create kernel BPF maps (CAP_BPF / CAP_SYS_ADMIN); {skipped} rollback ops "
                "(real RebuildReloadDatapath writes routing_meta_map) were skipped — the run is not evidence (exit 2)")
        rc_floor = 2
    if low:
        ctx.say("GENERATOR-BELOW-FLOOR (counter: got < floor): " + json.dumps(low))
        rc_floor = 2
    rc_fin = _finish(ctx, n_eval, distinct)
    if rc_floor and not rc_fin:
        ctx.say("NOT-EVIDENCE property=C10: the OK line above does not count, this run exits 2 (see the message before it)")
    return rc_fin or rc_floor


def _finish(ctx, n_eval, distinct):
    return ctx.finish(
        rule="ops = one tracker call (tupd/trm, with or without an injected batch failure) or one cache operation (put keyed/unkeyed, del, fam, look, hot, jan, sleep, work, touch, reload) "
             "or a full state dump; on every line the strict part is compared (call accepted?, size and fingerprint of the whole table, cache size, mirror flag of the independent Go oracle; on dumps "
             "the whole table and the property-relevant cache contents); the bookkeeping part (batch shapes, queue, policies, stamps, tracker layout) only yields notes; "
             "distinct_nontrivial counts distinct (op, strict result) pairs: tracker calls that reached syncOwner, cache operations (not sleep/touch/dump) ending with a non-empty table",
        evaluations=n_eval, distinct=len(distinct))


def handle_bigreload_probe(ctx):
    """Inside the property: a reload restoring more entries than the refresh queue has slots."""
    path = os.path.join(ctx.out, "c10.bigreload.txt")
    if not os.path.exists(path):
        ctx.say("HARNESS-FAILED big reload probe produced no output")
        ctx.harness_failed = True
        return
    line = open(path).read().strip()
    ctx.cov["bigreload_probe"] = line
    f = fields(line)
    if f.get("mirror") != "1":
        ctx.report("after a reload restoring 1500 cached names (put h0..h1499 one A record each; reload; drain the refresh worker) the kernel table does not hold "
                   "every address the cache lists: " + line[:300], {"probe": line, "history": ["put h<i>.example.1 (i=0..1499)", "reload", "work*"]})


def history_of(ops, lineno):
    """ops of the history that contains line `lineno` (1-based), up to that line."""
    start = lineno - 1
    while start > 0 and not (ops[start].startswith("cnew") or ops[start] == "tnew"):
        start -= 1
    return ops[start:lineno]


def handle_race_probe(ctx):
    """Outside the property's alphabet (a concurrency schedule): a complete operation of another goroutine runs
    between the cache-map mutation and the tracker sync of an operation on the same key."""
    path = os.path.join(ctx.out, "c10.race.txt")
    if not os.path.exists(path):
        ctx.say("HARNESS-FAILED race probe produced no output")
        ctx.harness_failed = True
        return
    line = open(path).read().strip()
    ctx.cov["race_probe"] = line
    f = fields(line)
    if not line.startswith("race "):
        ctx.say("note: race probe did not run as designed: " + line[:300])
        return
    if f.get("A_mirror") == "1" and f.get("B_mirror") == "1":
        return
    what = ("goroutine schedule (outside C10's quantifier, see design_notes/C10.md): a complete operation of another goroutine between "
            "the cache-map mutation and the tracker sync of an operation on the same key; " + line)
    ctx.say("note: " + what[:400])
    ctx.cov.setdefault("observations_outside_quantifier", []).append(what)
