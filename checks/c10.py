"""C10 — the kernel's address-to-domain table always mirrors the live DNS cache."""
import json, os, re, threading
from verifkit import read_lines, REPO, CACHE

REQUIRED = [
    "DaeVerif.C10.Props.kernel_mirrors_owners",
    "DaeVerif.C10.Props.kernel_no_orphan",
    "DaeVerif.C10.Props.tracker_indexes_agree",
    "DaeVerif.C10.Props.batches_minimal",
    "DaeVerif.C10.Props.resync_sends_nothing",
    "DaeVerif.C10.Props.kernel_mirrors_completed_syncs",
    "DaeVerif.C10.Props.failed_delete_batch_leaves_table_ahead",
    "DaeVerif.C10.Props.retry_after_failed_delete_repairs",
    "DaeVerif.C10.Props.listed_iff",
    "DaeVerif.C10.Props.unspecified_lists_nothing",
    "DaeVerif.C10.Props.table_mirrors_cache",
    "DaeVerif.C10.Props.table_no_orphan",
    "DaeVerif.C10.Props.table_eq_spec",
    "DaeVerif.C10.Props.driver_mirror_flag",
    "DaeVerif.C10.Props.table_mirrors_tracker",
    "DaeVerif.C10.Props.unguarded_worker_breaks_mirror",
    "DaeVerif.C10.Props.failed_put_sync_breaks_mirror",
    "DaeVerif.C10.Props.refresh_after_failed_put_repairs",
    "DaeVerif.C10.Props.retry_after_partial_failure_repairs",
    "DaeVerif.C10.Props.late_retry_after_failed_delete_does_not_repair",
    "DaeVerif.C10.Props.capped_batch_within_room_is_complete",
    "DaeVerif.C10.Props.capped_batch_applies_a_prefix",
    "DaeVerif.C10.Props.retry_after_capacity_failure_repairs",
    "DaeVerif.C10.Props.crun_is_crunP_ok",
    "DaeVerif.C10.Props.table_mirrors_tracker_under_failures",
    "DaeVerif.C10.Props.tracker_matches_cache_on_clean_keys",
    "DaeVerif.C10.Props.clean_addresses_mirror_cache",
    "DaeVerif.C10.Props.table_mirrors_cache_when_no_key_is_dirty",
    "DaeVerif.C10.Props.failed_removal_leaves_orphan",
    "DaeVerif.C10.Props.mutex_serialises_syncs",
    "DaeVerif.C10.Props.mutex_serialises_syncs_no_orphan",
    "DaeVerif.C10.Props.table_during_a_call",
    "DaeVerif.C10.Props.early_unlock_breaks_mirror",
]

# generator reach: below a floor the run is not evidence (exit 2). Values = ~40 % of what quick / seed 1 yields.
FLOORS = {
    "t.histories_with_shared_address": 80, "t.histories_with_failure_injection": 50,
    "inject.update_batch_failed": 60, "inject.delete_batch_failed": 20, "t.op.retry_after_failure": 80,
    "t.op.no_bpf_objects": 60, "t.op.no_domain_routing_map": 5, "t.op.upd_bad_bitmap_len": 60, "t.op.empty_owner": 60,
    "c.ops_ending_with_a_shared_address": 800, "c.op.put_unkeyed": 120, "c.op.reload": 80, "c.op.rollback": 25,
    "c.histories_with_two_or_more_reloads": 20, "c.histories_with_10_to_40_keys": 5, "c.janitor_runs_over_lru_limit": 12,
    "c.refresh_task_for_replaced_or_removed_entry": 20, "c.refresh_task_for_current_entry": 5,
    "c.histories_with_real_goroutine_loops": 50, "c.op.jan_real_ticker": 100, "c.janitor_evictions_by_real_ticker": 25,
    "c.op.work_by_real_worker": 20, "c.histories_with_late_started_worker": 15, "c.op.put_with_failed_publish": 15, "c.op.fam_removed_several_scopes": 2,
    "gen.answers.large_6_64": 100, "gen.answers.huge_300": 5, "gen.answers.unspecified": 500, "gen.bitmap.zero": 800,
    "gen.host.mixed_case": 300,
    # round 8
    "t.histories_on_real_kernel_map": 80, "t.histories_with_small_map_capacity": 20, "t.op.refused_by_kernel_for_capacity": 40,
    "t.op.clear": 80, "c.histories_on_real_kernel_map": 60, "c.op.reload_without_controller_reuse": 15,
    "c.op.reload_committed_by_constructor_tail": 6, "c.ops_with_failed_update_batch": 20, "c.ops_with_failed_delete_batch": 4,
    "c.op.removal_with_failed_batch": 4, "c.op.reload_with_failed_batch": 3,
    "s.histories": 60, "s.histories_with_a_blocked_goroutine": 40, "s.steps_with_a_goroutine_blocked_on_the_mutex": 200,
    "s.histories_with_a_call_started_while_another_is_inside": 40,
}

def gen_overlay(ctx):
    """translators/c10wrap regenerates (1) a copy of control/bpf_utils.go whose three batch functions are renamed and
    wrapped by observers that receive a closure running the production function, (2) the DNS steps of
    CommitPreparedDatapath / of newControlPlane's non-delayed tail as callable functions. Fails closed."""
    from verifkit import sh, go_env, VERIF
    gen = os.path.join(ctx.out, "gen")
    os.makedirs(gen, exist_ok=True)
    rc, out, dt = sh(["go", "run", "main.go", os.path.join(REPO, "control"), gen],
                     cwd=os.path.join(VERIF, "translators", "c10wrap"), env=go_env(), timeout=600)
    ctx.log.write(f"$ c10wrap [{dt:.1f}s rc={rc}] {out}\n")
    if rc != 0:
        ctx.say("TRANSLATOR-FAILED c10wrap (an anchor in control/bpf_utils.go or control/control_plane.go moved):", out[-1500:])
        return None
    ctx.cov["translator_c10wrap"] = out.strip()[-300:]
    return {os.path.join(REPO, "control", "bpf_utils.go"): os.path.join(gen, "bpf_utils_c10.go"),
            os.path.join(REPO, "control", "zz_verif_c10_commit_gen.go"): os.path.join(gen, "c10_commit_gen.go")}


def fields(line):
    return dict(kv.split("=", 1) for kv in line.split() if "=" in kv and not kv.startswith("calls="))


def split(line):
    """`strict ## drift` -> (strict, drift)."""
    if " ## " in line:
        a, b = line.split(" ## ", 1)
        return a, b
    if line.endswith(" ##"):
        return line[:-3], ""
    return line, ""


def run(ctx):
    ctx.trusted += [
        "kernel hash-map semantics of domain_routing_map: modelled as applyEmit / TK.syncO / batchUpdCap (upsert of every pair in order, E2BIG for a new key in a full map with the prefix kept, removal of every key); tied in the kernel-map histories, where the table is a real BPF_MAP_TYPE_HASH (BPF_F_NO_PREALLOC) created by the harness and written by the production BpfMapBatchUpdate/Delete/DeleteAll; in the shadow histories the hooks keep a Go map instead. The pre-5.6 simulated per-key fallback of bpf_utils.go is not executed on this kernel",
        "translators/c10wrap generates a copy of control/bpf_utils.go in which BpfMapBatchUpdate/Delete/DeleteAll are renamed (bodies untouched) and wrapped by observers that can run them (overlay REPLACE), and regenerates the DNS steps of CommitPreparedDatapath and of newControlPlane's non-delayed tail in source order (commitInterfaceBindings, startConnStateJanitor, markReady dropped by name; any other new call makes the translator refuse => exit 2); real build of package control with the synthetic bpf2go file of translators/fakebpf",
        "DnsCache.DomainBitmap comes from a stub routing.DomainMatcher whose answer the generator chooses (MatchDomainBitmap is C11's subject); the production NewCache closure and replayDnsReloadCache are the real ones",
        "atomic-step model: each cache operation (cache-map mutation + its tracker sync) is one step; goroutine schedules are outside the property's quantifier",
        "in two thirds of the cache histories the refresh worker goroutine and the janitor ticker are replaced by explicit `work` / `jan` ops that call the real processBpfUpdateTask / evictExpiredDnsCache on the facade those goroutines are bound to; in every third history the controller comes from NewDnsController and the real goroutines run; time is virtual (testing/synctest)",
        "a reload is composed as production does (CloneDnsCache, NewDnsController for the new plane, clearReloadDomainRoutingMap + replayDnsReloadCache = CommitPreparedDatapath's DNS steps, ControlPlane.ReuseDNSControllerFrom) but CommitPreparedDatapath / Serve themselves are not called (commitInterfaceBindings needs a network namespace); the transient state between the commit and the reuse hook is not observed",
        "expiry, refresh and LRU policies are observed, not predicted: the model is told which entry a lookup / janitor run evicted and whether a refresh was queued; the theorems hold for every such choice. Predictions are reported as drift notes only",
    ]
    # the Go side (two translators, then the test binary) is built while Lean proves and audits: 3 jobs at most
    built = {}

    def build_go():
        parts = {}
        t1 = threading.Thread(target=lambda: parts.__setitem__("ov", gen_overlay(ctx)))
        t2 = threading.Thread(target=lambda: parts.__setitem__("fake", ctx.fake_bpf_overlay()))
        t1.start(); t2.start(); t1.join(); t2.join()
        if parts.get("ov") and parts.get("fake"):
            built["bin"] = ctx.go_test_build("control", ["control/c10_test.go"], "c10", tags="",
                                             extra_overlay={**parts["fake"], **parts["ov"]})

    th = threading.Thread(target=build_go)
    th.start()
    ctx.prove(["DaeVerif.C10.Props"], ["DaeVerif.C10.Props"], ["DaeVerif/C10/*.lean"], extra_targets=["c10drv"])
    ctx.required_theorems(REQUIRED)
    th.join()
    binp = built.get("bin")
    if not binp:
        return 2
    rc, out = ctx.run_harness(binp, "TestVerifC10")
    streams = {}
    for name in ("c10t", "c10s", "c10c"):
        ops, impl, model = (os.path.join(ctx.out, name + "." + e) for e in ("ops", "impl", "model"))
        if rc != 0 or not os.path.exists(ops):
            ctx.say("HARNESS-FAILED", out[-3000:])
            return 2
        if not ctx.driver("c10drv", ops, model):
            ctx.proof_failures.append("model driver c10drv failed to run on " + name)
        streams[name] = (ops, impl, model)

    n_eval = 0
    n_lag = 0
    n_mirror_broken = 0
    n_drift = 0
    drift_samples = []
    distinct = set()
    for name, (ops, impl, model) in streams.items():
        # strict comparison: only what the property speaks about
        mism = ctx.diff_streams(ops, impl, model, name, canon=lambda l: split(l)[0])
        for ln, op, im, mo in mism[:6]:
            ctx.report(f"implementation differs from proved model at {name} line {ln}: op `{op[:160]}` impl `{split(im)[0][:300]}` model `{split(mo)[0][:300]}`",
                       {"stream": name, "line": ln, "op": op, "impl": im, "model": mo,
                        "history": history_of(read_lines(ops), ln),
                        "replay": "VERIF_SEED=%d ./check C10 %s" % (ctx.seed, ctx.tier)})
        lops, limpl, lmodel = read_lines(ops), read_lines(impl), read_lines(model)
        n_eval += len(lops)
        for i, (op, im) in enumerate(zip(lops, limpl)):
            st, dr = split(im)
            if "call(" in dr or (name == "c10c" and " k=0 " not in st + " " and not op.startswith(("sleep", "cdump", "touch"))):
                distinct.add(op + "|" + st)
            if im.startswith("crash:") or im.startswith("err:"):
                ctx.report(f"real code misbehaved on `{op[:160]}`: {im[:300]}",
                           {"stream": name, "line": i + 1, "op": op, "impl": im, "history": history_of(lops, i + 1)})
            if i < len(lmodel) and split(lmodel[i])[1] != dr:
                n_drift += 1
                if len(drift_samples) < 3:
                    drift_samples.append({"stream": name, "line": i + 1, "op": op[:200], "impl": dr[:300], "model": split(lmodel[i])[1][:300]})
            if name == "c10c" and " m=" in st:
                f = fields(st)
                # property-level oracle on the implementation: the shadow of the kernel table equals the
                # specification evaluated on the real cache contents
                if f.get("m") == "0" and any(o.startswith("!") for o in history_of(lops, i + 1)):
                    # an injected publish failure earlier in this history: the table may lag (theorem
                    # failed_put_sync_breaks_mirror); model and implementation must still agree (strict diff)
                    n_lag += 1
                elif f.get("m") == "0":
                    n_mirror_broken += 1
                    if n_mirror_broken <= 3:
                        hist = history_of(lops, i + 1)
                        ctx.report(f"kernel table does not mirror the live cache after `{op[:160]}`: {st[:200]}; history: " + " ; ".join(hist[-10:])[:900],
                                   {"stream": name, "line": i + 1, "op": op, "impl": im, "history": hist,
                                    "replay": "VERIF_SEED=%d ./check C10 %s" % (ctx.seed, ctx.tier)})
    ctx.cov["mirror_broken_lines"] = n_mirror_broken
    ctx.cov["lines_lagging_after_injected_publish_failure"] = n_lag
    ctx.cov["bookkeeping_drift_lines"] = n_drift
    if n_drift:
        ctx.cov["bookkeeping_drift_samples"] = drift_samples
        ctx.say(f"note: {n_drift} lines differ from the model only in bookkeeping the property does not speak about "
                f"(batch shape, refresh queue, expiry/refresh/LRU policy, error wording, tracker layout); first: {json.dumps(drift_samples[0])[:500]}")
    handle_bigreload_probe(ctx)
    handle_race_probe(ctx)
    handle_handover_probe(ctx)

    stats = json.load(open(os.path.join(ctx.out, "c10.stats.json")))
    cops = read_lines(streams["c10c"][0])
    ctx.samples = stats["samples"][:4] + [o for o in cops if o.startswith("put ")][:3] + [o for o in cops if o.startswith(("fam ", "jan ", "hot ", "look ", "reload ", "reloadx ", "!"))][:5]
    ctx.cov["input_distribution"] = stats["counters"]
    low = {k: (stats["counters"].get(k, 0), v) for k, v in FLOORS.items() if stats["counters"].get(k, 0) < v}
    ctx.cov["generator_floors"] = {"floors": FLOORS, "below": low}
    ctx.assumptions = [
        "histories are generated (seeded): 1-6 owners / cache keys (10 % of the cache histories 10-40), address pool 1-8 (forces overlap), answers of 0-5 records (3.6 % 6-64, 0.4 % 300), 1-60 ops",
        "batch syscalls of cache operations succeed, except in 7 % of the cache operations outside real-loops mode, where the 1st or 2nd update (or delete) batch the operation sends fails (`!uf:<owner>` / `!df:<owner>` prefixes); after such a line the mirror flag may be 0, model and implementation must still agree",
        "whether a put stores its answer, which entries lookups / janitor evict and whether a refresh is queued are observed and told to the model",
    ]
    rc_floor = 0
    if getattr(ctx, "harness_failed", False):
        rc_floor = 2
    skipped = stats["counters"].get("c.rollback_skipped_no_bpf_privilege", 0) + stats["counters"].get("kmap.unavailable_no_bpf_privilege", 0)
    if skipped:
        ctx.say(f"PRIVILEGE-MISSING: this process cannot create kernel BPF maps (CAP_BPF / CAP_SYS_ADMIN); {skipped} rollback ops / kernel-map histories "
                "(real RebuildReloadDatapath writes routing_meta_map; half of the histories run on a real kernel hash map) were skipped — the run is not evidence (exit 2)")
        rc_floor = 2
    if low:
        ctx.say("GENERATOR-BELOW-FLOOR (counter: got < floor): " + json.dumps(low))
        rc_floor = 2
    rc_fin = _finish(ctx, n_eval, distinct)
    if rc_floor and not rc_fin:
        ctx.say("NOT-EVIDENCE property=C10: the OK line above does not count, this run exits 2 (see the message before it)")
    return rc_fin or rc_floor


def _finish(ctx, n_eval, distinct):
    return ctx.finish(
        rule="ops = one tracker call (tupd/trm, with or without an injected batch failure) or one cache operation (put keyed/unkeyed, del, fam, look, hot, jan, sleep, work, touch, reload) "
             "or a full state dump; on every line the strict part is compared (call accepted?, size and fingerprint of the whole table, cache size, mirror flag of the independent Go oracle; on dumps "
             "the whole table and the property-relevant cache contents); the bookkeeping part (batch shapes, queue, policies, stamps, tracker layout) only yields notes; "
             "distinct_nontrivial counts distinct (op, strict result) pairs: tracker calls that reached syncOwner, cache operations (not sleep/touch/dump) ending with a non-empty table",
        evaluations=n_eval, distinct=len(distinct))


def handle_bigreload_probe(ctx):
    """Inside the property: a reload restoring more entries than the refresh queue has slots."""
    path = os.path.join(ctx.out, "c10.bigreload.txt")
    if not os.path.exists(path):
        ctx.say("HARNESS-FAILED big reload probe produced no output")
        ctx.harness_failed = True
        return
    line = open(path).read().strip()
    ctx.cov["bigreload_probe"] = line
    f = fields(line)
    if f.get("mirror") != "1":
        ctx.report("after a reload restoring 1500 cached names (put h0..h1499 one A record each; reload; drain the refresh worker) the kernel table does not hold "
                   "every address the cache lists: " + line[:300], {"probe": line, "history": ["put h<i>.example.1 (i=0..1499)", "reload", "work*"]})


HANDOVER_KEY = "c10-no-reuse-reload-old-generation-writes-shared-map"
HANDOVER_WHAT = ("a staged reload that does NOT reuse the DNS controller (dns section changed) lets the old generation keep writing the shared "
                 "domain_routing_map through its own tracker after the new generation's CommitPreparedDatapath: gen1 put a.com {1.2.3.4}; clone; gen2 commit "
                 "(clear + replay); gen1 caches b.com {10.0.0.1}; gen1 closed => live cache {a.com}, table also holds 10.0.0.1 with gen1's rule bits, never deleted")


def handle_handover_probe(ctx):
    """Inside the property: a reload WITHOUT controller reuse while the old generation still caches an answer."""
    path = os.path.join(ctx.out, "c10.handover.txt")
    if not os.path.exists(path):
        ctx.say("HARNESS-FAILED hand-over probe produced no output")
        ctx.harness_failed = True
        return
    line = open(path).read().strip()
    ctx.cov["handover_probe"] = line
    f = fields(line)
    if not line.startswith("handover "):
        ctx.say("HARNESS-FAILED hand-over probe did not run as designed: " + line[:300])
        ctx.harness_failed = True
        return
    if f.get("mirror") != "1":
        listed = any(k.get("key") == HANDOVER_KEY for k in ctx.known)
        what = HANDOVER_WHAT + ": " + line[:300]
        ctx.cov.setdefault("candidate_findings", []).append({"key": HANDOVER_KEY, "what": what, "proposed_patch": "design_notes/C10.fix6.patch"})
        if not listed:
            # not (yet) listed by the coordinator: printed as a note, never a VIOLATION; once the key is in
            # known_findings.jsonl it is reported through ctx.report (KNOWN-FINDING line while open)
            ctx.say("note: CANDIDATE FINDING key=" + HANDOVER_KEY + " (reproduced on the real code, proposed patch design_notes/C10.fix6.patch): " + what[:600])
            return
        ctx.report("reload without DNS-controller reuse (staged same-port reload whose dns section changed): gen1 put a.com {1.2.3.4}; clone; gen2 built with its own "
                   "controller; gen2 CommitPreparedDatapath (clear + replay of the clone through gen2's tracker); gen1, still serving, caches b.com {10.0.0.1}: "
                   "published through gen1's tracker into the SAME domain_routing_map with gen1's rule bits; gen1 retired (DnsController.Close runs no callbacks) "
                   "=> the live cache (gen2) holds a.com only, the table also holds 10.0.0.1, and no tracker will ever delete it: " + line[:300],
                   {"probe": line, "history": ["gen1: put a.com.1 A 1.2.3.4 bits{0}", "CloneDnsCache", "gen2: NewDnsController + pendingDnsReloadCache",
                                               "gen2: CommitPreparedDatapath (DNS steps)", "gen1: put b.com.1 A 10.0.0.1 bits{0}", "gen1: DnsController.Close"]},
                   key="c10-no-reuse-reload-old-generation-writes-shared-map")


def history_of(ops, lineno):
    """ops of the history that contains line `lineno` (1-based), up to that line."""
    start = lineno - 1
    while start > 0 and not (ops[start].startswith("cnew") or ops[start] == "tnew"):
        start -= 1
    return ops[start:lineno]


def handle_race_probe(ctx):
    """Outside the property's alphabet (a concurrency schedule): a complete operation of another goroutine runs
    between the cache-map mutation and the tracker sync of an operation on the same key."""
    path = os.path.join(ctx.out, "c10.race.txt")
    if not os.path.exists(path):
        ctx.say("HARNESS-FAILED race probe produced no output")
        ctx.harness_failed = True
        return
    line = open(path).read().strip()
    ctx.cov["race_probe"] = line
    f = fields(line)
    if not line.startswith("race "):
        ctx.say("note: race probe did not run as designed: " + line[:300])
        return
    if f.get("A_mirror") == "1" and f.get("B_mirror") == "1":
        return
    what = ("goroutine schedule (outside C10's quantifier, see design_notes/C10.md): a complete operation of another goroutine between "
            "the cache-map mutation and the tracker sync of an operation on the same key; " + line)
    ctx.say("note: " + what[:400])
    ctx.cov.setdefault("observations_outside_quantifier", []).append(what)
