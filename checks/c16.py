"""C16 — node health follows the documented thresholds and is reported on edges only."""
import json, os, re
from verifkit import read_lines

REQUIRED = []  # filled below (kept as a module-level list so deleting a theorem is detected)

REQUIRED += ["DaeVerif.C16.Props." + n for n in [
    "dead_only_after_threshold", "threshold_reached_kills", "below_threshold_stays",
    "forced_report_kills_immediately", "escalation_takes_all_types_down", "escalation_only_after_three_deaths",
    "success_revives_and_clears", "data_udp_traffic_revives", "traffic_success_clears_traffic_count",
    "ignorable_never_counts", "canceled_probe_never_counts",
    "suppressed_failures_dont_count", "suppression_window",
    "callbacks_on_edges_only", "callbacks_on_edges_only_history",
    "groups_see_state",
    "group_callbacks_are_edges", "random_policy_never_writes", "kernel_bit_partial", "kernel_bit_full_fails",
    "kernel_key_injective", "kernel_key_slots",
    "reload_snapshot_drops_counters", "reload_hands_over_state", "reload_floor_leaves_selectable",
]]

PKG = "component/outbound/dialer"


def _fields(line):
    """N[..] T[..] G[..] E[..] S[..] K[..] P[..] -> dict"""
    return {m.group(1): m.group(2) for m in re.finditer(r"([A-Z])\[([^\]]*)\]", line)}


def run(ctx):
    ctx.trusted += [
        "latency values a set reads from a node (snapshotLatencyForPolicy: LatenciesN, moving average, back-off penalty) "
        "are inputs of the model (oracle), read back from the real set after each event; theorems hold for all values",
        "single-threaded event semantics: the harness serialises events; interleavings of concurrent reports/probes are not modelled",
        "classification of concrete Go errors into ignorable/counted is tied only on the harness's error pool",
        "testing/synctest virtual clock stands for the wall clock (suppression window, failure TTL)",
    ]
    ctx.prove(["DaeVerif.C16.Props"], ["DaeVerif.C16.Props"], ["DaeVerif/C16/*.lean"], extra_targets=["c16drv"])
    ctx.required_theorems(REQUIRED)

    binp = ctx.go_test_build(PKG, [PKG + "/c16_test.go", PKG + "/c16x_test.go"], "c16")
    if not binp:
        return 2
    rc, out = ctx.run_harness(binp, "TestVerifC16")
    ops, impl, model = (os.path.join(ctx.out, "c16." + e) for e in ("ops", "impl", "model"))
    if rc != 0 or not os.path.exists(ops):
        ctx.say("HARNESS-FAILED", out[-3000:])
        return 2
    if not ctx.driver("c16drv", ops, model):
        ctx.proof_failures.append("model driver c16drv failed to run")
    mism = ctx.diff_streams(ops, impl, model, "c16")

    op_lines, impl_lines = read_lines(ops), read_lines(impl)
    # scenario-relative replay: the ops of the scenario containing the first mismatching line
    def scenario_of(lineno):
        start = lineno - 1
        while start > 0 and op_lines[start] != "scenario":
            start -= 1
        return op_lines[start:lineno]

    for ln, op, im, mo in mism[:5]:
        if ln == 0:
            ctx.report(f"stream lengths differ: {op}", {"stream": "c16"})
            continue
        fi, fm = _fields(im), _fields(mo)
        diff = [k for k in fi if fi.get(k) != fm.get(k)] or ["?"]
        ctx.report(f"real dialer/group code differs from the proved model at line {ln} op `{op[:80]}` in {diff}: "
                   f"impl {[fi.get(k) for k in diff]} model {[fm.get(k) for k in diff]}",
                   {"stream": "c16", "line": ln, "op": op, "impl": im, "model": mo,
                    "scenario_ops": scenario_of(ln)[-400:],
                    "replay": "VERIF_SEED=%d ./check C16 %s" % (ctx.seed, ctx.tier)})
    for op, im in zip(op_lines, impl_lines):
        if op == "crash" or im.startswith("crash:"):
            ctx.report(f"real code panicked: {im[:300]}", {"op": op, "impl": im})

    # ---- kernel side: real outboundAliveChangeCallback + real BPF array map (package control)
    n_k = 0
    kbin = ctx.go_test_build("control", ["control/c16_test.go"], "c16k")
    if not kbin:
        return 2
    rc, out = ctx.run_harness(kbin, "TestVerifC16Kernel")
    kops, kimpl, kmodel = (os.path.join(ctx.out, "c16k." + e) for e in ("ops", "impl", "model"))
    if rc != 0 or not os.path.exists(kops):
        ctx.say("HARNESS-FAILED (kernel side)", out[-3000:])
        return 2
    kop_lines = read_lines(kops)
    if kop_lines and kop_lines[0] == "nobpf":
        ctx.assumptions.append("bpf(2) unavailable in this sandbox: the kernel-map half of the tie was SKIPPED")
        ctx.cov["kernel_side"] = "skipped: bpf unavailable"
    else:
        if not ctx.driver("c16drv", kops, kmodel):
            ctx.proof_failures.append("model driver c16drv failed to run (kernel stream)")

        def konly(line):
            m = re.search(r"K\[[^\]]*\]", line)
            return m.group(0) if m else line
        kmism = ctx.diff_streams(kops, kimpl, kmodel, "c16k", canon=konly)
        for ln, op, im, mo in kmism[:5]:
            ctx.report(f"kernel connectivity map differs from the proved model at line {ln} op `{op[:60]}`: "
                       f"real map {konly(im)} model {konly(mo)}",
                       {"stream": "c16k", "line": ln, "op": op, "impl": im, "model": mo,
                        "replay": "VERIF_SEED=%d ./check C16 %s" % (ctx.seed, ctx.tier)})
        n_k = len(kop_lines)
        ctx.cov["kernel_side"] = json.load(open(os.path.join(ctx.out, "c16k.stats.json")))["counters"]

    stats = json.load(open(os.path.join(ctx.out, "c16.stats.json")))
    c = stats["counters"]
    ctx.samples = [l for l in op_lines if l.startswith(("probe", "tfail", "floor", "inherit", "group"))][:8]
    ctx.cov["input_distribution"] = c
    ctx.assumptions += [
        "histories are generated (seeded): 1-4 nodes per generation sharing 0-2 proxy addresses, 0-4 groups per generation "
        "(policies min_last/min_avg/min_moving/random/fixed), up to ~110 events per scenario, reload generations included",
        "AddLatency offsets and tolerances are non-negative and far below one hour (hypothesis LatOK of the kernel-bit theorems)",
    ]
    return ctx.finish(
        rule="one evaluation = one event line (probe/txn/tfail/forced/tok/suppress/tick/restore/inherit/floor/group/close) "
             "whose complete resulting state (alive flags, both counters, transition callbacks, group callbacks, set "
             "membership+best node, address table, suppression) is compared with the model; distinct_nontrivial = distinct "
             "(event kind, network type, attempt script, suppressed?, alive before/after, counter bucket) tuples seen",
        evaluations=len(op_lines) + n_k, distinct=c.get("distinct", 0))
