"""C16 — node health follows the documented thresholds and is reported on edges only."""
import json, os, re
from verifkit import read_lines, REPO

REQUIRED = []  # filled below (kept as a module-level list so deleting a theorem is detected)

REQUIRED += ["DaeVerif.C16.Props." + n for n in [
    "dead_only_after_threshold", "threshold_reached_kills", "below_threshold_stays", "kth_consecutive_failure_kills",
    "forced_report_kills_immediately", "escalation_takes_all_types_down", "escalation_only_after_three_deaths",
    "success_revives_and_clears", "data_udp_traffic_revives", "traffic_success_clears_traffic_count",
    "ignorable_never_counts", "canceled_probe_never_counts",
    "suppressed_failures_dont_count", "suppression_window", "suppression_steps",
    "callbacks_on_edges_only", "callbacks_on_edges_only_history",
    "groups_see_state", "concurrent_reports_agree_at_quiescence", "captured_value_protocol_can_disagree",
    "group_callbacks_are_edges", "random_policy_never_writes", "kernel_bit",
    "kernel_key_injective", "kernel_key_slots",
    "reload_snapshot_drops_counters", "reload_hands_over_state", "reload_floor_leaves_selectable",
    "reload_leaves_every_group_selectable", "handover_matches_per_group", "handover_unmatched_node_untouched", "reload_old_order_leaves_group_empty", "kernel_callback_guards", "kernel_map_changed_only_by_live_report", "kernel_map_untouched_by_wiring_and_retirement",
    "kernel_map_is_last_live_report_in_step", "kernel_map_follows_newest_live_group", "kernel_map_last_writer",
    "reload_leaves_every_group_selectable_by_select", "captured_fallback_is_listed",
    "probe_loop_runs_exactly_the_table", "probe_loop_never_revives_data_udp", "probe_loop_order_irrelevant",
]]

PKG = "component/outbound/dialer"


_MARKS = ["N[", " T[", " G[", " E[", " S[", " K[", " P[", " H[", " M["]


def _fields(line):
    """N[..] T[..] G[..] E[..] S[..] K[..] P[..] (M[..]) -> dict (S contains nested brackets)"""
    pos, start = [], 0
    for mk in _MARKS:
        j = line.find(mk, start)
        if j < 0:
            continue
        pos.append((mk.strip()[0], j, j + len(mk)))
        start = j + len(mk)
    out = {}
    for k, (name, _, a) in enumerate(pos):
        b = pos[k + 1][1] if k + 1 < len(pos) else len(line)
        body = line[a:b].rstrip()
        out[name] = body[:-1] if body.endswith("]") else body
    return out


IDX = {"t": 4, "T": 4, "a": 4, "b": 4, "d": 2, "z": 2, "u": 6, "x": 6, "y": 6}


def typ_idx(tok):
    return IDX[tok[0]] + (1 if tok[1] == "6" else 0)


def _scan_block_end(src, open_idx):
    depth, i, n = 0, open_idx, len(src)
    while i < n:
        c = src[i]
        if src.startswith("//", i):
            i = src.find("\n", i)
            if i < 0:
                return -1
            continue
        if src.startswith("/*", i):
            i = src.find("*/", i) + 2
            continue
        if c in "\"'`":
            q, i = c, i + 1
            while i < n and src[i] != q:
                if src[i] == "\\" and q != "`":
                    i += 1
                i += 1
            i += 1
            continue
        if c == "{":
            depth += 1
        elif c == "}":
            depth -= 1
            if depth == 0:
                return i + 1
        i += 1
    return -1


def extract_wiring_region(ctx):
    """zz_verif_c16_wiring.go: the VERBATIM region of control.NewControlPlane from `// Dial mode.` to the end
    of the group loop (dial-mode parse, disableKernelAliveCallback, direct/block groups, pool, per-group
    override clones, NewDialerGroup with core.outboundAliveChangeCallback(uint8(len(outbounds)), …)),
    wrapped into a function of package control that takes a real *controlPlaneCore."""
    path = os.path.join(REPO, "control", "control_plane.go")
    src = open(path, encoding="utf-8").read()
    # anchor on the statement, not on a comment: the line that parses the dial mode (the comment above it, if any, is taken along)
    pm = re.search(r"^[ \t]*\w+\s*,\s*err\s*:?=\s*consts\.ParseDialMode\(", src, re.M)
    if not pm or re.search(r"consts\.ParseDialMode\(", src[pm.end():]):
        return None, "the statement `…, err := consts.ParseDialMode(` was not found exactly once"
    a = pm.start()
    prev = src.rfind("\n", 0, a - 1) + 1
    if src[prev:a].strip().startswith("//"):
        a = prev
    m = re.compile(r"for\s+\w+(?:\s*,\s*\w+)?\s*:=\s*range\s+groups\s*\{").search(src, a)
    if not m or m.start() - a > 6000:
        return None, "loop `for _, group := range groups {` not found after the dial-mode block"
    b = _scan_block_end(src, m.end() - 1)
    if b < 0:
        return None, "could not find the end of the group loop"
    # the registration loop right after the group loop (one alive-transition callback per dialer)
    has_reg = False
    mr = re.compile(r"\s*\w+\s*:=\s*make\(map\[\*dialer\.Dialer\]struct\{\}\)\s*\n\s*for\s+\w+\s*,\s*\w+\s*:=\s*range\s+outbounds\s*\{").match(src, b)
    if mr:
        b2 = _scan_block_end(src, mr.end() - 1)
        if b2 > 0 and "RegisterAliveTransitionCallback" in src[b:b2]:
            b, has_reg = b2, True
    region = src[a:b]
    for needed in ("disableKernelAliveCallback", "core.outboundAliveChangeCallback(", "outbounds"):
        if needed not in region:
            return None, "region no longer mentions `%s`" % needed
    imp = re.search(r"import\s*\((.*?)\n\)", src, re.S)
    imports = {}
    for line in (imp.group(1).split("\n") if imp else []):
        mm = re.match(r'\s*(?:(\w+)\s+)?"([^"]+)"', line)
        if not mm:
            continue
        alias, pth = mm.group(1), mm.group(2)
        ident = alias or re.sub(r"^v\d+$", "", pth.split("/")[-1]) or pth.split("/")[-2]
        if re.search(r"\b%s\." % re.escape(ident), region):
            imports[pth] = alias
    for pth in ("github.com/daeuniverse/dae/component/outbound", "github.com/daeuniverse/dae/component/outbound/dialer",
                "github.com/daeuniverse/dae/config", "github.com/sirupsen/logrus"):
        imports.setdefault(pth, None)
    gen = os.path.join(ctx.out, "c16_wiring.go")
    with open(gen, "w") as f:
        f.write("// Code generated by /verif/checks/c16.py from %s (bytes %d..%d). DO NOT EDIT.\n" % (path, a, b))
        f.write("package control\n\nimport (\n")
        for pth, alias in sorted(imports.items()):
            f.write('\t%s"%s"\n' % ((alias + " ") if alias else "", pth))
        f.write(""")

type c16Wiring struct {
	Outbounds  []*outbound.DialerGroup
	DeferFuncs []func() error
	Dryrun     bool
}

const c16WiringHasRegistration = %s

func c16RealWiring(core *controlPlaneCore, option *dialer.GlobalOption, global *config.Global, tagToNodeList map[string][]string, groups []config.Group, log *logrus.Logger) (res *c16Wiring, err error) {
	var deferFuncs []func() error
	// ---------------------------------------------------------------- verbatim from control_plane.go
""" % ("true" if has_reg else "false"))
        f.write(region)
        f.write("""
	// ---------------------------------------------------------------- end of verbatim region
%s	return &c16Wiring{Outbounds: outbounds, DeferFuncs: deferFuncs, Dryrun: disableKernelAliveCallback}, nil
}
""" % ("\t_ = sniffingTimeout\n" if re.search(r"\bsniffingTimeout\s*:?=", region) else ""))
    return gen, "bytes %d..%d of control_plane.go (%d lines%s)" % (
        a, b, region.count("\n") + 1, ", incl. the alive-transition registration loop" if has_reg else ", registration loop NOT found")


def main_canon(line):
    """Projection of a state line onto what the property speaks about (applied to BOTH sides):
    - counters of a slot that is not alive are masked (the property only constrains them at revival);
    - transition callbacks: (node, collection index, alive), stable-sorted per slot (which NetworkType
      variant is handed over and the order across different slots are not part of the property);
    - escalation marker dropped (observed through a log line; its effect is in N/T);
    - sets: registered flag, member SET, best node present or not (slice order, sorting latencies and
      the identity of the best node belong to C15)."""
    if line.startswith("F["):
        return "F"   # a captured reload fallback: judged by capture_oracle (membership), not by equality with the model
    if not line.startswith("N["):
        return line
    f = _fields(line)
    ns = []
    for part in f["N"].split(";"):
        if not part:
            continue
        nid, rest = part.split(":")
        bits, fc, tc = rest.split("/")
        fc, tc = fc.split(","), tc.split(",")
        for k, ix in enumerate((2, 3, 4, 5, 6, 7)):
            if bits[k] == "0":
                fc[ix] = tc[ix] = "*"
        ns.append(f"{nid}:{bits}/{','.join(fc)}/{','.join(tc)}")
    ts = sorted(((int(x[:-3]), typ_idx(x[-3:-1])), i, x[-1]) for i, x in enumerate(t for t in f["T"].split(",") if t))
    tstr = ",".join(f"{k[0]}.{k[1]}={a}" for k, _, a in ts)
    ss = []
    for x in f["S"].split(";"):
        if x:
            m = re.match(r"(\d+\.\d+[ai])\[([^\]]*)\]m=([^:]*):", x)
            ents = sorted(int(e.split(":")[0]) for e in m.group(2).split(",") if e)
            ss.append(f"{m.group(1)}{ents}{'-' if m.group(3) == '-' else '+'}")
    g = f["G"]
    if "i" in g:
        # group construction: only the value each set's callback ended on (how many callbacks the constructor
        # fires before the six init callbacks is not the property's business)
        last = {}
        for x in g.split(","):
            if x:
                k, v = x.split("=")
                last[k] = v[0]
        g = ",".join(f"{k}={v}" for k, v in sorted(last.items(), key=lambda kv: [int(t) for t in kv[0].split(".")]))
    return f"N[{';'.join(ns)}] T[{tstr}] G[{g}] S[{';'.join(ss)}] K[{f['K']}] P[{f['P']}]"


def probe_canon(line):
    """probe-loop stream: main_canon plus the endpoint hit counters of the iteration"""
    if not line.startswith("N["):
        return line
    return main_canon(line) + " H[" + _fields(line).get("H", "") + "]"


def kernel_canon(line):
    """kernel stream: alive flags, set sizes, kernel bits (impl prints exactly this; the model's full
    state line is projected)."""
    if not line.startswith("N["):
        return line
    f = _fields(line)
    a = ";".join(p.split("/")[0] for p in f["N"].split(";") if p)
    lens = []
    for x in f["S"].split(";"):
        if x:
            m = re.match(r"\d+\.\d+[ai]\[([^\]]*)\]", x)
            lens.append(str(len([e for e in m.group(1).split(",") if e])))
    return f"A[{a}] L[{','.join(lens)}] K[{f['K']}] M[{f.get('M', '')}]"


def reload_oracle(kop_lines, kimpl_lines, report, max_reports=3):
    """After every real ControlPlane.InheritDialerHealthFrom: every group of the new generation that
    has members (and keeps alive sets, i.e. is not `fixed`) has at least one alive node per type."""
    groups, order, n_checked, n_rep = {}, [], 0, 0
    for i, (op, im) in enumerate(zip(kop_lines, kimpl_lines)):
        w = op.split()
        if not w:
            continue
        if w[0] == "scenario":
            groups, order = {}, []
        elif w[0] == "group":
            g = int(w[1])
            groups[g] = (w[3], 0 if w[5] == "-" else len(w[5].split(",")))
            if w[3] != "fixed":
                order.append(g)
        elif w[0] in ("reload", "handover"):
            m = re.search(r"L\[([^\]]*)\]", im)
            lens = [int(x) for x in m.group(1).split(",") if x] if m else []
            # matching is per group: a new-generation node whose name is absent from its groups' namesake
            # old groups inherits nothing, i.e. keeps the flags it had before the hand-over
            if w[0] == "handover" and i > 0:
                def alive_map(line):
                    mm = re.search(r"A\[([^\]]*)\]", line)
                    return dict(p.split(":") for p in mm.group(1).split(";") if p) if mm else {}
                before, after = alive_map(kimpl_lines[i - 1]), alive_map(im)
                olds, news = {}, []
                for tok in w[1:]:
                    if tok == "|":
                        break
                    parts = tok.split("/")
                    ms = [] if parts[-1] == "-" else [tuple(x.split(":")) for x in parts[-1].split(",")]
                    if parts[0] == "o":
                        olds[parts[1]] = ms          # Go map: the last old group of a name wins
                    else:
                        news.append((parts[2], ms))
                matched, allnew, ngroups = set(), set(), {}
                for gname, ms in news:
                    for nid, nm, lk in ms:
                        allnew.add(nid)
                        ngroups[nid] = ngroups.get(nid, 0) + 1
                        if gname in olds and any(onm == nm for _, onm, _ in olds[gname]):
                            matched.add(nid)
                # same-named members of one group: a node whose (name, link) identifies exactly one old member of
                # its (only) group's namesake must keep every alive flag that old member had (floors only add)
                for gname, ms in news:
                    for nid, nm, lk in ms:
                        if ngroups[nid] != 1 or gname not in olds:
                            continue
                        src = [oid for oid, onm, olk in olds[gname] if onm == nm and olk == lk]
                        twins = [1 for _, nnm, nlk in ms if nnm == nm and nlk == lk]
                        if len(src) != 1 or len(twins) != 1 or src[0] not in before or nid not in after:
                            continue
                        n_checked += 1
                        ob, na = before[src[0]], after[nid]
                        if any(b == "1" and a == "0" for b, a in zip(ob, na)):
                            if n_rep < max_reports:
                                report(f"implementation violates `a reload hands the last known state to the new generation` at line "
                                       f"{i + 1}: node {nid} (name {nm}, link {lk}) is the successor of old node {src[0]} whose flags were "
                                       f"{ob}, but came out of ControlPlane.InheritDialerHealthFrom as {na} — it inherited a same-named "
                                       f"sibling's state",
                                       {"clause": "hand-over same-named members", "line": i + 1, "op": op, "impl": im})
                            n_rep += 1
                for nid in sorted(allnew - matched, key=int):
                    n_checked += 1
                    if nid in before and nid in after and any(b == "1" and a == "0" for b, a in zip(before[nid], after[nid])):
                        if n_rep < max_reports:
                            report(f"implementation violates `a reload hands over the last known state of the SAME group's same-named "
                                   f"node only` at line {i + 1}: node {nid} has no namesake in the old group(s) named like its group(s) "
                                   f"but went {before[nid]} -> {after[nid]} in ControlPlane.InheritDialerHealthFrom without any failure",
                                   {"clause": "hand-over matching", "line": i + 1, "op": op, "impl": im})
                        n_rep += 1
            for tok in w[1:]:
                if tok == "|":
                    break
                parts = tok.split("/")
                if parts[0] == "o":
                    continue
                g = int(parts[1]) if parts[0] == "n" else int(parts[0])
                pol, nm = groups.get(g, ("fixed", 0))
                if pol == "fixed" or nm == 0:
                    continue
                k = order.index(g) * 6
                n_checked += 1
                if any(x == 0 for x in lens[k:k + 6]):
                    if n_rep < max_reports:
                        report(f"implementation violates `a reload leaves every non-empty group at least one selectable node` "
                               f"at line {i + 1}: after ControlPlane.InheritDialerHealthFrom group {g} ({pol}, {nm} members) "
                               f"has alive-set sizes {lens[k:k + 6]} (order d4,d6,t4,t6,u4,u6)",
                               {"clause": "reload floor", "line": i + 1, "op": op, "impl": im,
                                "scenario_ops": [o for o in kop_lines[max(0, i - 120):i + 1]]})
                    n_rep += 1
    return n_checked, n_rep


def capture_oracle(op_lines, impl_lines, model_lines, report, max_reports=3):
    """CaptureReloadSelectionFallback of latency-policy groups: whatever candidate the real function records for a
    network type must be a MEMBER of that group (the floor revives it to keep the group selectable); how it is
    chosen among the members is not the property's business - agreement with Model.captureFallback (the node the
    group would select: own set, data-UDP -> DNS-UDP -> TCP chain, other family) is counted, not required."""
    groups, n, agree, n_rep = {}, 0, 0, 0
    for i, (op, im) in enumerate(zip(op_lines, impl_lines)):
        w = op.split()
        if not w:
            continue
        if w[0] == "scenario":
            groups = {}
        elif w[0] == "group":
            groups[w[1]] = set() if w[5] == "-" else {p.split(":")[0] for p in w[5].split(",")}
        elif w[0] == "capture" and im.startswith("F["):
            n += 1
            if i < len(model_lines) and model_lines[i] == im:
                agree += 1
            for tok in [t for t in im[2:-1].split(",") if t]:
                idx, _, node = tok.partition(":")
                if node not in groups.get(w[1], set()):
                    if n_rep < max_reports:
                        report(f"implementation violates `a reload leaves every non-empty group at least one selectable node`: "
                               f"CaptureReloadSelectionFallback of group {w[1]} recorded `{tok}` (collection:node) at line {i + 1}, "
                               f"which is not a member of the group {sorted(groups.get(w[1], []))} - the selection floor would revive "
                               f"a node the group cannot select", {"clause": "reload fallback candidate", "line": i + 1, "op": op, "impl": im})
                    n_rep += 1
    return {"captures": n, "agree_with_model": agree}, n_rep


def impl_oracles(op_lines, impl_lines, report, max_reports=5):
    """Property-level checks evaluated on the REAL code's answers alone (no model involved):
    edge-only transition callbacks, group/node agreement, kernel bit = set non-empty, ignorable and
    suppressed failures change nothing, a successful probe revives and clears."""
    n_rep = 0
    checked = {"edges": 0, "agree": 0, "kbit": 0, "nocount": 0, "success": 0}
    groups, prev, ncb = {}, None, {}

    def bad(clause, i, detail):
        nonlocal n_rep
        if n_rep < max_reports:
            report(f"implementation violates `{clause}` at line {i + 1} op `{op_lines[i][:70]}`: {detail}",
                   {"clause": clause, "line": i + 1, "op": op_lines[i], "impl": impl_lines[i],
                    "prev_impl": impl_lines[i - 1] if i else ""})
        n_rep += 1

    for i, (op, im) in enumerate(zip(op_lines, impl_lines)):
        if op == "scenario":
            groups, prev, ncb = {}, None, {}
            continue
        if not im.startswith("N["):
            continue
        f = _fields(im)
        w = op.split()
        nodes = {}
        for part in f["N"].split(";"):
            if part:
                nid, rest = part.split(":")
                bits, fc, tc = rest.split("/")
                nodes[int(nid)] = (bits, fc.split(","), tc.split(","))
        trans = [(int(x[:-3]), x[-3:-1], x[-1] == "1") for x in f["T"].split(",") if x]
        gcbs = []
        for x in f["G"].split(","):
            if x:
                k, v = x.split("=")
                g, ix = k.split(".")
                gcbs.append((int(g), int(ix), v[0] == "1", v.endswith("i")))
        sets = []
        for x in f["S"].split(";"):
            if x:
                m = re.match(r"(\d+)\.(\d+)([ai])\[([^\]]*)", x)
                ents = [int(e.split(":")[0]) for e in m.group(4).split(",") if e]
                sets.append((int(m.group(1)), int(m.group(2)), m.group(3) == "a", ents))
        if w[0] == "group":
            ms = [] if w[5] == "-" else [int(p.split(":")[0]) for p in w[5].split(",")]
            groups[int(w[1])] = (w[3], ms)
        for g, ix, a, init in gcbs:
            if init:
                ncb[(g, ix)] = 0
        for g, ix, a, init in gcbs:
            if not init:
                ncb[(g, ix)] = ncb.get((g, ix), 0) + 1
        # --- transition callbacks are exactly the edges
        if prev is not None:
            for nid, (bits, _, _) in nodes.items():
                if nid not in prev:
                    continue
                for k, ix in enumerate((2, 3, 4, 5, 6, 7)):
                    cur = prev[nid][0][k] == "1"
                    ok = True
                    for (tn, tt, ta) in trans:
                        if tn == nid and typ_idx(tt) == ix:
                            if ta == cur:
                                ok = False
                            cur = ta
                    checked["edges"] += 1
                    if not ok or cur != (bits[k] == "1"):
                        bad("callbacks fire exactly once per actual transition", i,
                            f"node {nid} idx {ix}: before={prev[nid][0][k]} callbacks={[t for t in trans if t[0] == nid]} after={bits[k]}")
        # --- every registered set agrees with its members' state; kernel bit = non-empty
        for k, (g, ix, active, ents) in enumerate(sets):
            pol, ms = groups.get(g, ("?", []))
            if active:
                want = sorted(m for m in ms if m in nodes and nodes[m][0][ix - 2] == "1")
                checked["agree"] += 1
                if sorted(ents) != want or len(set(ents)) != len(ents):
                    bad("every group containing the node sees the node's state", i,
                        f"set {g}.{ix} lists {ents}, alive members are {want}")
            if pol.startswith("min_") and k < len(f["K"]):
                checked["kbit"] += 1
                bit = f["K"][k] == "1"
                if (ents and not bit) or (not ents and bit and ncb.get((g, ix), 0) > 0):
                    bad("kernel connectivity bit is 0 exactly when the latency-policy set is empty", i,
                        f"set {g}.{ix} entries={ents} bit={f['K'][k]} callbacks since init={ncb.get((g, ix), 0)}")
        # --- ignorable / suppressed / cancelled never count
        if prev is not None and w[0] in ("txn", "tfail", "probe"):
            nothing = (w[0] in ("txn", "tfail") and w[3] == "1") or \
                      (w[0] == "probe" and (w[3] in ("cancel", "skip") or (w[3] == "err" and w[4] in ("cancel", "skip"))))
            failing = (w[0] in ("txn", "tfail") and w[3] == "0") or (w[0] == "probe" and w[3] == "err" and w[4] in ("err", "-"))
            sup_before = "sup=1" in _fields(impl_lines[i - 1]).get("P", "")
            if nothing or (failing and sup_before):
                checked["nocount"] += 1
                if nodes != prev or trans or gcbs:
                    bad("cancellation/teardown errors and failures during reload suppression never count", i,
                        f"state or callbacks changed: T={f['T']} G={f['G']}")
            if w[0] == "probe" and (w[3].startswith("ok:") or (w[3] == "err" and w[4].startswith("ok:"))):
                nid, ix = int(w[1]), typ_idx(w[2])
                checked["success"] += 1
                b, fc, tc = nodes[nid]
                if b[ix - 2] != "1" or fc[ix] != "0" or tc[ix] != "0":
                    bad("a successful probe makes the node alive and clears the counts", i, f"node {nid} idx {ix}: {b} {fc} {tc}")
        prev = nodes
    return checked, n_rep


def run(ctx):
    ctx.trusted += [
        "latency values a set reads from a node (snapshotLatencyForPolicy: LatenciesN, moving average, back-off penalty) "
        "are inputs of the model (oracle), read back from the real set after each event; theorems hold for all values",
        "the main stream serialises events; concurrency is covered separately: a Lean interleaving model of concurrent reports on one "
        "node and one set (Props.concurrent_reports_agree_at_quiescence, on RState, not on World/step) and a stress probe of the real "
        "code (stream c16r, probabilistic detector); scheduling of aliveBackground, the ants pool and timers are not modelled",
        "classification of concrete Go errors into ignorable/counted is tied only on the harness's error pool",
        "testing/synctest virtual clock stands for the wall clock (suppression window, failure TTL)",
        "the latency oracle is circular by construction: the value handed to the model is what the real set recorded "
        "(dialerToLatency); a set reading the wrong statistic/collection is invisible here (C15's subject)",
        "kernel map: two generations sharing outbound ids on one real map with the real MarkRetired are tied (stream c16k) and modelled "
        "(KWorld, Props.kernel_map_follows_newest_live_group: a slot whose last writer is a live dial_mode-ip group holds that group's "
        "state, for all histories); a generation that is built and then abandoned (aborted reload) is the open finding "
        "c16-aborted-reload-leaves-init-bits",
        "compared state is projected (main_canon): dead-slot counters, NetworkType variant and cross-slot order of callbacks, "
        "slice order / sorting latency / identity of the best node are NOT compared (outside C16; C15 covers selection)",
    ]
    ctx.prove(["DaeVerif.C16.Props"], ["DaeVerif.C16.Props"], ["DaeVerif/C16/*.lean"], extra_targets=["c16drv"])
    have = {n for n, _, _ in ctx.obligations}
    if not ctx.proof_failures and any(n not in have for n in REQUIRED):
        # seen once: the audit printed all 36 lines but one name was not collected; re-run the audit before judging
        ctx.say("NOTE: axiom audit incomplete (%s not collected) - running it once more" %
                ", ".join(n.split(".")[-1] for n in REQUIRED if n not in have)[:200])
        ctx.obligations = []
        ctx.prove(["DaeVerif.C16.Props"], ["DaeVerif.C16.Props"], ["DaeVerif/C16/*.lean"], extra_targets=["c16drv"])
    ctx.required_theorems(REQUIRED)

    binp = ctx.go_test_build(PKG, [PKG + "/c16_test.go", PKG + "/c16x_test.go", PKG + "/c16p_test.go"], "c16")
    if not binp:
        return 2
    rc, out = ctx.run_harness(binp, "TestVerifC16")
    ops, impl, model = (os.path.join(ctx.out, "c16." + e) for e in ("ops", "impl", "model"))
    if rc != 0 or not os.path.exists(ops):
        ctx.say("HARNESS-FAILED", out[-3000:])
        return 2
    if not ctx.driver("c16drv", ops, model):
        ctx.proof_failures.append("model driver c16drv failed to run")
    mism = ctx.diff_streams(ops, impl, model, "c16", canon=main_canon)

    op_lines, impl_lines = read_lines(ops), read_lines(impl)
    # scenario-relative replay: the ops of the scenario containing the first mismatching line
    def scenario_of(lineno):
        start = lineno - 1
        while start > 0 and op_lines[start] != "scenario":
            start -= 1
        return op_lines[start:lineno]

    checked, _ = impl_oracles(op_lines, impl_lines, lambda what, obj: ctx.report(what, obj), max_reports=3)
    ctx.cov["implementation_side_oracles"] = checked
    cap, _ = capture_oracle(op_lines, impl_lines, read_lines(model), lambda what, obj: ctx.report(what, obj))
    ctx.cov["reload_fallback_capture"] = cap
    if cap["captures"] and cap["agree_with_model"] < cap["captures"]:
        ctx.say("NOTE: CaptureReloadSelectionFallback chose another member than Model.captureFallback in %d of %d captures "
                "(allowed: any member; the model describes the current selection chain)" % (cap["captures"] - cap["agree_with_model"], cap["captures"]))
    for ln, op, im, mo in mism[:5]:
        if ln == 0:
            ctx.report(f"stream lengths differ: {op}", {"stream": "c16"})
            continue
        fi, fm = _fields(main_canon(im)), _fields(main_canon(mo))
        diff = [k for k in fi if fi.get(k) != fm.get(k)] or ["?"]
        ctx.report(f"real dialer/group code differs from the proved model at line {ln} op `{op[:80]}` in {diff}: "
                   f"impl {[fi.get(k) for k in diff]} model {[fm.get(k) for k in diff]}",
                   {"stream": "c16", "line": ln, "op": op, "impl": im, "model": mo,
                    "scenario_ops": scenario_of(ln)[-400:],
                    "replay": "VERIF_SEED=%d ./check C16 %s" % (ctx.seed, ctx.tier)})
    for op, im in zip(op_lines, impl_lines):
        if op == "crash" or im.startswith("crash:"):
            ctx.report(f"real code panicked: {im[:300]}", {"op": op, "impl": im})

    # ---- the REAL probe loop (aliveBackground + pool + check + HttpCheck/DnsCheck) against a scripted endpoint
    rc, out = ctx.run_harness(binp, "TestVerifC16Probe")
    pops, pimpl, pmodel = (os.path.join(ctx.out, "c16p." + e) for e in ("ops", "impl", "model"))
    if rc != 0 or not os.path.exists(pops):
        ctx.say("HARNESS-FAILED (probe loop)", out[-3000:])
        return 2
    if not ctx.driver("c16drv", pops, pmodel):
        ctx.proof_failures.append("model driver c16drv failed to run (probe-loop stream)")
    pop_lines, pimpl_lines = read_lines(pops), read_lines(pimpl)
    pchecked, _ = impl_oracles(pop_lines, pimpl_lines, lambda what, obj: ctx.report(what + " [probe-loop stream c16p]", obj), max_reports=3)
    ctx.cov["implementation_side_oracles_probe_loop"] = pchecked
    for ln, op, im, mo in ctx.diff_streams(pops, pimpl, pmodel, "c16p", canon=probe_canon)[:5]:
        if ln == 0:
            ctx.report(f"stream lengths differ: {op}", {"stream": "c16p"})
            continue
        fi, fm = _fields(probe_canon(im)), _fields(probe_canon(mo))
        diff = [k for k in fi if fi.get(k) != fm.get(k)] or ["?"]
        ctx.report(f"the real probe loop (aliveBackground -> check -> HttpCheck/DnsCheck) differs from the proved model at line {ln} "
                   f"op `{op[:100]}` in {diff} (N nodes, T transitions, G group callbacks, S sets, K bits, H endpoint dials): "
                   f"real {[fi.get(k) for k in diff]} model {[fm.get(k) for k in diff]}",
                   {"stream": "c16p", "line": ln, "op": op, "impl": im, "model": mo,
                    "replay": "VERIF_SEED=%d ./check C16 %s" % (ctx.seed, ctx.tier)})
    for op, im in zip(pop_lines, pimpl_lines):
        if op == "crash" or im.startswith("crash:"):
            ctx.report(f"real code panicked in the probe-loop stream: {im[:300]}", {"op": op, "impl": im})
    pstats = json.load(open(os.path.join(ctx.out, "c16p.stats.json")))
    ctx.cov["probe_loop_side"] = pstats["counters"]
    if pstats["counters"].get("unscripted_dials"):
        ctx.report("the probe loop dialled an endpoint more often than the two attempts of Dialer.check allow, or an endpoint "
                   "outside the probe table: %s" % pstats.get("samples"), {"stream": "c16p", "stats": pstats.get("samples")})

    # ---- concurrency probe (same test binary): racing reports, agreement at quiescence
    rc, out = ctx.run_harness(binp, "TestVerifC16Race")
    rpath = os.path.join(ctx.out, "c16r.json")
    if rc != 0 or not os.path.exists(rpath):
        ctx.say("HARNESS-FAILED (race probe)", out[-3000:])
        return 2
    race = json.load(open(rpath))
    ctx.cov["race_probe"] = race
    for name, r in sorted(race.items()):
        if r["NodeVsSet"] or r["SetVsCallback"]:
            ctx.report(f"implementation violates `every group containing the node sees the node's state after each event` under "
                       f"concurrency ({name}): after two racing reports on one node the set disagrees with the node in "
                       f"{r['NodeVsSet']} of {r['Rounds']} rounds (set vs last group callback: {r['SetVsCallback']}); first at round "
                       f"{r['FirstRound']}: {r['Detail']}",
                       {"clause": "stale group notification race", "variant": name, "result": r,
                        "replay": "VERIF_C16_RACE_ROUNDS=%d ./check C16 %s  (probabilistic; pre-fix rate ~1/1000 rounds)" % (r["Rounds"] * 2, ctx.tier)})

    # ---- kernel side: real outboundAliveChangeCallback + real BPF array map (package control)
    n_k = 0
    wgen, whow = extract_wiring_region(ctx)
    ctx.cov["control_plane_wiring_region"] = whow
    if not wgen:
        ctx.say("TRANSLATOR-FAILED C16 wiring region:", whow,
                "- the dial-mode/group-wiring region of NewControlPlane can no longer be located; adapt extract_wiring_region")
        return 2
    kbin = ctx.go_test_build("control", ["control/c16_test.go"], "c16k",
                             extra_overlay={os.path.join(REPO, "control", "zz_verif_c16_wiring.go"): wgen,
                                            os.path.join(REPO, "component", "outbound", "dialer", "zz_verif_c16_shim.go"):
                                                os.path.join(os.path.dirname(os.path.dirname(os.path.abspath(__file__))),
                                                             "harness", "overlay", "component", "outbound", "dialer", "c16_shim.go")})
    if not kbin:
        return 2
    rc, out = ctx.run_harness(kbin, "TestVerifC16Kernel")
    kops, kimpl, kmodel = (os.path.join(ctx.out, "c16k." + e) for e in ("ops", "impl", "model"))
    if rc != 0 or not os.path.exists(kops):
        ctx.say("HARNESS-FAILED (kernel side)", out[-3000:])
        return 2
    kop_lines = read_lines(kops)
    if kop_lines and kop_lines[0] == "nobpf":
        ctx.say("CAPABILITY-MISSING: ebpf.NewMap failed (bpf(2) not permitted / memlock): the kernel-map streams of C16 need a real "
                "BPF array map; this is an environment problem, not a verdict about the code")
        return 2
    else:
        if not ctx.driver("c16drv", kops, kmodel):
            ctx.proof_failures.append("model driver c16drv failed to run (kernel stream)")

        konly = kernel_canon
        n_rel, _ = reload_oracle(kop_lines, read_lines(kimpl), lambda what, obj: ctx.report(what, obj))
        ctx.cov["reload_oracle_groups_checked"] = n_rel
        kmism = ctx.diff_streams(kops, kimpl, kmodel, "c16k", canon=konly)
        for ln, op, im, mo in kmism[:5]:
            ctx.report(f"real groups / kernel connectivity map differ from the proved model at line {ln} op `{op[:60]}`: "
                       f"real {konly(im)} model {konly(mo)}",
                       {"stream": "c16k", "line": ln, "op": op, "impl": im, "model": mo,
                        "replay": "VERIF_SEED=%d ./check C16 %s" % (ctx.seed, ctx.tier)})
        # ---- the NewControlPlane wiring region, executed verbatim on a real core and the real map
        rc, out = ctx.run_harness(kbin, "TestVerifC16Wiring")
        wops, wimpl, wmodel = (os.path.join(ctx.out, "c16w." + e) for e in ("ops", "impl", "model"))
        if rc != 0 or not os.path.exists(wops):
            ctx.say("HARNESS-FAILED (wiring region)", out[-3000:])
            return 2
        if read_lines(wops)[:1] == ["nobpf"]:
            ctx.say("CAPABILITY-MISSING: ebpf.NewMap failed in the wiring test (bpf(2) not permitted / memlock): environment problem, "
                    "not a verdict about the code")
            return 2
        if not ctx.driver("c16drv", wops, wmodel):
            ctx.proof_failures.append("model driver c16drv failed to run (wiring stream)")
        wj = json.load(open(os.path.join(ctx.out, "c16w.json"))) if os.path.exists(os.path.join(ctx.out, "c16w.json")) else {}
        ctx.cov["wiring_registration"] = wj
        if wj.get("bad"):
            ctx.report(f"implementation violates `alive-state callbacks fire exactly once per actual transition`: NewControlPlane's "
                       f"registration loop left {wj['bad']} of {wj['dialers']} dialers with a number of alive-transition callbacks "
                       f"other than one ({wj.get('detail')})", {"clause": "transition callback registration", "result": wj})
        if not wj.get("registration_executed"):
            ctx.say("NOTE: the alive-transition registration loop after NewControlPlane's group loop was not found by the extractor; "
                    "it is not executed in this run")
        # ---- directed witness of the OPEN finding: an aborted reload's init writes stay in the shared map
        rc, out = ctx.run_harness(kbin, "TestVerifC16AbortedReload")
        g2p = os.path.join(ctx.out, "c16g2.json")
        g2 = json.load(open(g2p)) if os.path.exists(g2p) else {}
        ctx.cov["aborted_reload_witness"] = g2
        if rc != 0 or not g2.get("bpf"):
            ctx.say("HARNESS-FAILED (aborted-reload witness)", out[-2000:])
            return 2
        if g2.get("bit_before") == 0 and g2.get("live_len_after") == 0 and g2.get("bit_after") != 0:
            key = "c16-aborted-reload-leaves-init-bits"
            what = ("a reload aborted after NewControlPlane's group loop leaves the staged generation's init writes in the shared "
                    "outbound_connectivity_map: live latency-policy set len=0, bit 0 -> %s after the staged group was built and its "
                    "core closed, no node revived" % g2.get("bit_after"))
            if any(k.get("key") == key and k.get("kind") == "open" for k in ctx.known):
                ctx.report(what, {"witness": g2, "test": "TestVerifC16AbortedReload"}, key=key)
            else:
                ctx.say("NOTE (finding proposed, not yet listed in known_findings.jsonl as open `%s`): %s" % (key, what))
        for ln, op, im, mo in ctx.diff_streams(wops, wimpl, wmodel, "c16w", canon=konly)[:5]:
            ctx.report(f"NewControlPlane's group wiring (outbound id = position, dry-run unless dial_mode ip) differs from the "
                       f"proved model at line {ln} op `{op[:60]}`: real {konly(im)[:300]} model {konly(mo)[:300]}",
                       {"stream": "c16w", "line": ln, "op": op, "impl": im, "model": mo,
                        "replay": "VERIF_SEED=%d ./check C16 %s" % (ctx.seed, ctx.tier)})
        for op, im in zip(read_lines(wops), read_lines(wimpl)):
            if im.startswith("crash:"):
                ctx.report(f"the NewControlPlane wiring region failed: {im[:300]}", {"op": op, "impl": im})
        ctx.cov["wiring_side"] = json.load(open(os.path.join(ctx.out, "c16w.stats.json")))["counters"]
        n_k += len(read_lines(wops)) + len(kop_lines)
        ctx.cov["kernel_side"] = json.load(open(os.path.join(ctx.out, "c16k.stats.json")))["counters"]

    stats = json.load(open(os.path.join(ctx.out, "c16.stats.json")))
    c = stats["counters"]
    # ---- generator floors (quick-tier values; thorough is far above): below a floor the run proves nothing about that class
    floors = {"escalation": 20, "gen.reload": 30, "gen.reload.shared": 5, "floor.marked": 20, "fail.ignorable": 50,
              "fail.suppressed": 500, "probe.nothing": 20, "streak.broken": 20,
              "death.probe.tcp": 50, "death.probe.udp": 50, "death.traffic.tcp": 5, "death.traffic.udp": 5,
              "threshold.k-th=-1": 5, "threshold.k-th=+0": 5, "threshold.k-th=+1": 5, "threshold.k-th=+2": 5,
              "capture": 100, "capture.not_first_member": 10, "capture.none_for_some_type": 10}
    for tok in ("t4", "t6", "T4", "T6", "a4", "a6", "b4", "b6", "d4", "d6", "u4", "u6", "x4", "x6", "y4", "y6", "z4", "z6"):
        floors["typ." + tok] = 40
    low = {k: (c.get(k, 0), v) for k, v in floors.items() if c.get(k, 0) < v}
    ks = ctx.cov.get("kernel_side")
    if isinstance(ks, dict):
        kfloors = {"reload": 50, "reload.shared_node": 10, "reload.name_only_in_other_group": 5, "retired": 30, "clone": 10,
                   "old_gen_report_while_draining": 100, "old_gen_report_before_retire": 30,
                   "closure.mode0": 300, "closure.mode1": 300, "closure.mode2": 300, "closure.mode3": 300}
        low.update({"kernel." + k: (ks.get(k, 0), v) for k, v in kfloors.items() if ks.get(k, 0) < v})
        ws = ctx.cov.get("wiring_side", {})
        wfloors = {"mode.ip": 2, "group.override_clones": 3, "killall": 30}
        low.update({"wiring." + k: (ws.get(k, 0), v) for k, v in wfloors.items() if ws.get(k, 0) < v})
        if sum(ws.get(k, 0) for k in ("mode.domain", "mode.domain+", "mode.domain++")) < 2:
            low["wiring.mode.domain*"] = (0, 2)
    pc = ctx.cov.get("probe_loop_side", {})
    pfloors = {"cycle.full": 100, "cycle.tcp": 30, "cycle.udp": 30, "cycle.death.tcp": 40, "cycle.death.udp": 15, "cycle.revival": 40,
               "cycle.endpoint.skip": 50, "cycle.endpoint.err/ok": 50, "cycle.endpoint.cancel/-": 30, "cycle.endpoint.err/cancel": 30,
               "cycle.endpoint.hang/err": 10, "cycle.endpoint.err/hang": 5, "activate.cold_start": 30, "cycle.nothing_dialled": 10,
               "cycle.in_quiesce_window": 5, "streak.k-th=-1": 8, "streak.k-th=+0": 8, "streak.k-th=+1": 8, "streak.k-th=+2": 8}
    if not os.environ.get("VERIF_C16_PROBE_SCENARIOS"):
        low.update({"probe." + k: (pc.get(k, 0), v) for k, v in pfloors.items() if pc.get(k, 0) < v})
    if any(r["Rounds"] < 5000 for r in race.values()) and not os.environ.get("VERIF_C16_RACE_ROUNDS"):
        low["race.rounds"] = (min(r["Rounds"] for r in race.values()), 5000)
    ctx.cov["generator_floors"] = {"floors": floors, "below": low}
    if low and not os.environ.get("VERIF_C16_SCENARIOS"):
        ctx.say("GENERATOR-FLOOR not reached (count, floor):", json.dumps(low, sort_keys=True))
        return 2

    ctx.samples = [l for l in op_lines if l.startswith(("probe", "tfail", "floor", "inherit", "group"))][:8]
    ctx.cov["input_distribution"] = c
    ctx.assumptions += [
        "kernel-bit clause: the non-init callback writes only when the closure is built with dryrun=false, i.e. dial_mode: ip; the "
        "wiring region of NewControlPlane (dial-mode parse, that flag, outbound id = position, per-group clones, the alive-transition "
        "registration loop) is executed verbatim (stream c16w); the rest of NewControlPlane and cmd/run.go's calls of "
        "InheritDialerHealthFrom / MarkRetired are not executed; aliveBackground (probe table, pool, check, HttpCheck, DnsCheck) "
        "is executed in virtual time against a scripted endpoint with literal check addresses (stream c16p): name resolution of "
        "the check targets, the periodic timer schedule and pool overload are not exercised",
        "histories are generated (seeded): 1-4 nodes per generation sharing 0-2 proxy addresses, 0-4 groups per generation "
        "(policies min_last/min_avg/min_moving/random/fixed), up to ~110 events per scenario, reload generations included",
    ]
    return ctx.finish(
        rule="one evaluation = one event line (probe/txn/tfail/forced/tok/suppress/tick/restore/inherit/floor/group/close) "
             "whose resulting state, projected onto what the property speaks about (alive flags, both counters of alive slots, "
             "transition callbacks per slot, group callbacks, set membership + best-node presence, positive address counts, "
             "suppression — see main_canon), is compared with the model; distinct_nontrivial = distinct "
             "(event kind, network type, attempt script, suppressed?, alive before/after, counter bucket) tuples seen",
        evaluations=len(op_lines) + n_k + len(pop_lines), distinct=c.get("distinct", 0) + pstats["counters"].get("distinct", 0))
