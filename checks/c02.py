"""C02 — the kernel routing program and the userspace matcher decide identically."""
import json, os, re, collections
from verifkit import read_lines, sh, REPO, VERIF, CACHE

REQUIRED = [
    "DaeVerif.C02.Props.routeK_eq_userspace",
    "DaeVerif.C02.Props.routeK_after_any_reload_history",
    "DaeVerif.C02.Props.kernel_decision",
    "DaeVerif.C02.Props.kernel_eq_first_match_spec",
    "DaeVerif.C02.Props.userspace_typed_eq_C01_matchM",
    "DaeVerif.C02.Props.userspace_shared_eq_C01_matchM",
    "DaeVerif.C02.Props.inherit_keeps_generation_installed",
    "DaeVerif.C02.Props.deleting_a_live_slot_breaks_routing",
    "DaeVerif.C02.Props.installed_check_sound",
    "DaeVerif.C02.Props.installed_by_encoders",
    "DaeVerif.C02.Props.routeK_nonneg_or_eperm",
    "DaeVerif.C02.Props.active_len_clamped",
    "DaeVerif.C02.Props.nothing_installed_is_error",
    "DaeVerif.C02.Props.builder_accepts_iff_installable",
    "DaeVerif.C02.Props.domain_hypothesis_needed",
    "DaeVerif.C02.Props.dns_query_goes_to_control_plane",
    "DaeVerif.C02.Props.non_dns_or_must_same_decision",
    "DaeVerif.C02.Props.decode_encode_little",
    "DaeVerif.C02.Props.decode_encode_bigendian_fails",
    "DaeVerif.C02.Props.bigendian_routes_differently",
    "DaeVerif.C02.Props.pack_unpack",
    "DaeVerif.C02.Props.pack_nonneg_fits_s64",
    "DaeVerif.C02.Props.ring_rewrite_injective",
    "DaeVerif.C02.Props.ring_disjoint_from_previous",
    "DaeVerif.C02.Props.ring_overlap_when_too_many",
    "DaeVerif.C02.Props.empty_pname_rule_agrees",
    "DaeVerif.C02.Props.lan_pname_hypothesis_needed",
    "DaeVerif.C02.Props.lpm_key_same_set",
    "DaeVerif.C02.Props.domain_bit_same",
    # extension: the control plane's decoder, the domain-map key, every history of reloads with failed installs,
    # the hot-reload window, what route() can observe of a map state
    "DaeVerif.C02.Props.compile_decodes_what_was_encoded",
    "DaeVerif.C02.Props.userspace_decodes_what_kernel_reads",
    "DaeVerif.C02.Props.userspace_array_is_typed_program",
    "DaeVerif.C02.Props.domain_key_is_address_bytes",
    "DaeVerif.C02.Props.reload_histories_keep_generation_installed",
    "DaeVerif.C02.Props.reload_histories_keep_kernel_and_userspace_equal",
    "DaeVerif.C02.Props.rebuild_restores_from_any_maps",
    "DaeVerif.C02.Props.hot_reload_lpm_phase_keeps_old_generation",
    "DaeVerif.C02.Props.hot_reload_window_full_fails",
    "DaeVerif.C02.Props.route_depends_only_on_observables",
    # composition C02 ∘ C10 ∘ C11 (Compose/KernelDomain.lean): H2 and DomOK discharged from the DNS-cache
    # table invariant and the domain matcher's bitmap theorem
    "DaeVerif.Compose.kernel_routes_by_dns_learnt_domains",
    "DaeVerif.Compose.kernel_routes_by_dns_learnt_domains_history",
    "DaeVerif.Compose.domainWord_kernelMaps",
    "DaeVerif.Compose.table_bit_at_position",
    "DaeVerif.Compose.entryBitmap_spec",
]

MUTATING = ("lpm", "lpmdel", "rset", "meta", "dom", "domdel")


def parse_c_header(path):
    """#define NAME value  and  enum entries NAME = value  of ebpf_sync_defs.h"""
    vals = {}
    for line in open(path):
        m = re.match(r"\s*#define\s+(\w+)\s+(0x[0-9A-Fa-f]+|\d+)\s*$", line)
        if m:
            vals[m.group(1)] = int(m.group(2), 0)
        m = re.match(r"\s*(\w+)\s*=\s*(0x[0-9A-Fa-f]+|\d+)\s*,", line)
        if m:
            vals[m.group(1)] = int(m.group(2), 0)
    return vals


def parse_go_consts(path):
    """const blocks of ebpf_generated.go (iota blocks and literal values)"""
    vals, src = {}, open(path).read()
    for blk in re.findall(r"const\s*\((.*?)\n\)", src, re.S):
        iota, using_iota = 0, False
        for line in blk.split("\n"):
            line = line.split("//")[0].strip()
            if not line:
                continue
            m = re.match(r"(\w+)(?:\s+\w+)?\s*=\s*(.+)$", line)
            if m:
                name, rhs = m.group(1), m.group(2).strip()
                if rhs == "iota":
                    using_iota = True
                    vals[name] = iota
                elif re.fullmatch(r"0x[0-9A-Fa-f]+|\d+", rhs):
                    vals[name] = int(rhs, 0)
                # derived constants (A + 1, aliases) are not needed here
            elif using_iota and re.fullmatch(r"\w+", line):
                vals[line] = iota
            iota += 1
    return vals


def const_agreement(ctx):
    """ebpf_sync_spec.json -> ebpf_generated.go, ebpf_sync_defs.h: every generated value agrees."""
    spec = json.load(open(os.path.join(REPO, "common/consts/ebpf_sync_spec.json")))
    c = parse_c_header(os.path.join(REPO, "control/kern/ebpf_sync_defs.h"))
    g = parse_go_consts(os.path.join(REPO, "common/consts/ebpf_generated.go"))
    rows = []
    for i, n in enumerate(spec["match_types"]):
        rows.append(("MatchType_" + n, i, c.get("MatchType_" + n), g.get("MatchType_" + n)))
    for o in spec["outbound"]:
        go_name = "Outbound" + "".join(p.capitalize() for p in o["name"].split("_"))
        rows.append(("OUTBOUND_" + o["name"], o["value"], c.get("OUTBOUND_" + o["name"]), g.get(go_name)))
    for o in spec["l4_proto"]:
        rows.append(("L4ProtoType_" + o["name"], o["value"], c.get("L4ProtoType_" + o["name"]), g.get("L4ProtoType_" + o["name"])))
    for o in spec["ip_version"]:
        rows.append(("IpVersionType_" + o["name"], o["value"], c.get("IpVersionType_" + o["name"]), g.get("IpVersion_" + o["name"])))
    bad = [r for r in rows if not (r[1] == r[2] == r[3])]
    for name, sv, cv, gv in bad:
        ctx.report(f"generated constant {name} disagrees: spec.json={sv} ebpf_sync_defs.h={cv} ebpf_generated.go={gv}",
                   {"const": name, "spec": sv, "c": cv, "go": gv})
    # Makefile default of MAX_MATCH_SET_LEN (passed to clang and, through ldflags, to consts.MaxMatchSetLen_)
    # = the defaults compiled into tproxy.c and ebpf.go (those two are compared through the const ops)
    try:
        mk = re.search(r"^MAX_MATCH_SET_LEN\s*\?=\s*(\d+)", open(os.path.join(REPO, "Makefile")).read(), re.M)
        gosrc = open(os.path.join(REPO, "common/consts/ebpf.go")).read()
        gm = re.search(r"\bMaxMatchSetLen\s*=\s*([^\n/]+)", gosrc)
        expr = gm.group(1).strip() if gm else ""
        if mk and gm and re.fullmatch(r"[0-9xXa-fA-F\s*+<()\-]+", expr):
            gv = eval(expr, {"__builtins__": {}})
            if int(mk.group(1)) != gv:
                ctx.report(f"Makefile default MAX_MATCH_SET_LEN={mk.group(1)} differs from consts.MaxMatchSetLen={gv} ({expr})",
                           {"makefile": mk.group(1), "go": gv})
            ctx.cov["makefile_max_match_set_len"] = int(mk.group(1))
        else:
            ctx.cov["makefile_max_match_set_len"] = "not comparable (default not found as a constant expression)"
    except (OSError, SyntaxError, ValueError, TypeError) as e:
        ctx.cov["makefile_max_match_set_len"] = f"not comparable ({e})"
    ctx.cov["generated_constants_compared"] = len(rows)
    return len(rows)


def reload_callsite_check(ctx):
    """buildRoutingKernspace, Inherit/ReplaceLpmIndices, clearReloadDomainRoutingMap, replayDnsReloadCache and the
    whole RebuildReloadDatapath are EXECUTED on real kernel maps by the harness.  CommitPreparedDatapath and the
    constructor (newControlPlaneWithContextOptions) cannot run (bindDaens needs a network namespace): for every
    function of control_plane.go that itself installs a generation (calls BuildKernspace), the text of the function — with the bodies of the
    package's own functions/methods it calls expanded two levels deep — must contain clearReloadDomainRoutingMap,
    and before replayDnsReloadCache when both occur.  Functions that were renamed are found by what they call,
    not by name.  Nothing found = recorded, not alarmed on."""
    res = {}
    try:
        srcs = {}
        for fn in sorted(os.listdir(os.path.join(REPO, "control"))):
            if fn.endswith(".go") and not fn.endswith("_test.go"):
                srcs[fn] = open(os.path.join(REPO, "control", fn)).read()
    except OSError as e:
        ctx.cov["reload_callsites_checked"] = f"unreadable: {e}"
        return
    bodies = {}
    for text in srcs.values():
        for m in re.finditer(r"\nfunc (?:\([^)]*\) )?(\w+)(?:\[[^\]]*\])?\((.*?)\n}\n", text, re.S):
            bodies.setdefault(m.group(1), m.group(0))

    def expand(body, depth, seen):
        if depth == 0:
            return body
        out, pos = [], 0
        for m in re.finditer(r"(?:\b\w+\.)*(\w+)\(", body):
            name = m.group(1)
            if name in bodies and name not in seen and name not in ("clearReloadDomainRoutingMap", "replayDnsReloadCache", "BuildKernspace"):
                out.append(body[pos:m.end()])
                out.append(" /*inlined " + name + "*/ " + expand(bodies[name].split("{", 1)[-1], depth - 1, seen | {name}))
                pos = m.end()
        out.append(body[pos:])
        return "".join(out)

    main = srcs.get("control_plane.go", "")
    for m in re.finditer(r"\nfunc (?:\([^)]*\) )?(\w+)(?:\[[^\]]*\])?\((.*?)\n}\n", main, re.S):
        name, body = m.group(1), m.group(0)
        if name in ("clearReloadDomainRoutingMap", "replayDnsReloadCache"):
            continue
        if ".BuildKernspace(" not in re.sub(r"//[^\n]*", "", body):
            continue  # candidates: the functions that themselves install a generation
        full = expand(body, 2, {name})
        # strip comments
        code = re.sub(r"//[^\n]*", "", full)
        ic, ir = code.find("clearReloadDomainRoutingMap("), code.find("replayDnsReloadCache(")
        res[name] = "ok" if ic >= 0 and (ir < 0 or ic < ir) else ("clear-after-replay" if ic >= 0 else "no-clear")
    for fn, st in res.items():
        if st == "no-clear":
            ctx.report(f"{fn} installs a new routing generation on shared BPF maps but no longer clears domain_routing_map "
                       "(clearReloadDomainRoutingMap, also not in the functions it calls): addresses keep bitmaps whose bit positions "
                       "belong to the previous generation's match sets", {"file": "control/control_plane.go", "function": fn}, no_input=True)
        elif st == "clear-after-replay":
            ctx.report(f"{fn} clears domain_routing_map AFTER replaying the DNS cache into it: the table is empty while cache and tracker "
                       "believe every name is published (the kernel routes every cached address without its domain)",
                       {"file": "control/control_plane.go", "function": fn}, no_input=True)
    ctx.cov["reload_callsites_checked"] = res


def ring_invariants(ctx, ops, name):
    """On the slots found in the REAL lpm_array_map after each reload: every trie of a generation sits in
    a slot of its own inside the map; consecutive generations whose sizes add up to at most
    MAX_MATCH_SET_LEN use disjoint slots (the hot-reload overlap window)."""
    gens, slots, cur = [], [], None
    for i, op in enumerate(ops):
        t = op.split(" ", 3)
        if t[0] == "lpm":
            slots.append(int(t[1]))
        elif t[0] == "reserve":
            cur = {"line": i + 1, "count": int(t[1]), "start": int(t[2]), "done": False}
        elif t[0] == "instcheck":
            if cur is not None:
                cur["slots"], cur["done"] = slots, True
                gens.append(cur)
            slots, cur = [], None
    gens = [g for g in gens if g["done"]]
    n_pairs = n_overlap = 0
    for g in gens:
        if len(set(g["slots"])) != g["count"] or any(s >= 1024 + 8 for s in g["slots"]):
            ctx.report(f"a reload of {g['count']} LPM tries changed {len(set(g['slots']))} slots of lpm_array_map (start={g['start']}): "
                       "tries share a slot or were not installed", {"stream": name, "line": g["line"], "slots": g["slots"][:50]})
    for a, b in zip(gens, gens[1:]):
        inter = set(a["slots"]) & set(b["slots"])
        if a["count"] + b["count"] <= 1024:
            n_pairs += 1
            if inter:
                ctx.report(f"consecutive reloads share LPM slots {sorted(inter)[:5]} although {a['count']}+{b['count']} <= 1024 "
                           f"(old rules would read the new generation's sets during the reload window)",
                           {"stream": name, "line": b["line"], "prev": a, "cur": b})
        elif inter:
            n_overlap += 1
    ctx.cov.setdefault("ring", {})[name] = {"generations": len(gens), "consecutive_pairs_checked": n_pairs, "overlapping_pairs": n_overlap}


def expected_k(op_toks, u):
    """pack(dnsAdjust(u)) computed independently of Lean: the property's right-hand side."""
    if u == "err":
        return -1
    ob, mark, must = (int(x) for x in u.split(","))
    flag = bytes.fromhex(op_toks[1])
    l4 = int.from_bytes(flag[0:4], "little")
    dport = int(op_toks[3])
    if dport == 53 and l4 in (1, 2) and not must:
        ob = 0xFD
    return ob | (mark << 8) | (must << 40)


def canon_line(s):
    """const lines are compared three-way elsewhere; the ring counter policy and the particular negative
    errno of route() are not part of the property."""
    if s.startswith("="):
        return ""
    if s.startswith("ok ring-model-predicted"):
        return "ok"
    return re.sub(r"^k=-\d+", "k=err", s)


def run_stream(ctx, name, cdrv):
    """Runs the native route() and the Lean model on the op file the Go harness wrote; returns
    (ops, merged impl lines, model lines, list of NEQ (op, impl) pairs)."""
    ops_p, go_p = (os.path.join(ctx.out, f"{name}.{e}") for e in ("ops", "impl"))
    c_p, model_p, merged_p = (os.path.join(ctx.out, f"{name}.{e}") for e in ("c", "model", "merged"))
    rc, out, dt = sh(f"{cdrv} < {ops_p} > {c_p}", timeout=3000,
                     env=dict(os.environ, ASAN_OPTIONS="detect_leaks=0:abort_on_error=0", UBSAN_OPTIONS="print_stacktrace=1:halt_on_error=1"))
    ctx.log.write(f"$ c02 native driver on {name} [{dt:.1f}s rc={rc}] {out[-3000:]}\n")
    ops, go, cl = read_lines(ops_p), read_lines(go_p), read_lines(c_p) if os.path.exists(c_p) else []
    if rc != 0 or len(cl) != len(ops):
        ctx.report(f"native route() driver failed on stream {name} (rc={rc}, {len(cl)}/{len(ops)} answers): sanitizer report or crash in tproxy.c: {out[-1500:]}",
                   {"stream": name, "rc": rc, "output": out[-3000:], "first_unanswered_op": ops[len(cl)] if len(cl) < len(ops) else None})
        return ops, [], [], []
    if not ctx.driver("c02drv", ops_p, model_p):
        ctx.proof_failures.append("model driver c02drv failed to run")
        return ops, [], [], []
    merged, neq = [], []
    for op, g, c in zip(ops, go, cl):
        kind = op.split(" ", 1)[0]
        if kind in ("pkt", "kpkt") and c.startswith("k=-"):
            c = "k=err"  # which negative errno route() returns is not part of the property (callers test < 0)
        if kind == "pkt":
            line = f"{c} {g}"
            try:
                kv = -1 if c == "k=err" else int(c[2:])
                if kv != expected_k(op.split(" "), g[2:]):
                    line += " NEQ"
                    neq.append((op, line))
            except ValueError:
                line += " UNPARSABLE"
            merged.append(line)
        elif kind == "kpkt":
            merged.append(c)
        elif kind == "const":
            merged.append(f"{g}|{c}")
        else:
            if kind in MUTATING and c != "ok":
                ctx.report(f"native map update failed for `{op[:120]}`: {c}", {"stream": name, "op": op[:2000], "c": c})
            merged.append(g)
    open(merged_p, "w").write("\n".join(merged) + "\n")
    return ops, merged, read_lines(model_p), neq


def run(ctx):
    ctx.trusted += [
        "kernel LPM-trie lookup contract (a stored key matches a /128 probe when its first prefixlen bits equal the probe's) — C12.lpmLookup; the native harness implements the kernel's longest-prefix rule independently in C (harness/c/bpf_shim.c)",
        "bpf_loop / array / hash / array-of-maps semantics as implemented by harness/c/bpf_shim.c; verifier acceptance, the 8M iteration cap and per-CPU scratch are not modelled",
        "H2 (hypothesis of C02's theorems): the bitmap installed in domain_routing_map for the destination equals MatchDomainBitmap(the packet's own name). In the main stream the HARNESS writes that bitmap (production BpfMapBatchUpdate) — H2 by construction; in stream c02dom the control plane writes it (real DnsController -> tracker) and the table is checked against the cache-derived OR of the current generation's bitmaps. Two cached names on one address (kernel decides by the OR, Match(domain) by one name) is an inherent, documented difference (shared_address_or_observation), excluded by H2; the Compose theorem specifies the kernel side by the cache-derived knowledge (withLearnt), not by Match(domain)",
        "needs real bpf(2): CAP_BPF for the maps and CAP_SYS_ADMIN for BPF_MAP_GET_FD_BY_ID (reading the inner LPM tries back); without them the check exits 2 (HARNESS-ENV-FAILED / HARNESS-FAILED), never a verdict",
        "the reload is EXECUTED on real kernel BPF maps (snapshot.BuildKernspace = buildRoutingKernspace, clearReloadDomainRoutingMap, InheritLpmIndices/EjectLpmIndices, RebuildReloadDatapath = BuildKernspace+ReplaceLpmIndices+clear) and the maps are read back; not executed: CommitPreparedDatapath and the constructor newControlPlaneWithContextOptions (bindDaens needs a netns) — the harness calls their routing steps in the same order; every function of control_plane.go that calls BuildKernspace is checked TEXTUALLY (helpers expanded two levels) for clearReloadDomainRoutingMap occurring, and before replayDnsReloadCache; the ring start is read back from the installed images, not predicted",
        "the maps the harness creates (types, key/value sizes, max_entries) are those declared in tproxy.c — sizes cross-checked by the const ops; the real kernel LPM trie stores the keys, the native route() then runs on the shim's LPM implementation fed with the dumped keys",
        "translators/fakebpf (synthetic bpf2go declarations: bpfMatchSet, bpfPortRange, bpfDomainRouting with the field order of bpf_stub.go)",
        "C01 theorem match_is_first_match and C12 theorem kernel_userspace_same_set (imported, proved in the same lake build)",
        "shim headers harness/c/headers (UAPI types; bpf_ntohs = bswap16 on the little-endian host)",
    ]
    # the three build steps are independent: prove+audit (lake), native route() (clang), Go harness (go test -c)
    import threading

    thread_errors = []

    def prove():
        try:
            import time as _t
            for attempt in range(3):
                ctx.proof_failures[:] = []
                ctx.obligations[:] = []
                ctx.prove(["DaeVerif.C02.Props", "DaeVerif.Compose.KernelDomain"], ["DaeVerif.C02.Props", "DaeVerif.Compose"],
                          ["DaeVerif/C02/*.lean", "DaeVerif/Compose/*.lean"], extra_targets=["c02drv"])
                # several agents build in the same lake workspace: a build that fails WITHOUT any Lean diagnostic
                # ("no such file or directory" while another lake renames an artefact, audit tool not runnable) is
                # infrastructure, retried; a Lean error (file:line) or a bad axiom is a real proof failure
                infra = [f for f in ctx.proof_failures if (f.startswith("lake build failed") or f.startswith("axiom audit failed to run"))
                         and not re.search(r"\.lean:\d+", f)]
                if not infra:
                    break
                ctx.log.write(f"prove attempt {attempt + 1}: infrastructure failure, retrying: {infra[0][:300]}\n")
                _t.sleep(10)
            else:
                thread_errors.append("lake could not build the unchanged proof modules (no Lean diagnostic, 3 attempts): " + infra[0][:400])
                ctx.proof_failures[:] = []
                return
            ctx.required_theorems(REQUIRED)
        except BaseException as e:  # a timeout / crash of lake must never look like "nothing to prove"
            thread_errors.append(f"prove step did not complete: {type(e).__name__}: {e}")

    # native build of /repo's CURRENT tproxy.c (unmodified; #included by the driver)
    cdir = os.path.join(VERIF, "harness", "c")
    cdrv = os.path.join(ctx.bindir, "c02_route_native")
    os.makedirs(os.path.dirname(cdrv), exist_ok=True)
    if os.path.exists(cdrv):
        os.unlink(cdrv)
    cbuild = {}

    def build_c():
        cmd = ["clang", "-O1", "-g", "-fsanitize=address,undefined", "-fno-sanitize-recover=undefined", "-Wno-unused-function",
               "-I" + cdir, "-I" + os.path.join(REPO, "control", "kern"),
               os.path.join(cdir, "c02_driver.c"), os.path.join(cdir, "bpf_shim.c"), "-o", cdrv]
        try:
            rc, out, dt = sh(cmd, timeout=900)
            cbuild.update(rc=rc, out=out)
            ctx.log.write(f"$ {' '.join(cmd)} [{dt:.1f}s rc={rc}]\n{out}\n")
        except BaseException as e:
            cbuild.update(rc=-1, out=f"{type(e).__name__}: {e}")

    th = [threading.Thread(target=prove), threading.Thread(target=build_c)]
    for t in th:
        t.start()
    n_consts = const_agreement(ctx)
    reload_callsite_check(ctx)
    fake = ctx.fake_bpf_overlay()
    binp = None
    if fake:
        files = ["control/c02_test.go", "control/c02x_test.go", "control/c01_test.go", "control/c12_test.go"]
        chain_ov, chain_mode = ctx.optchain_overlay()
        binp = ctx.go_test_build("control", files, "c02", tags="", extra_overlay={**fake, **chain_ov})
        if not binp and not chain_mode.startswith("FALLBACK"):
            chain_ov, chain_mode = ctx.optchain_overlay(fallback=True)
            binp = ctx.go_test_build("control", files, "c02", tags="", extra_overlay={**fake, **chain_ov})
        ctx.cov["production_optimizer_chain"] = chain_mode
    for t in th:
        t.join()
    if thread_errors or not ctx.obligations:
        ctx.say("CHECK-ERROR " + "; ".join(thread_errors or ["the prove step produced no obligations"]))
        return 2
    if cbuild.get("rc") != 0 or not os.path.exists(cdrv):
        ctx.say("HARNESS-BUILD-FAILED native tproxy.c:\n" + cbuild.get("out", "")[-3000:])
        return 2
    if not binp:
        return 2
    rc, out = ctx.run_harness(binp, "TestVerifC02")
    if rc != 0 or not os.path.exists(os.path.join(ctx.out, "c02.ops")):
        ctx.say("HARNESS-FAILED", out[-3000:])
        return 2
    envfail = read_lines(os.path.join(ctx.out, "c02.envfail")) if os.path.exists(os.path.join(ctx.out, "c02.envfail")) else []
    if envfail:
        ctx.say("HARNESS-ENV-FAILED property=C02: the sandbox refused a bpf(2) operation the harness needs (real kernel maps: CAP_BPF + "
                "CAP_SYS_ADMIN for BPF_MAP_GET_FD_BY_ID, batch ops): " + " | ".join(envfail[:3]))
        return 2
    replay_cmd = "VERIF_SEED=%d ./check C02 %s" % (ctx.seed, ctx.tier)

    n_const_lines = [0]

    def three_way(name):
        """C = pack(dnsAdjust(Go)) per packet; both = model per line; dumped kernel maps satisfy Installed."""
        ops, merged, model, neq = run_stream(ctx, name, cdrv)
        if not merged:
            return ops, merged, model
        mism = ctx.diff_streams(os.path.join(ctx.out, name + ".ops"), os.path.join(ctx.out, name + ".merged"),
                                os.path.join(ctx.out, name + ".model"), name,
                                canon=canon_line)
        # const lines: three-way check below; the ring counter's exact policy is not part of the property
        if name != "c02roll":  # there the slots are compared with the model's transition system (syscmp)
            ring_invariants(ctx, ops, name)
        ring_dis = [m for m in model if m.startswith("ok ring-model-predicted")]
        ctx.cov.setdefault("ring_model_disagreements", {})[name] = len(ring_dis)
        if ring_dis:
            ctx.say(f"NOTE property=C02 [{name}] reserveLpmRingSlots no longer follows the model's reserveRing on {len(ring_dis)} reloads "
                    f"(first: {ring_dis[0]}); slot invariants are checked on the slots found in the kernel map")
        cur = {"prog": None, "tries": None, "reserve": None}
        ctx_of = {}
        for i, op in enumerate(ops):
            k = op.split(" ", 1)[0]
            if k in cur:
                cur[k] = op
            ctx_of[i + 1] = dict(cur)
        # (1) the property itself on the two implementations: C route() = pack(dnsAdjust(Go Match))
        for op, line in neq[:10]:
            i = ops.index(op) + 1
            ctx.report(f"kernel route() and userspace Match disagree: `{line}` (expected k = pack(dnsAdjust(u)))",
                       {"stream": name, "line": i, "program": (ctx_of[i]["prog"] or "")[:4000], "tries": (ctx_of[i]["tries"] or "")[:4000],
                        "op": op, "impl": line, "replay": replay_cmd})
        # (2) implementations vs the proved model
        for ln, op, im, mo in mism[:10]:
            what = "implementation differs from proved model"
            if op.startswith(("pkt ", "kpkt ")):
                what = "route()/Match result differs from the proved model (k = kernel C, u = userspace Go)"
            elif op.startswith("instcheck"):
                what = ("the kernel maps read back after the real reload (buildRoutingKernspace / InheritLpmIndices / RebuildReloadDatapath on real BPF maps) "
                        "do not satisfy `Installed` for the typed program: rule images = encodeGo(ring-rewritten entry), every trie at slot (start+i)%1024, active length")
            elif op.startswith("const "):
                what = "constant differs between Go and the model"
            elif op.startswith("decode "):
                what = ("compileRoutingMatch (the control plane's own decoder) applied to a rule image read back from routing_map differs from "
                        "the model's decodeGo: userspace would decode another typed entry than the kernel reads")
            elif op.startswith("dkey "):
                what = "Ipv6ByteSliceToUint32Array differs from the model's keyWords (key of domain_routing_map / LPM key data)"
            elif op.startswith("syscmp"):
                what = ("the kernel maps read back after a step of a reload history (staged install stopped by an injected fault / Close of the staged "
                        "generation + RebuildReloadDatapath / cut-over) differ, in what route() can observe, from the state the model's transition system predicts")
            ctx.report(f"{what} at line {ln}: impl `{im[:200]}` model `{mo[:300]}`",
                       {"stream": name, "line": ln, "op": op[:4000], "impl": im[:4000], "model": mo[:4000],
                        "program": (ctx_of.get(ln, {}).get("prog") or "")[:4000], "tries": (ctx_of.get(ln, {}).get("tries") or "")[:4000],
                        "reserve": ctx_of.get(ln, {}).get("reserve"), "replay": replay_cmd})
        # (3) constants three-way (Go | C | Lean) per const line
        for op, im, mo in zip(ops, merged, model):
            if not op.startswith("const "):
                continue
            n_const_lines[0] += 1
            g, c = im.split("|")
            vals = {v for v in (g[1:], c[1:], mo[1:]) if v not in ("-", "?")}
            present = [v for v in (g[1:], c[1:], mo[1:]) if v not in ("-", "?")]
            if len(vals) != 1 or len(present) < 2:
                ctx.report(f"constant/layout {op[6:]} disagrees: go={g[1:]} c={c[1:]} model={mo[1:]}",
                           {"const": op[6:], "go": g[1:], "c": c[1:], "model": mo[1:]})
        for i, mo in enumerate(model):
            if mo == "bad-op":
                ctx.report("model driver: bad op (harness-model protocol bug)", {"stream": name, "line": i + 1, "op": ops[i][:2000]})
                break
        return ops, merged, model

    ops, merged, model = three_way("c02")
    if not merged:
        return ctx.finish(rule="native driver failed", evaluations=0, distinct=0)
    # (4) Go-side consistency and direct observations on the real kernel maps (all streams)
    gv = read_lines(os.path.join(ctx.out, "c02.goviol"))
    for v in gv[:5]:
        ctx.report("control plane / kernel map inconsistency: " + v[:600], {"detail": v[:4000], "replay": replay_cmd})

    stats = json.load(open(os.path.join(ctx.out, "c02.stats.json")))
    cnt = stats["counters"]

    # ---- boundary stream: overlapping generations, exactly MAX_MATCH_SET_LEN, MAX_MATCH_SET_LEN + 1
    bops, bmerged, bmodel = three_way("c02big")
    bnote = read_lines(os.path.join(ctx.out, "c02big.note"))
    need = {"big.overlap_generation_installed": 3, "ring.slot_reused_across_generations": 1,
            "big.exactly_max_installed": 1, "big.over_limit_rejected": 1}
    missing = {k: cnt.get(k, 0) for k, v in need.items() if cnt.get(k, 0) < v}
    not_exercised = []
    if missing:
        not_exercised.append(f"boundary stream (overlapping generations of 600 tries, exactly 1024 match sets accepted, 1025 rejected): {missing}; notes: {bnote}")
    ctx.cov["boundary_stream"] = {"notes": bnote, "packets": sum(1 for o in bops if o.startswith("pkt ")),
                                  "overlapping_pairs": ctx.cov.get("ring", {}).get("c02big", {}).get("overlapping_pairs")}

    # ---- domain table across reloads: bitmaps written by the real DnsController/tracker, reloads that re-number the domain sets
    dops, dmerged, dmodel = three_way("c02dom")
    dnote = read_lines(os.path.join(ctx.out, "c02dom.note"))
    ctx.cov["domain_stream"] = {"notes": dnote, "packets": sum(1 for o in dops if o.startswith("pkt ")),
                                "entries_verified": cnt.get("dom.entries_verified", 0),
                                "cached_name_missing_in_kernel_map": cnt.get("dom.cached_name_missing_in_kernel_map", 0)}

    # ---- rollback histories: staged installs stopped by injected faults, Close of the staged generation, RebuildReloadDatapath
    rops, rmerged, rmodel = three_way("c02roll")
    rnote = read_lines(os.path.join(ctx.out, "c02roll.note")) if os.path.exists(os.path.join(ctx.out, "c02roll.note")) else []
    sysc = [(o, m) for o, m in zip(rops, rmodel) if o.startswith("syscmp")]
    ctx.cov["rollback_stream"] = {
        "notes": rnote[:10], "packets": sum(1 for o in rops if o.startswith("pkt ")),
        "stages": {k[len("roll.stage."):]: v for k, v in cnt.items() if k.startswith("roll.stage.")},
        "rollbacks": cnt.get("roll.rollbacks", 0), "big_rollbacks": cnt.get("roll.big_rollbacks", 0),
        "window_checked": cnt.get("roll.window_checked", 0),
        "cutovers": {k[len("roll.cutover."):]: v for k, v in cnt.items() if k.startswith("roll.cutover.")},
        "syscmp_total": len(sysc), "syscmp_compared_by_model": sum(1 for _, m in sysc if m == "ok" or m.startswith("differs")),
        "syscmp_skipped_ring_policy": sum(1 for _, m in sysc if m.startswith("ok ring-model-predicted")),
    }
    ring_policy_changed = any(v for v in ctx.cov.get("ring_model_disagreements", {}).values())
    if not ring_policy_changed and ctx.cov["rollback_stream"]["syscmp_compared_by_model"] < 20:
        not_exercised.append("rollback stream: fewer than 20 map states were compared with the model's transition system: " + str(ctx.cov["rollback_stream"]))

    # ---- kernel error paths: native route() vs model on hand-written maps
    eops, emerged, emodel, _ = run_stream(ctx, "c02err", cdrv)
    if emerged:
        em = ctx.diff_streams(os.path.join(ctx.out, "c02err.ops"), os.path.join(ctx.out, "c02err.merged"),
                              os.path.join(ctx.out, "c02err.model"), "c02err", canon=canon_line)
        # states unreachable under `Installed` (hand-written maps): how the kernel fails there is visible to no caller,
        # a difference from the model is a diagnostic, not a verdict
        for ln, op, im, mo in em[:5]:
            ctx.say(f"NOTE property=C02 [c02err] native route() differs from the model on a hand-written (not installable) map state at line {ln}: "
                    f"C `{im[:60]}` model `{mo[:60]}` (ops before: {eops[max(0, ln - 3):ln - 1]})"[:600])
        ctx.cov["kernel_error_stream_model_differences"] = len(em)
        ek = [m for o, m in zip(eops, emerged) if o.startswith("kpkt ")]
        ctx.cov["kernel_error_stream"] = {"packets": len(ek), "errors": sum(1 for m in ek if m == "k=err"), "answers": ek}
        if len(ek) < 10 or not any(m == "k=err" for m in ek) or not any(m != "k=err" for m in ek):
            not_exercised.append("kernel error stream is degenerate: " + str(ek))

    # ---- regression replay of former finding #6 (pname('') with an unknown process on WAN; repaired by
    # C02.fix1: the kernel now tests pname[0] != 0 like userspace). A revert must be a violation.
    f6 = {"parsed": read_lines(os.path.join(ctx.out, "c02f6.note"))[:1]}
    fops, fmerged, fmodel, fneq = run_stream(ctx, "c02f6", cdrv)
    if fmerged:
        fm = ctx.diff_streams(os.path.join(ctx.out, "c02f6.ops"), os.path.join(ctx.out, "c02f6.merged"),
                              os.path.join(ctx.out, "c02f6.model"), "c02f6")
        for op, line in fneq[:3]:
            ctx.report("kernel route() and userspace Match disagree on the empty-process-name replay (rule pname('') , WAN packet of an "
                       f"unknown process: kernel must not match the all-zero name): `{line}`",
                       {"stream": "c02f6", "program": "routing { pname('') -> block; fallback: direct }", "op": op, "impl": line,
                        "replay": replay_cmd})
        for ln, op, im, mo in fm[:5]:
            ctx.report(f"empty-process-name replay: implementation differs from model at line {ln}: impl `{im[:200]}` model `{mo[:200]}`",
                       {"stream": "c02f6", "line": ln, "op": op[:2000], "impl": im, "model": mo})
        f6["packets"] = [m for o, m in zip(fops, fmerged) if o.startswith("pkt ")]
        f6["kernel_and_userspace_agree"] = not fneq
    if f6["parsed"] != ["ok"] or len(f6.get("packets", [])) != 3:
        not_exercised.append("empty-process-name replay did not run (pname('') rejected by the configuration layer, or packets missing): " + str(f6))
    ctx.cov["empty_pname_replay"] = f6

    # generator reach: below these floors the run did not test what it claims (exit 2, not OK)
    thorough = ctx.tier == "thorough"
    floors = {"prog.installed": 1500 if thorough else 250, "reload.commit+inherit": 100, "reload.rebuild": 100, "ring.wraps": 2,
              "pkt.dport53": 5000, "pkt.wan_pname_unknown": 2000, "pkt.domain_bitmap_nonzero": 2000, "pkt.zero_mac": 2000,
              "set.tail_must_rules": 50, "set.not": 300, "result.must": 1000, "result.marked": 1000,
              "dom.generations": 4, "dom.generation_with_high_index_domain_sets": 1, "dom.self_rebuild": 1, "dom.entries_verified": 15, "pkt.domain_table_written_by_control_plane": 30,
              "max_matchsets_in_a_program": 300, "max_lpm_tries_in_a_program": 50,
              "roll.rollbacks": 10, "roll.big_rollbacks": 1, "roll.window_checked": 4, "roll.packets": 300,
              "roll.stage.lpm:": 2, "roll.stage.rules:0": 2, "roll.stage.nolen": 3, "roll.stage.done": 3,
              "decode.images": 1500, "dkey.addresses": 300, "dom.bulk_fills": 10,
              "opt.simulated_batch_update": 30, "opt.simulated_batch_delete": 30, "opt.gomaxprocs1": 15}
    floors.update({f"set.type{t}": 150 for t in range(11)})
    low = {k: cnt.get(k, 0) for k, v in floors.items() if cnt.get(k, 0) < v}
    ctx.cov["floors"] = floors
    if not_exercised and not ctx.violations:
        ctx.say("GENERATOR-BELOW-FLOOR property=C02 a directed stream did not exercise its case — not OK: " + " || ".join(not_exercised)[:1500])
        return 2
    if low and not ctx.violations:
        ctx.say(f"GENERATOR-BELOW-FLOOR property=C02 {low} (floors {({k: floors[k] for k in low})}) — not OK: the run did not test what it claims")
        return 2

    pk = [(o, m) for o, m in zip(ops, merged) if o.startswith("pkt ")]
    ctx.samples = stats["samples"][:2] + [o[:400] for o, _ in pk[:3]] + [m for _, m in pk[:3]]
    ctx.cov["input_distribution"] = stats["counters"]
    ctx.cov["distinct_decisions"] = len(collections.Counter(m for _, m in pk))
    ctx.cov["programs_installed"] = stats["counters"].get("prog.installed", 0)
    ctx.cov["const_lines_three_way"] = n_const_lines[0]
    ctx.cov["kernel_errors"] = sum(1 for _, m in pk if m.startswith("k=err"))
    ctx.assumptions = [
        "packets, programs and reload sequences are generated (seeded): what was not generated was not compared",
        "little-endian host/target (amd64): the big-endian case is a model-level theorem (decode_encode_bigendian_fails), not executed",
        "the same ip-version flag is given to route() and Match, also for ::ffff:a.b.c.d destinations with flag 6 (generated); outside the comparison is how each side DERIVES the flag (kernel: skb->protocol in the hooks, userspace: ControlPlane.Route from the address family) — the hooks are C03's, Route() is exercised by C01",
        "packets carry only values the three callers of route() can deliver (DSCP <= 63, process names NUL-terminated within 16 bytes, LAN without process name)",
    ]
    return ctx.finish(
        rule="one evaluation = (installed program after N reloads, packet) through real Go Match, native C route() on the bytes the Go "
             "encoders emitted, and the Lean routeK/matchU; checked: C = pack(dnsAdjust(Go)) and both = model; every packet aimed at a rule "
             "(boundary values) and issued as generated / dport 53 / LAN<->WAN flipped / other l4; distinct_nontrivial = distinct pkt op lines "
             "(each carries its own flag image, addresses and bitmap); encoder images compared byte for byte on every reload",
        evaluations=len(pk), distinct=len(set(o for o, _ in pk)))
