"""C09 — every DNS client gets an answer to its own question under its own ID."""
import json, os, re
from verifkit import read_lines, REPO

REQUIRED = [
    "DaeVerif.C09.Props.reply_carries_client_id_and_question",
    "DaeVerif.C09.Props.no_foreign_answer_cached",
    "DaeVerif.C09.Props.question_unchecked_witness",
    "DaeVerif.C09.Props.singleflight_one_resolution",
    "DaeVerif.C09.Props.singleflight_result_reaches_every_waiter",
    "DaeVerif.C09.Props.join_while_flight_runs_starts_no_resolution",
    "DaeVerif.C09.Props.answers_come_from_accepted_upstream_messages",
    "DaeVerif.C09.Props.reask_is_bounded",
    "DaeVerif.C09.Props.leader_departure_does_not_fail_followers",
    "DaeVerif.C09.Props.leader_bound_context_fails_followers",
    "DaeVerif.C09.Props.malformed_query_touches_nothing",
    "DaeVerif.C09.Props.udp_id_match",
    "DaeVerif.C09.Props.udp_single_call",
    "DaeVerif.C09.Props.udp_flood_discards_socket",
    "DaeVerif.C09.Props.delivered_matches_waiter",
    "DaeVerif.C09.Props.ids_in_flight_unique",
    "DaeVerif.C09.Props.allocate_returns_free_id",
    "DaeVerif.C09.Props.timeout_closes_connection",
    "DaeVerif.C09.Props.slot_reuse_cross_delivery_before_fix",
    "DaeVerif.C09.Props.close_once_after_last_use",
    "DaeVerif.C09.Props.retired_forwarder_closed_when_quiescent",
    "DaeVerif.C09.Props.enduse_split_closes_under_new_user",
    "DaeVerif.C09.Props.idle_evict_direct_close_under_user",
    "DaeVerif.C09.Props.every_forwarder_closed_at_most_once_never_under_an_exchange",
    "DaeVerif.C09.Props.no_forwarder_leaked_when_quiescent",
]

STREAMS = [
    ("c09udp", "TestVerifC09Udp"),
    ("c09fwd", "TestVerifC09Fwd"),
    ("c09ctl", "TestVerifC09Ctl"),
]
SCHED_STREAMS = [
    ("c09loop", "TestVerifC09Loop"),
    ("c09sched", "TestVerifC09Sched"),
    ("c09pipe", "TestVerifC09Pipe"),
]

HOOK_NAMES = [
    "dnsfwd.beginUse.afterCheck", "dnsfwd.beginUse.afterInc", "dnsfwd.beginUse.afterRecheck", "dnsfwd.beginUse.afterDec",
    "dnsfwd.endUse.afterDec", "dnsfwd.endUse.afterRetiredLoad", "dnsfwd.endUse.afterRecheck",
    "dnsfwd.retire.afterStore", "dnsfwd.retire.afterLoad",
    "dnspipe.readLoop.afterSwap", "dnspipe.close.afterSwap",
]


# Evidence floors: a run is evidence only if every stream really executed.  Numbers = about 65 % of what a
# complete run produces (quick seed 1: udp 78 k, fwd 82 k, ctl 32 k, sched 87 k, pipe 24 k op lines, 300 UDP-path
# rounds, 1 080 writer rendezvous, 417 coalesce-uncached scenarios; thorough about 33 times that).
FLOORS = {
    "quick": {"lines": {"c09udp": 50000, "c09fwd": 55000, "c09ctl": 20000, "c09sched": 60000, "c09pipe": 16000, "c09loop": 70000},
              "counters": {"c09ctl": {"ctl.udppath.rounds-completed": 295, "ctl.writers.rendezvous": 500,
                                      "ctl.scenario.coalesce-uncached": 200, "ctl.scenario.optimistic-cache": 300,
                                      "ctl.op.respell": 10, "ctl.scenario.qtypes.64+65": 200, "ctl.att.cname-first": 300,
                                      "ctl.udppath.big.rounds-completed": 36, "ctl.fwdlife.creation-race.rounds-completed": 36,
                                      "ctl.fwdlife.retire-while-blocked": 100,
                                      "ctl.scenario.response-routing": 350, "ctl.rr.resolve.levels=2": 130, "ctl.rr.resolve.levels=3": 45,
                                      "ctl.rr.third-level-failed-or-too-deep": 15, "ctl.rr.reasked-and-answered": 50,
                                      "ctl.client.questions=2": 70, "ctl.client.questions=0": 35,
                                      "ctl.op.gone.leader.with-live-waiters": 60, "ctl.op.gone.follower.with-live-waiters": 60},
                           "c09pipe": {"pipe.recv.held": 1000, "pipe.cancel": 400, "pipe.closeswap": 600, "pipe.writefail": 150, "pipe.abort-before-write": 150},
                           "c09loop": {"loop.at.b5": 2000, "loop.at.e2r": 900, "loop.at.factory": 6000, "loop.ret.retired-twice": 400,
                                       "loop.at.r3": 2000},
                           "c09sched": {"sched.at.e2r": 150, "sched.at.b5": 400}}},
    "thorough": {"lines": {"c09udp": 1700000, "c09fwd": 1600000, "c09ctl": 700000, "c09sched": 1900000, "c09pipe": 560000, "c09loop": 1100000},
                 "counters": {"c09ctl": {"ctl.udppath.rounds-completed": 1480, "ctl.writers.rendezvous": 15000,
                                         "ctl.scenario.coalesce-uncached": 7000, "ctl.scenario.optimistic-cache": 10000,
                                         "ctl.op.respell": 300, "ctl.scenario.qtypes.64+65": 6000, "ctl.att.cname-first": 10000,
                                         "ctl.udppath.big.rounds-completed": 270, "ctl.fwdlife.creation-race.rounds-completed": 360,
                                         "ctl.fwdlife.retire-while-blocked": 3000,
                                         "ctl.scenario.response-routing": 12000, "ctl.rr.resolve.levels=2": 4500, "ctl.rr.resolve.levels=3": 1500,
                                         "ctl.rr.third-level-failed-or-too-deep": 500, "ctl.rr.reasked-and-answered": 1800,
                                         "ctl.client.questions=2": 2500, "ctl.client.questions=0": 1200,
                                         "ctl.op.gone.leader.with-live-waiters": 2000, "ctl.op.gone.follower.with-live-waiters": 2000},
                              "c09pipe": {"pipe.recv.held": 40000, "pipe.cancel": 15000, "pipe.closeswap": 25000, "pipe.writefail": 6000, "pipe.abort-before-write": 6000},
                              "c09loop": {"loop.at.b5": 32000, "loop.at.e2r": 14000, "loop.at.factory": 96000, "loop.ret.retired-twice": 6400,
                                          "loop.at.r3": 32000},
                              "c09sched": {"sched.at.e2r": 6000, "sched.at.b5": 15000}}},
}


def control_sources():
    import glob
    src = ""
    for f in sorted(glob.glob(os.path.join(REPO, "control", "*.go"))):
        if not f.endswith("_test.go"):
            try:
                src += open(f, encoding="utf-8", errors="replace").read()
            except OSError:
                pass
    return src


def hooks_present():
    """The schedule-replay tie needs the verif-tagged yield points (commit a7e5501), wherever in package
    control the functions live."""
    src = control_sources()
    return [h for h in HOOK_NAMES if ('"%s"' % h) in src]


def write_shim(ctx):
    """Sentinel errors the harness classifies with errors.Is; a sentinel that /repo does not (yet / any more)
    have is nil in the shim, so that the harness still builds against such a tree."""
    have = "ErrDNSResponseQuestionMismatch" in control_sources()
    p = os.path.join(ctx.out, "c09_shim_test.go")
    open(p, "w").write("package control\n\nvar c09ErrMismatch error = %s\n" % ("ErrDNSResponseQuestionMismatch" if have else "nil"))
    return p


# open-finding candidate: a query with an empty question section is not refused like one with two questions; its
# upstream answer (to whatever question the upstream chose) is cached under the key of the root name and type 0
QLESS_KEY = "c09-questionless-query-cached-under-root-key"


_qless_reports = [0]


def report(ctx, what, obj, key=None):
    """ctx.report, except that the (one) finding about question-less queries is reported at most three times per
    run: every later line of such a history differs from the model as well and would only repeat it"""
    if key == QLESS_KEY:
        _qless_reports[0] += 1
        if _qless_reports[0] > 3:
            return
    ctx.report(what, obj, key=key)


def qless_key(history):
    """the finding key when the history (op lines since the last `C reset`) has a client whose query carries no
    question - what follows in such a history on a tree without the repaired guard is that finding"""
    for line in history[:1]:
        head = line.split("  =>  ")[0].split()
        if head[:2] == ["C", "reset"]:
            for tok in head[3:]:
                f = tok.split(":")
                if len(f) > 7 and f[7] == "0":
                    return QLESS_KEY
    return None


def oracle_ctl(ctx, ops, impl):
    """Property-level oracle evaluated directly on what the real controller wrote (independent of
    the model's outputs): every written reply carries the asking client's id and question (name, type,
    class); every cache entry's packed question answers its key; plus the lines the harness emits only on a
    definite wrong observation (packet-path datagrams, forwarder lifecycle, error replies)."""
    clients = []
    n_replies = 0
    pending_respell = None
    hist = []
    for op, im in zip(ops, impl):
        t = op.split()
        hist.append(op + "  =>  " + im)
        if t[:2] == ["C", "reset"]:
            hist = [op]
            clients = []
            for tok in t[3:]:
                f = tok.split(":")
                clients.append({"id": int(f[0]), "n": int(f[1]), "sp": int(f[2]), "qt": int(f[3]), "scope": int(f[4]),
                                "cls": int(f[6]) if len(f) > 6 else 1, "nq": int(f[7]) if len(f) > 7 else 1})
            continue
        if t[:2] == ["C", "respell"]:
            pending_respell = int(t[5])
            continue
        if t[:2] == ["C", "arrive"] and pending_respell is not None:
            if clients[int(t[2])]["sp"] != pending_respell:
                ctx.report(f"cache entry re-packed with spelling {pending_respell}, which is not the spelling of the request at hand",
                           {"op": op, "impl": im, "clients": clients})
            pending_respell = None
        if t[:2] == ["C", "gone"]:
            mo = re.search(r"others-finished=(\S+)", im)
            if mo and mo.group(1) != "-":
                ctx.report(f"client {t[2]} went away (its request context was cancelled) while its singleflight group was in flight, "
                           f"and that finished other, still present clients: {mo.group(1)} - the shared resolution must go on and its "
                           f"result reach every waiter", {"op": op, "impl": im, "clients": clients, "history": list(hist)})
            continue
        if t[:2] == ["C", "fwdlife"]:
            ctx.report("forwarder lifecycle through forwardWithDialArg/retire/evict/reset: " + " ".join(t[2:]).replace("_", " "),
                       {"op": op, "impl": im, "history": list(hist)})
            continue
        if t[:2] == ["C", "udppath"]:
            # emitted only for a datagram that was received and is not the client's own
            ctx.report(f"UDP packet-send path: a coalesced client got a reply that is not its own ({' '.join(t[2:])}, got {im})",
                       {"op": op, "impl": im})
            continue
        if t[:2] == ["C", "errreply"]:
            ctx.report(f"error reply built by the controller does not carry the client's id/question: want {t[3]} got {im}",
                       {"op": op, "impl": im})
            continue
        m = re.search(r"out=wrote:id=(\d+),q=([^,]+),", im)
        if m and t[1] in ("arrive", "refuse", "wake", "malformed"):
            n_replies += 1
            c = clients[int(t[2])]
            rid, q = int(m.group(1)), m.group(2)
            qq = q.split(".")
            if rid != c["id"]:
                report(ctx, f"reply to client {t[2]} carries id {rid}, the client asked with id {c['id']}",
                       {"op": op, "impl": im, "clients": clients, "history": list(hist)}, key=qless_key(hist))
            elif c["nq"] == 0:
                if q != "-":
                    report(ctx, f"reply to client {t[2]}, whose query carried no question, carries question {q}",
                           {"op": op, "impl": im, "clients": clients, "history": list(hist)}, key=QLESS_KEY)
            elif q == "-" or len(qq) not in (3, 4) or int(qq[0]) != c["n"] or int(qq[2]) != c["qt"] \
                    or (int(qq[3]) if len(qq) == 4 else 1) != c["cls"]:
                ctx.report(f"reply to client {t[2]} carries question {q}, the client asked {c['n']}.{c['sp']}.{c['qt']} class {c['cls']}",
                           {"op": op, "impl": im, "clients": clients, "history": list(hist)})
        if "written-" in im or "nothing-written" in im:
            ctx.report(f"client {t[2] if len(t) > 2 else '?'}: {im}", {"op": op, "impl": im})
        mc = re.search(r"cache=(\S+)", im)
        if mc and mc.group(1) != "-":
            for e in mc.group(1).split(","):
                k, v = e.split(">")
                kn, kt, _ = k.split(".")
                vq = v.split("/")[0].split(".")
                if len(vq) != 3 or vq[0] != kn or vq[2] != kt:  # 3 parts = class IN: the cache holds class-IN answers only
                    report(ctx, f"cache entry {e}: stored under a key it is not an answer to",
                           {"op": op, "impl": im, "history": list(hist)}, key=qless_key(hist))
    return n_replies


def oracle_fwd(ctx, ops, impl, label):
    """closes <= 1, no ForwardDNS after Close, and at the end of a history (all goroutines returned)
    retired => closed exactly once."""
    last = None
    for op, im in zip(ops, impl):
        if op.startswith("X "):
            last = None  # abandoned history: its last state is not a quiescent one
            continue
        f = dict(kv.split("=") for kv in im.split() if "=" in kv)
        if "cl" not in f:
            continue
        if int(f["cl"]) > 1:
            ctx.report(f"{label}: forwarder closed {f['cl']} times", {"op": op, "impl": im})
        if int(f["bad"]) > 0:
            ctx.report(f"{label}: ForwardDNS issued on a closed forwarder", {"op": op, "impl": im})
        if int(f["cl"]) >= 1 and int(f.get("busy", "0")) > 0:
            ctx.report(f"{label}: forwarder closed while {f['busy']} query(ies) were in flight on it", {"op": op, "impl": im})
        if op.split()[:2] == ["F", "reset"] and last is not None:
            pf = last[1]
            if pf.get("quiet") and pf["ret"] == "1" and pf["cl"] != "1":
                ctx.report(f"{label}: retired forwarder not closed after its last user returned", {"op": last[0], "impl": last[2]})
        f["quiet"] = f.get("if") == "0" and f.get("pc") == "idle"
        last = (op, f, im)


def oracle_loop(ctx, ops, impl):
    """every forwarder the controller created: Close() at most once, never while one of its exchanges runs, no
    exchange after Close(); once every call has returned, every forwarder but the cached one is closed."""
    hist = []
    for op, im in zip(ops, impl):
        if op.startswith("L reset "):
            hist = []
        hist.append(op + "  =>  " + im)
        if op.startswith("L life "):
            ctx.report("forwardWithDialArg / getOrCreateDnsForwarder / retire: " + op[7:].replace("_", " "),
                       {"op": op, "history": list(hist)})
            continue
        m = re.search(r"fw=(\S*)", im)
        if not m or not m.group(1):
            continue
        for i, f in enumerate(m.group(1).split(",")):
            inf, rt, cl, busy, bad = f.split("/")
            if int(cl) > 1:
                ctx.report(f"c09loop: forwarder {i} closed {cl} times", {"op": op, "impl": im, "history": list(hist)})
            elif int(cl) >= 1 and int(busy) > 0:
                ctx.report(f"c09loop: forwarder {i} closed while {busy} upstream exchange(s) were running on it",
                           {"op": op, "impl": im, "history": list(hist)})
            elif int(bad) > 0:
                ctx.report(f"c09loop: an upstream exchange was started on forwarder {i} after its Close()",
                           {"op": op, "impl": im, "history": list(hist)})


harness_crashes = []


def oracle_pipe(ctx, ops, impl):
    """a message returned by RoundTrip carries the id the call wrote and was sent on the call's own
    connection (the tag encodes the connection the fake upstream sent it on)."""
    reg = {}
    for op, im in zip(ops, impl):
        t = op.split()
        if t[:2] == ["P", "reset"]:
            reg = {}
        elif t[:2] == ["P", "start"] and im == "ok":
            reg[t[2]] = (int(t[3]), int(t[4]))
        elif t[:2] == ["P", "take"] and im.startswith("got=msg:"):
            mid, tag, conn = (int(x) for x in im[len("got=msg:"):].split("."))
            c, i = reg.get(t[2], (-1, -1))
            if mid != i or conn != c:
                ctx.report(f"RoundTrip of waiter {t[2]} (connection {c}, id {i}) returned a message with id {mid} sent on connection {conn}",
                           {"op": op, "impl": im})
        if op.startswith("P harness") and im.startswith("crash:"):
            harness_crashes.append(f"{op} -> {im}")  # a panic of the harness itself (e.g. hook arguments of another shape)
            continue
        if "unexpected:" in im or im.startswith("crash:"):
            # a yield point other than the one this step can reach, or a panic: definite observations
            # (a wait that merely ran out of time is an `X inconclusive` line, never a violation)
            ctx.report(f"pipelined connection: the real code took a step the model does not have: {op} -> {im}", {"op": op, "impl": im})


def run(ctx):
    ctx.trusted += [
        "sync/atomic, sync.Once, sync.Map, x/sync/singleflight, channels behave as linearizable objects (the models' atomic steps)",
        "miekg/dns Pack/Unpack round-trip on the messages used; Msg.Copy is a deep copy",
        "fake upstreams: c09ScriptFwd honours DoUDP's contract (TC=1 => ErrDNSTruncated) which stream c09udp ties to the real DoUDP; a fake exchange entered with a dead context fails",
        "the whole UDP packet-send path is tied by oracles on the implementation only, not by a Lean model (forwardWithDialArg / getOrCreateDnsForwarder incl. the creation race: Lean model `Loop`, stream c09loop)",
        "testing/synctest virtual time (timeouts of 5 s / 8 s pass without wall-clock waiting)",
        "the UDP packet-send path is exercised with a pre-injected loopback Anyfrom socket and real time (oracle on id/question only, races sought by crowds of coalesced waiters, not by schedule control)",
    ]
    ctx.prove(["DaeVerif.C09.Props"], ["DaeVerif.C09.Props"], ["DaeVerif/C09/*.lean"], extra_targets=["c09drv"])
    ctx.required_theorems(REQUIRED)

    total = 0
    distinct = set()
    stats_all = {}
    streams = list(STREAMS)
    hooks = hooks_present()
    shim = write_shim(ctx)
    sched_bin = None
    binp = None
    if len(hooks) == len(HOOK_NAMES):
        # one binary for everything: the yield points compile to nothing observable when no hook is installed
        sched_bin = ctx.go_test_build("control", ["control/c09_test.go", "control/c09_sched_test.go", shim], "c09s", tags="dae_stub_ebpf,verif")
        if not sched_bin:
            return 2
        binp = sched_bin
        ctx.cov["schedule_replay"] = "enabled (yield points present in /repo)"
    else:
        binp = ctx.go_test_build("control", ["control/c09_test.go", shim], "c09")
        if not binp:
            return 2
        missing = [h for h in HOOK_NAMES if h not in hooks]
        ctx.cov["schedule_replay"] = "skipped"
        # the yield points are part of /repo (a7e5501): their absence means the code the proof is about
        # has changed shape; the proof can no longer be tied to it step by step
        ctx.proof_failures.append("yield points missing from /repo, schedule replay impossible: " + ",".join(missing))

    n_replies = 0
    inconclusive = {}
    for name, test in streams + (SCHED_STREAMS if sched_bin else []):
        b = sched_bin if (name, test) in SCHED_STREAMS else binp
        rc, out = ctx.run_harness(b, test)
        ops, impl, model = (os.path.join(ctx.out, name + "." + e) for e in ("ops", "impl", "model"))
        if rc != 0 or not os.path.exists(ops):
            ctx.say("HARNESS-FAILED", test, out[-3000:])
            return 2
        if not ctx.driver("c09drv", ops, model):
            ctx.proof_failures.append("model driver c09drv failed to run on " + name)
        lo, li = read_lines(ops), read_lines(impl)
        if name == "c09ctl":
            n_replies = oracle_ctl(ctx, lo, li)
        if name in ("c09fwd", "c09sched"):
            oracle_fwd(ctx, lo, li, name)
        if name == "c09pipe":
            oracle_pipe(ctx, lo, li)
        if name == "c09loop":
            oracle_loop(ctx, lo, li)
        for op, im in zip(lo, li):
            if ("crash:" in im) and not op.startswith("P harness"):
                ctx.report(f"real code panicked: {im}", {"stream": name, "op": op, "impl": im})
        mism = ctx.diff_streams(ops, impl, model, name)
        mism = [m for m in mism if not m[1].startswith("P harness")]
        shown = keyed_shown = 0
        for ln, op, im, mo in mism:
            if shown >= 6:
                break
            # context: the history since the last reset
            start = max(0, ln - 1)
            while start > 0 and " reset" not in lo[start][:12]:
                start -= 1
            key = qless_key(lo[start:start + 1]) if name == "c09ctl" else None
            if key is None:
                shown += 1
            else:
                # lines of a history with a question-less query: the (listed) finding; they do not use up the budget
                # of reported mismatches
                keyed_shown += 1
                if keyed_shown > 3:
                    continue
            report(ctx, f"implementation differs from proved model ({name} line {ln}): op `{op}` impl `{im}` model `{mo}`",
                   {"stream": name, "line": ln, "op": op, "impl": im, "model": mo,
                    "history": lo[start:ln], "replay": "VERIF_SEED=%d ./check C09 %s" % (ctx.seed, ctx.tier)},
                   key=key)
        n_inc = sum(1 for op in lo if op.startswith("X inconclusive"))
        if n_inc:
            ctx.say(f"NOTE {name}: {n_inc} attempt(s) at a history abandoned (budget expired) and retried")
        for i, (op, im) in enumerate(zip(lo, li)):
            if op.startswith("H hang"):
                start = i
                while start > 0 and " reset" not in lo[start][:12]:
                    start -= 1
                ctx.report(f"the real code does not progress: {op[7:]} ({im}); the model can always take the next step here "
                           f"(every waiter is woken, every call returns)",
                           {"stream": name, "stuck_point": op, "history": lo[start:i + 1]})
        total += len(lo) - n_inc
        for op in lo:
            if " reset" not in op[:10] and not op.startswith("X "):
                distinct.add(name + ":" + op)
        sp = os.path.join(ctx.out, name + ".stats.json")
        if os.path.exists(sp):
            stt = json.load(open(sp))
            stats_all[name] = stt["counters"]
            ctx.samples += (stt.get("samples") or [])[:2]
        ctx.samples += lo[1:3]
    # abandoned attempts (retried), hangs, and what could not be recovered
    unrecovered = {}
    for name, cnt in stats_all.items():
        for k, v in cnt.items():
            if k.endswith("abandoned-attempt") and v:
                inconclusive[name + ":" + k] = v
            if k.endswith("inconclusive-unrecovered") and v:
                unrecovered[name + ":" + k] = v
    ctx.cov["inconclusive_histories"] = {"abandoned_attempts_retried": inconclusive, "unrecovered": unrecovered}
    ctx.cov["input_distribution"] = stats_all
    ctx.cov["client_replies_checked"] = n_replies
    ctx.assumptions = [
        "interleaving granularity of the controller model: arrival / upstream exchange / wake-up of each client (the code between these blocking points runs without yielding to the harness)",
        "DoH/DoQ/DoTLS transports are not executed (they reach the controller through the same ForwardDNS contract)",
    ]
    lines = {k: v["lines"] for k, v in ctx.cov.get("streams", {}).items()}
    short = []
    fl = FLOORS.get(ctx.tier, FLOORS["quick"])
    for name, m in fl["lines"].items():
        if name in lines and lines[name] < m:
            short.append(f"{name}: {lines[name]} op lines compared, floor {m}")
        if name not in lines and not (name in ("c09sched", "c09pipe", "c09loop") and not sched_bin):
            short.append(f"{name}: stream did not run")
    for name, cs in fl["counters"].items():
        for k, m in cs.items():
            if name in stats_all and stats_all[name].get(k, 0) < m:
                short.append(f"{name}: {k} = {stats_all[name].get(k, 0)}, floor {m}")
    # the packet-path oracles only speak about datagrams that were actually read, and about handlers that did overlap
    cc = stats_all.get("c09ctl", {})
    replies = cc.get("ctl.udppath.reply.uncached=true", 0) + cc.get("ctl.udppath.reply.uncached=false", 0)
    if cc.get("ctl.udppath.datagrams-checked", 0) < 0.95 * replies or replies == 0:
        short.append(f"c09ctl: only {cc.get('ctl.udppath.datagrams-checked', 0)} of {replies} packet-path replies were read off the wire")
    big = cc.get("ctl.udppath.big.reply", 0)
    if cc.get("ctl.udppath.big.datagrams-checked", 0) < 0.95 * big or big == 0:
        short.append(f"c09ctl: only {cc.get('ctl.udppath.big.datagrams-checked', 0)} of {big} oversized cached replies were read off the wire")
    if cc.get("ctl.udppath.big.parked-before-send", 0) < 0.8 * big:
        short.append(f"c09ctl: only {cc.get('ctl.udppath.big.parked-before-send', 0)} of {big} oversized-reply handlers overlapped before the send")
    for k, v in unrecovered.items():
        short.append(f"{k} = {v} (histories abandoned at different points on every retry: the machine is not scheduling the harness)")
    ctx.cov["floors"] = {"tier": ctx.tier, "unmet": short}
    test_budget = os.environ.get("VERIF_C09_BUDGET_MS") if os.environ.get("VERIF_C09_SELFTEST") == "1" else None
    if harness_crashes and not ctx.violations and not ctx.proof_failures:
        ctx.say("HARNESS-FAILED property=C09 (the harness itself panicked; not an observation about /repo): " + "; ".join(harness_crashes[:3]))
        return 2
    if short and not ctx.violations and not ctx.proof_failures:
        # not enough of the real code was executed for this run to be evidence of anything: an error of the run,
        # neither OK nor VIOLATION; the evidence file of record is left untouched
        ctx.say("NO-EVIDENCE property=C09: " + "; ".join(short))
        return 2
    saved = None
    ev_path = os.path.join(os.path.dirname(os.path.dirname(os.path.abspath(__file__))), "evidence", "C09.json")
    if test_budget and os.path.exists(ev_path):
        saved = open(ev_path, "rb").read()  # a run with a shortened budget tests the mechanism, it is not evidence of record
    rc = _finish(ctx, total, distinct)
    if saved is not None:
        open(ev_path, "wb").write(saved)
    return rc


def _finish(ctx, total, distinct):
    return ctx.finish(
        rule="one op = one line of a history (U: push/fwd on a pooled UDP socket; F: a call or an atomic step of the forwarder entry; "
             "C: arrive/refuse/resolve/wake/evict of a client of the controller; P: an event on a pipelined connection; "
             "L: one park-to-park segment of a goroutine in forwardWithDialArg / reset / idle eviction); "
             "distinct_nontrivial counts distinct non-reset op lines per stream",
        evaluations=total, distinct=len(distinct))
