"""C08 — the DNS cache serves only live, correctly scoped answers with truthful TTLs."""
import json, os
from verifkit import read_lines

REQUIRED = [
]


def kvs(line):
    return dict(t.split("=", 1) for t in line.split()[1:] if "=" in t)


def run(ctx):
    ctx.trusted += [
        "github.com/miekg/dns Pack/Unpack/CanonicalName (the harness reads the served TTL and answers by unpacking the returned bytes)",
        "sync.Map / atomic operations behave as linearizable maps and cells; one LookupDnsRespCache_ call is modelled as one atomic step "
        "(its only read-modify-write, the refreshing flag, is a CAS; the concurrent-lookup ops sample this)",
        "netip.ParseAddr(host) (the 'pure IP host is not cached' guard) is an input bit of the insert op, not modelled",
        "testing/synctest virtual clock = time.Now() seen by the controller",
        "names are ASCII (strings.ToLower = ASCII lower-casing); TTLs fit in 32 bits (no int64 overflow in now+ttl*1e9)",
    ]
    ctx.prove(["DaeVerif.C08.Props"], ["DaeVerif.C08.Props"], ["DaeVerif/C08/*.lean"], extra_targets=["c08drv"])
    ctx.required_theorems(REQUIRED)

    binp = ctx.go_test_build("control", ["control/c08_test.go"], "c08")
    if not binp:
        return 2
    rc, out = ctx.run_harness(binp, "TestVerifC08")
    ops, impl, model = (os.path.join(ctx.out, "c08." + e) for e in ("ops", "impl", "model"))
    if rc != 0 or not os.path.exists(ops):
        ctx.say("HARNESS-FAILED", out[-3000:])
        return 2
    if not ctx.driver("c08drv", ops, model):
        ctx.proof_failures.append("model driver c08drv failed to run")
    mism = ctx.diff_streams(ops, impl, model, "c08", canon=lambda l: "cov" if l.startswith("cov") else l)
    model_lines = read_lines(model)
    for l in model_lines[-3:]:
        if l.startswith("cov "):
            ctx.cov["model_branch_coverage"] = {k: int(v) for k, v in (t.split("=") for t in l.split()[1:])}

    # history context for a replay: everything since the last `cfg` line
    op_lines = read_lines(ops)
    impl_lines = read_lines(impl)

    def history(ln):
        i = ln - 1
        j = i
        while j > 0 and not op_lines[j].startswith("cfg "):
            j -= 1
        return op_lines[j:i + 1][-80:]

    for ln, op, im, mo in mism[:10]:
        ctx.report(f"implementation differs from proved model at line {ln}: op `{op[:160]}` impl `{im}` model `{mo}`",
                   {"stream": "c08", "line": ln, "op": op, "impl": im, "model": mo,
                    "history_since_cfg": history(ln) if ln > 0 else [],
                    "replay": "VERIF_SEED=%d ./check C08 %s" % (ctx.seed, ctx.tier)})

    n_look = n_hit = 0
    distinct = set()
    for op, im in zip(op_lines, impl_lines):
        if op.startswith("look "):
            n_look += 1
            n_hit += im.startswith("hit")
        # a case = the operation without its absolute clock value
        distinct.add(" ".join(t for t in op.split() if not t.startswith("t=")) + " -> " + im)
        if im.startswith("crash:"):
            ctx.report(f"real code panicked on `{op[:160]}`: {im}", {"op": op, "impl": im})
    stats = json.load(open(os.path.join(ctx.out, "c08.stats.json")))
    ctx.samples = [l for l in op_lines if l.startswith(("look", "insn", "jan", "reload"))][:9] + op_lines[:3]
    ctx.cov["input_distribution"] = stats["counters"]
    ctx.cov["lookups"] = n_look
    ctx.cov["lookup_hits"] = n_hit
    ctx.assumptions = ["histories are generated (seeded); 2-6 colliding (name,type,route) slots per history, clock aimed at deadline/"
                       "stale-window/repack/slack boundaries +-1ns"]
    return ctx.finish(rule="one evaluation = one operation line (key/ins/insn/look/clook/jan/reload/reconf/rdone/rm/rmfam/keys/heap/sift) "
                           "executed by the real DnsController under virtual time and by the Lean model; distinct_nontrivial counts "
                           "distinct (operation without clock value, implementation answer) pairs",
                      evaluations=len(op_lines), distinct=len(distinct))
