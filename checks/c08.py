"""C08 — the DNS cache serves only live, correctly scoped answers with truthful TTLs."""
import json, os
from verifkit import read_lines

REQUIRED = ["DaeVerif.C08.Props." + n for n in [
    "lookup_in_history", "served_only_live_and_scoped", "fresh_ttl_within_slack", "fresh_ttl_within_slack_nanos",
    "stale_served_at_once", "refresh_only_when_none_in_flight", "in_flight_refreshes_distinct",
    "fixed_ttl_applies", "fixed_ttl_absent", "key_case_insensitive", "key_injective", "base_of_response_key",
    "janitor_time_step", "janitor_keeps", "janitor_evicts_least_recently_used", "heap_selects_oldest",
    "lookup_and_insert_stamp_last_access", "cfg_in_force", "fresh_served", "latest_insert_wins", "removed_is_gone",
    "latch_is_per_object_and_released_per_key", "request_key_injective", "request_key_class_IN",
    "request_touches_only_its_key", "entry_ttl_is_minimum_over_answers", "reject_purges_every_scope",
]]


DNSCFG_FALLBACK = '''// FALLBACK copy of the dns{}-recording statements of NewControlPlane (the translator could not extract them).
package control

import (
	"reflect"
	"unsafe"

	"github.com/daeuniverse/dae/component/dns"
	"github.com/daeuniverse/dae/config"
)

const c08ProductionRecordDNSMode = "FALLBACK copy"

func c08SetField(plane *ControlPlane, name string, val any) bool {
	f := reflect.ValueOf(plane).Elem().FieldByName(name)
	if !f.IsValid() {
		return false
	}
	reflect.NewAt(f.Type(), unsafe.Pointer(f.UnsafeAddr())).Elem().Set(reflect.ValueOf(val))
	return true
}

func c08ProductionRecordDNS(plane *ControlPlane, dnsConfig *config.Dns, dnsUpstream *dns.Dns) (*DnsControllerOption, error) {
	fixedDomainTtl, err := ParseFixedDomainTtl(dnsConfig.FixedDomainTtl)
	if err != nil {
		return nil, err
	}
	plane.dnsRouting = dnsUpstream
	plane.dnsFixedDomainTtl = fixedDomainTtl
	has := c08SetField(plane, "dnsOptimisticCache", dnsConfig.OptimisticCache)
	c08SetField(plane, "dnsOptimisticCacheTtl", dnsConfig.OptimisticCacheTtl)
	c08SetField(plane, "dnsMaxCacheSize", dnsConfig.MaxCacheSize)
	c08SetField(plane, "dnsIpVersionPrefer", dnsConfig.IpVersionPrefer)
	opt := plane.dnsControllerOption()
	if !has {
		opt.OptimisticCache, opt.OptimisticCacheTtl, opt.MaxCacheSize = dnsConfig.OptimisticCache, dnsConfig.OptimisticCacheTtl, dnsConfig.MaxCacheSize
	}
	return opt, nil
}
'''


def dnscfg_overlay(ctx, fallback=False):
    """The statements with which NewControlPlane records dns{} and builds the DnsControllerOption,
    regenerated from /repo's current control_plane.go (translators/c08dnscfg)."""
    from verifkit import sh, go_env, CACHE, VERIF, REPO
    gen = os.path.join(ctx.out, "gen")   # per run directory (locked by verifkit): no sharing between runs
    os.makedirs(gen, exist_ok=True)
    outp = os.path.join(gen, "c08dnscfg.go")
    if os.path.exists(outp):
        os.unlink(outp)
    mode = "regenerated from control_plane.go"
    if not fallback:
        rc, out, dt = sh(["go", "run", "main.go", os.path.join(REPO, "control"), outp],
                         cwd=os.path.join(VERIF, "translators", "c08dnscfg"), env=go_env(), timeout=600)
        ctx.log.write(f"$ c08dnscfg [{dt:.1f}s rc={rc}] {out}\n")
        if rc != 0:
            fallback, mode = True, "FALLBACK copy (not extractable: %s)" % out.strip()[-200:]
    else:
        mode = "FALLBACK copy (the regenerated statements did not compile in the harness)"
    if fallback:
        open(outp, "w").write(DNSCFG_FALLBACK)
    # the question -> key function of the request path: questionCacheKey where the tree has it
    shim = os.path.join(gen, "c08shim.go")
    has = "func (c *DnsController) questionCacheKey(" in open(os.path.join(REPO, "control", "dns_control.go")).read()
    call = "c.questionCacheKey(q)" if has else "c.cacheKey(q.Name, q.Qtype)"
    open(shim, "w").write("package control\n\nimport dnsmessage \"github.com/miekg/dns\"\n\n"
                          "func c08QuestionKey(c *DnsController, q dnsmessage.Question) string { return %s }\n" % call)
    return {os.path.join(REPO, "control", "zz_verif_c08dnscfg.go"): outp,
            os.path.join(REPO, "control", "zz_verif_c08shim.go"): shim}, mode


SCHED_HOOKS = ["dnscache.lookup.start", "dnscache.lookup.afterLoad", "dnscache.insert.beforeStore",
               "dnscache.rdone.start", "dnscache.rdone.afterLoad", "dnscache.rdone.beforeMark",
               "dnscache.janitor.start", "dnscache.janitor.afterLoad"]
# The yield points are proposed in design_notes/C08.hooks.patch.  Until they are part of /repo the
# schedule replay is skipped (said in the evidence); once committed, set this to True: their absence then
# means the code changed shape and the step-by-step tie of Conc.lean is gone.
SCHED_HOOKS_REQUIRED = True


def sched_hooks_present():
    from verifkit import REPO
    src = ""
    for f in ("dns_control.go", "dns_control_optimistic.go"):
        try:
            src += open(os.path.join(REPO, "control", f)).read()
        except OSError:
            pass
    return [h for h in SCHED_HOOKS if 'verifYield("%s"' % h in src]


def arms_floor(ctx):
    # the hammer stops at its time budget on a slow box: fewer releases than this did not test much
    return 20000


def kvs(line):
    return dict(t.split("=", 1) for t in line.split()[1:] if "=" in t)


def run(ctx):
    ctx.trusted += [
        "github.com/miekg/dns Pack/Unpack/CanonicalName (the harness reads the served TTL and answers by unpacking the returned bytes)",
        "sync.Map / atomic operations behave as linearizable maps and cells; one LookupDnsRespCache_ call is modelled as one atomic step "
        "(its only read-modify-write, the refreshing flag, is a CAS; the concurrent-lookup ops sample this)",
        "netip.ParseAddr(host) (the 'pure IP host is not cached' guard) is an input bit of the insert op, not modelled",
        "testing/synctest virtual clock = time.Now() seen by the controller",
        "names are ASCII (strings.ToLower = ASCII lower-casing); TTLs fit in 32 bits (no int64 overflow in now+ttl*1e9)",
        "the refresh latch is the ghost latchStep: set by the lookup that returns needRefresh, released by a clean-up on the key. "
        "That every needRefresh=true starts a refresh whose clean-up runs is the caller's business: the request-path stream (ask ops) "
        "executes the real callers, and one of them (post-singleflight lookup) is known to drop needRefresh (observation G3)",
        "production reloads reuse a controller only with an identical dns{} section (cmd.dnsConfigEqual, not executed: package cmd); "
        "the five assignments that record dns{} on the ControlPlane are replicated by the harness, the option builder and "
        "ReuseDNSControllerFrom/CloneDnsCache are the real ones",
        "the latch hammer and the burst scenario are statistical (real scheduling); everything else is deterministic per seed",
        "wall clock and monotonic clock agree (deadline.After vs UnixNano comparisons); under synctest they do",
        "key_injective assumes question names without the '|' character",
    ]
    ctx.prove(["DaeVerif.C08.Props"], ["DaeVerif.C08.Props"], ["DaeVerif/C08/*.lean"], extra_targets=["c08drv"])
    ctx.required_theorems(REQUIRED)

    hooks = sched_hooks_present()
    sched = len(hooks) == len(SCHED_HOOKS)
    files = ["control/c08_test.go"] + (["control/c08_sched_test.go"] if sched else [])
    tags = "dae_stub_ebpf,verif" if sched else "dae_stub_ebpf"
    ov, mode = dnscfg_overlay(ctx)
    binp = ctx.go_test_build("control", files, "c08", tags=tags, extra_overlay=ov)
    if not binp:
        ov, mode = dnscfg_overlay(ctx, fallback=True)
        binp = ctx.go_test_build("control", files, "c08", tags=tags, extra_overlay=ov)
    if not binp:
        return 2
    if sched:
        ctx.cov["schedule_replay"] = "enabled (yield points dnscache.* present in /repo)"
    else:
        ctx.cov["schedule_replay"] = ("skipped: yield points not in /repo (design_notes/C08.hooks.patch); missing: "
                                      + ",".join(h for h in SCHED_HOOKS if h not in hooks))
        if SCHED_HOOKS_REQUIRED:
            ctx.proof_failures.append("yield points missing from /repo, schedule replay of Conc.lean impossible: "
                                      + ",".join(h for h in SCHED_HOOKS if h not in hooks))
    ctx.cov["dns_section_recording_statements"] = mode
    rc, out = ctx.run_harness(binp, "TestVerifC08")
    ops, impl, model = (os.path.join(ctx.out, "c08." + e) for e in ("ops", "impl", "model"))
    if rc != 0 or not os.path.exists(ops):
        ctx.say("HARNESS-FAILED", out[-3000:])
        return 2
    if not ctx.driver("c08drv", ops, model):
        ctx.proof_failures.append("model driver c08drv failed to run")
    mism = ctx.diff_streams(ops, impl, model, "c08", canon=lambda l: "cov" if l.startswith("cov") else l)
    sched_lines = 0
    sched_stats = {}
    if sched:
        rc, out = ctx.run_harness(binp, "TestVerifC08Sched")
        sops, simpl, smodel = (os.path.join(ctx.out, "c08sched." + e) for e in ("ops", "impl", "model"))
        if rc != 0 or not os.path.exists(sops):
            ctx.say("HARNESS-FAILED", out[-3000:])
            return 2
        if not ctx.driver("c08drv", sops, smodel):
            ctx.proof_failures.append("model driver c08drv failed to run on the schedule stream")
        smism = ctx.diff_streams(sops, simpl, smodel, "c08sched")
        s_ops, s_impl = read_lines(sops), read_lines(simpl)
        sched_lines = len(s_ops)
        for ln, op, im, mo in smism[:5]:
            i = ln - 1
            j = i
            while j > 0 and not s_ops[j].startswith("cinit "):
                j -= 1
            ctx.report(f"schedule replay: the real code differs from the transition system of Conc.lean at line {ln}: "
                       f"step `{op}` impl `{im}` model `{mo}`",
                       {"stream": "c08sched", "line": ln, "op": op, "impl": im, "model": mo,
                        "schedule_since_cinit": list(zip(s_ops[j:i + 1], s_impl[j:i + 1]))[-60:],
                        "replay": "VERIF_SEED=%d ./check C08 %s" % (ctx.seed, ctx.tier)})
        for im in s_impl:
            if "crash:" in im:
                ctx.report(f"real code panicked during schedule replay: {im}", {"impl": im})
        sched_stats = json.load(open(os.path.join(ctx.out, "c08sched.stats.json")))["counters"]
        ctx.cov["schedule_replay_distribution"] = sched_stats
    model_lines = read_lines(model)
    for l in model_lines[-3:]:
        if l.startswith("cov "):
            ctx.cov["model_branch_coverage"] = {k: int(v) for k, v in (t.split("=") for t in l.split()[1:])}

    # history context for a replay: everything since the last `cfg` line
    op_lines = read_lines(ops)
    impl_lines = read_lines(impl)

    def history(ln):
        i = ln - 1
        j = i
        while j > 0 and not op_lines[j].startswith("cfg "):
            j -= 1
        return op_lines[j:i + 1][-80:]

    for ln, op, im, mo in mism[:10]:
        ctx.report(f"implementation differs from proved model at line {ln}: op `{op[:160]}` impl `{im}` model `{mo}`",
                   {"stream": "c08", "line": ln, "op": op, "impl": im, "model": mo,
                    "history_since_cfg": history(ln) if ln > 0 else [],
                    "replay": "VERIF_SEED=%d ./check C08 %s" % (ctx.seed, ctx.tier)})

    # Property-level oracles on the implementation's own answers in the three bracketed scenarios
    # (each was a genuine defect of the pinned tree, repaired by a `fix:` commit; see known_findings.jsonl).
    def segment(name):
        try:
            a = op_lines.index(f"note {name} begin")
            b = op_lines.index(f"note {name} end")
        except ValueError:
            return None
        return list(zip(op_lines[a + 1:b], impl_lines[a + 1:b]))

    seg = segment("fixed-ttl-case")
    if seg is not None:
        looks = [im for op, im in seg if op.startswith("look ")]
        # lower-case question then mixed-case question: both must get the fixed TTL 10 (hit before +10 s, miss after)
        ok = len(looks) == 4 and all(l.startswith("hit") and "ttl=10 " in l for l in (looks[0], looks[2])) \
            and looks[1] == "miss" and looks[3] == "miss"
        if not ok:
            ctx.report("fixed_domain_ttl is not applied independently of the case of the question name: "
                       "fixed_domain_ttl{ddns.example.org:10}, reply TTL 3600; lookups at +9 s/+11 s after a lower-case and "
                       f"after a mixed-case question: {looks}", {"scenario": seg}, key="c08-fixed-ttl-case-sensitive")
    seg = segment("lru-after-refresh")
    if seg is not None:
        jan = [im for op, im in seg if op.startswith("jan ")]
        keys = [im for op, im in seg if op == "keys"]
        a_key = "612e746573742e31"  # a.test.1
        if not (jan and a_key not in jan[0] and keys and a_key in keys[0]):
            ctx.report("LRU eviction removed the entry that was used and refreshed last (a.test) instead of the older one: "
                       f"janitor {jan}, left {keys}", {"scenario": seg}, key="c08-lru-insert-not-a-use")
    seg = segment("failed-refresh")
    if seg is not None:
        looks = [im for op, im in seg if op.startswith("look ")]
        if not (len(looks) == 3 and looks[1].startswith("hit") and looks[1].endswith("rf=1")
                and looks[2].startswith("hit") and looks[2].endswith("rf=0")):
            ctx.report("a background refresh that ended without a new answer did not leave the stale answer served inside "
                       f"its window with the latch released: lookups {looks}", {"scenario": seg},
                       key="c08-failed-refresh-evicts-stale")

    seg = segment("concurrent-stale-ttl")
    if seg is not None:
        bad = []
        for op, im in seg:
            if op.startswith("clookttl ") and "maxttl=" in im:
                t = int(kvs(op)["t"])
                left = 86400 - (t - 946684800000000000) // 1000000000
                if int(im.split("maxttl=")[1]) > left + 15:
                    bad.append((op, im, left))
        if bad:
            ctx.report("simultaneous lookups of a name that had been idle: one was answered with the TTL packed before the idle "
                       f"period — {bad[0][1]} with {bad[0][2]} s of lifetime left (slack 15 s); {len(bad)} of 50 bursts",
                       {"scenario": bad[:5]}, key="c08-concurrent-lookup-stale-packed-ttl")
    seg = segment("shortest-answer-ttl")
    if seg is not None:
        looks = [im for op, im in seg if op.startswith("look ")]
        if not (len(looks) == 2 and looks[0].startswith("hit") and looks[1] == "miss"):
            ctx.report("a reply [first record TTL 3600, second record TTL 30] is still served 600 s later (the entry must live as "
                       f"long as its shortest-lived answer record): lookups at +29 s / +600 s: {looks}", {"scenario": seg},
                       key="c08-first-answer-ttl-only")
    seg = segment("fixed-ttl-trailing-dot")
    if seg is not None:
        looks = [im for op, im in seg if op.startswith("look ")]
        if not (len(looks) == 2 and looks[0].startswith("hit") and "ttl=10 " in looks[0] and looks[1] == "miss"):
            ctx.report("fixed_domain_ttl{ddns.example.org.: 10} (trailing dot) is not applied: reply TTL 3600, lookups at "
                       f"+9 s / +11 s: {looks}", {"scenario": seg}, key="c08-fixed-ttl-trailing-dot")
    seg = segment("negative-window")
    if seg is not None:
        tries = [im for op, im in seg if op.startswith("cfgtry ")]
        if not (len(tries) == 2 and all(x == "cfg rejected" for x in tries)):
            ctx.report(f"a negative optimistic_cache_ttl is accepted as a configuration (unbounded stale window, no time "
                       f"eviction): {tries}", {"scenario": seg}, key="c08-negative-stale-window-unbounded")
    seg = segment("reuse-reload-config")
    if seg is not None:
        recs = [im for op, im in seg if op.startswith("reconf ")]
        looks = [im for op, im in seg if op.startswith("look ")]
        if not (len(recs) == 2 and all(r == "reconf opt=1 stale=300 max=50" for r in recs)
                and looks and looks[-1].startswith("hit")):
            ctx.report("a reload with an unchanged dns{} section (ReuseDNSControllerFrom) did not keep optimistic_cache=true, "
                       f"optimistic_cache_ttl=300, max_cache_size=50: {recs}; stale lookup 95 s into the window: {looks}",
                       {"scenario": seg}, key="c08-reuse-reload-drops-cache-config")

    n_look = n_hit = 0
    distinct = set()
    for op, im in zip(op_lines, impl_lines):
        if op.startswith("look "):
            n_look += 1
            n_hit += im.startswith("hit")
        # a case = the operation without its absolute clock value
        distinct.add(" ".join(t for t in op.split() if not t.startswith("t=")) + " -> " + im)
        if im.startswith("crash:"):
            ctx.report(f"real code panicked on `{op[:160]}`: {im}", {"op": op, "impl": im})
    stats = json.load(open(os.path.join(ctx.out, "c08.stats.json")))
    ctx.samples = [l for l in op_lines if l.startswith(("look", "insn", "jan", "reload"))][:9] + op_lines[:3]
    ctx.cov["input_distribution"] = stats["counters"]
    ctx.cov["lookups"] = n_look
    ctx.cov["lookup_hits"] = n_hit
    ctx.assumptions = ["histories are generated (seeded); 2-6 colliding (name,type,route) slots per history, clock aimed at deadline/"
                       "stale-window/repack/slack boundaries +-1ns"]
    # Generator floors (quick-tier sizes; thorough is larger): an input class the theorems are tied on
    # that is generated less often than this means the check did not look — exit 2, not OK.
    floors_in = {"op.ask": 1500, "op.jan_real_ticker": 1500, "op.cpreload_reuse": 15, "op.cpreload_new_controller": 12,
                 "op.reconf_with_real_janitor": 8, "ask.class_CH": 80, "ask.simultaneous_identical_requests": 100,
                 "ask.stale_hit_started_refresh": 60, "lookup.when.at_deadline": 40, "lookup.when.at_window_end": 20,
                 "lookup.when.fresh_last_ns": 25, "lookup.when.expired_first_ns": 40, "lookup.when.window_end_plus_1ns": 12,
                 "insert.access_callback_fails": 40, "op.self_restore": 50, "race.latch_releases_hammered": 20000,
                 "insert.reply_class_not_IN": 40, "key.class_not_IN": 100, "insert.not_cacheable_reply": 200,
                 "janitor.evicted_by_real_ticker": 200, "history.ignore_fixed_ttl_heavy": 12,
                 # request path: routes, faults, concurrency (phase 3)
                 "ask.route.up": 300, "ask.route.reject": 150, "ask.route.redial_second_upstream": 50,
                 "ask.route.response_routing_drops_answers": 80, "ask.fault.upstream_exchange_fails": 25,
                 "ask.fault.no_dialer": 20, "ask.fault.upstream_answers_another_question": 25,
                 "ask.fault.client_gone_at_write": 20, "ask.refresh_failed": 4, "ask.forward_failed": 50,
                 "ask.reject_purged_entries": 10, "ask.simultaneous_requests_to_different_resolvers": 50,
                 "ask.reload_with_changed_routing": 60, "dnscfg.from_text": 40,
                 "reply.min_ttl_last": 300, "reply.min_ttl_middle": 100, "reply.min_ttl_first": 150,
                 "reply.answer_records=9_or_more": 150, "insert.ttl_at_one_year_clamp_or_uint32_max": 150,
                 "cfg.fixed_ttl_written_in_another_base": 40}
    if not stats["counters"].get("race.evict_hammer_skipped_fewer_than_3_cpus"):
        floors_in["race.fresh_answers_stored_under_eviction_fire"] = 1500
    floors_br = {"fresh.packed_exact": 80, "fresh.packed_within_slack": 500, "fresh.packed_slack_exactly_15": 50,
                 "fresh.repacked": 300, "fresh.fallback_unpackable": 120, "fresh.fallback_packed_path_expired": 12,
                 "stale.first_triggers_refresh": 250, "stale.refresh_already_in_flight": 120,
                 "expired.evict_beyond_window": 150, "expired.evict_not_optimistic": 300, "expired.evict_unpackable": 40,
                 "expired.evict_origdeadline_only": 3, "jan.time_evicted": 500, "jan.lru_evicted": 150}
    sized = [v for v in ("C08_HIST", "C08_ASK", "C08_RACE") if os.environ.get(v)]
    counters = stats["counters"]
    if counters.get("race.hammer_skipped_fewer_than_3_cpus"):
        # the latch hammer needs real parallelism; without it the CAS on the refresh latch is tied only by the
        # (deterministic) simultaneous-lookup rounds — said in the evidence, not an error
        floors_in.pop("race.latch_releases_hammered")
        ctx.cov["latch_hammer"] = "skipped: fewer than 3 usable CPUs"
    else:
        ctx.cov["latch_hammer"] = "%d releases, %d looping goroutines" % (
            counters.get("race.latch_releases_hammered", 0), counters.get("race.hammer_goroutines", 0))
        if counters.get("race.latch_releases_hammered", 0) < arms_floor(ctx):
            floors_in["race.latch_releases_hammered"] = arms_floor(ctx)
    low = [f"{k}={counters.get(k, 0)}<{v}" for k, v in floors_in.items() if counters.get(k, 0) < v]
    if sched:
        floors_sched = {"sched.histories": 300, "sched.steps": 2500, "sched.thread.lookup": 400,
                        "sched.thread.refresh_cleanup": 150, "sched.thread.janitor": 60,
                        "sched.thread.insert_stale": 150, "sched.thread.insert_dead": 60, "sched.thread.insert_fresh": 60}
        low += [f"{k}={sched_stats.get(k, 0)}<{v}" for k, v in floors_sched.items() if sched_stats.get(k, 0) < v]
        if sched_stats.get("sched.inconclusive_history", 0) >= 5:
            low.append("sched.inconclusive_history>=5 (the machine did not schedule the goroutines)")
    br = ctx.cov.get("model_branch_coverage", {})
    low += [f"{k}={br.get(k, 0)}<{v}" for k, v in floors_br.items() if br.get(k, 0) < v]
    ctx.cov["generator_floors"] = {"inputs": floors_in, "model_branches": floors_br, "below": low,
                                   "size_overrides": {v: os.environ[v] for v in sized}}
    if not ctx.violations and not ctx.proof_failures:
        if sized:
            # a run with reduced / overridden stream sizes is a replay aid, never a verdict
            ctx.say("GENERATOR-SIZES-OVERRIDDEN", ", ".join(f"{v}={os.environ[v]}" for v in sized),
                    "- no verdict without the generator floors; unset them for a check run")
            ctx.finish(rule="stream sizes overridden by environment: floors not applicable", evaluations=len(op_lines),
                       distinct=len(distinct))
            return 2
        if low and not ctx.violations:
            ctx.say("GENERATOR-BELOW-FLOOR", ", ".join(low))
            ctx.finish(rule="generator floors not met", evaluations=len(op_lines), distinct=len(distinct))
            return 2
    return ctx.finish(rule="one evaluation = one operation line (key/ins/insn/look/clook/jan/reload/reconf/rdone/rm/rmfam/keys/heap/sift) "
                           "executed by the real DnsController under virtual time and by the Lean model; distinct_nontrivial counts "
                           "distinct (operation without clock value, implementation answer) pairs",
                      evaluations=len(op_lines) + sched_lines, distinct=len(distinct))
