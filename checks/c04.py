"""C04 — rule normalisation never changes what the rules mean."""
import json, os
from verifkit import read_lines

REQUIRED = [
]


def run(ctx):
    ctx.prove(["DaeVerif.C04.Props"], ["DaeVerif.C04.Props"], ["DaeVerif/C04/*.lean"], extra_targets=["c04drv"])
    ctx.required_theorems(REQUIRED)
    binp = ctx.go_test_build("control", ["control/c04_test.go"], "c04")
    if not binp:
        return 2
    rc, out = ctx.run_harness(binp, "TestVerifC04")
    ops, impl, model = (os.path.join(ctx.out, "c04." + e) for e in ("ops", "impl", "model"))
    if rc != 0 or not os.path.exists(ops):
        ctx.say("HARNESS-FAILED", out[-3000:])
        return 2
    if not ctx.driver("c04drv", ops, model):
        ctx.proof_failures.append("model driver c04drv failed to run")
    mism = ctx.diff_streams(ops, impl, model, "c04")
    for ln, op, im, mo in mism[:10]:
        ctx.report(f"line {ln}: impl `{im[:200]}` model `{mo[:200]}`", {"line": ln, "op": op, "impl": im, "model": mo})
    return ctx.finish(rule="", evaluations=len(read_lines(ops)), distinct=0)
