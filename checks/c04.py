"""C04 — rule normalisation never changes what the rules mean.

prove : lean/DaeVerif/C04 (Props = property theorems, axioms audited)
tie   : harness/overlay/control/c04_test.go        traffic / DNS request / DNS response:
          real optimizer pipeline -> real builder -> real matcher, per packet, against the model
        harness/overlay/component/daedns/c04_test.go internal selectors sub/node/subnode
        every line carries  opt= (normalised AST)  or  dec= (compiled decision) spec= (first match
        over the rules as written); impl and model lines must be identical and dec must equal spec.
"""
import json, os
from concurrent.futures import ThreadPoolExecutor
from verifkit import read_lines

REQUIRED = [
    "DaeVerif.C04.Props.traffic_compiled_decides_as_written",
    "DaeVerif.C04.Props.dns_request_compiled_decides_as_written",
    "DaeVerif.C04.Props.dns_response_compiled_decides_as_written",
    "DaeVerif.C04.Props.internal_selectors_decide_as_written",
    "DaeVerif.C04.Props.selector_matcher_is_first_match",
    "DaeVerif.C04.Props.node_lookup_decides_as_written",
    "DaeVerif.C04.Props.own_node_lookup_decides_as_written",
    "DaeVerif.C04.Props.own_subscription_lookup_decides_as_written",
    "DaeVerif.C04.Props.shared_optimizer_history_is_cache_free",
    "DaeVerif.C04.Props.cached_pipelines_are_the_pipelines",
    "DaeVerif.C04.Props.datreader_pool_every_schedule",
    "DaeVerif.C04.Props.no_router_only_without_rules",
    "DaeVerif.C04.Props.key_congruence_needed",
    "DaeVerif.C04.Props.keyGeo_congr",
    "DaeVerif.C04.Props.must_shorthand_preserves_meaning",
    "DaeVerif.C04.Props.alias_and_geodata_preserve_meaning",
    "DaeVerif.C04.Props.geodata_preserves_meaning",
    "DaeVerif.C04.Props.sorting_conditions_preserves_meaning",
    "DaeVerif.C04.Props.sorting_values_preserves_meaning",
    "DaeVerif.C04.Props.merging_neighbours_preserves_meaning",
    "DaeVerif.C04.Props.merge_and_sort_preserves_meaning",
    "DaeVerif.C04.Props.dedup_preserves_meaning",
    "DaeVerif.C04.Props.compiled_program_is_first_match",
    "DaeVerif.C04.Props.split_is_category_guard",
    "DaeVerif.C04.Props.same_normal_form_same_meaning",
    "DaeVerif.C04.Props.merge_of_negated_neighbours_unsound",
    "DaeVerif.C04.Props.merge_needs_parameters_or_false_reading",
    "DaeVerif.C04.Props.ex_pipeline",
    "DaeVerif.C04.Props.ex_compiled",
]

STREAMS = [
    # (stream name, package dir, harness file, test name)
    ("c04", "control", "control/c04_test.go", "TestVerifC04"),
    ("c04sel", "component/daedns", "component/daedns/c04_test.go", "TestVerifC04Sel"),
]


def fields(line):
    return dict(kv.split("=", 1) for kv in line.split(" ") if "=" in kv and not kv.startswith("opt="))


def pd_backend(descr, cur):
    return descr[cur].get("backend") if cur is not None else None


def analyse(ctx, name, agg):
    """diff impl/model line by line, check dec == spec on both sides, build replays."""
    ops_p, impl_p, model_p, descr_p = (os.path.join(ctx.out, f"{name}.{e}") for e in ("ops", "impl", "model", "descr"))
    # the model line carries two extra fields (generator sensitivity, merged-rule flag) that have no
    # counterpart on the implementation side
    strip = lambda l: " ".join(t for t in l.split(" ") if not t.startswith(("sens=", "m=")))
    mism = ctx.diff_streams(ops_p, impl_p, model_p, name, canon=strip)
    ops, impl, model = read_lines(ops_p), read_lines(impl_p), read_lines(model_p)
    descr = [json.loads(l) for l in read_lines(descr_p)]
    known = {k.get("key"): k for k in ctx.known}
    bad_lines = {ln for ln, _, _, _ in mism if ln > 0}
    if mism and mism[0][0] == 0:
        ctx.report(f"{name}: {mism[0][1]}", {"stream": name})
    # A normalised AST that differs from the model's is tolerated when the two programs are equal up
    # to value order / multiplicity and condition order (Props.same_normal_form_same_meaning): ask the
    # driver.  Decisions (q lines) are still compared exactly.
    cand = []
    for ln in sorted(bad_lines):
        im, mo = impl[ln - 1] if ln - 1 < len(impl) else "", model[ln - 1] if ln - 1 < len(model) else ""
        if im.startswith("opt=") and mo.startswith("opt=") and " split=" in im and " split=" in mo:
            ia, isp = im[4:].rsplit(" split=", 1)
            ma, msp = mo[4:].rsplit(" split=", 1)
            if isp == msp and ia != "err" and ma != "err":
                cand.append((ln, ia, ma))
    if cand:
        nf_ops, nf_out = os.path.join(ctx.out, name + ".nf.ops"), os.path.join(ctx.out, name + ".nf.model")
        open(nf_ops, "w").write("".join(f"N {a} | {b}\n" for _, a, b in cand))
        if ctx.driver("c04drv", nf_ops, nf_out):
            for (ln, _, _), ans in zip(cand, read_lines(nf_out)):
                if ans == "nf=1":
                    bad_lines.discard(ln)
                    agg["benign_ast_drift"] += 1
    n = min(len(ops), len(impl), len(model), len(descr))
    # A production constructor (config.New, dns.New, NewWithOption) that starts rejecting the harness's minimal
    # configuration for a reason unrelated to routing rules would turn every decision of a backend into `err`
    # while the same rules still build through the builders (raw=): that is harness breakage, not a violation.
    tot, broke, cur_b = {}, {}, None
    for i in range(n):
        if descr[i].get("kind") == "P":
            cur_b = descr[i].get("backend")
        elif ops[i].startswith("q ") and cur_b:
            fi, fm = fields(impl[i]), fields(model[i])
            tot[cur_b] = tot.get(cur_b, 0) + 1
            if fi.get("dec") == "err" and fm.get("dec") not in ("err", None) and fi.get("raw") not in ("err", None):
                broke[cur_b] = broke.get(cur_b, 0) + 1
    broken = {b for b in tot if tot[b] >= 40 and broke.get(b, 0) > 0.5 * tot[b]}
    agg["broken"] |= broken
    cur = None           # index of the current P line
    reported_prog = set()
    for i in range(n):
        d = descr[i]
        if d.get("kind") == "P":
            cur = i
            agg["programs"] += 1
            if d.get("changed"):
                agg["programs_changed"] += 1
        elif d.get("kind") == "x":
            ctx.report(f"the parser accepts a form the model assumes it rejects: {d.get('text')}", {"stream": name, "line": i + 1, "descr": d})
            continue
        why = None
        if d.get("kind") == "pipeline":
            if (i + 1) in bad_lines:
                fi_, fm_ = fields(impl[i]), fields(model[i])
                site = d.get("backend")
                executed = site in ("dnsreq", "dnsresp", "daedns") or \
                    str(ctx.cov.get("production_optimizer_chain", "")).startswith("regenerated")
                msg = f"the {site} call site reads {impl[i]}; the theorems are about {model[i]}"
                if site in ("dnsreq", "dnsresp", "daedns"):
                    # dns.New / NewWithOption are executed for real: whatever the call site looks like, its effect is
                    # in every decision of the stream; the source reading is a diagnostic only
                    ctx.say("NOTE: " + msg + " (site is executed, not a coverage failure)")
                elif fi_.get("pipeline") == fm_.get("pipeline") and fi_.get("glue") == fm_.get("glue") and executed:
                    # only an option field differs and the production expressions themselves are compiled in
                    ctx.say("NOTE: " + msg + " (the production optimizer expressions are executed)")
                else:
                    # the proofs are about another composition: a proof-coverage failure, not a failing input
                    ctx.say("  call site not covered: " + msg)
                    ctx.proof_failures.append(msg)
            continue
        if (i + 1) in bad_lines:
            why = "implementation differs from the proved model"
            if d.get("kind") == "shared":
                why = "a DatReaderOptimizer that has already served other rule lists normalises this one differently from a fresh optimizer (geodata cache)"
        if ops[i].startswith("q "):
            agg["evaluations"] += 1
            fi = fields(impl[i])
            pd = descr[cur] if cur is not None else {}
            if pd.get("changed"):
                agg["distinct"].add((cur, ops[i]))
            agg["decisions"].add(fi.get("dec"))
            fm = fields(model[i])
            for j, k in enumerate(("sens_negated_merge", "sens_value_only_dedup", "sens_outbound_by_name")):
                if fm.get("sens", "000")[j:j + 1] == "1":
                    agg[k] += 1
            if fm.get("m") == "1":
                agg["decided_by_merged_rule"] += 1
            if fi.get("raw") not in ("err", None) and fi.get("dec") not in ("err", None) and fi.get("raw") != fi.get("dec"):
                why = "the normalised program decides differently from the un-normalised one (both compiled by the real builder)"
            if fi.get("dec") not in ("err", None) and fi.get("dec") != fi.get("spec"):
                why = "the compiled program decides differently from the rules as written"
        if why is None:
            continue
        if pd_backend(descr, cur) in broken:
            continue
        agg["flagged_lines"] += 1
        if (cur, why) in reported_prog or len(reported_prog) >= 8:   # at most 8 replays per stream
            continue
        reported_prog.add((cur, why))
        agg["flagged_programs"].add((name, cur))
        pd = descr[cur] if cur is not None else {}
        if d.get("kind") == "shared" and d.get("tag"):
            pd = d
        tag = pd.get("tag", "")
        what = f"{why} [{pd.get('backend', name)}] rules: {' ; '.join(pd.get('text', []))} ; fallback: {pd.get('fallback')}"
        if ops[i].startswith("q "):
            what += f" | input: {d.get('pkt')} | real code: {impl[i]} | model: {model[i]}"
        else:
            what += f" | normalised by real code: {impl[i][:300]} | by model: {model[i][:300]}"
        if tag in known and known[tag].get("kind") == "fixed":
            what = f"[witness program of fix {known[tag].get('commit')} {tag}] " + what
        ctx.report(what, {
            "stream": name, "line": i + 1, "backend": pd.get("backend"), "tag": tag,
            "rules_as_written": pd.get("text"), "fallback": pd.get("fallback"), "input": d.get("pkt"),
            "impl": impl[i], "model": model[i], "op_program": ops[cur] if cur is not None else None, "op": ops[i],
            "replay": "VERIF_SEED=%d ./check C04 %s   # deterministic; line %d of .cache/run/C04-%s-%d/%s.ops"
                      % (ctx.seed, ctx.tier, i + 1, ctx.tier, ctx.seed, name)})
    return ops


def run(ctx):
    ctx.trusted += [
        "leaf matching (does ONE value of a function match a packet/question) is not modelled: it is the parameter `atom` of the theorems; the harness obtains it from the real builder+matcher on one-value programs (that a function's values are alternatives — any-of — is what this tie checks for every leaf kind; per-leaf correctness is C01/C11/C12)",
        "geodata file decoding (pkg/geodata) is the parameter `Geo`; the harness reads the content through the real DatReaderOptimizer on generated .dat files",
        "the model's input assumption ParserWF (no f(), no rule without a function) is what config_parser enforces; the harness re-checks it on every run",
        "the OR/AND/NOT scan is DaeVerif.RuleScan.scanAux (shared with C01/C07, tied to RoutingMatcher.Match there); here the real Match functions are exercised end to end",
    ]
    # prove and build the two harness binaries side by side (3 jobs), then run drivers + analysis
    here = os.path.dirname(os.path.dirname(os.path.abspath(__file__)))
    streams = [s for s in STREAMS if os.path.exists(os.path.join(here, "harness", "overlay", s[2]))]

    def harness(stream):
        name, pkg, hfile, test = stream
        extra = None
        if pkg == "control":
            # the optimizer expressions of NewControlPlane's NewNormalizedProgram call, regenerated from
            # control_plane.go as Go code and compiled into the harness: the traffic stream EXECUTES them
            extra, mode = ctx.optchain_overlay()
            binp = ctx.go_test_build(pkg, [hfile], name, pkgname=os.path.basename(pkg), extra_overlay=extra)
            if not binp and not mode.startswith("FALLBACK"):
                extra, mode = ctx.optchain_overlay(fallback=True)
                binp = ctx.go_test_build(pkg, [hfile], name, pkgname=os.path.basename(pkg), extra_overlay=extra)
            ctx.cov["production_optimizer_chain"] = mode
            if mode.startswith("FALLBACK"):
                # the call site is not a list of inline literals any more; the harness then runs the documented
                # list, and the `pipeline traffic` line (go/ast reading of the site, which also understands a
                # slice variable) decides whether that list is still what production passes
                ctx.say("NOTE: traffic optimizer chain: " + mode)
        else:
            binp = ctx.go_test_build(pkg, [hfile], name, pkgname=os.path.basename(pkg))
        if not binp:
            return None
        return ctx.run_harness(binp, test)

    with ThreadPoolExecutor(max_workers=3) as ex:
        fprove = ex.submit(ctx.prove, ["DaeVerif.C04.Props"], ["DaeVerif.C04.Props"], ["DaeVerif/C04/*.lean"], ["c04drv"])
        fh = [ex.submit(harness, s) for s in streams]
        fprove.result()
        results = [f.result() for f in fh]
    ctx.required_theorems(REQUIRED)

    agg = {"programs": 0, "programs_changed": 0, "evaluations": 0, "distinct": set(), "decisions": set(),
           "benign_ast_drift": 0, "flagged_lines": 0, "flagged_programs": set(),
           "sens_negated_merge": 0, "sens_value_only_dedup": 0, "sens_outbound_by_name": 0, "decided_by_merged_rule": 0,
           "broken": set()}
    sample_ops, dist = [], {}
    for (name, pkg, hfile, test), res in zip(streams, results):
        if res is None:
            return 2
        rc, out = res
        ops_p, model_p = os.path.join(ctx.out, name + ".ops"), os.path.join(ctx.out, name + ".model")
        if rc != 0 or not os.path.exists(ops_p):
            ctx.say("HARNESS-FAILED", out[-3000:])
            return 2
        if not ctx.driver("c04drv", ops_p, model_p):
            ctx.proof_failures.append(f"model driver c04drv failed to run on {name}")
        ops = analyse(ctx, name, agg)
        stats = json.load(open(os.path.join(ctx.out, name + ".stats.json")))
        dist.update({f"{name}:{k}": v for k, v in stats["counters"].items()})
        sample_ops += stats["samples"][:4]
        sample_ops += [o[:400] for o in ops[:2]]
    ctx.samples = sample_ops
    ctx.cov["input_distribution"] = dist
    ctx.cov["programs"] = agg["programs"]
    ctx.cov["programs_changed_by_normalisation"] = agg["programs_changed"]
    ctx.cov["distinct_decisions_seen"] = len(agg["decisions"])
    ctx.cov["ast_differs_but_same_normal_form"] = agg["benign_ast_drift"]
    ctx.cov["flagged_lines"] = agg["flagged_lines"]
    for k in ("sens_negated_merge", "sens_value_only_dedup", "sens_outbound_by_name", "decided_by_merged_rule"):
        ctx.cov[k] = agg[k]
    ctx.cov["flagged_programs"] = len(agg["flagged_programs"])
    # generator-quality floors: the random streams must keep producing inputs on which the known wrong
    # variants of the optimizers would decide differently (measured quick seed 1: 298 / 28 / 76 / 1917)
    floors = {"sens_negated_merge": 50, "sens_value_only_dedup": 5, "sens_outbound_by_name": 15, "decided_by_merged_rule": 300}
    dfl = {"c04:traffic.rules_through_real_config.New": 600, "c04:dnsreq.matcher_from_real_dns.New": 250,
           "c04:dnsresp.matcher_from_real_dns.New": 250, "c04sel:programs_built_by_real_NewWithOption": 120,
           "c04:sharedcache.checks": 100, "c04:lpm.constructed_hash_collisions": 3, "c04:gen.must_shorthand_outbounds": 100,
           "c04sel:programs_with_empty_rule_list": 5, "c04sel:fallback.alidns": 20, "c04sel:fallback.reject": 20,
           "c04sel:nodeall.decision.subnode_rule": 20, "c04sel:nodeall.decision.node_rule_after_subnode_miss": 20,
           # dae's own lookups through the production path (WrapNodeDialer / WrapSubscriptionDialer + selectUpstream)
           "c04sel:own.decision.by_selector_rule": 150, "c04sel:own.decision.by_ordinary_rule_on_the_question": 50,
           "c04sel:own.decision.by_request_fallback": 60, "c04sel:ownsub.decision.by_selector_rule": 80,
           "c04sel:ownsub.decision.by_ordinary_rule_on_the_question": 80, "c04sel:own.decision.by_ordinary_rule_passthrough": 8,
           "c04sel:gen.ordinary_rule_with_asis_or_reject": 25,
           # one config.Dns object consumed by several constructors in a row
           "c04sel:history.programs_decided_by_second_router": 25, "c04sel:history.request_matcher_of_third_consumer_dns.New": 25,
           # the long-lived optimizer's cache: entries hit again, also under another spelling of the reference
           "c04:sharedcache.hit_on_entry_stored_under_the_same_spelling": 60,
           "c04:sharedcache.hit_on_entry_stored_under_another_spelling": 40,
           "c04:gen.one_list_same_reference_twice": 60, "c04:gen.one_list_same_cache_key_in_two_spellings": 5,
           "c04sel:parser.rejects_parameterless_forms": 7,
           # fault injection: a geodata load failing in the first / a middle / the last rule of a list; the fault history
           # of the long-lived optimizer (file absent -> present -> gone again)
           "c04:fault.load_error_in_the_first_rule": 10, "c04:fault.load_error_in_a_middle_rule": 5,
           "c04:fault.load_error_in_the_last_rule": 5, "c04:fault.load_error_with_loadable_references_in_later_rules": 5,
           "c04:sharedcache.fault_history.runs": 1, "c04:sharedcache.fault_history.stale_entry_served_after_the_file_is_gone": 1}
    if agg["broken"] and not ctx.violations:
        ctx.say("HARNESS-BROKEN: the production constructor rejects (almost) every generated program of "
                + ", ".join(sorted(agg["broken"])) + " although the same rules build through the rule builders; "
                "the harness's minimal configuration needs updating (not a violation of C04)")
        ctx.finish(rule="production constructor rejects generated programs", evaluations=agg["evaluations"], distinct=len(agg["distinct"]))
        return 2
    floor_fail = []
    if not ctx.violations and not ctx.proof_failures:
        for k, v in floors.items():
            if agg[k] < v:
                floor_fail.append(f"{k}={agg[k]} < {v}")
        for k, v in dfl.items():
            if dist.get(k, 0) < v:
                floor_fail.append(f"{k}={dist.get(k, 0)} < {v}")
    if floor_fail:
        ctx.say("GENERATOR-FLOOR not reached (the run proves nothing about those input classes): " + "; ".join(floor_fail))
        ctx.finish(rule="floors not reached", evaluations=agg["evaluations"], distinct=len(agg["distinct"]))
        return 2
    if dist.get("c04sel:latent.hand_built_ast.paramless_selector_MERGED_AWAY"):
        ctx.say("NOTE: latent (no configuration can trigger it, the parser rejects f()): a hand-built AST `sub() -> x ; sub(a) -> x` "
                "is merged into `sub(a) -> x` by MergeAndSortRulesOptimizer (see design_notes/C04.md, goal 0)")
    for k in ("c04sel:history.written_rules_mutated_by_a_consumer", "c04:sharedcache.result_DIFFERS_from_fresh_optimizer",
              "c04:fault.load_error_but_real_pipeline_SUCCEEDED"):
        if dist.get(k):
            ctx.say(f"NOTE: {k} = {dist[k]}")
    if agg["benign_ast_drift"]:
        ctx.say(f"NOTE: {agg['benign_ast_drift']} normalised programs differ from the model's AST but have the same normal form (same meaning by theorem); not a violation")
    ctx.assumptions = [
        "rule lists, geodata and packets/questions are generated (seeded, neighbour-heavy runs of rules sharing function/alias twin, negation and outbound; repeated and overlapping values; mixed keys; near-miss outbounds); the witness programs of the C04 fix commits (seven: negated merge, empty expansion, truncated outbound key, dedup key collision, selector catch-all, empty daedns list, cache key file case) are replayed first on every run",
    ]
    return ctx.finish(
        rule="one evaluation = one (rule list, geodata, packet or DNS question or selector input) triple pushed through the real pipeline+builder+matcher and through the model; "
             "distinct_nontrivial = distinct (program, atom-truth-vector) pairs whose program was actually changed by merge/sort/dedup",
        evaluations=agg["evaluations"], distinct=len(agg["distinct"]))
