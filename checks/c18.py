"""C18 — the dial target follows dial_mode: IPs by default, names only when allowed."""
import json, os
from verifkit import read_lines

REQUIRED = [
    "DaeVerif.C18.Props.ip_target_when_ip_mode_or_no_name_or_reserved",
    "DaeVerif.C18.Props.domain_mode_name_iff_genuine",
    "DaeVerif.C18.Props.domain_mode_otherwise_ip",
    "DaeVerif.C18.Props.genuine_iff",
    "DaeVerif.C18.Props.domain_plus_name_unconditionally",
    "DaeVerif.C18.Props.domain_cao_name_and_reroute",
    "DaeVerif.C18.Props.domain_cao_routed_again_with_name",
    "DaeVerif.C18.Props.domain_cao_route_failure",
    "DaeVerif.C18.Props.route_consulted_at_name_only",
    "DaeVerif.C18.Props.no_reroute_keeps_outbound",
    "DaeVerif.C18.Props.control_plane_routing_dial",
    "DaeVerif.C18.Props.genuine_stable",
    "DaeVerif.C18.Props.domain_mode_genuine_dial",
    "DaeVerif.C18.Props.retry_makes_same_decision",
    "DaeVerif.C18.Props.ip_literal_normalised",
    "DaeVerif.C18.Props.bracketed_literal_same_as_bare",
    "DaeVerif.C18.Props.carried_port_kept",
    "DaeVerif.C18.Props.plain_name_joined",
    "DaeVerif.C18.Props.name_target_well_formed",
    "DaeVerif.C18.Props.ip_literal_target_well_formed",
    "DaeVerif.C18.Props.ip_target_well_formed",
    "DaeVerif.C18.Props.sniffed_value_no_port_left",
    "DaeVerif.C18.Props.sniffed_value_target",
    "DaeVerif.C18.Props.sniffed_plain_name",
    "DaeVerif.C18.Props.sniffed_host_port",
    "DaeVerif.C18.Props.sniffed_bracketed_literal",
    "DaeVerif.C18.Props.knowledge_only_from_resolution_within_ttl",
    "DaeVerif.C18.Props.knowledge_names_the_resolved_name",
    "DaeVerif.C18.Props.knowledge_holds_until_original_ttl",
    "DaeVerif.C18.Props.knowledge_key_ignores_case",
    "DaeVerif.C18.Props.dns_response_ignored_unless_noerror",
    "DaeVerif.C18.Props.dns_noerror_is_a_resolution",
    "DaeVerif.C18.Props.real_set_only_from_positive_probe",
    "DaeVerif.C18.Props.real_set_bounded",
    "DaeVerif.C18.Props.genuine_name_has_witness",
    "DaeVerif.C18.Props.negative_cached_name_not_used",
    "DaeVerif.C18.Props.reroute_rechooses_target",
    "DaeVerif.C18.Props.reroute_failure_no_dial",
    "DaeVerif.C18.Props.unknown_name_requests_probe",
    "DaeVerif.C18.Props.probe_outcomes",
    "DaeVerif.C18.Props.second_probe_is_noop",
    # phase 3: asynchronous probe, janitor sweep, generations, faults, handleConn, sniff negative cache
    "DaeVerif.C18.Props.probe_is_start_then_finish",
    "DaeVerif.C18.Props.negative_entry_stamped_from_probe_start",
    "DaeVerif.C18.Props.one_probe_in_flight_per_name",
    "DaeVerif.C18.Props.trigger_joins_probe_in_flight",
    "DaeVerif.C18.Props.negative_set_has_one_entry_per_name",
    "DaeVerif.C18.Props.neg_cleanup_invisible",
    "DaeVerif.C18.Props.new_generation_keeps_only_dns_knowledge",
    "DaeVerif.C18.Props.dns_update_fault_all_or_nothing",
    "DaeVerif.C18.Props.sniff_policy",
    "DaeVerif.C18.Props.conn_not_sniffed_dials_ip",
    "DaeVerif.C18.Props.conn_suppressed_dials_ip",
    "DaeVerif.C18.Props.conn_sniffed_is_dialled_by_the_table",
    "DaeVerif.C18.Props.sniffed_host_value_target",
    "DaeVerif.C18.Props.conn_missing_tuple_routes_in_userspace",
    "DaeVerif.C18.Props.dial_mark_follows_reroute",
    "DaeVerif.C18.Props.sniff_suppression_needs_threshold_failures",
    "DaeVerif.C18.Props.sniff_success_clears_and_entries_expire",
]


def run(ctx):
    ctx.trusted += [
        "Go stdlib / miekg-dns functions are re-modelled in Lean (net.SplitHostPort, net.JoinHostPort, netip.ParseAddr success, "
        "netip.AddrPort.String, strconv.Itoa, dns.CanonicalName, strings.TrimSpace/ToLower on ASCII) and differential-tested on every run; "
        "not verified against their sources",
        "realDomainSet is a Bloom filter sized for 2048 names at p=0.001 and cleared when 2048 names have been added (fix 08fa06d): "
        "modelled as an exact set with the same counter and clear; the residual design false-positive rate (<= 0.001 within capacity) "
        "is the one approximation; the constructor parameters are checked in the source text, the clear threshold by the `sat` episode",
        "the dial-target table is checked for TCP dials (routeDial, incl. retry after ENETUNREACH and give-up after ECONNREFUSED/timeout). "
        "UDP (handlePkt, not driven) deliberately always sends realDst.String() to the node (udp.go: 'Keep UDP target pinned to original "
        "destination IP'); the decision UDP takes from chooseProxyDialer(Network:\"udp\") — outbound after the re-route by name, strict "
        "family flag — is driven (`pick` op). handleConn -> routeDial wiring is not driven by C18",
        "c.Route(src,dst,name,metadata) is an oracle `route name`: the harness calls the real Route with the name and metadata it expects "
        "(routing itself is C01/C07), so 'routed again using that name' is tied only where another name / dropped metadata routes differently; "
        "dialer selection inside the group is C15",
        "dial_mode wiring: text -> config_parser.Parse -> config.New -> consts.ParseDialMode is executed (`cfg`); the hop into "
        "ControlPlane.dialMode (newControlPlaneWithContextOptions, not executed) is a source-text check (parsed variable stored, not re-assigned)",
        "tunables read from the running code and passed to the driver: realDomainNegativeCacheTTL, minFirefoxCacheTtl, realDomainProbeTimeout; "
        "literal in model and harness: filter capacity 2048 / 0.001, one-year TTL clamp",
        "testing/synctest virtual time; the asynchronous probe is awaited with synctest.Wait, i.e. compared at quiescence (plus: a second call "
        "while the probe is blocked in the resolver, the real probe-context timeout, one cache-janitor run whose evicted keys are observed)",
    ]
    ctx.prove(["DaeVerif.C18.Props"], ["DaeVerif.C18.Props"], ["DaeVerif/C18/*.lean"], extra_targets=["c18drv"])
    ctx.required_theorems(REQUIRED)

    binp = ctx.go_test_build("control", ["control/c18_test.go", "control/c18_conn_test.go"], "c18")
    if not binp:
        return 2
    rc, out = ctx.run_harness(binp, "TestVerifC18")
    ops, impl, model = (os.path.join(ctx.out, "c18." + e) for e in ("ops", "impl", "model"))
    if rc != 0 or not os.path.exists(ops):
        ctx.say("HARNESS-FAILED", out[-3000:])
        return 2
    if not ctx.driver("c18drv", ops, model):
        ctx.proof_failures.append("model driver c18drv failed to run")
    # a failure of the harness's own scaffolding (kernel map update …) is no evidence either way
    hfail = [(o, i) for o, i in zip(read_lines(ops), read_lines(impl)) if i.startswith("harness:")]
    if hfail:
        ctx.say("HARNESS-FAILED", "; ".join(f"`{o[:120]}` -> {i}" for o, i in hfail[:3]))
        return 2
    mism = ctx.diff_streams(ops, impl, model, "c18")

    # the production constructor of the verified-name filter (the harness builds its ControlPlane by literal)
    import re
    src = open(os.path.join(os.environ.get("VERIF_REPO", "/repo"), "control", "control_plane.go"), encoding="utf-8").read()
    m = re.search(r"realDomainSet:\s*bloom\.NewWithEstimates\(([^,]+),\s*([^)]+)\)", src)
    cap = None
    if m:
        cap = m.group(1).strip()
        if cap == "realDomainSetCapacity":
            mc = re.search(r"const\s+realDomainSetCapacity\s*=\s*(\d+)", src)
            cap = mc.group(1) if mc else None
    needs_update = []
    if not m or cap is None or not cap.isdigit():
        # the source-text check does not recognise the construction any more (renamed constant, helper …):
        # nothing is known either way -> the check needs an update, that is not a violation
        needs_update.append("cannot find `realDomainSet: bloom.NewWithEstimates(<n>, <p>)` with a literal or "
                            "realDomainSetCapacity capacity in control/control_plane.go")
    elif cap != "2048" or m.group(2).strip() != "0.001":
        ctx.report("the verified-name filter is not constructed as the model assumes (bloom.NewWithEstimates(2048, 0.001)): "
                   + m.group(0), {"file": "control/control_plane.go"})

    ops_l, impl_l = read_lines(ops), read_lines(impl)
    distinct = set()
    n_decisions = 0
    for op, im in zip(ops_l, impl_l):
        kind = op.split(" ", 1)[0]
        if kind in ("cdt", "dial", "conn", "cdth"):
            n_decisions += 1
            distinct.add(op)
        if " ORACLE:" in im:
            ctx.report("dial-target property violated by the implementation (independent of the model): "
                       + im.split(" ORACLE:", 1)[1] + f" on `{op}` -> `{im}`",
                       {"op": op, "impl": im, "replay": "VERIF_SEED=%d ./check C18 %s  (the op stream is a function of the seed)" % (ctx.seed, ctx.tier)})
        if im.startswith("crash:"):
            ctx.report(f"real code panicked on `{op}`: {im}", {"op": op, "impl": im})
    # context for a mismatch: the episode prefix (ops since the last reset) makes the replay self-contained
    STDLIB_OPS = {"pa": "netip.ParseAddr", "shp": "net.SplitHostPort", "jhp": "net.JoinHostPort", "ap": "netip.AddrPort.String",
                  "canon": "miekg dns.CanonicalName"}
    for ln, op, im, mo in mism[:10]:
        kind0 = op.split(" ", 1)[0]
        if kind0 in STDLIB_OPS:
            ctx.report(f"stdlib model drift (no dae code involved): {STDLIB_OPS[kind0]} differs from its Lean re-model at line {ln}: "
                       f"op `{op}` real `{im}` model `{mo}` — update Model.lean to the new library behaviour and re-prove",
                       {"stream": "c18", "line": ln, "op": op, "impl": im, "model": mo})
            continue
        if kind0 == "resv":
            ctx.report(f"the set of built-in (reserved) outbound indices changed: `{op}` IsReserved={im}, model {mo} — "
                       "the decision table's first row depends on it; update isReserved in Model.lean if intended",
                       {"stream": "c18", "line": ln, "op": op, "impl": im, "model": mo})
            continue
        start = ln - 1
        while start > 0 and ops_l[start - 1] != "reset":
            start -= 1
        prefix = ops_l[max(start - 1, 0):ln] if op.split(" ", 1)[0] in ("cdt", "dial", "has", "look", "dns", "rm", "rmf", "evict", "reload", "close", "dnsresp", "conn", "connend", "cdth", "rel", "relx", "gen", "negclean", "sneg", "cdt2", "pick") else [op]
        ctx.report(f"implementation differs from proved model at line {ln}: op `{op}` impl `{im}` model `{mo}`",
                   {"stream": "c18", "line": ln, "op": op, "impl": im, "model": mo, "episode": prefix[-60:],
                    "replay": "VERIF_SEED=%d ./check C18 %s  (the op stream is a function of the seed)" % (ctx.seed, ctx.tier)})
    # config wiring: the mode parsed from global.dial_mode is the one stored in the control plane
    # (the `cfg` op executes text -> config_parser.Parse -> config.New -> ParseDialMode; the last hop,
    # a struct literal in newControlPlaneWithContextOptions, is checked in the source, rename-tolerant)
    mv = re.search(r"(\w+)\s*,\s*\w+\s*:?=\s*consts\.ParseDialMode\(\s*[\w.]*DialMode\s*\)", src)
    ml = re.search(r"\bdialMode:\s+([^,\n]+),", src)
    if not mv or not ml:
        needs_update.append("cannot find `<v>, err := consts.ParseDialMode(global.DialMode)` / the `dialMode:` field of the "
                            "control plane literal in control/control_plane.go")
    else:
        var = mv.group(1)
        between = src[mv.end():ml.start()]
        # the stored value must be the parsed one: same variable (or one alias `x := var`), never re-assigned in between
        alias = re.search(r"\b(\w+)\s*:=\s*" + re.escape(var) + r"\s*\n", between)
        names = {var} | ({alias.group(1)} if alias else set())
        reassigned = [n for n in names if re.search(r"(?<![\w.:=!<>])" + re.escape(n) + r"\s*=[^=]", between)]
        if ml.group(1).strip() not in names or reassigned:
            ctx.report("dial_mode wiring changed: the mode stored in controlPlaneGenerationState.dialMode is not (only) "
                       "consts.ParseDialMode(global.DialMode)"
                       + (": `%s` is re-assigned before it is stored" % reassigned[0] if reassigned else
                          ": `dialMode: %s`" % ml.group(1).strip()), {"file": "control/control_plane.go"})

    stats = json.load(open(os.path.join(ctx.out, "c18.stats.json")))
    # generator floors (quick-tier values / ~4): below a floor the run proves nothing about that row -> exit 2
    FLOORS = {"cdt.domain-row.knowledge": 150, "cdt.domain-row.verified": 60, "cdt.domain-row.negative-cached": 15,
              "cdt.domain-row.unknown": 400, "cdt.domain-row.ip-like": 100, "cdt.mode.ip": 400, "cdt.mode.domain+": 400,
              "cdt.mode.domain++": 400, "cdt.outbound.reserved": 800, "op.cdt2.in-flight": 50, "op.janitor.evicted": 50,
              "op.janitor.lru-evicted": 10, "op.cfg": 40, "dial.retried": 200, "dial.retried.different-decision": 10,
              "dial.with-metadata": 400, "dial.rerouted": 300, "op.dnsresp.nodata": 100, "op.dnsresp.error-rcode": 400,
              "op.rmf": 300, "op.evict": 200, "op.reload": 60, "op.close": 60, "probe.timeout-scripted": 100,
              "op.sat": 1, "op.has.true": 200, "cdt.probe": 300, "op.pipe-scenario": 50, "op.dnsresp.name-with-bar": 100,
              "op.dns.name-with-bar": 100, "dial.refused-or-timeout": 200, "pick.udp.rerouted": 50,
              "pick.udp.mode.domain": 100, "pick.udp.mode.ip": 30,
              # phase 3
              "conn.kernel-tuple": 1000, "conn.tuple-missing": 100, "conn.kind.http": 300, "conn.kind.tls": 250,
              "conn.kind.silent": 150, "conn.kind.opaque": 200, "conn.kind.httpnohost": 150, "conn.kind.tlsnosni": 150,
              "conn.mode.ip": 200, "conn.mode.domain": 600, "conn.mode.domain+": 200, "conn.mode.domain++": 200,
              "conn.result.name-dialled": 80, "conn.result.routed-in-userspace": 200, "conn.local-addr-ipv4-mapped": 250,
              "conn.sniff-suppressed": 120, "conn.sniff-suppressed.sniffable-payload": 70, "conn.burst": 120,
              "op.cdth.probe-held": 150, "op.cdth.joined-the-probe-in-flight": 8, "op.rel": 120, "op.rel.after-time-passed": 20,
              "op.held-expired": 12, "op.adv.while-probe-held": 30, "op.slow-probe-scenario": 60,
              "op.gen.reuse": 150, "op.gen.restore": 150, "op.gen.with-probe-in-flight": 10,
              "op.negclean": 150, "op.negclean.kept-live": 15, "op.sneg": 150, "op.sneg.entry": 10,
              "op.dns.fault1": 70, "op.dns.fault2": 70, "op.dnsresp.fault1": 35, "op.dnsresp.fault2": 35, "op.reload.fault2": 8,
              "dial.rerouted.mark-replaced": 70}
    low = {k: (stats["counters"].get(k, 0), v) for k, v in FLOORS.items() if stats["counters"].get(k, 0) < v}
    ctx.cov["floors"] = FLOORS
    ctx.samples = (stats["samples"] or []) + [o for o in ops_l if o.startswith(("cdt ", "dial "))][:5] + \
        [o for o in ops_l if o.startswith("conn ")][:4] + [o for o in ops_l if o.startswith(("cdth ", "rel ", "gen "))][:3] + ops_l[300:302]
    ctx.cov["input_distribution"] = stats["counters"]
    ctx.cov["decisions"] = n_decisions
    ctx.assumptions = [
        "sniffed strings, destinations, outbounds, DNS/probe histories are generated (seeded); names fed to "
        "NormalizeDomain / CanonicalName / the DNS cache are ASCII (bytes >= 0x80 only on the pure string paths)",
        "histories are sequential: interleavings of the caches (sync.Map, RWMutex, singleflight) finer than the driven ones are not explored",
        "DNS questions are class IN; production key shapes only (\"\" or questionCacheKey|scope built by the real responseCacheKey)",
    ]
    if needs_update and not ctx.violations:
        ctx.say("CHECK-NEEDS-UPDATE (source-text checks of checks/c18.py do not recognise the code any more):", "; ".join(needs_update))
        ctx.finish(rule="source-text check out of date", evaluations=len(ops_l), distinct=len(distinct))
        return 2
    if low and not ctx.violations:
        ctx.say("GENERATOR-BELOW-FLOOR", json.dumps(low))
        ctx.finish(rule="generator below floor", evaluations=len(ops_l), distinct=len(distinct))
        return 2
    return ctx.finish(rule="one evaluation = one op line compared between real code and model (pure string functions, state "
                           "transitions, ChooseDialTarget and routeDial decisions); distinct_nontrivial counts distinct "
                           "cdt/dial op lines (they include the destination and the probe script, so this is NOT a count of table cells; "
                           "the cells hit are the cdt.mode.*, cdt.domain-row.*, cdt.outbound.*, cdt.class.* counters)",
                      evaluations=len(ops_l), distinct=len(distinct))
