"""C01 — traffic is routed by the first matching rule, exactly as the rules are written."""
import json, os, collections
from verifkit import read_lines

REQUIRED = [
    "DaeVerif.C01.Props.match_is_first_match",
    "DaeVerif.C01.Props.match_by_position_is_first_match",
    "DaeVerif.C01.Props.condition_meaning",
    "DaeVerif.C01.Props.port_range_inclusive",
    "DaeVerif.C01.Props.negated_mac_never_matches_zero_mac",
    "DaeVerif.C01.Props.negated_mac_nonzero",
    "DaeVerif.C01.Props.pname_unknown_never_matches",
    "DaeVerif.C01.Props.unknown_literals_never_match",
    "DaeVerif.C01.Props.dip_ipv4_mapped",
    "DaeVerif.C01.Props.must_rules_continues",
    "DaeVerif.C01.Props.non_matching_rule_skipped",
    "DaeVerif.C01.Props.first_final_decides",
    "DaeVerif.C01.Props.match_bytes_is_first_match",
    "DaeVerif.C01.Props.outbound_in_reserved_range_misroutes",
    "DaeVerif.C01.Props.route_ipversion_condition",
    "DaeVerif.C01.Props.route_packet_wf",
    "DaeVerif.C01.Props.route_is_first_match",
    "DaeVerif.C01.Props.compiled_negated_mac_never_matches_zero_mac",
    "DaeVerif.C01.Props.compiled_pname_unknown_never_matches",
    "DaeVerif.C01.Props.compiled_port_range_inclusive",
    "DaeVerif.C01.Props.compiled_first_final_decides",
    "DaeVerif.C01.Props.match_by_lpm_index_is_first_match",
    "DaeVerif.C01.Props.lpm_index_in_range",
    "DaeVerif.C01.Props.shared_slot_same_set",
    "DaeVerif.C01.Props.rule_outbound_meaning",
    "DaeVerif.C01.Props.fallback_outbound_meaning",
    "DaeVerif.C01.Props.must_prefix_sets_must",
    "DaeVerif.C01.Props.must_rules_reserved",
    "DaeVerif.C01.Props.last_mark_wins",
    "DaeVerif.C01.Props.resolved_program_outs_ok",
    "DaeVerif.C01.Props.route_text_is_first_match",
    "DaeVerif.C01.Props.group_table_refuses_too_many",
    "DaeVerif.C01.Props.group_table_accepts",
    "DaeVerif.C01.Props.port_text_single",
    "DaeVerif.C01.Props.port_text_bounds",
    "DaeVerif.C01.Props.port_text_leading_zero",
    "DaeVerif.C01.Props.value_text_examples",
    "DaeVerif.Compose.match_with_real_domain_matcher",
    "DaeVerif.Compose.empty_name_satisfies_no_domain_condition",
]


def ids_overlay(ctx):
    """translators/c01ids: the statements of NewControlPlane that build outboundName2Id, as a function of
    package control.  None (→ exit 2) when the anchor no longer has the expected shape."""
    from verifkit import sh, go_env, VERIF, REPO
    gen = os.path.join(ctx.out, "gen")
    os.makedirs(gen, exist_ok=True)
    outp = os.path.join(gen, "c01ids.go")
    if os.path.exists(outp):
        os.unlink(outp)
    rc, out, dt = sh(["go", "run", "main.go", os.path.join(REPO, "control"), outp],
                     cwd=os.path.join(VERIF, "translators", "c01ids"), env=go_env(), timeout=600)
    ctx.log.write(f"$ c01ids [{dt:.1f}s rc={rc}] {out}\n")
    if rc != 0 or not os.path.exists(outp):
        ctx.say("TRANSLATOR-FAILED c01ids (the group-table statements of NewControlPlane are no longer where the "
                "translator expects them):", out[-1500:])
        return None
    ctx.cov["group_table_guard"] = out.strip()[-200:]
    return {os.path.join(REPO, "control", "zz_verif_c01ids.go"): outp}


def run(ctx):
    ctx.trusted += [
        "Common/RuleScan.scan_lower (proved in the same build) — the generic OR/AND/NOT scan = first match",
        "C12 theorems (trie query = CIDR containment) are used for ip/mac conditions; pkg/trie internals are C11's subject",
        "composition (Compose.match_with_real_domain_matcher): with C11's proved model of the real domain matcher built from the builder's AddSet calls the oracle disappears for full/suffix/keyword patterns (regex stays an oracle); the driver executes that composed path (packed tries of the C11 model) on every packet that carries a name and flags any difference; "
        "domain key-group truth is an oracle per packet (computed by the harness with a reference matcher for full/suffix/keyword/regex on lower-case names; the bit's meaning is property C11); the real Match uses the real AhocorasickSlimtrie",
        "the generator's typed program is the meaning of the text it renders (rendering code in harness/overlay/control/c01_test.go) — "
        "no longer for ports, DSCP, MACs, l4proto/ipversion literals and outbounds: the model receives those AS TEXT and parses them itself "
        "(Text.lean, Outbound.lean); still so for addresses (netip.ParsePrefix) and for the condition structure",
        "LPM slots: the driver runs C12's sharing machine with the real FNV-1a hash; the theorem (match_by_lpm_index_is_first_match) holds for every hash function",
        "group table: NewControlPlane's statements are executed through a function regenerated from control_plane.go (translators/c01ids, fails closed); the dialer groups themselves are not built",
    ]
    ctx.prove(["DaeVerif.C01.Props", "DaeVerif.Compose.Routing"], ["DaeVerif.C01.Props", "DaeVerif.Compose"],
              ["DaeVerif/C01/*.lean", "DaeVerif/Compose/*.lean", "DaeVerif/Common/RuleScan.lean"],
              extra_targets=["c01drv"])
    ctx.required_theorems(REQUIRED)

    # the three source translators are independent: c01ids runs beside the other two
    import threading
    ids_box = {}
    ids_thread = threading.Thread(target=lambda: ids_box.update(ov=ids_overlay(ctx)))
    ids_thread.start()
    fake = ctx.fake_bpf_overlay()
    if not fake:
        ids_thread.join()
        return 2
    # the optimizer chain of NewControlPlane, regenerated from control_plane.go on every run
    files = ["control/c01_test.go", "control/c01_ext_test.go", "control/c12_test.go"]
    chain_ov, chain_mode = ctx.optchain_overlay()
    # NewControlPlane's group-table statements (the `len(outbounds) > OutboundUserDefinedMax` guard, the
    # duplicate check, the id assignment), regenerated from control_plane.go on every run; fails closed
    ids_thread.join()
    ids_ov = ids_box.get("ov")
    if ids_ov is None:
        return 2
    binp = ctx.go_test_build("control", files, "c01", tags="", extra_overlay={**fake, **chain_ov, **ids_ov})
    if not binp and not chain_mode.startswith("FALLBACK"):
        # the call site no longer has the shape `routing.NewNormalizedProgram(rules, fallback, <literals>…)`:
        # fall back to the chain as it was when this check was written, and say so
        chain_ov, chain_mode = ctx.optchain_overlay(fallback=True)
        binp = ctx.go_test_build("control", files, "c01", tags="", extra_overlay={**fake, **chain_ov, **ids_ov})
    if not binp:
        return 2
    ctx.cov["production_optimizer_chain"] = chain_mode
    ctx.trusted.append("optimizer chain used by the harness: " + chain_mode + " (translators/optchain)")
    rc, out = ctx.run_harness(binp, "TestVerifC01")
    ops, impl, model = (os.path.join(ctx.out, "c01." + e) for e in ("ops", "impl", "model"))
    if rc != 0 or not os.path.exists(ops):
        ctx.say("HARNESS-FAILED", out[-3000:])
        return 2
    # the diagnostic second pass of the model driver (which rule decided) runs beside the first
    import subprocess, re
    binp_drv = os.path.join(os.path.dirname(os.path.dirname(os.path.abspath(__file__))), "lean", ".lake", "build", "bin", "c01drv")
    diag_path = os.path.join(ctx.out, "c01.diag")
    diag_proc = subprocess.Popen([binp_drv, "--diag"], stdin=open(ops), stdout=open(diag_path, "wb")) if os.path.exists(binp_drv) else None
    if not ctx.driver("c01drv", ops, model):
        ctx.proof_failures.append("model driver c01drv failed to run")
    mism = ctx.diff_streams(ops, impl, model, "c01")
    ops_l, impl_l, model_l = read_lines(ops), read_lines(impl), read_lines(model)
    cur_prog = None
    prog_of = {}
    for i, op in enumerate(ops_l):
        if op.startswith("prog "):
            cur_prog = op
        prog_of[i + 1] = cur_prog
    for ln, op, im, mo in mism[:10]:
        ctx.report(f"routing decision differs from the first-match specification at line {ln}: real `{im}` spec `{mo}`",
                   {"stream": "c01", "line": ln, "program": prog_of.get(ln), "op": op, "impl": im, "model": mo,
                    "replay": "VERIF_SEED=%d ./check C01 %s" % (ctx.seed, ctx.tier)})
    for i, mo in enumerate(model_l):
        if ("SPEC-DIFFERS" in mo or "REAL-MATCHER-DIFFERS" in mo or "BYTES-DIFFER" in mo or "EMPTY-NAME-DIFFERS" in mo
                or "LPM-DIFFERS" in mo or "OUTBOUND-DIFFERS" in mo or "bad-name" in mo or mo == "bad-op"):
            ctx.report("model driver: scan and specification differ / bad op (harness-model protocol bug)", {"line": i + 1, "op": ops_l[i], "model": mo})
            break
    # the extension streams: outbounds as written (patchMustOutbound + ParseOutbound), the group table
    rc2, out2 = ctx.run_harness(binp, "TestVerifC01Ext")
    ext_lines = {}
    for name, what in (("c01ob", "outbound as written: real patchMustOutbound+ParseOutbound `{im}` model `{mo}`"),
                       ("c01ids", "group table of NewControlPlane: real `{im}` model `{mo}`")):
        o, i_, m_ = (os.path.join(ctx.out, name + "." + e) for e in ("ops", "impl", "model"))
        if rc2 != 0 or not os.path.exists(o):
            ctx.say("HARNESS-FAILED (extension streams)", out2[-3000:])
            return 2
        if not ctx.driver("c01drv", o, m_):
            ctx.proof_failures.append("model driver c01drv failed to run on " + name)
        mm = ctx.diff_streams(o, i_, m_, name)
        if name == "c01ob":
            # an ill-formed outbound (the model refuses it) that the code reads more leniently is outside the
            # property (well-formed programs only): counted, not reported.  The other direction — a well-formed
            # outbound refused or read differently — is reported.
            lenient = [x for x in mm if x[3].startswith("err") and x[2].startswith("name=")]
            ctx.cov["outbound_stream_ill_formed_but_accepted (not reported)"] = len(lenient)
            mm = [x for x in mm if x not in lenient]
        for ln, op, im, mo in mm[:5]:
            ctx.report(what.format(im=im, mo=mo) + f" at line {ln}",
                       {"stream": name, "line": ln, "op": op, "impl": im, "model": mo,
                        "replay": "VERIF_SEED=%d ./check C01 %s" % (ctx.seed, ctx.tier)})
        ml = read_lines(m_)
        for j, mo in enumerate(ml):
            if "SPEC-DIFFERS" in mo or mo == "bad-op":
                ctx.report("model driver: outbound model and its specification differ / bad op", {"stream": name, "line": j + 1, "model": mo})
                break
        ext_lines[name] = read_lines(o)
    ext_stats = json.load(open(os.path.join(ctx.out, "c01ext.stats.json")))
    # generator quality: which rule decided (diagnostic second pass of the model driver)
    if diag_proc:
        diag_proc.wait()
    diag = open(diag_path, encoding="utf-8", errors="replace").read().split("\n") if diag_proc else []
    hits = collections.Counter()
    for l in diag:
        m = re.search(r"hit=(\w+)/(\d+)", l)
        if m:
            if m.group(1) == "fb":
                hits["fallback" if m.group(2) != "0" else "fallback(empty program)"] += 1
            else:
                i = int(m.group(1))
                hits["rule#0" if i == 0 else "rule#1-3" if i <= 3 else "rule#4-9" if i <= 9 else "rule#10+"] += 1
    ctx.cov["decided_by"] = dict(hits)
    pk = [(o, m) for o, m, pr in zip(ops_l, impl_l, [prog_of.get(i + 1) for i in range(len(ops_l))])
          if (o.startswith("pkt ") or o.startswith("rpkt ")) and pr and not pr.split()[4:5] == ["0"]]
    ctx.cov["packets_on_empty_programs (not counted as evaluations)"] = sum(
        1 for i, o in enumerate(ops_l) if (o.startswith("pkt ") or o.startswith("rpkt ")) and (prog_of.get(i + 1) or "").split()[4:5] == ["0"])
    hist = collections.Counter(m for _, m in pk)
    stats = json.load(open(os.path.join(ctx.out, "c01.stats.json")))
    ctx.samples = stats["samples"][:2] + [x for x in ops_l if x.startswith("pkt ") or x.startswith("rpkt ")][:3]
    ctx.cov["input_distribution"] = stats["counters"]
    ctx.cov["input_distribution_extension_streams"] = ext_stats["counters"]
    ctx.samples += ext_stats["samples"][:2] + ext_lines["c01ob"][:2] + [x[:300] for x in ext_lines["c01ids"][2:3]]
    ctx.cov["distinct_decisions"] = len(hist)
    ctx.cov["programs"] = sum(1 for o in ops_l if o.startswith("prog "))
    # generator floors: a silent loss of a whole input class is a broken check, not a green one
    c = dict(stats["counters"])
    c.update(ext_stats["counters"])
    floors = []
    for key, least, what in [
        ("prog.accepted_with_exactly_limit_match_sets", 1, "no program of exactly MaxMatchSetLen match sets was accepted"),
        ("prog.refused_with_limit_plus_one_match_sets", 1, "no program of MaxMatchSetLen+1 match sets was refused"),
        ("prog.max_lpm_sets_in_one_program", 300, "no accepted program with more than 300 LPM sets"),
        ("cond.long_value_list", 20, "fewer than 20 conditions with 5..40 values"),
        ("cond.ip_set_near_twin", 10, "fewer than 10 address sets that differ from an earlier one in one value"),
        ("cond.ip_set_near_twin.long", 15, "fewer than 15 address sets of more than 5 values that differ from an earlier one in one value"),
        ("pkt.no_domain_vs_regex_matching_empty_string", 5, "fewer than 5 packets without a domain met a regex that matches the empty string"),
        ("pkt.mac_one_bit_off", 20, "fewer than 20 packets whose MAC is one bit off a rule's MAC"),
        ("pkt.zero_mac_vs_mac_rule", 10, "fewer than 10 frames without a MAC aimed at a mac() rule"),
        ("pkt.via_Route_raw_args", 1000, "fewer than 1000 packets through Route"),
        ("table.built_by_production_statements", 1, "the group table was not built by NewControlPlane's own statements"),
        ("prog.lpm_slots_compared", 50, "fewer than 50 programs had their LPM slots compared with the model's slot table"),
        ("pkt.concurrent_replay", 1000, "fewer than 1000 packets evaluated by concurrent goroutines on one matcher"),
        ("pkt.on_previous_generation", 200, "fewer than 200 packets sent to the previous generation's matcher after the next was built"),
        ("prog.refused_for_value_or_outbound", 3, "fewer than 3 programs with an unparsable value / outbound were refused"),
        ("val.port_other_spelling", 20, "fewer than 20 ports written with leading zeros / a plus sign"),
        ("num.octal_leading_zero", 10, "fewer than 10 numbers written with a leading zero (octal)"),
        ("num.underscore", 5, "fewer than 5 numbers written with a digit separator"),
        ("out.mark_overridden", 10, "fewer than 10 outbounds with two mark parameters"),
        ("out.must_prefix_and_word", 3, "fewer than 3 outbounds with both the must_ prefix and the word must"),
        ("ob.must_prefix", 300, "fewer than 300 must_-prefixed outbounds in the outbound stream"),
        ("ob.answer.ok", 500, "fewer than 500 accepted outbounds in the outbound stream"),
        ("ob.answer.err", 100, "fewer than 100 refused outbounds in the outbound stream"),
        ("ob.mark_at_32bit_edge", 30, "fewer than 30 marks at the edge of the 32-bit range"),
        ("ids.largest_table_accepted", 1, "the largest legal group table (OutboundUserDefinedMax names) was not accepted"),
        ("ids.one_too_many_refused", 1, "a group table of OutboundUserDefinedMax+1 names was not refused"),
        ("ids.duplicate_name", 5, "fewer than 5 group tables with a repeated name"),
    ]:
        if c.get(key, 0) < least:
            floors.append(f"{what} ({key}={c.get(key, 0)})")
    ctx.cov["generator_floors_failed"] = floors
    if floors and not ctx.violations and not ctx.proof_failures:
        ctx.say("GENERATOR-FLOOR-FAILED " + "; ".join(floors[:5]))
        return 2
    return ctx.finish(
        rule="one evaluation = (generated routing section, packet aimed at one of its rules with boundary values) through the real "
             "parser+config.New+builder+Route/Match vs the proved specification; distinct_nontrivial = distinct (program, packet) "
             "lines of non-empty programs (packets on empty programs are run and compared but not counted)",
        evaluations=len(pk) + len(ext_lines["c01ob"]) + len(ext_lines["c01ids"]),
        distinct=len(set(o for o, _ in pk)) + len(set(ext_lines["c01ob"])) + len(set(ext_lines["c01ids"])))
