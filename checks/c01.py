"""C01 — traffic is routed by the first matching rule, exactly as the rules are written."""
import json, os, collections
from verifkit import read_lines

REQUIRED = [
    "DaeVerif.C01.Props.match_is_first_match",
    "DaeVerif.C01.Props.match_by_position_is_first_match",
    "DaeVerif.C01.Props.condition_meaning",
    "DaeVerif.C01.Props.port_range_inclusive",
    "DaeVerif.C01.Props.negated_mac_never_matches_zero_mac",
    "DaeVerif.C01.Props.negated_mac_nonzero",
    "DaeVerif.C01.Props.pname_unknown_never_matches",
    "DaeVerif.C01.Props.unknown_literals_never_match",
    "DaeVerif.C01.Props.dip_ipv4_mapped",
    "DaeVerif.C01.Props.must_rules_continues",
    "DaeVerif.C01.Props.non_matching_rule_skipped",
    "DaeVerif.C01.Props.first_final_decides",
    "DaeVerif.C01.Props.match_bytes_is_first_match",
    "DaeVerif.C01.Props.outbound_in_reserved_range_misroutes",
    "DaeVerif.C01.Props.route_ipversion_condition",
    "DaeVerif.C01.Props.route_packet_wf",
    "DaeVerif.C01.Props.route_is_first_match",
    "DaeVerif.C01.Props.compiled_negated_mac_never_matches_zero_mac",
    "DaeVerif.C01.Props.compiled_pname_unknown_never_matches",
    "DaeVerif.C01.Props.compiled_port_range_inclusive",
    "DaeVerif.C01.Props.compiled_first_final_decides",
    "DaeVerif.Compose.match_with_real_domain_matcher",
    "DaeVerif.Compose.empty_name_satisfies_no_domain_condition",
]


def run(ctx):
    ctx.trusted += [
        "Common/RuleScan.scan_lower (proved in the same build) — the generic OR/AND/NOT scan = first match",
        "C12 theorems (trie query = CIDR containment) are used for ip/mac conditions; pkg/trie internals are C11's subject",
        "composition (Compose.match_with_real_domain_matcher): with C11's proved model of the real domain matcher built from the builder's AddSet calls the oracle disappears for full/suffix/keyword patterns (regex stays an oracle); the driver executes that composed path (packed tries of the C11 model) on every packet that carries a name and flags any difference; "
        "domain key-group truth is an oracle per packet (computed by the harness with a reference matcher for full/suffix/keyword/regex on lower-case names; the bit's meaning is property C11); the real Match uses the real AhocorasickSlimtrie",
        "the generator's typed program is the meaning of the text it renders (rendering code in harness/overlay/control/c01_test.go)",
    ]
    ctx.prove(["DaeVerif.C01.Props", "DaeVerif.Compose.Routing"], ["DaeVerif.C01.Props", "DaeVerif.Compose"],
              ["DaeVerif/C01/*.lean", "DaeVerif/Compose/*.lean", "DaeVerif/Common/RuleScan.lean"],
              extra_targets=["c01drv"])
    ctx.required_theorems(REQUIRED)

    fake = ctx.fake_bpf_overlay()
    if not fake:
        return 2
    # the optimizer chain of NewControlPlane, regenerated from control_plane.go on every run
    files = ["control/c01_test.go", "control/c12_test.go"]
    chain_ov, chain_mode = ctx.optchain_overlay()
    binp = ctx.go_test_build("control", files, "c01", tags="", extra_overlay={**fake, **chain_ov})
    if not binp and not chain_mode.startswith("FALLBACK"):
        # the call site no longer has the shape `routing.NewNormalizedProgram(rules, fallback, <literals>…)`:
        # fall back to the chain as it was when this check was written, and say so
        chain_ov, chain_mode = ctx.optchain_overlay(fallback=True)
        binp = ctx.go_test_build("control", files, "c01", tags="", extra_overlay={**fake, **chain_ov})
    if not binp:
        return 2
    ctx.cov["production_optimizer_chain"] = chain_mode
    ctx.trusted.append("optimizer chain used by the harness: " + chain_mode + " (translators/optchain)")
    rc, out = ctx.run_harness(binp, "TestVerifC01")
    ops, impl, model = (os.path.join(ctx.out, "c01." + e) for e in ("ops", "impl", "model"))
    if rc != 0 or not os.path.exists(ops):
        ctx.say("HARNESS-FAILED", out[-3000:])
        return 2
    if not ctx.driver("c01drv", ops, model):
        ctx.proof_failures.append("model driver c01drv failed to run")
    mism = ctx.diff_streams(ops, impl, model, "c01")
    ops_l, impl_l, model_l = read_lines(ops), read_lines(impl), read_lines(model)
    cur_prog = None
    prog_of = {}
    for i, op in enumerate(ops_l):
        if op.startswith("prog "):
            cur_prog = op
        prog_of[i + 1] = cur_prog
    for ln, op, im, mo in mism[:10]:
        ctx.report(f"routing decision differs from the first-match specification at line {ln}: real `{im}` spec `{mo}`",
                   {"stream": "c01", "line": ln, "program": prog_of.get(ln), "op": op, "impl": im, "model": mo,
                    "replay": "VERIF_SEED=%d ./check C01 %s" % (ctx.seed, ctx.tier)})
    for i, mo in enumerate(model_l):
        if "SPEC-DIFFERS" in mo or "REAL-MATCHER-DIFFERS" in mo or "BYTES-DIFFER" in mo or "EMPTY-NAME-DIFFERS" in mo or "bad-name" in mo or mo == "bad-op":
            ctx.report("model driver: scan and specification differ / bad op (harness-model protocol bug)", {"line": i + 1, "op": ops_l[i], "model": mo})
            break
    # generator quality: which rule decided (diagnostic second pass of the model driver)
    import subprocess, re
    binp_drv = os.path.join(os.path.dirname(os.path.dirname(os.path.abspath(__file__))), "lean", ".lake", "build", "bin", "c01drv")
    diag = subprocess.run([binp_drv, "--diag"], stdin=open(ops), stdout=subprocess.PIPE).stdout.decode().split("\n")
    hits = collections.Counter()
    for l in diag:
        m = re.search(r"hit=(\w+)/(\d+)", l)
        if m:
            if m.group(1) == "fb":
                hits["fallback" if m.group(2) != "0" else "fallback(empty program)"] += 1
            else:
                i = int(m.group(1))
                hits["rule#0" if i == 0 else "rule#1-3" if i <= 3 else "rule#4-9" if i <= 9 else "rule#10+"] += 1
    ctx.cov["decided_by"] = dict(hits)
    pk = [(o, m) for o, m, pr in zip(ops_l, impl_l, [prog_of.get(i + 1) for i in range(len(ops_l))])
          if (o.startswith("pkt ") or o.startswith("rpkt ")) and pr and not pr.split()[4:5] == ["0"]]
    ctx.cov["packets_on_empty_programs (not counted as evaluations)"] = sum(
        1 for i, o in enumerate(ops_l) if (o.startswith("pkt ") or o.startswith("rpkt ")) and (prog_of.get(i + 1) or "").split()[4:5] == ["0"])
    hist = collections.Counter(m for _, m in pk)
    stats = json.load(open(os.path.join(ctx.out, "c01.stats.json")))
    ctx.samples = stats["samples"][:2] + [x for x in ops_l if x.startswith("pkt ") or x.startswith("rpkt ")][:3]
    ctx.cov["input_distribution"] = stats["counters"]
    ctx.cov["distinct_decisions"] = len(hist)
    ctx.cov["programs"] = sum(1 for o in ops_l if o.startswith("prog "))
    # generator floors: a silent loss of a whole input class is a broken check, not a green one
    c = stats["counters"]
    floors = []
    for key, least, what in [
        ("prog.accepted_with_exactly_limit_match_sets", 1, "no program of exactly MaxMatchSetLen match sets was accepted"),
        ("prog.refused_with_limit_plus_one_match_sets", 1, "no program of MaxMatchSetLen+1 match sets was refused"),
        ("prog.max_lpm_sets_in_one_program", 300, "no accepted program with more than 300 LPM sets"),
        ("cond.long_value_list", 20, "fewer than 20 conditions with 5..40 values"),
        ("cond.ip_set_near_twin", 10, "fewer than 10 address sets that differ from an earlier one in one value"),
        ("cond.ip_set_near_twin.long", 15, "fewer than 15 address sets of more than 5 values that differ from an earlier one in one value"),
        ("pkt.no_domain_vs_regex_matching_empty_string", 5, "fewer than 5 packets without a domain met a regex that matches the empty string"),
        ("pkt.mac_one_bit_off", 20, "fewer than 20 packets whose MAC is one bit off a rule's MAC"),
        ("pkt.zero_mac_vs_mac_rule", 10, "fewer than 10 frames without a MAC aimed at a mac() rule"),
        ("pkt.via_Route_raw_args", 1000, "fewer than 1000 packets through Route"),
    ]:
        if c.get(key, 0) < least:
            floors.append(f"{what} ({key}={c.get(key, 0)})")
    ctx.cov["generator_floors_failed"] = floors
    if floors and not ctx.violations and not ctx.proof_failures:
        ctx.say("GENERATOR-FLOOR-FAILED " + "; ".join(floors[:5]))
        return 2
    return ctx.finish(
        rule="one evaluation = (generated routing section, packet aimed at one of its rules with boundary values) through the real "
             "parser+config.New+builder+Route/Match vs the proved specification; distinct_nontrivial = distinct (program, packet) "
             "lines of non-empty programs (packets on empty programs are run and compared but not counted)",
        evaluations=len(pk), distinct=len(set(o for o, _ in pk)))
